(* C20 -- executable instance of the model used by the correspondence check (harness/props/c20.py):
   floats are their IEEE-754 binary64 bit patterns (signed 64-bit integers), scenarios are lists of
   exporter calls, observations are the raw HDF5 content and the frames VMAPImport returned. *)
From Coq Require Import ZArith List Bool Lia String.
From PL Require Import Vmap.Model.
Import ListNotations.
Open Scope Z_scope.
Notation length := List.length.

Definition ubits (z : Z) : Z := z mod 18446744073709551616.
Definition isnanZ (z : Z) : bool :=
  let u := ubits z in ((u / 4503599627370496) mod 2048 =? 2047) && negb (u mod 4503599627370496 =? 0).
Definition iszeroZ (z : Z) : bool := ubits z mod 9223372036854775808 =? 0.
(* numpy == on doubles *)
Definition feqZ (a b : Z) : bool := negb (isnanZ a) && negb (isnanZ b) && ((a =? b) || (iszeroZ a && iszeroZ b)).
(* same stored double (any NaN = any NaN: pandas does not preserve NaN payloads) *)
Definition veqb (a b : Z) : bool := (a =? b) || (isnanZ a && isnanZ b).

Fixpoint leqb {A B} (e : A -> B -> bool) (a : list A) (b : list B) : bool :=
  match a, b with [] , [] => true | x :: r, y :: t => e x y && leqb e r t | _, _ => false end.
Definition oeqb {A B} (e : A -> B -> bool) (a : option A) (b : option B) : bool :=
  match a, b with None, None => true | Some x, Some y => e x y | _, _ => false end.

(* ------------------------------------------------------------------ exporter scenarios *)
Inductive xop : Type :=
| XGeom (name : string) (rows : list (row Z)) (fp : option nat)
| XVar (state gname vname : string) (loc : Z) (dim : nat) (rows : list (row Z)) (colsok : bool) (fp : option nat)
| XSet (gname : string) (stype : Z) (ids : list Z) (rows : list (row Z)) (sname : string) (fp : option nat).

Definition xstep (c : cfg) (s : Z * file Z) (o : xop) : (Z * file Z) * res unit :=
  match o with
  | XGeom name rows fp =>
    let '(d, f, r) := add_geometry Z isnanZ feqZ c (fst s) (snd s) name rows fp in ((d, f), r)
  | XVar st g v loc dim rows colsok fp =>
    let '(f, r) := add_variable Z isnanZ c (snd s) st g v loc dim rows colsok fp in ((fst s, f), r)
  | XSet g t ids rows nm fp =>
    let '(f, r) := add_set Z (snd s) g t ids rows nm fp in ((fst s, f), r)
  end.
Fixpoint xrun (c : cfg) (s : Z * file Z) (ops : list xop) : (Z * file Z) * list (res unit) :=
  match ops with
  | [] => (s, [])
  | o :: t => let '(s1, r) := xstep c s o in let '(s2, rs) := xrun c s1 t in (s2, r :: rs)
  end.
Definition xstart : Z * file Z := (2, empty_file Z).

(* observed status of a call: 0 returned, 1 VMAPExportError, 2 any other exception *)
Definition status_code (r : res unit) : Z :=
  match r with OK _ => 0 | Err EExport => 1 | Err _ => 2 end.

(* ------------------------------------------------------------------ file equality (order of HDF5 links is alphabetical,
   the model keeps insertion order: compare as finite maps) *)
Definition lZeqb := leqb Z.eqb.
Definition lVeqb := leqb veqb.
Definition llVeqb := leqb lVeqb.
Definition elem_eqb (a b : Z * Z * list Z) : bool :=
  (fst (fst a) =? fst (fst b)) && (snd (fst a) =? snd (fst b)) && lZeqb (snd a) (snd b).
Definition gset_eqb (a b : gset) : bool :=
  String.eqb (s_name a) (s_name b) && (s_type a =? s_type b) && oeqb lZeqb (s_data a) (s_data b).
Definition geom_eqb (a b : geom Z) : bool :=
  oeqb lZeqb (g_ids Z a) (g_ids Z b) && oeqb llVeqb (g_coords Z a) (g_coords Z b)
  && oeqb (leqb elem_eqb) (g_elems Z a) (g_elems Z b) && leqb gset_eqb (g_sets Z a) (g_sets Z b).
Definition var_eqb (a b : var Z) : bool :=
  (v_loc Z a =? v_loc Z b) && Nat.eqb (v_dim Z a) (v_dim Z b)
  && oeqb lZeqb (v_ids Z a) (v_ids Z b) && oeqb llVeqb (v_vals Z a) (v_vals Z b).
Definition submap {K A} (keq : K -> K -> bool) (e : A -> A -> bool) (a b : list (K * A)) : bool :=
  forallb (fun ka => match find (fun kb => keq (fst ka) (fst kb)) b with Some kb => e (snd ka) (snd kb) | None => false end) a.
Definition mapeq {K A} (keq : K -> K -> bool) (e : A -> A -> bool) (a b : list (K * A)) : bool :=
  Nat.eqb (length a) (length b) && submap keq e a b && submap keq e b a.
Definition seteq {K} (keq : K -> K -> bool) (a b : list K) : bool :=
  Nat.eqb (length a) (length b) && forallb (fun x => existsb (keq x) b) a && forallb (fun x => existsb (keq x) a) b.
Definition sseqb (a b : string * string) : bool := String.eqb (fst a) (fst b) && String.eqb (snd a) (snd b).
Definition file_eqb (a b : file Z) : bool :=
  mapeq String.eqb geom_eqb (f_geoms Z a) (f_geoms Z b)
  && seteq String.eqb (f_states Z a) (f_states Z b)
  && seteq sseqb (f_sgroups Z a) (f_sgroups Z b)
  && mapeq vkeyeq var_eqb (f_vars Z a) (f_vars Z b).

(* ------------------------------------------------------------------ importer chains *)
(* an observed frame row: element id, node id, one list of cells per joined block *)
Definition orow : Type := (Z * Z * list (list Z))%type.
Definition cell_eqb (c : cell Z) (o : list Z) : bool :=
  match c with Some p => lVeqb p o | None => forallb isnanZ o end.
Definition irow_eqb (r : irow Z) (o : orow) : bool :=
  (ie Z r =? fst (fst o)) && (inn Z r =? snd (fst o)) && leqb cell_eqb (icells Z r) (snd o).

(* expectation of one chain: None = the implementation raised; Some frame = what the last to_frame() returned *)
Definition chain_ok (c : cfg) (f : file Z) (ops : list iop) (expected : option (list orow)) : bool :=
  match irun Z c f (istate0 Z) ops None, expected with
  | Err Unmodelled, _ => true
  | Err _, None => true
  | OK (_, Some m), Some fr => leqb irow_eqb m fr
  | _, _ => false
  end.
Definition names_ok (c : cfg) (f : file Z) (gname : string) (stype : Z) (expected : option (list string)) : bool :=
  match lookupS gname (f_geoms Z f) with
  | None => match expected with None => true | Some _ => false end
  | Some g =>
    match set_names Z c g stype, expected with
    | Err _, None => true
    | OK l, Some l' => (* dict keys: duplicates collapse *)
        forallb (fun x => existsb (String.eqb x) l') l && forallb (fun x => existsb (String.eqb x) l) l'
    | _, _ => false
    end
  end.

(* one scenario: exporter calls with their observed statuses and the observed final file;
   importer chains and set listings with what the implementation returned *)
Definition scenario_ok (c : cfg) (ops : list xop) (statuses : list Z) (dump : file Z)
           (chains : list (list iop * option (list orow)))
           (listings : list (string * Z * option (list string))) : bool :=
  let '(s, rs) := xrun c xstart ops in
  lZeqb (map status_code rs) statuses
  && file_eqb (snd s) dump
  && forallb (fun ch => chain_ok c (snd s) (fst ch) (snd ch)) chains
  && forallb (fun l => names_ok c (snd s) (fst (fst l)) (snd (fst l)) (snd l)) listings.

(* components, for diagnostics of a failing scenario: 1 statuses, 2 file, 4 chains, 8 listings *)
Definition scenario_diag (c : cfg) (ops : list xop) (statuses : list Z) (dump : file Z)
           (chains : list (list iop * option (list orow)))
           (listings : list (string * Z * option (list string))) : Z :=
  let '(s, rs) := xrun c xstart ops in
  (if lZeqb (map status_code rs) statuses then 0 else 1)
  + (if file_eqb (snd s) dump then 0 else 2)
  + (if forallb (fun ch => chain_ok c (snd s) (fst ch) (snd ch)) chains then 0 else 4)
  + (if forallb (fun l => names_ok c (snd s) (fst (fst l)) (snd (fst l)) (snd l)) listings then 0 else 8).
