(* C20 -- hand-written model of pylife.vmap export / import (vmap_export.py, vmap_import.py).

   A mesh frame is a list of rows (element_id, node_id, payload); the payload is the list of the float
   cells of the selected columns (coordinates for add_geometry, the variable's columns for add_variable).
   Floats are an opaque type V: export / import only copy them; the two places where the code looks at a
   float are parameters of the model: [isnull] (pandas GroupBy.first skips NaN) and [feq] (numpy ==, used
   by the "is z constant" test that selects 2D / 3D element types).

   The HDF5 file is a finite map from paths to nodes (association lists, insertion at the end);
   the add_* calls are step functions with an oracle failure point [fp] (index of the h5py mutating call
   -- create_group / create_dataset -- of THIS add_* call that raises) and the code's except branches.

   [cfg] selects, for the five defects the check found on the unchanged tree, between the behaviour of the
   code as it is ([cfg_asis]) and the behaviour after the proposed repairs ([cfg_fixed]); the harness
   determines per run which variant the tree implements (fixed witnesses on the implementation) and
   reports every defect that is present as a violation of the property. *)
From Coq Require Import ZArith List Bool Lia String.
Import ListNotations.
Open Scope Z_scope.
Notation length := List.length.

(* ------------------------------------------------------------------ int32 storage *)
Definition i32min : Z := -2147483648.
Definition i32max : Z := 2147483647.
Definition in32 (z : Z) : bool := (i32min <=? z) && (z <=? i32max).
(* HDF5 type conversion int64 -> int32 (numpy array handed to h5py): clamps *)
Definition sat32 (z : Z) : Z := Z.max i32min (Z.min z i32max).
(* numpy astype(int32) (h5py converts a DataFrame itself with numpy.asarray(..., dtype)): wraps *)
Definition wrap32 (z : Z) : Z := (z - i32min) mod 4294967296 + i32min.

(* ------------------------------------------------------------------ list helpers *)
Fixpoint insert_uniq (x : Z) (l : list Z) : list Z :=
  match l with
  | [] => [x]
  | y :: t => if x <? y then x :: l else if x =? y then l else y :: insert_uniq x t
  end.
(* distinct values ascending: the key order of DataFrame.groupby *)
Definition sort_uniq (l : list Z) : list Z := fold_right insert_uniq [] l.
(* distinct values in order of first appearance: Index.drop_duplicates *)
Fixpoint dedup (l : list Z) : list Z :=
  match l with [] => [] | x :: t => x :: filter (fun y => negb (y =? x)) (dedup t) end.
Fixpoint memZ (x : Z) (l : list Z) : bool :=
  match l with [] => false | y :: t => (x =? y) || memZ x t end.
Fixpoint nodupZ (l : list Z) : bool :=
  match l with [] => true | x :: t => negb (memZ x t) && nodupZ t end.
Definition peq (a b : Z * Z) : bool := (fst a =? fst b) && (snd a =? snd b).
Fixpoint memP (x : Z * Z) (l : list (Z * Z)) : bool :=
  match l with [] => false | y :: t => peq x y || memP x t end.
Fixpoint nodupP (l : list (Z * Z)) : bool :=
  match l with [] => true | x :: t => negb (memP x t) && nodupP t end.
Fixpoint lookupZ {A} (k : Z) (l : list (Z * A)) : option A :=
  match l with [] => None | (k', a) :: t => if k =? k' then Some a else lookupZ k t end.
Fixpoint lookupP {A} (k : Z * Z) (l : list (Z * Z * A)) : option A :=
  match l with [] => None | (k', a) :: t => if peq k k' then Some a else lookupP k t end.
Fixpoint lookupS {A} (k : string) (l : list (string * A)) : option A :=
  match l with [] => None | (k', a) :: t => if String.eqb k k' then Some a else lookupS k t end.
Definition memS {A} (k : string) (l : list (string * A)) : bool :=
  match lookupS k l with Some _ => true | None => false end.
Definition delS {A} (k : string) (l : list (string * A)) : list (string * A) :=
  filter (fun kv => negb (String.eqb (fst kv) k)) l.
(* replace the value of an existing key (position kept) *)
Fixpoint updS {A} (k : string) (a : A) (l : list (string * A)) : list (string * A) :=
  match l with [] => [] | (k', b) :: t => if String.eqb k k' then (k', a) :: t else (k', b) :: updS k a t end.

(* ------------------------------------------------------------------ results *)
Inductive err : Set :=
| EKey        (* KeyError / TypeError / APIUseError raised by an explicit check before anything is written *)
| EExport     (* VMAPExportError: the except branch rolled the group back *)
| ERaw        (* the injected exception itself / the KeyError raised by `del` inside the except branch *)
| EValue      (* ValueError (shape mismatch) on import *)
| ENotImpl    (* pandas: join on a non-unique index level *)
| EAttr       (* AttributeError: 'str' object has no attribute 'decode' *)
| Unmodelled. (* many-to-many joins of duplicated (element, node) pairs: outside the model *)
Inductive res (A : Type) : Type := OK (a : A) | Err (e : err).
Arguments OK {A} a.
Arguments Err {A} e.

Record cfg : Set := mkcfg {
  ragged_ok : bool;    (* connectivity column built as an object array: mixed element types exportable *)
  regroup : bool;      (* element-nodal values written grouped by element (first-appearance order) *)
  dim_reset : bool;    (* the 2D/3D switch of the exporter is re-evaluated per geometry *)
  coords2d_ok : bool;  (* importer accepts a two-column MYCOORDINATES dataset *)
  sets_ok : bool       (* importer accepts MYSETNAME read back as str *)
}.
Definition cfg_asis : cfg := mkcfg false false false false false.
Definition cfg_fixed : cfg := mkcfg true true true true true.

Section Model.
Variable V : Type.
Variable isnull : V -> bool.
Variable feq : V -> V -> bool.

Record row : Type := mkrow { re : Z; rn : Z; rp : list V }.
Definition rkey (r : row) : Z * Z := (re r, rn r).
Definition rows_of_elem (e : Z) (rows : list row) := filter (fun r => re r =? e) rows.
Definition rows_of_node (n : Z) (rows : list row) := filter (fun r => rn r =? n) rows.

(* GroupBy.first: per column the first non-null cell of the group *)
Fixpoint merge_first (p q : list V) : list V :=
  match p, q with
  | x :: p', y :: q' => (if isnull x then y else x) :: merge_first p' q'
  | _, _ => p
  end.
Definition colfirst (ps : list (list V)) : list V :=
  match ps with [] => [] | p :: t => fold_left merge_first t p end.

(* mesh.groupby('node_id').first(): (node id, first cells), node ids ascending *)
Definition node_table (rows : list row) : list (Z * list V) :=
  map (fun n => (n, colfirst (map rp (rows_of_node n rows)))) (sort_uniq (map rn rows)).
(* mesh.groupby('element_id'): (element id, node ids in row order), element ids ascending *)
Definition elem_table (rows : list row) : list (Z * list Z) :=
  map (fun e => (e, map rn (rows_of_elem e rows))) (sort_uniq (map re rows)).

(* VMAPExport._element_types *)
Definition etype_of (dim : Z) (n : nat) : option Z :=
  match dim, n with
  | 2, 3%nat => Some 0 | 2, 6%nat => Some 1 | 2, 4%nat => Some 2 | 2, 8%nat => Some 3
  | 3, 4%nat => Some 4 | 3, 10%nat => Some 5 | 3, 6%nat => Some 6 | 3, 15%nat => Some 7
  | 3, 8%nat => Some 8 | 3, 20%nat => Some 9
  | _, _ => None
  end.

(* ------------------------------------------------------------------ the file *)
Record gset : Type := mkgset { s_name : string; s_type : Z; s_data : option (list Z) }.
Record geom : Type := mkgeom {
  g_ids : option (list Z);                 (* POINTS/MYIDENTIFIERS *)
  g_coords : option (list (list V));       (* POINTS/MYCOORDINATES *)
  g_elems : option (list (Z * Z * list Z)); (* ELEMENTS/MYELEMENTS: identifier, element type, connectivity *)
  g_sets : list gset                       (* GEOMETRYSETS/000000, 000001, ... (MYSIZE = length) *)
}.
Record var : Type := mkvar {
  v_loc : Z; v_dim : nat;
  v_ids : option (list Z);                 (* MYGEOMETRYIDS *)
  v_vals : option (list (list V))          (* MYVALUES *)
}.
Definition vkey : Type := (string * string * string)%type.   (* state, geometry, variable *)
Definition vkeyeq (a b : vkey) : bool :=
  let '(a1, a2, a3) := a in let '(b1, b2, b3) := b in String.eqb a1 b1 && String.eqb a2 b2 && String.eqb a3 b3.
Record file : Type := mkfile {
  f_geoms : list (string * geom);          (* /VMAP/GEOMETRY/<name> *)
  f_states : list string;                  (* /VMAP/VARIABLES/<state> *)
  f_sgroups : list (string * string);      (* /VMAP/VARIABLES/<state>/<geometry> *)
  f_vars : list (vkey * var)               (* /VMAP/VARIABLES/<state>/<geometry>/<variable> *)
}.
Definition empty_file : file := mkfile [] [] [] [].

Fixpoint lookupV (k : vkey) (l : list (vkey * var)) : option var :=
  match l with [] => None | (k', a) :: t => if vkeyeq k k' then Some a else lookupV k t end.
Definition delV (k : vkey) (l : list (vkey * var)) := filter (fun kv => negb (vkeyeq (fst kv) k)) l.
Definition memStr (s : string) (l : list string) : bool := existsb (String.eqb s) l.
Definition memSS (a : string * string) (l : list (string * string)) : bool :=
  existsb (fun b => String.eqb (fst a) (fst b) && String.eqb (snd a) (snd b)) l.

(* fails i fp: the i-th mutating h5py call of the current add_* call raises *)
Definition fails (i : nat) (fp : option nat) : bool :=
  match fp with Some k => Nat.eqb i k | None => false end.

(* ------------------------------------------------------------------ add_geometry *)
Definition zvaries (tab : list (Z * list V)) : bool :=
  match tab with
  | [] => false     (* not reached: an empty frame has no z[0] *)
  | (_, p) :: _ =>
    match nth_error p 2 with
    | None => false
    | Some z0 => negb (forallb (fun q => match nth_error (snd q) 2 with Some z => feq z0 z | None => false end) tab)
    end
  end.
Definition hasz (tab : list (Z * list V)) : bool :=
  match tab with (_, p) :: _ => Nat.leb 3 (length p) | [] => false end.

Definition uniform (l : list nat) : bool :=
  match l with [] => true | n :: t => forallb (Nat.eqb n) t end.

(* _create_elements_dataset up to the dataset content *)
Definition elements (c : cfg) (dim : Z) (rows : list row) : res (list (Z * Z * list Z)) :=
  let tab := elem_table rows in
  if negb (forallb (fun g => match etype_of dim (length (snd g)) with Some _ => true | None => false end) tab)
  then Err EExport                                         (* KeyError (dimension, size) *)
  else if negb (ragged_ok c) && negb (uniform (map (fun g => length (snd g)) tab))
  then Err EExport                                         (* np.asarray of a ragged list: ValueError *)
  else if negb (forallb (fun g => in32 (fst g)) tab)
  then Err EExport                                         (* OverflowError: Python int -> '<i4' *)
  else OK (map (fun g => (fst g, match etype_of dim (length (snd g)) with Some t => t | None => 0 end,
                          map sat32 (snd g))) tab).

Definition empty_geom : geom := mkgeom None None None [].

(* body of the try block of add_geometry; calls: 0 create_group(name) 1 ELEMENTS 2 GEOMETRYSETS 3 POINTS
   4 create_dataset MYIDENTIFIERS 5 MYCOORDINATES 6 MYELEMENTS.
   Returns the exporter's dimension, whether the geometry group exists, its content, the status. *)
Definition add_geometry_body (c : cfg) (dim : Z) (rows : list row) (fp : option nat)
  : Z * option geom * res unit :=
  if fails 0 fp then (dim, None, Err ERaw)
  else if fails 1 fp || fails 2 fp || fails 3 fp then (dim, Some empty_geom, Err ERaw)
  else
    let tab := node_table rows in
    if fails 4 fp then (dim, Some empty_geom, Err ERaw)
    else
      let g1 := mkgeom (Some (map (fun q => sat32 (fst q)) tab)) None None [] in
      let dim0 := if dim_reset c then 2 else dim in
      let dim' := if hasz tab && zvaries tab then 3 else dim0 in
      if fails 5 fp then (dim', Some g1, Err ERaw)
      else
        let g2 := mkgeom (g_ids g1) (Some (map snd tab)) None [] in
        match elements c dim' rows with
        | Err e => (dim', Some g2, Err e)
        | OK es =>
          if fails 6 fp then (dim', Some g2, Err ERaw)
          else (dim', Some (mkgeom (g_ids g2) (g_coords g2) (Some es) []), OK tt)
        end.

Definition set_geoms (f : file) (gs : list (string * geom)) : file :=
  mkfile gs (f_states f) (f_sgroups f) (f_vars f).

(* add_geometry: exists-check, try body, except: del geometry_group[name]; raise VMAPExportError *)
Definition add_geometry (c : cfg) (dim : Z) (f : file) (name : string) (rows : list row) (fp : option nat)
  : Z * file * res unit :=
  if memS name (f_geoms f) then (dim, f, Err EKey)
  else
    match add_geometry_body c dim rows fp with
    | (dim', Some g, OK _) => (dim', set_geoms f (f_geoms f ++ [(name, g)]), OK tt)
    | (dim', Some g, Err _) =>
        (* the partial group is in the file when the except branch runs; `del` removes it *)
        (dim', set_geoms f (delS name (f_geoms f ++ [(name, g)])), Err EExport)
    | (dim', None, _) =>
        (* the group was never created: `del` raises KeyError out of the except branch *)
        (dim', set_geoms f (delS name (f_geoms f)), Err ERaw)
    end.

(* ------------------------------------------------------------------ add_variable *)
Definition loc_node : Z := 2.
Definition loc_elnodal : Z := 6.

(* rows grouped by element in first-appearance order (the repaired element-nodal layout) *)
Definition regrouped (rows : list row) : list row :=
  flat_map (fun e => rows_of_elem e rows) (dedup (map re rows)).

Definition set_vars (f : file) (st : list string) (sg : list (string * string)) (vs : list (vkey * var)) : file :=
  mkfile (f_geoms f) st sg vs.

(* [colsok]: every requested column exists in the frame (else mesh[column_names] raises KeyError inside try) *)
Definition add_variable (c : cfg) (f : file) (state gname vname : string) (loc : Z) (dim : nat)
           (rows : list row) (colsok : bool) (fp : option nat) : file * res unit :=
  if negb (memS gname (f_geoms f)) then (f, Err EKey)
  else
    let need_st := negb (memStr state (f_states f)) in
    let need_sg := negb (memSS (state, gname) (f_sgroups f)) in
    let i_st := 0%nat in
    let i_sg := if need_st then 1%nat else 0%nat in
    let i_var := (i_sg + (if need_sg then 1 else 0))%nat in
    if need_st && fails i_st fp then (f, Err ERaw)
    else
      let st' := if need_st then f_states f ++ [state] else f_states f in
      if need_sg && fails i_sg fp then (set_vars f st' (f_sgroups f) (f_vars f), Err ERaw)
      else
        let sg' := if need_sg then f_sgroups f ++ [(state, gname)] else f_sgroups f in
        let f1 := set_vars f st' sg' (f_vars f) in
        let k := (state, gname, vname) in
        match lookupV k (f_vars f) with
        | Some _ => (f1, Err EKey)
        | None =>
          if fails i_var fp then (set_vars f st' sg' (delV k (f_vars f)), Err ERaw)
          else
            let v0 := mkvar loc dim None None in
            let rollback := (set_vars f st' sg' (delV k (f_vars f ++ [(k, v0)])), Err EExport) in
            if negb colsok then rollback
            else
              let '(ids, vals) :=
                if loc =? loc_node
                then let tab := node_table rows in (map (fun q => sat32 (fst q)) tab, map snd tab)
                else (map sat32 (dedup (map re rows)),
                      map rp (if regroup c then regrouped rows else rows)) in
              if fails (i_var + 1) fp then rollback
              else if fails (i_var + 2) fp then rollback
              else (set_vars f st' sg' (f_vars f ++ [(k, mkvar loc dim (Some ids) (Some vals))]), OK tt)
        end.

(* ------------------------------------------------------------------ add_node_set / add_element_set *)
Definition upd_geom_sets (g : geom) (ss : list gset) : geom := mkgeom (g_ids g) (g_coords g) (g_elems g) ss.

(* stype 0: node set, 1: element set; [ids] are checked against the frame's node / element ids *)
Definition add_set (f : file) (gname : string) (stype : Z) (ids : list Z) (rows : list row)
           (sname : string) (fp : option nat) : file * res unit :=
  let universe := if stype =? 0 then map rn rows else map re rows in
  if negb (forallb (fun i => memZ i universe) ids) then (f, Err EKey)
  else
    match lookupS gname (f_geoms f) with
    | None => (f, Err EKey)
    | Some g =>
      if fails 0 fp then (f, Err ERaw)          (* group not created: `del` raises KeyError *)
      else if fails 1 fp then (f, Err EExport)  (* group created, deleted again by the except branch *)
      else (set_geoms f (updS gname (upd_geom_sets g (g_sets g ++ [mkgset sname stype (Some (map wrap32 ids))])) (f_geoms f)),
            OK tt)
    end.

(* ------------------------------------------------------------------ import *)
Definition mesh_index (g : geom) : res (list (Z * Z)) :=
  match g_elems g with
  | None => Err EKey
  | Some es => OK (flat_map (fun el => map (fun n => (fst (fst el), n)) (snd el)) es)
  end.

(* VMAPImport.nodes *)
Definition nodes (c : cfg) (g : geom) : res (list (Z * list V)) :=
  match g_ids g, g_coords g with
  | Some ids, Some cs =>
    if negb (Nat.eqb (length ids) (length cs)) then Err EValue
    else if negb (coords2d_ok c) && negb (forallb (fun p => Nat.eqb (length p) 3) cs) then Err EValue
    else OK (combine ids cs)
  | _, _ => Err EKey
  end.

(* a joined cell: None = the row of NaNs pandas produces for a key without partner *)
Definition cell : Type := option (list V).
Record irow : Type := mkirow { ie : Z; inn : Z; icells : list cell }.

(* DataFrame.join of the mesh with a frame indexed by node_id *)
Definition join_by_node (m : list irow) (tab : list (Z * list V)) : res (list irow) :=
  if negb (nodupZ (map fst tab)) then Err ENotImpl
  else OK (map (fun r => mkirow (ie r) (inn r) (icells r ++ [lookupZ (inn r) tab])) m).

Definition join_by_pair (m : list irow) (tab : list (Z * Z * list V)) : res (list irow) :=
  if negb (nodupP (map fst tab)) || negb (nodupP (map (fun r => (ie r, inn r)) m)) then Err Unmodelled
  else OK (map (fun r => mkirow (ie r) (inn r) (icells r ++ [lookupP (ie r, inn r) tab])) m).

(* _var_element_nodal_index: MYGEOMETRYIDS merged with the mesh index on element_id *)
Definition elnodal_index (ids : list Z) (idx : list (Z * Z)) : list (Z * Z) :=
  flat_map (fun e => filter (fun k => fst k =? e) idx) ids.

Definition join_variable_frame (g : geom) (v : var) (ncols : nat) (m : list irow) : res (list irow) :=
  if negb (Nat.eqb ncols (v_dim v)) then Err EValue
  else
    match v_ids v, v_vals v with
    | Some ids, Some vals =>
      if v_loc v =? loc_node then
        if negb (Nat.eqb (length ids) (length vals)) then Err EValue
        else if negb (nodupP (map (fun r => (ie r, inn r)) m)) then Err Unmodelled
        else join_by_node m (combine ids vals)
      else if v_loc v =? loc_elnodal then
        match mesh_index g with
        | Err e => Err e
        | OK idx =>
          let vi := elnodal_index ids idx in
          if negb (Nat.eqb (length vi) (length vals)) then Err EValue
          else join_by_pair m (combine vi vals)
        end
      else Err EKey
    | _, _ => Err EKey
    end.

(* _geometry_sets(geometry, kind) as name -> data; later sets override earlier ones of the same name *)
Definition set_lookup (c : cfg) (g : geom) (stype : Z) (sname : string) : res (list Z) :=
  let ss := filter (fun s => s_type s =? stype) (g_sets g) in
  match ss with
  | [] => Err EKey
  | _ :: _ =>
    if negb (sets_ok c) then Err EAttr
    else
      match find (fun s => String.eqb (s_name s) sname) (rev ss) with
      | None => Err EKey
      | Some s => match s_data s with Some d => OK d | None => Err EKey end
      end
  end.
Definition set_names (c : cfg) (g : geom) (stype : Z) : res (list string) :=
  let ss := filter (fun s => s_type s =? stype) (g_sets g) in
  match ss with
  | [] => OK []
  | _ :: _ => if negb (sets_ok c) then Err EAttr else OK (map s_name ss)
  end.

(* the importer as a state machine: (mesh, geometry, state) *)
Inductive iop : Type :=
| MakeMesh (gname : string) (state : option string)
| FilterNodeSet (sname : string)
| FilterElementSet (sname : string)
| JoinCoordinates
| JoinVariable (vname : string) (state : option string) (ncols : nat)
| ToFrame.
Record istate : Type := mkistate { i_mesh : option (list irow); i_geom : string; i_state : option string }.
Definition istate0 : istate := mkistate None EmptyString None.

Definition bind {A B} (r : res A) (k : A -> res B) : res B := match r with OK a => k a | Err e => Err e end.

(* one importer call: new state, and the frame if the call was to_frame() *)
Definition istep (c : cfg) (f : file) (s : istate) (o : iop) : res (istate * option (list irow)) :=
  match o with
  | MakeMesh gname state =>
    match lookupS gname (f_geoms f) with
    | None => Err EKey
    | Some g => bind (mesh_index g) (fun idx =>
                OK (mkistate (Some (map (fun k => mkirow (fst k) (snd k) []) idx)) gname state, None))
    end
  | FilterNodeSet sname =>
    match i_mesh s, lookupS (i_geom s) (f_geoms f) with
    | Some m, Some g => bind (set_lookup c g 0 sname) (fun d =>
        OK (mkistate (Some (filter (fun r => memZ (inn r) d) m)) (i_geom s) (i_state s), None))
    | _, _ => Err EKey
    end
  | FilterElementSet sname =>
    match i_mesh s, lookupS (i_geom s) (f_geoms f) with
    | Some m, Some g => bind (set_lookup c g 1 sname) (fun d =>
        OK (mkistate (Some (filter (fun r => memZ (ie r) d) m)) (i_geom s) (i_state s), None))
    | _, _ => Err EKey
    end
  | JoinCoordinates =>
    match i_mesh s, lookupS (i_geom s) (f_geoms f) with
    | Some m, Some g => bind (nodes c g) (fun tab => bind (join_by_node m tab) (fun m' =>
        OK (mkistate (Some m') (i_geom s) (i_state s), None)))
    | _, _ => Err EKey
    end
  | JoinVariable vname state ncols =>
    match i_mesh s, lookupS (i_geom s) (f_geoms f) with
    | Some m, Some g =>
      match (match state with Some st => Some st | None => i_state s end) with
      | None => Err EKey
      | Some st =>
        if negb (memStr st (f_states f)) || negb (memSS (st, i_geom s) (f_sgroups f)) then Err EKey
        else match lookupV (st, i_geom s, vname) (f_vars f) with
             | None => Err EKey
             | Some v => bind (join_variable_frame g v ncols m) (fun m' =>
                         OK (mkistate (Some m') (i_geom s) (Some st), None))
             end
      end
    | _, _ => Err EKey
    end
  | ToFrame =>
    match i_mesh s with
    | None => Err EKey
    | Some m => OK (mkistate None (i_geom s) (i_state s), Some m)
    end
  end.

(* a chain of importer calls; the result is the frame returned by the last to_frame() *)
Fixpoint irun (c : cfg) (f : file) (s : istate) (ops : list iop) (last : option (list irow))
  : res (istate * option (list irow)) :=
  match ops with
  | [] => OK (s, last)
  | o :: t => bind (istep c f s o) (fun r => irun c f (fst r) t (match snd r with Some m => Some m | None => last end))
  end.

End Model.

Arguments mkrow {V}.
Arguments mkirow {V}.
