(* C20 -- list lemmas behind the VMAP theorems: sort_uniq / dedup, membership tests, look-ups, blocks. *)
From Coq Require Import ZArith List Bool Lia Sorted.
From PL Require Import Vmap.Model.
Import ListNotations.
Open Scope Z_scope.

(* ------------------------------------------------------------------ int32 *)
Lemma sat32_id z : in32 z = true -> sat32 z = z.
Proof. unfold in32, sat32, i32min, i32max. rewrite andb_true_iff, !Z.leb_le. lia. Qed.
Lemma wrap32_id z : in32 z = true -> wrap32 z = z.
Proof.
  unfold in32, wrap32, i32min, i32max. rewrite andb_true_iff, !Z.leb_le. intros [H1 H2].
  rewrite Z.mod_small; lia.
Qed.
Lemma map_sat32_id l : forallb in32 l = true -> map sat32 l = l.
Proof.
  induction l as [|x t IH]; cbn; [reflexivity|]. rewrite andb_true_iff. intros [H1 H2].
  rewrite sat32_id, IH; auto.
Qed.
Lemma map_wrap32_id l : forallb in32 l = true -> map wrap32 l = l.
Proof.
  induction l as [|x t IH]; cbn; [reflexivity|]. rewrite andb_true_iff. intros [H1 H2].
  rewrite wrap32_id, IH; auto.
Qed.

(* ------------------------------------------------------------------ membership *)
Lemma memZ_In x l : memZ x l = true <-> In x l.
Proof.
  induction l as [|y t IH]; cbn; [split; [discriminate|tauto]|].
  rewrite orb_true_iff, IH, Z.eqb_eq. split; intros [H|H]; auto.
Qed.
Lemma nodupZ_NoDup l : nodupZ l = true <-> NoDup l.
Proof.
  induction l as [|x t IH]; cbn; [split; [constructor|reflexivity]|].
  rewrite andb_true_iff, negb_true_iff, IH. split.
  - intros [H1 H2]. constructor; [|exact H2]. intro Hin. apply memZ_In in Hin. congruence.
  - intro H. inversion H; subst. split; [|assumption].
    destruct (memZ x t) eqn:E; [|reflexivity]. apply memZ_In in E. contradiction.
Qed.
Lemma peq_eq a b : peq a b = true <-> a = b.
Proof.
  destruct a as [a1 a2], b as [b1 b2]. unfold peq; cbn. rewrite andb_true_iff, !Z.eqb_eq.
  split; [intros [-> ->]; reflexivity|intro H; inversion H; auto].
Qed.
Lemma memP_In x l : memP x l = true <-> In x l.
Proof.
  induction l as [|y t IH]; cbn; [split; [discriminate|tauto]|].
  rewrite orb_true_iff, IH, peq_eq. split; intros [H|H]; auto.
Qed.
Lemma nodupP_NoDup l : nodupP l = true <-> NoDup l.
Proof.
  induction l as [|x t IH]; cbn; [split; [constructor|reflexivity]|].
  rewrite andb_true_iff, negb_true_iff, IH. split.
  - intros [H1 H2]. constructor; [|exact H2]. intro Hin. apply memP_In in Hin. congruence.
  - intro H. inversion H; subst. split; [|assumption].
    destruct (memP x t) eqn:E; [|reflexivity]. apply memP_In in E. contradiction.
Qed.

(* ------------------------------------------------------------------ sort_uniq *)
Lemma insert_uniq_In x y l : In y (insert_uniq x l) <-> y = x \/ In y l.
Proof.
  induction l as [|a t IH]; cbn; [intuition|].
  destruct (x <? a) eqn:E1; [cbn; intuition|].
  destruct (x =? a) eqn:E2.
  - apply Z.eqb_eq in E2. subst. cbn. intuition.
  - cbn. rewrite IH. intuition.
Qed.
Lemma sort_uniq_In y l : In y (sort_uniq l) <-> In y l.
Proof.
  induction l as [|a t IH]; cbn; [tauto|]. rewrite insert_uniq_In, IH. intuition.
Qed.
Lemma insert_uniq_sorted x l : StronglySorted Z.lt l -> StronglySorted Z.lt (insert_uniq x l).
Proof.
  induction 1 as [|a t Hs IH Hf]; cbn; [repeat constructor|].
  destruct (x <? a) eqn:E1.
  - apply Z.ltb_lt in E1. constructor; [constructor; assumption|].
    constructor; [exact E1|]. eapply Forall_impl; [|exact Hf]. cbn. intros; lia.
  - destruct (x =? a) eqn:E2; [constructor; assumption|].
    apply Z.ltb_ge in E1. apply Z.eqb_neq in E2.
    constructor; [exact IH|]. apply Forall_forall. intros y Hy. apply insert_uniq_In in Hy.
    destruct Hy as [->|Hy]; [lia|]. rewrite Forall_forall in Hf. auto.
Qed.
Lemma sort_uniq_sorted l : StronglySorted Z.lt (sort_uniq l).
Proof. induction l; cbn; [constructor|apply insert_uniq_sorted; assumption]. Qed.
Lemma sorted_NoDup l : StronglySorted Z.lt l -> NoDup l.
Proof.
  induction 1 as [|a t Hs IH Hf]; constructor; [|exact IH].
  intro Hin. rewrite Forall_forall in Hf. specialize (Hf _ Hin). lia.
Qed.
Lemma sort_uniq_NoDup l : NoDup (sort_uniq l).
Proof. apply sorted_NoDup, sort_uniq_sorted. Qed.

(* ------------------------------------------------------------------ dedup *)
Lemma dedup_In y l : In y (dedup l) <-> In y l.
Proof.
  induction l as [|a t IH]; cbn; [tauto|]. rewrite filter_In, IH, negb_true_iff, Z.eqb_neq.
  destruct (Z.eq_dec y a); intuition.
Qed.
Lemma dedup_NoDup l : NoDup (dedup l).
Proof.
  induction l as [|a t IH]; cbn; constructor.
  - rewrite filter_In, negb_true_iff, Z.eqb_neq. intros [_ H]. congruence.
  - apply NoDup_filter. exact IH.
Qed.

(* ------------------------------------------------------------------ look-ups *)
Lemma lookupZ_map {A} (F : Z -> A) k keys :
  In k keys -> lookupZ k (map (fun x => (x, F x)) keys) = Some (F k).
Proof.
  induction keys as [|a t IH]; cbn; [tauto|]. intros [->|H].
  - rewrite Z.eqb_refl. reflexivity.
  - destruct (k =? a) eqn:E; [apply Z.eqb_eq in E; subst; reflexivity|auto].
Qed.
Lemma NoDup_map_inj {A B} (f : A -> B) l x y :
  NoDup (map f l) -> In x l -> In y l -> f x = f y -> x = y.
Proof.
  induction l as [|a t IH]; cbn; [tauto|]. intros Hn Hx Hy E. inversion Hn; subst.
  destruct Hx as [->|Hx], Hy as [->|Hy]; auto.
  - exfalso. apply H1. rewrite E. apply in_map. exact Hy.
  - exfalso. apply H1. rewrite <- E. apply in_map. exact Hx.
Qed.
Lemma lookupP_map {A R} (key : R -> Z * Z) (val : R -> A) (r : R) (l : list R) :
  NoDup (map key l) -> In r l -> lookupP (key r) (map (fun x => (key x, val x)) l) = Some (val r).
Proof.
  induction l as [|a t IH]; cbn; [tauto|]. intros Hn [->|Hin].
  - replace (peq (key r) (key r)) with true by (symmetry; apply peq_eq; reflexivity). reflexivity.
  - inversion Hn; subst. destruct (peq (key r) (key a)) eqn:E.
    + apply peq_eq in E. exfalso. apply H1. rewrite <- E. apply in_map. exact Hin.
    + auto.
Qed.
Lemma combine_map {A B C} (f : A -> B) (g : A -> C) l :
  combine (map f l) (map g l) = map (fun x => (f x, g x)) l.
Proof. induction l; cbn; congruence. Qed.

(* ------------------------------------------------------------------ blocks of a key list *)
Definition blocks (ks : list (Z * Z)) (es : list Z) : list (Z * Z) :=
  flat_map (fun e => filter (fun k => fst k =? e) ks) es.
(* the expected order: elements ascending, each element's keys in their original order *)
Definition skeys (ks : list (Z * Z)) : list (Z * Z) := blocks ks (sort_uniq (map fst ks)).

Lemma blocks_cons ks e t : blocks ks (e :: t) = filter (fun k => fst k =? e) ks ++ blocks ks t.
Proof. reflexivity. Qed.
Lemma blocks_In k ks es : In k (blocks ks es) <-> In k ks /\ In (fst k) es.
Proof.
  unfold blocks. rewrite in_flat_map. split.
  - intros [e [He Hk]]. apply filter_In in Hk. destruct Hk as [Hk E]. apply Z.eqb_eq in E. subst. auto.
  - intros [Hk He]. exists (fst k). split; [exact He|]. apply filter_In. split; [exact Hk|apply Z.eqb_refl].
Qed.
Lemma NoDup_app_intro {A} (l l' : list A) :
  NoDup l -> NoDup l' -> (forall x, In x l -> ~ In x l') -> NoDup (l ++ l').
Proof.
  induction l as [|a t IH]; cbn; [auto|]. intros Hn Hn' Hd. inversion Hn; subst. constructor.
  - rewrite in_app_iff. intros [H|H]; [contradiction|]. apply (Hd a); auto.
  - apply IH; auto.
Qed.
Lemma blocks_NoDup ks es : NoDup es -> NoDup ks -> NoDup (blocks ks es).
Proof.
  intros He Hk. induction es as [|e t IH]; cbn; [constructor|]. inversion He; subst.
  apply NoDup_app_intro; [apply NoDup_filter; exact Hk|apply IH; assumption|].
  intros x Hx Hx'. apply filter_In in Hx. destruct Hx as [_ E]. apply Z.eqb_eq in E.
  apply blocks_In in Hx'. destruct Hx' as [_ Hin]. rewrite E in Hin. contradiction.
Qed.
Lemma filter_filter_key e e' (ks : list (Z * Z)) :
  filter (fun k => fst k =? e) (filter (fun k => fst k =? e') ks)
  = if e =? e' then filter (fun k => fst k =? e) ks else [].
Proof.
  induction ks as [|k t IH]; cbn; [destruct (e =? e'); reflexivity|].
  destruct (fst k =? e') eqn:E1; cbn.
  - apply Z.eqb_eq in E1. destruct (fst k =? e) eqn:E2.
    + apply Z.eqb_eq in E2. rewrite IH. replace (e =? e') with true by (symmetry; apply Z.eqb_eq; lia). reflexivity.
    + rewrite IH. destruct (e =? e'); reflexivity.
  - rewrite IH. destruct (e =? e') eqn:E3; [|reflexivity]. apply Z.eqb_eq in E3. subst.
    rewrite E1. reflexivity.
Qed.
Lemma filter_blocks_notin e ks es :
  ~ In e es -> filter (fun k => fst k =? e) (blocks ks es) = [].
Proof.
  induction es as [|b t IH]; [reflexivity|]. intro H. rewrite blocks_cons, filter_app, filter_filter_key.
  destruct (e =? b) eqn:E; [apply Z.eqb_eq in E; subst; exfalso; apply H; left; reflexivity|].
  cbn [app]. apply IH. intro H'. apply H. right. exact H'.
Qed.
Lemma filter_blocks e ks es :
  NoDup es -> In e es -> filter (fun k => fst k =? e) (blocks ks es) = filter (fun k => fst k =? e) ks.
Proof.
  induction es as [|a t IH]; [cbn; tauto|]. intros Hn Hin. inversion Hn; subst.
  rewrite blocks_cons, filter_app, filter_filter_key.
  destruct (e =? a) eqn:E.
  - apply Z.eqb_eq in E. subst a. rewrite filter_blocks_notin by assumption. apply app_nil_r.
  - cbn [app]. apply IH; [assumption|]. destruct Hin as [->|H]; [rewrite Z.eqb_refl in E; discriminate|exact H].
Qed.
(* re-blocking a blocked list by another block order: only the outer order matters *)
Lemma blocks_blocks ks es ds :
  NoDup es -> (forall d, In d ds -> In d es) -> blocks (blocks ks es) ds = blocks ks ds.
Proof.
  intros Hn Hsub. induction ds as [|d t IH]; [reflexivity|]. rewrite !blocks_cons.
  rewrite filter_blocks; [|exact Hn|apply Hsub; left; reflexivity].
  f_equal. apply IH. intros x Hx. apply Hsub. right. exact Hx.
Qed.
Lemma skeys_NoDup ks : NoDup ks -> NoDup (skeys ks).
Proof. intro H. apply blocks_NoDup; [apply sort_uniq_NoDup|exact H]. Qed.
Lemma skeys_In k ks : In k (skeys ks) <-> In k ks.
Proof.
  unfold skeys. rewrite blocks_In, sort_uniq_In. split; [tauto|].
  intro H. split; [exact H|apply in_map; exact H].
Qed.
(* an element's keys keep their order *)
Lemma skeys_element_order e ks : filter (fun k => fst k =? e) (skeys ks) = filter (fun k => fst k =? e) ks.
Proof.
  destruct (in_dec Z.eq_dec e (sort_uniq (map fst ks))) as [Hin|Hnin].
  - apply filter_blocks; [apply sort_uniq_NoDup|exact Hin].
  - unfold skeys. rewrite filter_blocks_notin by exact Hnin. symmetry.
    assert (Hn : ~ In e (map fst ks)) by (intro H; apply Hnin, sort_uniq_In; exact H).
    clear Hnin. induction ks as [|k t IH]; cbn; [reflexivity|].
    destruct (fst k =? e) eqn:E.
    + apply Z.eqb_eq in E. exfalso. apply Hn. left. exact E.
    + apply IH. intro H. apply Hn. right. exact H.
Qed.
(* element ids ascend along skeys *)
Lemma blocks_map_fst_sorted ks es :
  StronglySorted Z.lt es -> StronglySorted Z.le (map fst (blocks ks es)).
Proof.
  induction 1 as [|e t Hs IH Hf]; cbn; [constructor|].
  rewrite map_app.
  assert (Hall : Forall (fun x => x = e) (map fst (filter (fun k => fst k =? e) ks))).
  { apply Forall_forall. intros x Hx. apply in_map_iff in Hx. destruct Hx as [k [<- Hk]].
    apply filter_In in Hk. destruct Hk as [_ E]. apply Z.eqb_eq in E. exact E. }
  assert (Hgt : Forall (fun x => e < x) (map fst (blocks ks t))).
  { apply Forall_forall. intros x Hx. apply in_map_iff in Hx. destruct Hx as [k [<- Hk]].
    apply blocks_In in Hk. destruct Hk as [_ Hk]. rewrite Forall_forall in Hf. auto. }
  induction (map fst (filter (fun k => fst k =? e) ks)) as [|a l IHl]; cbn; [exact IH|].
  inversion Hall; subst. constructor; [apply IHl; assumption|].
  apply Forall_app. split.
  - eapply Forall_impl; [|exact H2]. cbn. intros; lia.
  - eapply Forall_impl; [|exact Hgt]. cbn. intros; lia.
Qed.
