(* C20 -- theorems about the VMAP model (PL.Vmap.Model). *)
From Coq Require Import ZArith List Bool Lia String.
From PL Require Import Vmap.Model.
Import ListNotations.
Open Scope Z_scope.
Notation length := List.length.

Section Thm.
Variable V : Type.
Variable isnull : V -> bool.
Variable feq : V -> V -> bool.

(* ------------------------------------------------------------------ importer: no state leaks through make_mesh *)
Lemma import_repeatable c f s s' gname st ops last :
  irun V c f s (MakeMesh gname st :: ops) last = irun V c f s' (MakeMesh gname st :: ops) last.
Proof.
  cbn. destruct (lookupS gname (f_geoms V f)); [|reflexivity].
  destruct (mesh_index V g); reflexivity.
Qed.

End Thm.
