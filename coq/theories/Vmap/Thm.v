(* C20 -- theorems about the VMAP model (PL.Vmap.Model). *)
From Coq Require Import ZArith List Bool Lia String Sorted.
From PL Require Import Vmap.Model Vmap.Lists.
Import ListNotations.
Open Scope Z_scope.
Notation length := List.length.

Section Thm.
Variable V : Type.
Variable isnull : V -> bool.
Variable feq : V -> V -> bool.

Notation row := (row V).
Notation rkey := (rkey V).
Notation re := (re V).
Notation rn := (rn V).
Notation rp := (rp V).

(* ------------------------------------------------------------------ hypotheses of the round trip *)
(* every id fits the int32 storage of the format *)
Definition ids32 (rows : list row) : Prop := forall r, In r rows -> in32 (re r) = true /\ in32 (rn r) = true.
(* node data is the same in every row of a node (coordinates, nodal variables) *)
Definition consistent (rows : list row) : Prop :=
  forall r r', In r rows -> In r' rows -> rn r = rn r' -> rp r = rp r'.
Definition nodup_pairs (rows : list row) : Prop := NoDup (map rkey rows).
(* the frame the property expects back: elements ascending by id, each element's rows in their original order *)
Definition sorted_rows (rows : list row) : list row :=
  flat_map (fun e => rows_of_elem V e rows) (sort_uniq (map re rows)).
(* rows of one element are contiguous (the layout add_variable silently assumes for element-nodal data) *)
Definition grouped (rows : list row) : Prop := regrouped V rows = rows.

(* ------------------------------------------------------------------ keys *)
Lemma map_rkey_filter e rows :
  map rkey (rows_of_elem V e rows) = filter (fun k => fst k =? e) (map rkey rows).
Proof.
  unfold rows_of_elem. induction rows as [|r t IH]; cbn; [reflexivity|].
  destruct (re r =? e); cbn; rewrite IH; reflexivity.
Qed.
Lemma map_rkey_blocks rows es :
  map rkey (flat_map (fun e => rows_of_elem V e rows) es) = blocks (map rkey rows) es.
Proof.
  induction es as [|e t IH]; [reflexivity|]. cbn [flat_map]. rewrite map_app, blocks_cons, map_rkey_filter, IH. reflexivity.
Qed.
Lemma map_fst_rkey rows : map fst (map rkey rows) = map re rows.
Proof. rewrite map_map. reflexivity. Qed.
Lemma sorted_rows_keys rows : map rkey (sorted_rows rows) = skeys (map rkey rows).
Proof. unfold sorted_rows, skeys. rewrite map_rkey_blocks, map_fst_rkey. reflexivity. Qed.
Lemma regrouped_keys rows : map rkey (regrouped V rows) = blocks (map rkey rows) (dedup (map re rows)).
Proof. apply map_rkey_blocks. Qed.
Lemma sorted_rows_In r rows : In r (sorted_rows rows) <-> In r rows.
Proof.
  unfold sorted_rows. rewrite in_flat_map. split.
  - intros [e [_ H]]. apply filter_In in H. tauto.
  - intro H. exists (re r). split; [apply sort_uniq_In, in_map; exact H|].
    apply filter_In. split; [exact H|apply Z.eqb_refl].
Qed.
Lemma regrouped_In r rows : In r (regrouped V rows) <-> In r rows.
Proof.
  unfold regrouped. rewrite in_flat_map. split.
  - intros [e [_ H]]. apply filter_In in H. tauto.
  - intro H. exists (re r). split; [apply dedup_In, in_map; exact H|].
    apply filter_In. split; [exact H|apply Z.eqb_refl].
Qed.

(* ------------------------------------------------------------------ element order by id, node order kept *)
Lemma elem_block e rows :
  ids32 rows ->
  map (fun n => (e, n)) (map sat32 (map rn (rows_of_elem V e rows))) = filter (fun k => fst k =? e) (map rkey rows).
Proof.
  unfold rows_of_elem. induction rows as [|r t IH]; intro H; [reflexivity|]. cbn.
  assert (Ht : ids32 t) by (intros x Hx; apply H; right; exact Hx).
  destruct (re r =? e) eqn:E; cbn; rewrite IH by exact Ht; [|reflexivity].
  apply Z.eqb_eq in E. destruct (H r (or_introl eq_refl)) as [_ Hn]. rewrite sat32_id by exact Hn.
  unfold Model.rkey. rewrite E. reflexivity.
Qed.

Lemma elements_mesh_index c dim rows es :
  ids32 rows -> elements V c dim rows = OK es ->
  mesh_index V (mkgeom V None None (Some es) []) = OK (skeys (map rkey rows))
  /\ map (fun el => fst (fst el)) es = sort_uniq (map re rows).
Proof.
  intros H32 He. unfold elements in He.
  destruct (negb (forallb _ (elem_table V rows))); [discriminate|].
  destruct (negb (ragged_ok c) && _); [discriminate|].
  destruct (negb (forallb _ (elem_table V rows))); [discriminate|].
  inversion He; subst es; clear He. unfold mesh_index; cbn [g_elems]. unfold elem_table, skeys.
  rewrite map_fst_rkey. split.
  - f_equal. induction (sort_uniq (map re rows)) as [|e t IH]; [reflexivity|].
    cbn [map flat_map fst snd]. rewrite blocks_cons, IH. f_equal. apply elem_block. exact H32.
  - rewrite !map_map. cbn. apply map_id.
Qed.

(* ------------------------------------------------------------------ GroupBy.first on consistent node data *)
Lemma merge_first_idem p : merge_first V isnull p p = p.
Proof. induction p as [|x t IH]; cbn; [reflexivity|]. rewrite IH. destruct (isnull x); reflexivity. Qed.
Lemma colfirst_const p l : l <> [] -> Forall (eq p) l -> colfirst V isnull l = p.
Proof.
  destruct l as [|q t]; [congruence|]. intros _ H. inversion H; subst. cbn.
  clear H. induction t as [|x t IH]; cbn; [reflexivity|]. inversion H3; subst.
  rewrite merge_first_idem. apply IH. exact H2.
Qed.
Lemma colfirst_node rows r :
  consistent rows -> In r rows -> colfirst V isnull (map rp (rows_of_node V (rn r) rows)) = rp r.
Proof.
  intros Hc Hin. apply colfirst_const.
  - intro H. apply map_eq_nil in H.
    assert (Hr : In r (rows_of_node V (rn r) rows)) by (apply filter_In; split; [exact Hin|apply Z.eqb_refl]).
    rewrite H in Hr. exact Hr.
  - apply Forall_forall. intros p Hp. apply in_map_iff in Hp. destruct Hp as [r' [<- Hr']].
    apply filter_In in Hr'. destruct Hr' as [Hr' E]. apply Z.eqb_eq in E. apply Hc; auto.
Qed.

Lemma node_tab_form rows :
  ids32 rows ->
  combine (map (fun q => sat32 (fst q)) (node_table V isnull rows)) (map snd (node_table V isnull rows))
  = map (fun n => (n, colfirst V isnull (map rp (rows_of_node V n rows)))) (sort_uniq (map rn rows)).
Proof.
  intro H32. rewrite combine_map. unfold node_table. rewrite map_map. cbn [fst snd].
  apply map_ext_in. intros n Hn. apply sort_uniq_In, in_map_iff in Hn. destruct Hn as [r [<- Hr]].
  rewrite sat32_id; [reflexivity|]. apply H32. exact Hr.
Qed.

Lemma node_tab_lookup rows r :
  consistent rows -> In r rows ->
  lookupZ (rn r) (map (fun n => (n, colfirst V isnull (map rp (rows_of_node V n rows)))) (sort_uniq (map rn rows)))
  = Some (rp r).
Proof.
  intros Hc Hin. rewrite (lookupZ_map (fun n => colfirst V isnull (map rp (rows_of_node V n rows)))).
  - rewrite colfirst_node; auto.
  - apply sort_uniq_In, in_map. exact Hin.
Qed.

Lemma node_tab_keys rows :
  map fst (map (fun n => (n, colfirst V isnull (map rp (rows_of_node V n rows)))) (sort_uniq (map rn rows)))
  = sort_uniq (map rn rows).
Proof. rewrite map_map. cbn. apply map_id. Qed.

(* joining a node table to a mesh whose rows are images of consistent frame rows *)
Lemma join_by_node_rows (rows L : list row) (cells : row -> list (cell V)) :
  ids32 rows -> consistent rows -> (forall r, In r L -> In r rows) ->
  join_by_node V (map (fun r => mkirow (re r) (rn r) (cells r)) L)
     (combine (map (fun q => sat32 (fst q)) (node_table V isnull rows)) (map snd (node_table V isnull rows)))
  = OK (map (fun r => mkirow (re r) (rn r) (cells r ++ [Some (rp r)])) L).
Proof.
  intros H32 Hc Hsub. unfold join_by_node. rewrite node_tab_form by exact H32. rewrite node_tab_keys.
  replace (nodupZ (sort_uniq (map rn rows))) with true by (symmetry; apply nodupZ_NoDup, sort_uniq_NoDup).
  cbn [negb]. f_equal. rewrite map_map. apply map_ext_in. intros r Hr. cbn [ie inn icells].
  rewrite node_tab_lookup; auto.
Qed.


(* ------------------------------------------------------------------ finite maps *)
Lemma memS_false_lookup {A} name (l : list (string * A)) : memS name l = false -> lookupS name l = None.
Proof. unfold memS. destruct (lookupS name l); [discriminate|reflexivity]. Qed.
Lemma lookupS_app_new {A} name (g : A) l : lookupS name l = None -> lookupS name (l ++ [(name, g)]) = Some g.
Proof.
  induction l as [|[k a] t IH]; cbn; [rewrite String.eqb_refl; reflexivity|].
  destruct (String.eqb name k); [discriminate|exact IH].
Qed.
Lemma delS_notin {A} name (l : list (string * A)) : lookupS name l = None -> delS name l = l.
Proof.
  unfold delS. induction l as [|[k a] t IH]; cbn; [reflexivity|].
  rewrite (String.eqb_sym k name). destruct (String.eqb name k); [discriminate|]. cbn. intro H. rewrite IH; auto.
Qed.
Lemma delS_app_new {A} name (g : A) l : lookupS name l = None -> delS name (l ++ [(name, g)]) = l.
Proof.
  intro H. unfold delS. rewrite filter_app. fold (delS name l). rewrite delS_notin by exact H.
  cbn. rewrite String.eqb_refl. cbn. apply app_nil_r.
Qed.
Lemma lookupV_app_new k v l : lookupV V k l = None -> lookupV V k (l ++ [(k, v)]) = Some v.
Proof.
  induction l as [|[k' a] t IH]; cbn.
  - destruct k as [[a b] c0]. cbn. rewrite !String.eqb_refl. reflexivity.
  - destruct (vkeyeq k k'); [discriminate|exact IH].
Qed.
Lemma vkeyeq_sym a b : vkeyeq a b = vkeyeq b a.
Proof.
  destruct a as [[a1 a2] a3], b as [[b1 b2] b3]. cbn.
  rewrite (String.eqb_sym a1), (String.eqb_sym a2), (String.eqb_sym a3). reflexivity.
Qed.
Lemma delV_notin k l : lookupV V k l = None -> delV V k l = l.
Proof.
  unfold delV. induction l as [|[k' a] t IH]; cbn; [reflexivity|].
  rewrite (vkeyeq_sym k' k). destruct (vkeyeq k k'); [discriminate|]. cbn. intro H. rewrite IH; auto.
Qed.
Lemma delV_app_new k v l : lookupV V k l = None -> delV V k (l ++ [(k, v)]) = l.
Proof.
  intro H. unfold delV. rewrite filter_app. fold (delV V k l). rewrite delV_notin by exact H.
  cbn. destruct k as [[a b] c0]. cbn. rewrite !String.eqb_refl. cbn. apply app_nil_r.
Qed.
Lemma file_eta f : mkfile V (f_geoms V f) (f_states V f) (f_sgroups V f) (f_vars V f) = f.
Proof. destruct f; reflexivity. Qed.

(* ------------------------------------------------------------------ roll-back: a failed add_* call leaves no partial
   geometry or variable, for EVERY failure point (and every reason of failure the model knows) *)
Theorem add_geometry_failed_unchanged c dim f name rows fp dim' f' e :
  add_geometry V isnull feq c dim f name rows fp = (dim', f', Err e) -> f' = f.
Proof.
  unfold add_geometry. destruct (memS name (f_geoms V f)) eqn:Em; [intro H; inversion H; reflexivity|].
  apply memS_false_lookup in Em.
  destruct (add_geometry_body V isnull feq c dim rows fp) as [[d og] r].
  destruct og as [g|]; [destruct r|]; intro H; inversion H; subst; unfold set_geoms.
  - rewrite delS_app_new by exact Em. apply file_eta.
  - rewrite delS_notin by exact Em. apply file_eta.
Qed.

Theorem add_variable_failed_keeps_content c f state gname vname loc dim rows colsok fp f' e :
  add_variable V isnull c f state gname vname loc dim rows colsok fp = (f', Err e) ->
  f_geoms V f' = f_geoms V f /\ f_vars V f' = f_vars V f.
Proof.
  unfold add_variable.
  destruct (negb (memS gname (f_geoms V f))); [intro H; inversion H; auto|].
  destruct (negb (memStr state (f_states V f)) && fails 0 fp); [intro H; inversion H; auto|].
  destruct (negb (memSS (state, gname) (f_sgroups V f)) && fails _ fp); [intro H; inversion H; auto|].
  destruct (lookupV V (state, gname, vname) (f_vars V f)) eqn:El; [intro H; inversion H; auto|].
  destruct (fails _ fp); [intro H; inversion H; cbn; rewrite delV_notin by exact El; auto|].
  destruct (negb colsok); [intro H; inversion H; cbn; rewrite delV_app_new by exact El; auto|].
  destruct (if loc =? loc_node then _ else _) as [ids vals].
  destruct (fails _ fp); [intro H; inversion H; cbn; rewrite delV_app_new by exact El; auto|].
  destruct (fails _ fp); [intro H; inversion H; cbn; rewrite delV_app_new by exact El; auto|].
  intro H; inversion H.
Qed.

Theorem add_set_failed_unchanged f gname stype ids rows sname fp f' e :
  add_set V f gname stype ids rows sname fp = (f', Err e) -> f' = f.
Proof.
  unfold add_set. destruct (negb (forallb _ ids)); [intro H; inversion H; reflexivity|].
  destruct (lookupS gname (f_geoms V f)); [|intro H; inversion H; reflexivity].
  destruct (fails 0 fp); [intro H; inversion H; reflexivity|].
  destruct (fails 1 fp); intro H; inversion H; reflexivity.
Qed.


(* ------------------------------------------------------------------ what a successful add_geometry wrote *)
Lemma add_geometry_ok_inv c dim f name rows dim' f' :
  add_geometry V isnull feq c dim f name rows None = (dim', f', OK tt) ->
  exists d es,
    elements V c d rows = OK es /\ lookupS name (f_geoms V f) = None /\
    f' = set_geoms V f (f_geoms V f ++
           [(name, mkgeom V (Some (map (fun q => sat32 (fst q)) (node_table V isnull rows)))
                            (Some (map snd (node_table V isnull rows))) (Some es) [])]).
Proof.
  unfold add_geometry. destruct (memS name (f_geoms V f)) eqn:Em; [discriminate|].
  apply memS_false_lookup in Em. unfold add_geometry_body. cbn [fails orb].
  match goal with |- context [elements V c ?d rows] => set (dd := d) end.
  destruct (elements V c dd rows) as [es|e] eqn:Ee; cbn.
  - intro H. inversion H; subst. exists dd, es. auto.
  - discriminate.
Qed.

Definition coords_ok (c : cfg) (rows : list row) : Prop :=
  coords2d_ok c = true \/ forall r, In r rows -> length (rp r) = 3%nat.

(* element_order_by_id_node_order_kept: the imported mesh index lists the elements ascending by id,
   and within each element the node ids in the order of the exported rows *)
Theorem geometry_mesh_index c dim f name rows dim' f' :
  ids32 rows ->
  add_geometry V isnull feq c dim f name rows None = (dim', f', OK tt) ->
  exists g, lookupS name (f_geoms V f') = Some g /\
    mesh_index V g = OK (skeys (map rkey rows)) /\
    StronglySorted Z.le (map fst (skeys (map rkey rows))) /\
    forall e, filter (fun k => fst k =? e) (skeys (map rkey rows)) = filter (fun k => fst k =? e) (map rkey rows).
Proof.
  intros H32 H. apply add_geometry_ok_inv in H. destruct H as [d [es [He [Hl ->]]]].
  eexists. split; [cbn; apply lookupS_app_new; exact Hl|].
  destruct (elements_mesh_index c d rows es H32 He) as [Hm _]. split; [exact Hm|]. split.
  - apply blocks_map_fst_sorted, sort_uniq_sorted.
  - intro e. apply skeys_element_order.
Qed.

Lemma nodes_of_geometry c rows es :
  ids32 rows -> consistent rows -> coords_ok c rows ->
  nodes V c (mkgeom V (Some (map (fun q => sat32 (fst q)) (node_table V isnull rows)))
                      (Some (map snd (node_table V isnull rows))) es [])
  = OK (combine (map (fun q => sat32 (fst q)) (node_table V isnull rows)) (map snd (node_table V isnull rows))).
Proof.
  intros H32 Hc Hok. unfold nodes. cbn [g_ids g_coords]. rewrite !map_length, Nat.eqb_refl. cbn [negb].
  destruct Hok as [Hok|Hok]; [rewrite Hok; reflexivity|].
  replace (forallb (fun p => Nat.eqb (length p) 3) (map snd (node_table V isnull rows))) with true;
    [rewrite andb_false_r; reflexivity|].
  symmetry. apply forallb_forall. intros p Hp. unfold node_table in Hp. rewrite map_map in Hp. cbn in Hp.
  apply in_map_iff in Hp. destruct Hp as [n [<- Hn]]. apply sort_uniq_In, in_map_iff in Hn.
  destruct Hn as [r [<- Hr]]. rewrite colfirst_node by assumption. rewrite Hok by exact Hr. reflexivity.
Qed.

(* round trip of the mesh and its coordinates *)
Theorem roundtrip_coordinates c dim f name rows dim' f' st :
  ids32 rows -> consistent rows -> coords_ok c rows ->
  add_geometry V isnull feq c dim f name rows None = (dim', f', OK tt) ->
  exists s, irun V c f' (istate0 V) [MakeMesh name st; JoinCoordinates; ToFrame] None
    = OK (s, Some (map (fun r => mkirow (re r) (rn r) [Some (rp r)]) (sorted_rows rows))).
Proof.
  intros H32 Hc Hok H. apply add_geometry_ok_inv in H. destruct H as [d [es [He [Hl ->]]]].
  destruct (elements_mesh_index c d rows es H32 He) as [Hm _].
  cbn [irun istep bind f_geoms set_geoms]. rewrite (lookupS_app_new name _ _ Hl).
  unfold mesh_index in *. cbn [g_elems] in *. inversion Hm as [Hm']. rewrite Hm'. cbn [bind fst snd i_mesh i_geom].
  rewrite (lookupS_app_new name _ _ Hl). rewrite nodes_of_geometry by assumption. cbn [bind].
  rewrite <- sorted_rows_keys, map_map. cbn [fst snd Model.rkey].
  rewrite (join_by_node_rows rows (sorted_rows rows) (fun _ => [])); auto.
  - cbn. eexists. reflexivity.
  - intros r Hr. apply sorted_rows_In. exact Hr.
Qed.

(* ------------------------------------------------------------------ what a successful add_variable wrote *)
Lemma memStr_app_self s l : memStr s (l ++ [s]) = true.
Proof. unfold memStr. rewrite existsb_app. cbn. rewrite String.eqb_refl. apply orb_true_iff. right. reflexivity. Qed.
Lemma memSS_app_self a l : memSS a (l ++ [a]) = true.
Proof. unfold memSS. rewrite existsb_app. cbn. rewrite !String.eqb_refl. apply orb_true_iff. right. reflexivity. Qed.

Definition var_layout (c : cfg) (loc : Z) (rows : list row) : list Z * list (list V) :=
  if loc =? loc_node
  then (map (fun q => sat32 (fst q)) (node_table V isnull rows), map snd (node_table V isnull rows))
  else (map sat32 (dedup (map re rows)), map rp (if regroup c then regrouped V rows else rows)).

Lemma add_variable_ok_inv c f state gname vname loc dim rows colsok f' :
  add_variable V isnull c f state gname vname loc dim rows colsok None = (f', OK tt) ->
  exists st' sg',
    memStr state st' = true /\ memSS (state, gname) sg' = true /\
    lookupV V (state, gname, vname) (f_vars V f) = None /\
    f' = set_vars V f st' sg' (f_vars V f ++ [((state, gname, vname),
            mkvar V loc dim (Some (fst (var_layout c loc rows))) (Some (snd (var_layout c loc rows))))]).
Proof.
  unfold add_variable. destruct (negb (memS gname (f_geoms V f))); [discriminate|]. cbn [fails andb].
  rewrite !andb_false_r.
  destruct (lookupV V (state, gname, vname) (f_vars V f)) eqn:El; [discriminate|].
  destruct (negb colsok); [discriminate|].
  fold (var_layout c loc rows). destruct (var_layout c loc rows) as [ids vals]. cbn [fst snd].
  intro H. inversion H; subst; clear H.
  exists (if negb (memStr state (f_states V f)) then f_states V f ++ [state] else f_states V f),
         (if negb (memSS (state, gname) (f_sgroups V f)) then f_sgroups V f ++ [(state, gname)] else f_sgroups V f).
  repeat split.
  - destruct (memStr state (f_states V f)) eqn:E; cbn [negb]; [exact E|apply memStr_app_self].
  - destruct (memSS (state, gname) (f_sgroups V f)) eqn:E; cbn [negb]; [exact E|apply memSS_app_self].
Qed.

(* round trip of a nodal or element-nodal variable: the geometry [g] in the file was exported from a frame with the
   same (element, node) rows (geometry_mesh_index gives exactly this premise) *)
Theorem roundtrip_variable c f state gname vname loc dim vrows g f' st0 :
  (loc = loc_node \/ loc = loc_elnodal) ->
  lookupS gname (f_geoms V f) = Some g ->
  mesh_index V g = OK (skeys (map rkey vrows)) ->
  ids32 vrows -> nodup_pairs vrows ->
  (loc = loc_node -> consistent vrows) ->
  (loc = loc_elnodal -> regroup c = true \/ grouped vrows) ->
  add_variable V isnull c f state gname vname loc dim vrows true None = (f', OK tt) ->
  exists s, irun V c f' (istate0 V) [MakeMesh gname st0; JoinVariable vname (Some state) dim; ToFrame] None
    = OK (s, Some (map (fun r => mkirow (re r) (rn r) [Some (rp r)]) (sorted_rows vrows))).
Proof.
  intros Hloc Hg Hidx H32 Hnd Hcons Hgrp H.
  apply add_variable_ok_inv in H. destruct H as [st' [sg' [Hst [Hsg [Hl ->]]]]].
  cbn [irun istep bind f_geoms set_vars]. rewrite Hg, Hidx. cbn [bind fst snd i_mesh i_geom i_state].
  rewrite Hg. cbn [f_states f_sgroups f_vars set_vars]. rewrite Hst, Hsg. cbn [negb orb].
  rewrite (lookupV_app_new _ _ _ Hl).
  assert (Hm : map (fun k : Z * Z => mkirow (fst k) (snd k) []) (skeys (map rkey vrows))
               = map (fun r => mkirow (re r) (rn r) (@nil (cell V))) (sorted_rows vrows)).
  { rewrite <- sorted_rows_keys, map_map. reflexivity. }
  rewrite Hm. clear Hm.
  assert (Hmk : map (fun r : irow V => (ie V r, inn V r)) (map (fun r => mkirow (re r) (rn r) (@nil (cell V))) (sorted_rows vrows))
                = skeys (map rkey vrows)).
  { rewrite map_map. cbn [ie inn]. rewrite <- sorted_rows_keys. reflexivity. }
  assert (Hndm : nodupP (skeys (map rkey vrows)) = true) by (apply nodupP_NoDup, skeys_NoDup; exact Hnd).
  unfold join_variable_frame. cbn [v_dim v_ids v_vals v_loc]. rewrite Nat.eqb_refl. cbn [negb].
  unfold var_layout. destruct Hloc as [-> | ->].
  - (* nodal *)
    cbn [Z.eqb loc_node Pos.eqb fst snd]. rewrite !map_length, Nat.eqb_refl. cbn [negb].
    rewrite Hmk, Hndm. cbn [negb].
    rewrite (join_by_node_rows vrows (sorted_rows vrows) (fun _ => [])); auto.
    + cbn. eexists. reflexivity.
    + intros r Hr. apply sorted_rows_In. exact Hr.
  - (* element-nodal *)
    cbn [Z.eqb loc_node loc_elnodal Pos.eqb fst snd]. rewrite Hidx.
    assert (Hids : map sat32 (dedup (map re vrows)) = dedup (map re vrows)).
    { apply map_sat32_id, forallb_forall. intros x Hx. apply dedup_In, in_map_iff in Hx.
      destruct Hx as [r [<- Hr]]. apply H32. exact Hr. }
    rewrite Hids.
    assert (Hvi : elnodal_index (dedup (map re vrows)) (skeys (map rkey vrows)) = map rkey (regrouped V vrows)).
    { rewrite regrouped_keys. change (elnodal_index ?a ?b) with (blocks b a). unfold skeys.
      apply blocks_blocks; [apply sort_uniq_NoDup|].
      intros d Hd. apply (proj1 (dedup_In _ _)) in Hd. apply (proj2 (sort_uniq_In _ _)). rewrite map_fst_rkey. exact Hd. }
    rewrite Hvi.
    assert (Hvals : map rp (if regroup c then regrouped V vrows else vrows) = map rp (regrouped V vrows)).
    { destruct (regroup c) eqn:E; [reflexivity|]. destruct (Hgrp eq_refl) as [H|H]; [discriminate|].
      unfold grouped in H. rewrite H. reflexivity. }
    rewrite Hvals, !map_length, Nat.eqb_refl. cbn [negb].
    unfold join_by_pair. rewrite combine_map, Hmk, Hndm.
    assert (Hnk : NoDup (map rkey (regrouped V vrows))).
    { rewrite regrouped_keys. apply blocks_NoDup; [apply dedup_NoDup|exact Hnd]. }
    replace (map fst (map (fun x : row => (rkey x, rp x)) (regrouped V vrows))) with (map rkey (regrouped V vrows))
      by (rewrite map_map; reflexivity).
    replace (nodupP (map rkey (regrouped V vrows))) with true by (symmetry; apply nodupP_NoDup; exact Hnk).
    cbn [negb orb bind].
    assert (Hrows : map (fun r : irow V => mkirow (ie V r) (inn V r)
                       (icells V r ++ [lookupP (ie V r, inn V r) (map (fun x : row => (rkey x, rp x)) (regrouped V vrows))]))
                  (map (fun r => mkirow (re r) (rn r) (@nil (cell V))) (sorted_rows vrows))
                = map (fun r => mkirow (re r) (rn r) [Some (rp r)]) (sorted_rows vrows)).
    { rewrite map_map. apply map_ext_in. intros r Hr. cbn [ie inn icells app]. f_equal. f_equal.
      change (re r, rn r) with (rkey r).
      apply (lookupP_map rkey rp r (regrouped V vrows) Hnk).
      apply regrouped_In, sorted_rows_In. exact Hr. }
    rewrite Hrows. cbn. eexists. reflexivity.
Qed.

(* ------------------------------------------------------------------ geometry sets *)
Lemma lookupS_updS {A} name (a b : A) l : lookupS name l = Some a -> lookupS name (updS name b l) = Some b.
Proof.
  induction l as [|[k x] t IH]; cbn; [discriminate|].
  destruct (String.eqb name k) eqn:E; cbn; rewrite E; [reflexivity|exact IH].
Qed.

Lemma set_lookup_after_add c f gname stype ids rows sname f' :
  sets_ok c = true -> forallb in32 ids = true ->
  add_set V f gname stype ids rows sname None = (f', OK tt) ->
  exists g', lookupS gname (f_geoms V f') = Some g' /\ set_lookup V c g' stype sname = OK ids.
Proof.
  intros Hok H32. unfold add_set. destruct (negb (forallb _ ids)); [discriminate|].
  destruct (lookupS gname (f_geoms V f)) as [g|] eqn:Eg; [|discriminate]. cbn [fails].
  intro H. inversion H; subst; clear H. eexists. split.
  - cbn [f_geoms set_geoms]. apply (lookupS_updS gname g). exact Eg.
  - unfold set_lookup, upd_geom_sets. cbn [g_sets]. rewrite filter_app. cbn [filter s_type].
    rewrite Z.eqb_refl. rewrite Hok. cbn [negb].
    destruct (filter (fun s => s_type s =? stype) (g_sets V g) ++ [mkgset sname stype (Some (map wrap32 ids))]) eqn:E.
    + apply app_eq_nil in E. destruct E; discriminate.
    + rewrite <- E, rev_app_distr. cbn [rev app find s_name]. rewrite String.eqb_refl. cbn [s_data].
      rewrite map_wrap32_id by exact H32. reflexivity.
Qed.

(* filter_set_exact: filtering by a set the exporter stored keeps exactly the rows whose node (element) is a member *)
Theorem filter_node_set_exact c f gname ids rows sname f' s m :
  sets_ok c = true -> forallb in32 ids = true ->
  add_set V f gname 0 ids rows sname None = (f', OK tt) ->
  i_mesh V s = Some m -> i_geom V s = gname ->
  istep V c f' s (FilterNodeSet sname)
  = OK (mkistate V (Some (filter (fun r => memZ (inn V r) ids) m)) gname (i_state V s), None).
Proof.
  intros Hok H32 H Hm Hg. destruct (set_lookup_after_add c f gname 0 ids rows sname f' Hok H32 H) as [g' [Hl Hs]].
  cbn [istep]. rewrite Hm, Hg, Hl, Hs. reflexivity.
Qed.
Theorem filter_element_set_exact c f gname ids rows sname f' s m :
  sets_ok c = true -> forallb in32 ids = true ->
  add_set V f gname 1 ids rows sname None = (f', OK tt) ->
  i_mesh V s = Some m -> i_geom V s = gname ->
  istep V c f' s (FilterElementSet sname)
  = OK (mkistate V (Some (filter (fun r => memZ (ie V r) ids) m)) gname (i_state V s), None).
Proof.
  intros Hok H32 H Hm Hg. destruct (set_lookup_after_add c f gname 1 ids rows sname f' Hok H32 H) as [g' [Hl Hs]].
  cbn [istep]. rewrite Hm, Hg, Hl, Hs. reflexivity.
Qed.

(* ------------------------------------------------------------------ importer: no state leaks through make_mesh *)
Theorem import_repeatable c f s s' gname st ops last :
  irun V c f s (MakeMesh gname st :: ops) last = irun V c f s' (MakeMesh gname st :: ops) last.
Proof.
  cbn. destruct (lookupS gname (f_geoms V f)); [|reflexivity].
  destruct (mesh_index V g); reflexivity.
Qed.
(* the importer never changes the file, and an importer call is a function of (file, importer state, call) only:
   two imports of the same chain from any two importers on the same file return the same frame *)

End Thm.
