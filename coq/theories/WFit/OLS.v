(* C18: ordinary least squares on a list of points, as scipy.stats.linregress computes it
   (slope = cov(x,y)/var(x) with 1/n normalisation, intercept = ymean - slope*xmean),
   and the algebra the Woehler analyzers rely on: shifts of x and y, permutation of the points. *)
From Coq Require Import Reals Lra List Permutation.
Import ListNotations.
Open Scope R_scope.

Definition rsum (l : list R) : R := fold_right Rplus 0 l.
Definition rlen {A} (l : list A) : R := INR (length l).
Definition mean (l : list R) : R := rsum l / rlen l.

Definition xs (ps : list (R * R)) := map fst ps.
Definition ys (ps : list (R * R)) := map snd ps.

Definition ssxm (ps : list (R * R)) : R :=
  rsum (map (fun p => (fst p - mean (xs ps)) * (fst p - mean (xs ps))) ps) / rlen ps.
Definition ssxym (ps : list (R * R)) : R :=
  rsum (map (fun p => (fst p - mean (xs ps)) * (snd p - mean (ys ps))) ps) / rlen ps.
Definition ols_slope (ps : list (R * R)) : R := ssxym ps / ssxm ps.
Definition ols_icpt (ps : list (R * R)) : R := mean (ys ps) - ols_slope ps * mean (xs ps).

(* ---------------------------------------------------------------- sums *)
Lemma rsum_app a b : rsum (a ++ b) = rsum a + rsum b.
Proof. induction a; simpl; lra. Qed.

Lemma rsum_perm a b : Permutation a b -> rsum a = rsum b.
Proof. induction 1; simpl; lra. Qed.

Lemma rsum_map_ext {A} (f g : A -> R) l : (forall x, In x l -> f x = g x) -> rsum (map f l) = rsum (map g l).
Proof.
  induction l; simpl; intros H; [reflexivity|].
  rewrite H by now left. rewrite IHl; [reflexivity|]. intros; apply H; now right.
Qed.

Lemma rsum_map_plus {A} (f g : A -> R) l : rsum (map (fun x => f x + g x) l) = rsum (map f l) + rsum (map g l).
Proof. induction l; simpl; lra. Qed.

Lemma rsum_map_const {A} (c : R) (l : list A) : rsum (map (fun _ => c) l) = rlen l * c.
Proof.
  unfold rlen. induction l; [simpl; lra|].
  change (length (a :: l)) with (S (length l)). rewrite S_INR. simpl. rewrite IHl. lra.
Qed.

Lemma rsum_map_scal {A} (c : R) (f : A -> R) l : rsum (map (fun x => c * f x) l) = c * rsum (map f l).
Proof. induction l; simpl; lra. Qed.

Lemma rlen_pos {A} (l : list A) : l <> [] -> 0 < rlen l.
Proof. destruct l; [congruence|]. intros _. unfold rlen. apply lt_0_INR. simpl. apply Nat.lt_0_succ. Qed.

Lemma rlen_map {A B} (f : A -> B) l : rlen (map f l) = rlen l.
Proof. unfold rlen. now rewrite map_length. Qed.

Lemma rlen_perm {A} (a b : list A) : Permutation a b -> rlen a = rlen b.
Proof. intros H. unfold rlen. now rewrite (Permutation_length H). Qed.

Lemma mean_perm a b : Permutation a b -> mean a = mean b.
Proof. intros H. unfold mean. now rewrite (rsum_perm _ _ H), (rlen_perm _ _ H). Qed.

Lemma mean_shift a l : l <> [] -> mean (map (fun x => x + a) l) = mean l + a.
Proof.
  intros H. unfold mean. rewrite rlen_map.
  rewrite (rsum_map_plus (fun x => x) (fun _ => a)), rsum_map_const, map_id.
  pose proof (rlen_pos l H). field. lra.
Qed.

Lemma mean_scal c l : mean (map (fun x => c * x) l) = c * mean l.
Proof.
  unfold mean. rewrite rlen_map.
  rewrite (rsum_map_scal c (fun x => x)), map_id. unfold Rdiv. ring.
Qed.

Lemma mean_const c (l : list R) : l <> [] -> (forall x, In x l -> x = c) -> mean l = c.
Proof.
  intros Hne H. unfold mean.
  replace l with (map (fun _ : R => c) l).
  - rewrite rsum_map_const, rlen_map. pose proof (rlen_pos l Hne). field. lra.
  - clear Hne. induction l; simpl; [reflexivity|]. f_equal.
    + symmetry. apply H. now left.
    + apply IHl. intros; apply H; now right.
Qed.

(* ---------------------------------------------------------------- permutation of the points *)
Lemma ssxm_perm a b : Permutation a b -> ssxm a = ssxm b.
Proof.
  intros H. unfold ssxm, xs.
  rewrite (mean_perm _ _ (Permutation_map fst H)), (rlen_perm _ _ H).
  f_equal. apply rsum_perm. now apply Permutation_map.
Qed.

Lemma ssxym_perm a b : Permutation a b -> ssxym a = ssxym b.
Proof.
  intros H. unfold ssxym, xs, ys.
  rewrite (mean_perm _ _ (Permutation_map fst H)), (mean_perm _ _ (Permutation_map snd H)), (rlen_perm _ _ H).
  f_equal. apply rsum_perm. now apply Permutation_map.
Qed.

Lemma ols_perm_invariant a b : Permutation a b -> ols_slope a = ols_slope b /\ ols_icpt a = ols_icpt b.
Proof.
  intros H. assert (Hs : ols_slope a = ols_slope b).
  { unfold ols_slope. now rewrite (ssxm_perm _ _ H), (ssxym_perm _ _ H). }
  split; [exact Hs|]. unfold ols_icpt, xs, ys.
  now rewrite Hs, (mean_perm _ _ (Permutation_map fst H)), (mean_perm _ _ (Permutation_map snd H)).
Qed.

(* ---------------------------------------------------------------- shifts *)
Definition shift_x (a : R) (ps : list (R * R)) := map (fun p => (fst p + a, snd p)) ps.
Definition shift_y (b : R) (ps : list (R * R)) := map (fun p => (fst p, snd p + b)) ps.

Lemma xs_shift_x a ps : xs (shift_x a ps) = map (fun x => x + a) (xs ps).
Proof. unfold xs, shift_x. rewrite !map_map. reflexivity. Qed.
Lemma ys_shift_x a ps : ys (shift_x a ps) = ys ps.
Proof. unfold ys, shift_x. rewrite !map_map. reflexivity. Qed.
Lemma xs_shift_y b ps : xs (shift_y b ps) = xs ps.
Proof. unfold xs, shift_y. rewrite !map_map. reflexivity. Qed.
Lemma ys_shift_y b ps : ys (shift_y b ps) = map (fun y => y + b) (ys ps).
Proof. unfold ys, shift_y. rewrite !map_map. reflexivity. Qed.

Lemma xs_ne ps : ps <> [] -> xs ps <> [].
Proof. destruct ps; simpl; congruence. Qed.
Lemma ys_ne ps : ps <> [] -> ys ps <> [].
Proof. destruct ps; simpl; congruence. Qed.

Lemma ssxm_shift_x a ps : ps <> [] -> ssxm (shift_x a ps) = ssxm ps.
Proof.
  intros H. unfold ssxm. rewrite xs_shift_x, mean_shift by now apply xs_ne.
  unfold shift_x at 2. rewrite rlen_map. f_equal.
  unfold shift_x. rewrite map_map. apply rsum_map_ext. intros p _. simpl. ring.
Qed.

Lemma ssxym_shift_x a ps : ps <> [] -> ssxym (shift_x a ps) = ssxym ps.
Proof.
  intros H. unfold ssxym. rewrite xs_shift_x, ys_shift_x, mean_shift by now apply xs_ne.
  unfold shift_x at 2. rewrite rlen_map. f_equal.
  unfold shift_x. rewrite map_map. apply rsum_map_ext. intros p _. simpl. ring.
Qed.

Lemma ssxm_shift_y b ps : ssxm (shift_y b ps) = ssxm ps.
Proof.
  unfold ssxm. rewrite xs_shift_y. unfold shift_y at 2. rewrite rlen_map. f_equal.
  unfold shift_y. rewrite map_map. apply rsum_map_ext. intros p _. simpl. ring.
Qed.

Lemma ssxym_shift_y b ps : ps <> [] -> ssxym (shift_y b ps) = ssxym ps.
Proof.
  intros H. unfold ssxym. rewrite xs_shift_y, ys_shift_y, mean_shift by now apply ys_ne.
  unfold shift_y at 2. rewrite rlen_map. f_equal.
  unfold shift_y. rewrite map_map. apply rsum_map_ext. intros p _. simpl. ring.
Qed.

(* shifting every x by a: slope unchanged, intercept moves by -slope*a *)
Lemma ols_shift_x a ps : ps <> [] ->
  ols_slope (shift_x a ps) = ols_slope ps /\ ols_icpt (shift_x a ps) = ols_icpt ps - ols_slope ps * a.
Proof.
  intros H. assert (Hs : ols_slope (shift_x a ps) = ols_slope ps).
  { unfold ols_slope. now rewrite ssxm_shift_x, ssxym_shift_x. }
  split; [exact Hs|]. unfold ols_icpt. rewrite Hs, xs_shift_x, ys_shift_x, mean_shift by now apply xs_ne. ring.
Qed.

(* shifting every y by b: slope unchanged, intercept moves by b *)
Lemma ols_shift_y b ps : ps <> [] ->
  ols_slope (shift_y b ps) = ols_slope ps /\ ols_icpt (shift_y b ps) = ols_icpt ps + b.
Proof.
  intros H. assert (Hs : ols_slope (shift_y b ps) = ols_slope ps).
  { unfold ols_slope. now rewrite ssxm_shift_y, ssxym_shift_y. }
  split; [exact Hs|]. unfold ols_icpt. rewrite Hs, xs_shift_y, ys_shift_y, mean_shift by now apply ys_ne. ring.
Qed.

(* ---------------------------------------------------------------- points on a line *)
(* if every point satisfies y = m x + q and the x are not all equal, OLS returns (m, q) *)
Lemma ssxym_line m q ps : (forall p, In p ps -> snd p = m * fst p + q) -> ps <> [] -> ssxym ps = m * ssxm ps.
Proof.
  intros Hl Hne. unfold ssxym, ssxm.
  assert (Hy : mean (ys ps) = m * mean (xs ps) + q).
  { unfold ys. replace (map snd ps) with (map (fun x => x + q) (map (fun x => m * x) (xs ps))).
    - rewrite mean_shift, mean_scal; [reflexivity|]. destruct ps; simpl; congruence.
    - unfold xs. rewrite !map_map. apply map_ext_in. intros p Hp. now rewrite (Hl p Hp). }
  rewrite Hy. unfold Rdiv. rewrite <- Rmult_assoc. f_equal.
  rewrite <- rsum_map_scal. apply rsum_map_ext. intros p Hp. rewrite (Hl p Hp). ring.
Qed.

Lemma ols_line m q ps : (forall p, In p ps -> snd p = m * fst p + q) -> ps <> [] -> ssxm ps <> 0 ->
  ols_slope ps = m /\ ols_icpt ps = q.
Proof.
  intros Hl Hne Hv. assert (Hs : ols_slope ps = m).
  { unfold ols_slope. rewrite (ssxym_line m q) by assumption. field. exact Hv. }
  split; [exact Hs|]. unfold ols_icpt. rewrite Hs.
  unfold ys. replace (map snd ps) with (map (fun x => x + q) (map (fun x => m * x) (xs ps))).
  - rewrite mean_shift, mean_scal; [ring|]. destruct ps; simpl; congruence.
  - unfold xs. rewrite !map_map. apply map_ext_in. intros p Hp. now rewrite (Hl p Hp).
Qed.

(* the variance of x vanishes only if all x are equal: two different x make the regression well posed *)
Lemma rsum_sq_nonneg {A} (f : A -> R) l : 0 <= rsum (map (fun x => f x * f x) l).
Proof. induction l; simpl; [lra|]. pose proof (Rle_0_sqr (f a)). unfold Rsqr in *. lra. Qed.

Lemma rsum_sq_zero {A} (f : A -> R) l : rsum (map (fun x => f x * f x) l) = 0 -> forall x, In x l -> f x = 0.
Proof.
  induction l; simpl; intros H x Hx; [contradiction|].
  pose proof (rsum_sq_nonneg f l). pose proof (Rle_0_sqr (f a)). unfold Rsqr in *.
  destruct Hx as [<-|Hx].
  - assert (f a * f a = 0) by lra. destruct (Rmult_integral _ _ H2); assumption.
  - apply IHl; [lra|assumption].
Qed.

Lemma ssxm_pos_of_two ps p1 p2 : In p1 ps -> In p2 ps -> fst p1 <> fst p2 -> 0 < ssxm ps.
Proof.
  intros H1 H2 Hd. unfold ssxm.
  assert (Hne : ps <> []) by (destruct ps; [contradiction|congruence]).
  pose proof (rlen_pos ps Hne) as Hn.
  pose proof (rsum_sq_nonneg (fun p : R * R => fst p - mean (xs ps)) ps) as H0.
  destruct H0 as [H0|H0].
  - apply Rdiv_lt_0_compat; assumption.
  - exfalso. symmetry in H0.
    pose proof (rsum_sq_zero (fun p : R * R => fst p - mean (xs ps)) ps H0 p1 H1).
    pose proof (rsum_sq_zero (fun p : R * R => fst p - mean (xs ps)) ps H0 p2 H2). simpl in *. lra.
Qed.

(* ---------------------------------------------------------------- the same estimator through raw sums
   (linear-size expressions for the per-run interval certificates) *)
Definition Sx (ps : list (R * R)) := rsum (xs ps).
Definition Sy (ps : list (R * R)) := rsum (ys ps).
Definition Sxx (ps : list (R * R)) := rsum (map (fun p => fst p * fst p) ps).
Definition Sxy (ps : list (R * R)) := rsum (map (fun p => fst p * snd p) ps).
Definition Dx (ps : list (R * R)) := rlen ps * Sxx ps - Sx ps * Sx ps.

Lemma rlen_cons {A} (a : A) l : rlen (a :: l) = 1 + rlen l.
Proof. unfold rlen. change (length (a :: l)) with (S (length l)). rewrite S_INR. ring. Qed.

Lemma rsum_centered a b ps :
  rsum (map (fun p : R * R => (fst p - a) * (snd p - b)) ps) = Sxy ps - a * Sy ps - b * Sx ps + rlen ps * a * b.
Proof.
  unfold Sxy, Sy, Sx, xs, ys. induction ps as [|p t IH].
  - simpl. unfold rlen. simpl. ring.
  - rewrite rlen_cons. simpl. rewrite IH. ring.
Qed.

Lemma rsum_centered_sq a ps :
  rsum (map (fun p : R * R => (fst p - a) * (fst p - a)) ps) = Sxx ps - 2 * a * Sx ps + rlen ps * a * a.
Proof.
  unfold Sxx, Sx, xs. induction ps as [|p t IH].
  - simpl. unfold rlen. simpl. ring.
  - rewrite rlen_cons. simpl. rewrite IH. ring.
Qed.

Lemma ols_slope_sums ps : ps <> [] -> Dx ps <> 0 ->
  ols_slope ps = (rlen ps * Sxy ps - Sx ps * Sy ps) / Dx ps.
Proof.
  intros Hne HD. pose proof (rlen_pos ps Hne) as Hn. unfold ols_slope, ssxym, ssxm.
  rewrite rsum_centered, rsum_centered_sq. unfold mean. fold (Sx ps). fold (Sy ps).
  assert (E1 : rlen (xs ps) = rlen ps) by (unfold xs; apply rlen_map).
  assert (E2 : rlen (ys ps) = rlen ps) by (unfold ys; apply rlen_map).
  rewrite E1, E2. unfold Dx in *. field. split; [exact HD|lra].
Qed.

Lemma ols_icpt_sums ps : ps <> [] -> ols_icpt ps = (Sy ps - ols_slope ps * Sx ps) / rlen ps.
Proof.
  intros Hne. pose proof (rlen_pos ps Hne) as Hn. unfold ols_icpt, mean. fold (Sx ps). fold (Sy ps).
  assert (E1 : rlen (xs ps) = rlen ps) by (unfold xs; apply rlen_map).
  assert (E2 : rlen (ys ps) = rlen ps) by (unfold ys; apply rlen_map).
  rewrite E1, E2. field. lra.
Qed.
