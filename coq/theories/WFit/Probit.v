(* C18: the Probit analyzer (probit.py): Rossow failure probabilities per load level of the infinite zone,
   regression of their percentiles on log10(load) (ProbabilityFit), SD / TS / ND from it.
   pandas groupby('load') is modelled by the distinct loads (nodup) with fracture / test counts. *)
From Coq Require Import Reals Lra List Permutation Sorted Bool Arith.
From PL Require Import Common.RPrelude WFit.OLS WFit.Zones WFit.Elem.
Import ListNotations.
Open Scope R_scope.

Record level := Level { lload : R; nfrac : nat; ntot : nat }.

(* Probit.__probit_rossow_estimation *)
Definition rossow_level (nf nt : nat) : R :=
  if Nat.eqb nf 0 then 1 - npow (1 / 2) (1 / INR nt)
  else if Nat.eqb nf nt then npow (1 / 2) (1 / INR nt)
  else (3 * INR nf - 1) / (3 * INR nt + 1).

Definition n_tot (z : data) (L : R) : nat := length (filter (fun r => Reqb (load r) L) z).
Definition n_frac (z : data) (L : R) : nat := length (filter (fun r => Reqb (load r) L && frac r) z).
Definition level_loads (z : data) : list R := nodup Req_EM_T (loads z).
Definition levels_of (z : data) : list level := map (fun L => Level L (n_frac z L) (n_tot z L)) (level_loads z).

Definition probit_pts (ppf : R -> R) (lv : list level) : list (R * R) :=
  map (fun l => (log10R (lload l), ppf (rossow_level (nfrac l) (ntot l)))) lv.

(* Probit._specific_analysis / __probit_analysis on top of the elementary curve w (slope s, intercept ic) *)
Definition probit_core (ppf : R -> R) (s ic : R) (lv : list level) (w : wcurve) : wcurve :=
  if (length lv <? 2)%nat then w else
  let sl := ols_slope (probit_pts ppf lv) in
  let icp := ols_icpt (probit_pts ppf lv) in
  let sd := Rpower 10 (- icp / sl) in
  WC (k_1 w) (transition_cycles s ic sd) sd (TN w) (std_to_scattering_range (1 / sl)).

Definition probit (ppf : R -> R) (sortR : list R -> list R) (d : data) : wcurve :=
  probit_core ppf (fit_slope (finite_fractures d)) (fit_icpt (finite_fractures d))
              (levels_of (infinite_zone d)) (elementary ppf sortR d).

(* ---------------------------------------------------------------- nodup *)
Lemma nodup_map_inj {A B} (da : forall x y : A, {x = y} + {x <> y}) (db : forall x y : B, {x = y} + {x <> y})
  (f : A -> B) l : (forall x y, f x = f y -> x = y) -> nodup db (map f l) = map f (nodup da l).
Proof.
  intros Hinj. induction l as [|x t IH]; simpl; [reflexivity|].
  destruct (in_dec db (f x) (map f t)) as [H|H]; destruct (in_dec da x t) as [H'|H'].
  - exact IH.
  - exfalso. apply H'. apply in_map_iff in H. destruct H as [y [Hy1 Hy2]]. apply Hinj in Hy1. now subst.
  - exfalso. apply H. now apply in_map.
  - simpl. now rewrite IH.
Qed.

Lemma nodup_perm {A} (da : forall x y : A, {x = y} + {x <> y}) a b :
  Permutation a b -> Permutation (nodup da a) (nodup da b).
Proof.
  intros H. apply NoDup_Permutation; try apply NoDup_nodup.
  intros x. rewrite !nodup_In. split; intros Hx.
  - eapply Permutation_in; [exact H|exact Hx].
  - eapply Permutation_in; [apply Permutation_sym; exact H|exact Hx].
Qed.

Lemma Reqb_scale c a b : c <> 0 -> Reqb (c * a) (c * b) = Reqb a b.
Proof.
  intros Hc. unfold Reqb. destruct (Req_EM_T (c * a) (c * b)) as [E|E]; destruct (Req_EM_T a b) as [E'|E']; try reflexivity.
  - exfalso. apply E'. now apply (Rmult_eq_reg_l c).
  - exfalso. apply E. now subst.
Qed.

(* ---------------------------------------------------------------- levels under scaling / permutation *)
Lemma n_tot_scale_load c z L : c <> 0 -> n_tot (scale_load c z) (c * L) = n_tot z L.
Proof.
  intros Hc. unfold n_tot, scale_load.
  rewrite (filter_map_comm _ _ (fun r => Reqb (load r) L)); [apply map_length|].
  intros r. simpl. now apply Reqb_scale.
Qed.
Lemma n_frac_scale_load c z L : c <> 0 -> n_frac (scale_load c z) (c * L) = n_frac z L.
Proof.
  intros Hc. unfold n_frac, scale_load.
  rewrite (filter_map_comm _ _ (fun r => Reqb (load r) L && frac r)); [apply map_length|].
  intros r. simpl. now rewrite Reqb_scale.
Qed.
Lemma n_tot_scale_cycles c z L : n_tot (scale_cycles c z) L = n_tot z L.
Proof. unfold n_tot, scale_cycles. rewrite (filter_map_comm _ _ (fun r => Reqb (load r) L)); [apply map_length|reflexivity]. Qed.
Lemma n_frac_scale_cycles c z L : n_frac (scale_cycles c z) L = n_frac z L.
Proof. unfold n_frac, scale_cycles. rewrite (filter_map_comm _ _ (fun r => Reqb (load r) L && frac r)); [apply map_length|reflexivity]. Qed.

Definition scale_level (c : R) (l : level) := Level (c * lload l) (nfrac l) (ntot l).

Lemma levels_scale_load c z : c <> 0 -> levels_of (scale_load c z) = map (scale_level c) (levels_of z).
Proof.
  intros Hc. unfold levels_of, level_loads. rewrite loads_scale_load.
  rewrite (nodup_map_inj Req_EM_T Req_EM_T (Rmult c)) by (intros x y E; now apply (Rmult_eq_reg_l c)).
  rewrite !map_map. apply map_ext. intros L. unfold scale_level. simpl.
  now rewrite n_frac_scale_load, n_tot_scale_load.
Qed.

Lemma levels_scale_cycles c z : levels_of (scale_cycles c z) = levels_of z.
Proof.
  unfold levels_of, level_loads. rewrite loads_scale_cycles. apply map_ext. intros L.
  now rewrite n_frac_scale_cycles, n_tot_scale_cycles.
Qed.

Lemma levels_perm a b : Permutation a b -> Permutation (levels_of a) (levels_of b).
Proof.
  intros H. unfold levels_of, level_loads.
  assert (E : forall L, Level L (n_frac a L) (n_tot a L) = Level L (n_frac b L) (n_tot b L)).
  { intros L. unfold n_frac, n_tot. f_equal; apply Permutation_length; now apply filter_perm. }
  rewrite (map_ext _ _ E). apply Permutation_map. apply nodup_perm. unfold loads. now apply Permutation_map.
Qed.

Lemma level_loads_pos z : (forall r, In r z -> 0 < load r) -> forall l, In l (levels_of z) -> 0 < lload l.
Proof.
  intros Hp l Hl. unfold levels_of in Hl. apply in_map_iff in Hl. destruct Hl as [L [<- HL]]. simpl.
  unfold level_loads in HL. apply nodup_In in HL. unfold loads in HL. apply in_map_iff in HL.
  destruct HL as [r [<- Hr]]. now apply Hp.
Qed.

Lemma probit_pts_scale ppf c lv : 0 < c -> (forall l, In l lv -> 0 < lload l) ->
  probit_pts ppf (map (scale_level c) lv) = shift_x (log10R c) (probit_pts ppf lv).
Proof.
  intros Hc Hp. unfold probit_pts, shift_x. rewrite !map_map. apply map_ext_in. intros l Hl. simpl.
  rewrite log10R_mult by (try assumption; now apply Hp). f_equal. ring.
Qed.

(* ---------------------------------------------------------------- the theorems *)
Section ProbitThms.
Variable ppf : R -> R.
Variable sortR : list R -> list R.
Hypothesis sort_perm : forall l, Permutation (sortR l) l.
Hypothesis sort_sorted : forall l, Sorted Rle (sortR l).

Definition probit_slope (d : data) : R := ols_slope (probit_pts ppf (levels_of (infinite_zone d))).

Lemma infinite_zone_pos d : positive d -> forall r, In r (infinite_zone d) -> 0 < load r.
Proof.
  intros Hp r Hr. apply (Hp r). eapply Permutation_in; [apply (zones_partition d)|]. apply in_or_app. now right.
Qed.

(* loads * c: SD * c; TS, k_1, TN unchanged; ND unchanged.  (When Probit falls back to the elementary curve,
   fewer than two infinite-zone levels, the elementary statements apply.) *)
Theorem probit_load_equivariant c d : 0 < c -> positive d -> finite_fractures d <> [] ->
  (2 <= length (levels_of (infinite_zone d)))%nat -> probit_slope d <> 0 ->
  let w := probit ppf sortR d in let w' := probit ppf sortR (scale_load c d) in
  SD w' = c * SD w /\ TS w' = TS w /\ k_1 w' = k_1 w /\ TN w' = TN w /\ ND w' = ND w.
Proof.
  intros Hc Hp Hne Hl Hs. cbv zeta. unfold probit, probit_core.
  rewrite infinite_zone_scale_load, levels_scale_load, map_length by lra.
  assert (Hlt : (length (levels_of (infinite_zone d)) <? 2)%nat = false) by (apply Nat.ltb_ge; exact Hl).
  rewrite Hlt.
  rewrite probit_pts_scale by (try assumption; apply level_loads_pos; now apply infinite_zone_pos).
  assert (Hn : probit_pts ppf (levels_of (infinite_zone d)) <> []).
  { unfold probit_pts. destruct (levels_of (infinite_zone d)); simpl in *; [inversion Hl|congruence]. }
  destruct (ols_shift_x (log10R c) _ Hn) as [E1 E2]. rewrite E1, E2.
  rewrite ff_scale_load by assumption.
  destruct (fit_scale_load c (finite_fractures d) Hc (positive_ff d Hp) Hne) as [F1 F2]. rewrite F1, F2.
  destruct (elementary_load_equivariant ppf sortR c d Hc Hp Hne) as [_ [K [T _]]]. cbv zeta in K, T.
  simpl. fold (probit_slope d) in *.
  set (sl := probit_slope d) in *. set (icp := ols_icpt (probit_pts ppf (levels_of (infinite_zone d)))).
  assert (ESD : Rpower 10 (- (icp - sl * log10R c) / sl) = c * Rpower 10 (- icp / sl)).
  { replace (- (icp - sl * log10R c) / sl) with (- icp / sl + log10R c) by (field; exact Hs).
    now apply Rpower10_plus_log. }
  rewrite ESD. repeat split; try assumption.
  assert (Hsd : 0 < Rpower 10 (- icp / sl)) by apply exp_pos.
  rewrite !transition_cycles_pos by nra. f_equal. rewrite log10R_mult by assumption. ring.
Qed.

Theorem probit_cycle_equivariant c d : 0 < c -> positive d -> finite_fractures d <> [] ->
  let w := probit ppf sortR d in let w' := probit ppf sortR (scale_cycles c d) in
  ND w' = c * ND w /\ SD w' = SD w /\ TS w' = TS w /\ k_1 w' = k_1 w /\ TN w' = TN w.
Proof.
  intros Hc Hp Hne. cbv zeta. unfold probit, probit_core.
  rewrite infinite_zone_scale_cycles, levels_scale_cycles, ff_scale_cycles.
  destruct (fit_scale_cycles c (finite_fractures d) Hc (positive_ff d Hp) Hne) as [F1 F2]. rewrite F1, F2.
  destruct (elementary_cycle_equivariant ppf sortR sort_perm sort_sorted c d Hc Hp Hne) as [N [S [K [T U]]]].
  cbv zeta in N, S, K, T, U.
  destruct (length (levels_of (infinite_zone d)) <? 2)%nat.
  - repeat split; assumption.
  - simpl. repeat split; try assumption. unfold transition_cycles.
    match goal with |- context [log10R (if ?a then ?b else ?c)] => set (x := log10R (if a then b else c)) end.
    replace (fit_icpt (finite_fractures d) + log10R c + fit_slope (finite_fractures d) * x)
      with ((fit_icpt (finite_fractures d) + fit_slope (finite_fractures d) * x) + log10R c) by ring.
    now apply Rpower10_plus_log.
Qed.

Theorem probit_perm_invariant a b : Permutation a b -> probit ppf sortR a = probit ppf sortR b.
Proof.
  intros H. unfold probit, probit_core.
  rewrite (elementary_perm_invariant ppf sortR sort_perm sort_sorted a b H).
  pose proof (ff_perm a b H) as Hf. destruct (ols_perm_invariant _ _ (pts_perm _ _ Hf)) as [Hs Hi].
  unfold fit_slope, fit_icpt. rewrite Hs, Hi.
  pose proof (levels_perm _ _ (infinite_zone_perm a b H)) as Hl.
  rewrite (Permutation_length Hl).
  assert (Hpp : Permutation (probit_pts ppf (levels_of (infinite_zone a))) (probit_pts ppf (levels_of (infinite_zone b))))
    by (unfold probit_pts; now apply Permutation_map).
  destruct (ols_perm_invariant _ _ Hpp) as [P1 P2]. now rewrite P1, P2.
Qed.

End ProbitThms.

(* ---------------------------------------------------------------- certificate interface *)
Definition probit_wc (s ic psl pic : R) (w : wcurve) : wcurve :=
  WC (k_1 w) (transition_cycles s ic (Rpower 10 (- pic / psl))) (Rpower 10 (- pic / psl)) (TN w)
     (std_to_scattering_range (1 / psl)).
Definition probit_pts_z (lv : list level) (zs : list R) : list (R * R) := combine (map (fun l => log10R (lload l)) lv) zs.

Lemma probit_pts_as_z ppf lv :
  probit_pts ppf lv = probit_pts_z lv (map (fun l => ppf (rossow_level (nfrac l) (ntot l))) lv).
Proof. unfold probit_pts, probit_pts_z. induction lv; simpl; [reflexivity|]. now rewrite IHlv. Qed.

Lemma probit_staged ppf sortR d LV zs :
  levels_of (infinite_zone d) = LV -> (2 <= length LV)%nat ->
  map (fun l => ppf (rossow_level (nfrac l) (ntot l))) LV = zs ->
  probit ppf sortR d =
  probit_wc (fit_slope (finite_fractures d)) (fit_icpt (finite_fractures d))
            (ols_slope (probit_pts_z LV zs)) (ols_icpt (probit_pts_z LV zs)) (elementary ppf sortR d).
Proof.
  intros HL Hn Hz. unfold probit, probit_core. rewrite HL.
  assert (Hlt : (length LV <? 2)%nat = false) by (apply Nat.ltb_ge; exact Hn). rewrite Hlt.
  rewrite probit_pts_as_z, Hz. reflexivity.
Qed.
