(* C18: the elementary Woehler estimate (elementary.py Elementary._common_analysis, pearl_chain.py,
   probability_data.py ProbabilityFit, utils/functions.py rossow_cumfreqs / std_to_scattering_range).
   numpy's sort and scipy's norm.ppf enter as Section variables; sort with the contract
   "an ordered permutation of its input", ppf with no contract at all (no theorem needs one). *)
From Coq Require Import Reals Lra List Permutation Sorted Bool.
From PL Require Import Common.RPrelude WFit.OLS WFit.Zones.
Import ListNotations.
Open Scope R_scope.

(* ---------------------------------------------------------------- sorted lists are unique *)
Lemma Sorted_Rle_strong l : Sorted Rle l -> StronglySorted Rle l.
Proof. apply Sorted_StronglySorted. intros x y z; apply Rle_trans. Qed.

Lemma sorted_perm_eq l1 l2 : Sorted Rle l1 -> Sorted Rle l2 -> Permutation l1 l2 -> l1 = l2.
Proof.
  intros H1 H2. apply Sorted_Rle_strong in H1. apply Sorted_Rle_strong in H2.
  revert l2 H2. induction H1 as [|x t1 Ht1 IH Hx]; intros l2 H2 HP.
  - apply Permutation_nil in HP. now subst.
  - destruct H2 as [|y t2 Ht2 Hy].
    + apply Permutation_sym, Permutation_nil in HP. discriminate.
    + assert (x = y).
      { assert (In x (y :: t2)) by (eapply Permutation_in; [exact HP|now left]).
        assert (In y (x :: t1)) by (eapply Permutation_in; [apply Permutation_sym; exact HP|now left]).
        rewrite Forall_forall in Hx, Hy.
        destruct H as [->|H]; [reflexivity|]. destruct H0 as [->|H0]; [reflexivity|].
        apply Rle_antisym; [now apply Hx|now apply Hy]. }
      subst y. f_equal. apply IH; [assumption|]. eapply Permutation_cons_inv; exact HP.
Qed.

Lemma Sorted_map_scale c l : 0 < c -> Sorted Rle l -> Sorted Rle (map (Rmult c) l).
Proof.
  intros Hc. induction 1 as [|x t Ht IH Hx]; simpl; [constructor|]. constructor; [assumption|].
  destruct Hx; simpl; constructor. apply Rmult_le_compat_l; lra.
Qed.

(* ---------------------------------------------------------------- logarithms *)
Lemma ln10_pos : 0 < ln 10.
Proof. rewrite <- ln_1. apply ln_increasing; lra. Qed.

Lemma log10R_mult a b : 0 < a -> 0 < b -> log10R (a * b) = log10R a + log10R b.
Proof. intros Ha Hb. unfold log10R. rewrite ln_mult by assumption. pose proof ln10_pos. field. lra. Qed.

Lemma log10R_Rpower a y : 0 < a -> log10R (Rpower a y) = y * log10R a.
Proof. intros Ha. unfold log10R, Rpower. rewrite ln_exp. pose proof ln10_pos. field. lra. Qed.

Lemma log10R_inj a b : 0 < a -> 0 < b -> log10R a = log10R b -> a = b.
Proof.
  intros Ha Hb H. unfold log10R in H. pose proof ln10_pos. apply ln_inv; try assumption.
  apply (Rmult_eq_reg_r (/ ln 10)); [exact H|]. apply Rinv_neq_0_compat. lra.
Qed.

Lemma Rpower10_log10R a : 0 < a -> Rpower 10 (log10R a) = a.
Proof.
  intros Ha. unfold Rpower, log10R. pose proof ln10_pos.
  replace (ln a / ln 10 * ln 10) with (ln a) by (field; lra). now apply exp_ln.
Qed.

Lemma Rpower10_mul_log a y : Rpower 10 (y * log10R a) = Rpower a y.
Proof.
  unfold Rpower, log10R. pose proof ln10_pos. f_equal. field. lra.
Qed.

Lemma Rpower10_plus_log a x : 0 < a -> Rpower 10 (x + log10R a) = a * Rpower 10 x.
Proof. intros Ha. rewrite Rpower_plus, Rpower10_log10R by assumption. ring. Qed.

(* ---------------------------------------------------------------- the estimator *)
Record wcurve := WC { k_1 : R; ND : R; SD : R; TN : R; TS : R }.

Definition pts (f : data) : list (R * R) := map (fun r => (log10R (load r), log10R (cycles r))) f.
Definition fit_slope (f : data) : R := ols_slope (pts f).          (* Elementary._fit_slope *)
Definition fit_icpt (f : data) : R := ols_icpt (pts f).

(* Elementary._transition_cycles, including the SD = 0 |-> 0.1 substitution (FIXME in the source) *)
Definition transition_cycles (slope icpt sd : R) : R :=
  Rpower 10 (icpt + slope * log10R (if Req_EM_T sd 0 then 1 / 10 else sd)).

(* PearlChainProbability.__init__ *)
Definition normed_load (f : data) : R := mean (loads f).
Definition normed_cycles (slope : R) (f : data) : list R :=
  map (fun r => cycles r * npow (normed_load f / load r) slope) f.

(* rossow_cumfreqs(N) *)
Definition rossow (n : nat) : list R := map (fun i => (3 * INR i - 1) / (3 * INR n + 1)) (seq 1 n).

(* ProbabilityFit: regression of the percentiles on log10 of the occurrences *)
Definition probfit_pts (occ zs : list R) : list (R * R) := combine (map log10R occ) zs.
Definition probfit_slope (occ zs : list R) : R := ols_slope (probfit_pts occ zs).
Definition probfit_icpt (occ zs : list R) : R := ols_icpt (probfit_pts occ zs).

Definition std_to_scattering_range (s : R) : R := Rpower 10 (25631031310892007 / 10000000000000000 * s).

(* everything after sorting / ppf: what the certificates evaluate *)
Definition elementary_core (ff : data) (sd : R) (sorted_normed zs : list R) : wcurve :=
  let s := fit_slope ff in
  let tn := std_to_scattering_range (1 / probfit_slope sorted_normed zs) in
  WC (- s) (transition_cycles s (fit_icpt ff) sd) sd tn (npow tn (1 / - s)).

Definition finite_fractures (d : data) : data := fractures (finite_zone d).

Section Estimator.
Variable ppf : R -> R.
Variable sortR : list R -> list R.
Hypothesis sort_perm : forall l, Permutation (sortR l) l.
Hypothesis sort_sorted : forall l, Sorted Rle (sortR l).

Definition elementary (d : data) : wcurve :=
  let ff := finite_fractures d in
  elementary_core ff (transition d) (sortR (normed_cycles (fit_slope ff) ff)) (map ppf (rossow (length ff))).

Lemma sort_unique l s : Sorted Rle s -> Permutation s l -> sortR l = s.
Proof.
  intros H1 H2. apply sorted_perm_eq; [apply sort_sorted|assumption|].
  eapply Permutation_trans; [apply sort_perm|now apply Permutation_sym].
Qed.

Lemma sort_of_perm a b : Permutation a b -> sortR a = sortR b.
Proof. intros H. apply sort_unique; [apply sort_sorted|]. eapply Permutation_trans; [apply sort_perm|now apply Permutation_sym]. Qed.

Lemma sort_scale c l : 0 < c -> sortR (map (Rmult c) l) = map (Rmult c) (sortR l).
Proof.
  intros Hc. apply sort_unique; [apply Sorted_map_scale; [assumption|apply sort_sorted]|].
  apply Permutation_map. apply sort_perm.
Qed.

(* ------------------------------------------------------------ admissible data: positive loads and cycles *)
Definition positive (d : data) : Prop := forall r, In r d -> 0 < load r /\ 0 < cycles r.

Lemma positive_filter p d : positive d -> positive (filter p d).
Proof. intros H r Hr. apply filter_In in Hr. apply H. tauto. Qed.

Lemma positive_ff d : positive d -> positive (finite_fractures d).
Proof.
  intros H. unfold finite_fractures, fractures. apply positive_filter.
  unfold finite_zone. destruct (runouts d); [assumption|]. now apply positive_filter.
Qed.

Lemma positive_perm a b : Permutation a b -> positive a -> positive b.
Proof. intros HP H r Hr. apply H. eapply Permutation_in; [apply Permutation_sym; exact HP|exact Hr]. Qed.

(* ------------------------------------------------------------ behaviour of the pieces under scaling *)
Lemma pts_scale_load c f : 0 < c -> positive f -> pts (scale_load c f) = shift_x (log10R c) (pts f).
Proof.
  intros Hc Hp. unfold pts, scale_load, shift_x. rewrite !map_map. apply map_ext_in. intros r Hr. simpl.
  destruct (Hp r Hr). rewrite log10R_mult by assumption. f_equal. ring.
Qed.

Lemma pts_scale_cycles c f : 0 < c -> positive f -> pts (scale_cycles c f) = shift_y (log10R c) (pts f).
Proof.
  intros Hc Hp. unfold pts, scale_cycles, shift_y. rewrite !map_map. apply map_ext_in. intros r Hr. simpl.
  destruct (Hp r Hr). rewrite log10R_mult by assumption. f_equal. ring.
Qed.

Lemma pts_ne f : f <> [] -> pts f <> [].
Proof. destruct f; simpl; congruence. Qed.

Lemma fit_scale_load c f : 0 < c -> positive f -> f <> [] ->
  fit_slope (scale_load c f) = fit_slope f /\ fit_icpt (scale_load c f) = fit_icpt f - fit_slope f * log10R c.
Proof. intros Hc Hp Hn. unfold fit_slope, fit_icpt. rewrite pts_scale_load by assumption. apply ols_shift_x. now apply pts_ne. Qed.

Lemma fit_scale_cycles c f : 0 < c -> positive f -> f <> [] ->
  fit_slope (scale_cycles c f) = fit_slope f /\ fit_icpt (scale_cycles c f) = fit_icpt f + log10R c.
Proof. intros Hc Hp Hn. unfold fit_slope, fit_icpt. rewrite pts_scale_cycles by assumption. apply ols_shift_y. now apply pts_ne. Qed.

Lemma normed_load_scale_load c f : normed_load (scale_load c f) = c * normed_load f.
Proof. unfold normed_load. rewrite loads_scale_load. apply mean_scal. Qed.

Lemma normed_cycles_scale_load c s f : 0 < c -> positive f -> normed_cycles s (scale_load c f) = normed_cycles s f.
Proof.
  intros Hc Hp. unfold normed_cycles. rewrite normed_load_scale_load. unfold scale_load. rewrite map_map.
  apply map_ext_in. intros r Hr. simpl. destruct (Hp r Hr). f_equal. f_equal. field. lra.
Qed.

Lemma normed_cycles_scale_cycles c s f : normed_cycles s (scale_cycles c f) = map (Rmult c) (normed_cycles s f).
Proof.
  unfold normed_cycles, normed_load. rewrite loads_scale_cycles. unfold scale_cycles. rewrite !map_map.
  apply map_ext. intros r. simpl. ring.
Qed.

Lemma rsum_pos l : l <> [] -> (forall x, In x l -> 0 < x) -> 0 < rsum l.
Proof.
  induction l as [|x t IH]; [congruence|]. intros _ H. simpl. destruct t as [|y t'].
  - simpl. pose proof (H x (or_introl eq_refl)). lra.
  - pose proof (H x (or_introl eq_refl)). assert (0 < rsum (y :: t')).
    { apply IH; [congruence|]. intros; apply H; now right. } lra.
Qed.

Lemma normed_load_pos f : f <> [] -> positive f -> 0 < normed_load f.
Proof.
  intros Hn Hp. unfold normed_load, mean. apply Rdiv_lt_0_compat.
  - apply rsum_pos; [unfold loads; destruct f; simpl; congruence|].
    intros x Hx. unfold loads in Hx. apply in_map_iff in Hx. destruct Hx as [r [<- Hr]]. apply (Hp r Hr).
  - apply rlen_pos. unfold loads. destruct f; simpl; congruence.
Qed.

Lemma normed_cycles_pos s f : positive f -> forall x, In x (normed_cycles s f) -> 0 < x.
Proof.
  intros Hp x Hx. unfold normed_cycles in Hx. apply in_map_iff in Hx. destruct Hx as [r [<- Hr]].
  destruct (Hp r Hr). apply Rmult_lt_0_compat; [assumption|]. apply npow_gt0. apply Rdiv_lt_0_compat; [|assumption].
  apply normed_load_pos; [destruct f; [contradiction|congruence]|assumption].
Qed.

Lemma combine_map_l {A B C} (f : A -> B) (l : list A) (m : list C) :
  combine (map f l) m = map (fun p => (f (fst p), snd p)) (combine l m).
Proof. revert m. induction l; intros [|c m]; simpl; try reflexivity. now rewrite IHl. Qed.

Lemma probfit_pts_scale c occ zs : 0 < c -> (forall x, In x occ -> 0 < x) ->
  probfit_pts (map (Rmult c) occ) zs = shift_x (log10R c) (probfit_pts occ zs).
Proof.
  intros Hc Hp. unfold probfit_pts, shift_x. rewrite map_map, !combine_map_l, map_map.
  apply map_ext_in. intros [x z] Hin. simpl. apply in_combine_l in Hin.
  rewrite log10R_mult by (try assumption; now apply Hp). f_equal. ring.
Qed.

Lemma probfit_slope_scale c occ zs : 0 < c -> (forall x, In x occ -> 0 < x) ->
  probfit_slope (map (Rmult c) occ) zs = probfit_slope occ zs.
Proof.
  intros Hc Hp. unfold probfit_slope. rewrite probfit_pts_scale by assumption.
  destruct (probfit_pts occ zs) eqn:E; [reflexivity|]. apply ols_shift_x. congruence.
Qed.

(* ------------------------------------------------------------ finite fractures under scaling / permutation *)
Lemma ff_scale_load c d : 0 < c -> finite_fractures (scale_load c d) = scale_load c (finite_fractures d).
Proof. intros Hc. unfold finite_fractures. now rewrite finite_zone_scale_load, fractures_scale_load. Qed.
Lemma ff_scale_cycles c d : finite_fractures (scale_cycles c d) = scale_cycles c (finite_fractures d).
Proof. unfold finite_fractures. now rewrite finite_zone_scale_cycles, fractures_scale_cycles. Qed.
Lemma ff_perm a b : Permutation a b -> Permutation (finite_fractures a) (finite_fractures b).
Proof. intros H. unfold finite_fractures, fractures. apply filter_perm. now apply finite_zone_perm. Qed.

Lemma scale_load_length c d : length (scale_load c d) = length d.
Proof. unfold scale_load. apply map_length. Qed.
Lemma scale_cycles_length c d : length (scale_cycles c d) = length d.
Proof. unfold scale_cycles. apply map_length. Qed.
Lemma scale_load_nil c d : d <> [] -> scale_load c d <> [].
Proof. destruct d; simpl; congruence. Qed.

Lemma lmin_pos l : l <> [] -> (forall x, In x l -> 0 < x) -> 0 < lmin l.
Proof. intros Hn H. apply H. now apply lmin_in. Qed.
Lemma lmax_pos l : l <> [] -> (forall x, In x l -> 0 < x) -> 0 < lmax l.
Proof. intros Hn H. apply H. now apply lmax_in. Qed.

Lemma transition_pos d : (forall r, In r d -> 0 < load r) -> runouts d <> [] -> finite_zone d <> [] -> 0 < transition d.
Proof.
  intros Hp Hr Hf. unfold transition. destruct (runouts d) as [|r0 t0] eqn:ER; [congruence|].
  destruct (finite_zone d) as [|f0 t1] eqn:EF; [congruence|].
  assert (0 < lmin (loads (f0 :: t1))).
  { apply lmin_pos; [simpl; congruence|]. intros x Hx. unfold loads in Hx. apply in_map_iff in Hx.
    destruct Hx as [z [<- Hz]]. apply Hp. rewrite <- EF in Hz.
    eapply Permutation_in; [apply (zones_partition d)|]. apply in_or_app. now left. }
  assert (0 < max_runout_load d).
  { unfold max_runout_load. rewrite ER. apply lmax_pos; [simpl; congruence|]. intros x Hx. unfold loads in Hx.
    apply in_map_iff in Hx. destruct Hx as [z [<- Hz]]. apply Hp. rewrite <- ER in Hz.
    unfold runouts in Hz. apply filter_In in Hz. tauto. }
  lra.
Qed.

(* ------------------------------------------------------------ load equivariance *)
(* loads * c:  SD * c;  k_1, TN, TS unchanged;  ND unchanged whenever an endurance limit is reported
   (run-outs present).  Without run-outs SD = 0 is reported and ND is the cycle number at the FIXED load 0.1
   (whatever the unit), so it changes by c^k_1: stated exactly in elementary_load_no_runouts_ND. *)
Theorem elementary_load_equivariant c d : 0 < c -> positive d -> finite_fractures d <> [] ->
  let w := elementary d in let w' := elementary (scale_load c d) in
  SD w' = c * SD w /\ k_1 w' = k_1 w /\ TN w' = TN w /\ TS w' = TS w /\ (runouts d <> [] -> ND w' = ND w).
Proof.
  intros Hc Hp Hne. cbv zeta. unfold elementary, elementary_core. simpl.
  rewrite ff_scale_load, scale_load_length by assumption.
  pose proof (positive_ff d Hp) as Hpf.
  destruct (fit_scale_load c (finite_fractures d) Hc Hpf Hne) as [Hs Hi].
  rewrite Hs, Hi, normed_cycles_scale_load by assumption.
  repeat split; try reflexivity.
  - now apply transition_scale_load.
  - intros Hr. rewrite transition_scale_load by assumption. unfold transition_cycles.
    assert (Ht : 0 < transition d).
    { apply transition_pos; [intros r Hr0; apply (Hp r Hr0)|assumption|].
      intros EF. apply Hne. unfold finite_fractures. now rewrite EF. }
    destruct (Req_EM_T (c * transition d) 0) as [E0|_]; [exfalso; nra|].
    destruct (Req_EM_T (transition d) 0) as [E0|_]; [lra|].
    f_equal. rewrite log10R_mult by assumption. ring.
Qed.

Theorem elementary_load_no_runouts_ND c d : 0 < c -> positive d -> finite_fractures d <> [] -> runouts d = [] ->
  ND (elementary (scale_load c d)) = ND (elementary d) * Rpower c (k_1 (elementary d)).
Proof.
  intros Hc Hp Hne Hr. unfold elementary, elementary_core. simpl.
  rewrite ff_scale_load by assumption.
  destruct (fit_scale_load c (finite_fractures d) Hc (positive_ff d Hp) Hne) as [Hs Hi]. rewrite Hs, Hi.
  assert (T0 : transition d = 0) by (unfold transition; now rewrite Hr).
  assert (T1 : transition (scale_load c d) = 0) by (rewrite transition_scale_load by assumption; rewrite T0; ring).
  unfold transition_cycles. rewrite T0, T1. destruct (Req_EM_T 0 0) as [_|N]; [|congruence].
  rewrite <- (Rpower10_mul_log c (- fit_slope (finite_fractures d))), <- Rpower_plus. f_equal. ring.
Qed.

(* ------------------------------------------------------------ cycle equivariance *)
Theorem elementary_cycle_equivariant c d : 0 < c -> positive d -> finite_fractures d <> [] ->
  let w := elementary d in let w' := elementary (scale_cycles c d) in
  ND w' = c * ND w /\ SD w' = SD w /\ k_1 w' = k_1 w /\ TN w' = TN w /\ TS w' = TS w.
Proof.
  intros Hc Hp Hne. cbv zeta. unfold elementary, elementary_core. simpl.
  rewrite ff_scale_cycles, scale_cycles_length, transition_scale_cycles.
  pose proof (positive_ff d Hp) as Hpf.
  destruct (fit_scale_cycles c (finite_fractures d) Hc Hpf Hne) as [Hs Hi].
  rewrite Hs, Hi, normed_cycles_scale_cycles, sort_scale by assumption.
  rewrite probfit_slope_scale; try assumption.
  - repeat split; try reflexivity. unfold transition_cycles.
    replace (fit_icpt (finite_fractures d) + log10R c + fit_slope (finite_fractures d) * log10R (if Req_EM_T (transition d) 0 then 1 / 10 else transition d))
      with ((fit_icpt (finite_fractures d) + fit_slope (finite_fractures d) * log10R (if Req_EM_T (transition d) 0 then 1 / 10 else transition d)) + log10R c) by ring.
    now apply Rpower10_plus_log.
  - intros x Hx. apply (normed_cycles_pos (fit_slope (finite_fractures d)) (finite_fractures d) Hpf).
    eapply Permutation_in; [apply sort_perm|exact Hx].
Qed.

(* ------------------------------------------------------------ permutation invariance *)
Lemma pts_perm a b : Permutation a b -> Permutation (pts a) (pts b).
Proof. intros H. unfold pts. now apply Permutation_map. Qed.

Theorem elementary_perm_invariant a b : Permutation a b -> elementary a = elementary b.
Proof.
  intros H. unfold elementary, elementary_core. pose proof (ff_perm a b H) as Hf.
  destruct (ols_perm_invariant _ _ (pts_perm _ _ Hf)) as [Hs Hi].
  unfold fit_slope, fit_icpt. rewrite Hs, Hi, (transition_perm a b H), (Permutation_length Hf).
  assert (Hn : sortR (normed_cycles (ols_slope (pts (finite_fractures b))) (finite_fractures a))
             = sortR (normed_cycles (ols_slope (pts (finite_fractures b))) (finite_fractures b))).
  { apply sort_of_perm. unfold normed_cycles, normed_load.
    unfold loads. rewrite (mean_perm _ _ (Permutation_map load Hf)). now apply Permutation_map. }
  rewrite Hn. reflexivity.
Qed.

(* ------------------------------------------------------------ data exactly on a Basquin line *)
(* N = A * L^(-k) for every finite-zone fracture, at least two different load levels:
   the slope is returned exactly (k_1 = k), the knee lies on the line, and all pearl-chain cycle numbers
   coincide (zero scatter: the probability regression is then degenerate, var x = 0; "TN = TS = 1" is the
   floating-point limit and is decided on the implementation). *)
Definition on_basquin_line (A k : R) (f : data) : Prop :=
  forall r, In r f -> cycles r = A * Rpower (load r) (- k).

Lemma basquin_fit A k f r1 r2 : 0 < A -> positive f -> on_basquin_line A k f ->
  In r1 f -> In r2 f -> load r1 <> load r2 -> fit_slope f = - k /\ fit_icpt f = log10R A.
Proof.
  intros HA Hp Hl H1 H2 Hd. unfold fit_slope, fit_icpt. apply ols_line.
  - intros p Hpn. unfold pts in Hpn. apply in_map_iff in Hpn. destruct Hpn as [r [<- Hr]]. simpl.
    destruct (Hp r Hr). rewrite (Hl r Hr), log10R_mult, log10R_Rpower; try assumption; [ring|apply exp_pos].
  - apply pts_ne. destruct f; [contradiction|congruence].
  - apply Rgt_not_eq. apply (ssxm_pos_of_two _ (log10R (load r1), log10R (cycles r1)) (log10R (load r2), log10R (cycles r2))).
    + unfold pts. apply in_map_iff. now exists r1.
    + unfold pts. apply in_map_iff. now exists r2.
    + simpl. intros E. apply Hd. apply log10R_inj; [apply (Hp r1 H1)|apply (Hp r2 H2)|exact E].
Qed.

Theorem exact_basquin_line_recovered A k d r1 r2 : 0 < A -> positive d ->
  on_basquin_line A k (finite_fractures d) ->
  In r1 (finite_fractures d) -> In r2 (finite_fractures d) -> load r1 <> load r2 ->
  k_1 (elementary d) = k /\
  (0 < transition d -> ND (elementary d) = A * Rpower (SD (elementary d)) (- k)) /\
  (forall x, In x (normed_cycles (fit_slope (finite_fractures d)) (finite_fractures d)) ->
             x = A * Rpower (normed_load (finite_fractures d)) (- k)).
Proof.
  intros HA Hp Hl H1 H2 Hd. pose proof (positive_ff d Hp) as Hpf.
  destruct (basquin_fit A k _ r1 r2 HA Hpf Hl H1 H2 Hd) as [Hs Hi].
  assert (Hne : finite_fractures d <> []) by (destruct (finite_fractures d); [contradiction|congruence]).
  pose proof (normed_load_pos _ Hne Hpf) as Hm.
  unfold elementary, elementary_core. simpl. rewrite Hs, Hi. repeat split.
  - ring.
  - intros Ht. unfold transition_cycles. destruct (Req_EM_T (transition d) 0); [lra|].
    rewrite Rplus_comm, Rpower10_plus_log by assumption. f_equal.
    unfold Rpower at 1. unfold log10R. pose proof ln10_pos.
    replace (- k * (ln (transition d) / ln 10) * ln 10) with (- k * ln (transition d)) by (field; lra). reflexivity.
  - intros x Hx. unfold normed_cycles in Hx. apply in_map_iff in Hx. destruct Hx as [r [<- Hr]].
    destruct (Hpf r Hr) as [HL HN]. rewrite (Hl r Hr).
    rewrite npow_pos by (apply Rdiv_lt_0_compat; assumption).
    assert (HiL : 0 < / load r) by now apply Rinv_0_lt_compat.
    assert (E : Rpower (normed_load (finite_fractures d) * / load r) (- k)
                = Rpower (normed_load (finite_fractures d)) (- k) * Rpower (/ load r) (- k))
      by (symmetry; now apply Rpower_mult_distr).
    assert (E2 : Rpower (load r) (- k) * Rpower (/ load r) (- k) = 1).
    { rewrite Rpower_mult_distr by assumption. rewrite Rinv_r by lra.
      unfold Rpower. rewrite ln_1, Rmult_0_r. apply exp_0. }
    unfold Rdiv. rewrite E.
    transitivity (A * Rpower (normed_load (finite_fractures d)) (- k) * (Rpower (load r) (- k) * Rpower (/ load r) (- k)));
      [ring|rewrite E2; ring].
Qed.

End Estimator.

(* ---------------------------------------------------------------- certificate interface
   The per-run certificates evaluate the estimator in stages (exact zone lists, then interval enclosures of
   slope / intercept / mean load, then the scatter regression with those as enclosed variables).
   elementary_staged says that the stages compose to the model's result. *)
Definition normed_cycles_m (m slope : R) (f : data) : list R :=
  map (fun r => cycles r * npow (m / load r) slope) f.

Definition pearl_TN (sorted_normed zs : list R) : R := std_to_scattering_range (1 / probfit_slope sorted_normed zs).
Definition wc_core (s ic sd tn : R) : wcurve := WC (- s) (transition_cycles s ic sd) sd tn (npow tn (1 / - s)).

Fixpoint ascending (l : list R) : Prop :=
  match l with
  | x :: (y :: _) as t => x <= y /\ ascending t
  | _ => True
  end.

Lemma ascending_sorted l : ascending l -> Sorted Rle l.
Proof.
  induction l as [|x t IH]; [constructor|]. destruct t as [|y t'].
  - intros _. repeat constructor.
  - intros [H1 H2]. constructor; [now apply IH|]. constructor. exact H1.
Qed.

Lemma elementary_staged ppf sortR
  (sort_perm : forall l, Permutation (sortR l) l) (sort_sorted : forall l, Sorted Rle (sortR l))
  d FF T :
  finite_fractures d = FF -> transition d = T ->
  ascending (normed_cycles_m (normed_load FF) (fit_slope FF) FF) ->
  elementary ppf sortR d =
  wc_core (fit_slope FF) (fit_icpt FF) T
          (pearl_TN (normed_cycles_m (normed_load FF) (fit_slope FF) FF) (map ppf (rossow (length FF)))).
Proof.
  intros HF HT HA. unfold elementary, elementary_core, wc_core, pearl_TN. rewrite HF, HT.
  change (normed_cycles (fit_slope FF) FF) with (normed_cycles_m (normed_load FF) (fit_slope FF) FF).
  rewrite (sort_unique sortR sort_perm sort_sorted _ _ (ascending_sorted _ HA) (Permutation_refl _)). reflexivity.
Qed.

Lemma transition_cycles_pos s ic sd : 0 < sd -> transition_cycles s ic sd = Rpower 10 (ic + s * log10R sd).
Proof. intros H. unfold transition_cycles. destruct (Req_EM_T sd 0); [lra|reflexivity]. Qed.
Lemma transition_cycles_0 s ic : transition_cycles s ic 0 = Rpower 10 (ic + s * log10R (1 / 10)).
Proof. unfold transition_cycles. destruct (Req_EM_T 0 0); [reflexivity|congruence]. Qed.

(* stepwise evaluation of the zone filters on literal rows *)
Lemma fm_in lim r l : frac r = true -> lim < load r -> finite_manual lim (r :: l) = r :: finite_manual lim l.
Proof. intros H1 H2. unfold finite_manual. simpl. rewrite H1. apply Rltb_true in H2. now rewrite H2. Qed.
Lemma fm_out_runout lim r l : frac r = false -> finite_manual lim (r :: l) = finite_manual lim l.
Proof. intros H1. unfold finite_manual. simpl. now rewrite H1. Qed.
Lemma fm_out_low lim r l : load r <= lim -> finite_manual lim (r :: l) = finite_manual lim l.
Proof. intros H2. unfold finite_manual. simpl. apply Rltb_false in H2. rewrite H2. now rewrite andb_false_r. Qed.
Lemma fm_nil lim : finite_manual lim [] = [].
Proof. reflexivity. Qed.
Lemma im_in lim r l : load r <= lim -> infinite_manual lim (r :: l) = r :: infinite_manual lim l.
Proof. intros H. unfold infinite_manual. simpl. apply Rleb_true in H. now rewrite H. Qed.
Lemma im_out lim r l : lim < load r -> infinite_manual lim (r :: l) = infinite_manual lim l.
Proof. intros H. unfold infinite_manual. simpl. apply Rleb_false in H. now rewrite H. Qed.
Lemma im_nil lim : infinite_manual lim [] = [].
Proof. reflexivity. Qed.

Lemma finite_zone_runouts d r t : runouts d = r :: t -> finite_zone d = finite_manual (max_runout_load d) d.
Proof. intros H. unfold finite_zone. now rewrite H. Qed.
Lemma infinite_zone_runouts d r t : runouts d = r :: t -> infinite_zone d = infinite_manual (max_runout_load d) d.
Proof. intros H. unfold infinite_zone. now rewrite H. Qed.
Lemma transition_runouts_finite d r t f ft : runouts d = r :: t -> finite_zone d = f :: ft ->
  transition d = (lmin (loads (f :: ft)) + max_runout_load d) / 2.
Proof. intros H1 H2. unfold transition. now rewrite H1, H2. Qed.
Lemma transition_runouts_nofinite d r t : runouts d = r :: t -> finite_zone d = [] -> transition d = guess_transition d.
Proof. intros H1 H2. unfold transition. now rewrite H1, H2. Qed.
Lemma transition_no_runouts d : runouts d = [] -> transition d = 0.
Proof. intros H. unfold transition. now rewrite H. Qed.

Ltac in_list := simpl; repeat first [left; reflexivity | right]; fail.
Ltac all_le := intros ?y ?Hy; simpl in Hy; repeat (destruct Hy as [Hy|Hy]; [subst; lra|]); try contradiction.
Ltac eval_lmax := apply lmax_unique; [in_list | all_le].
Ltac eval_lmin := apply lmin_unique; [in_list | all_le].
Ltac eval_fm := repeat first [ rewrite fm_in by (simpl; first [reflexivity | lra])
                             | rewrite fm_out_runout by (simpl; reflexivity)
                             | rewrite fm_out_low by (simpl; lra)
                             | rewrite fm_nil ].
Ltac eval_im := repeat first [ rewrite im_in by (simpl; lra) | rewrite im_out by (simpl; lra) | rewrite im_nil ].

(* ---------------------------------------------------------------- the contracts / hypotheses are satisfiable *)
Fixpoint insertR (x : R) (l : list R) : list R :=
  match l with [] => [x] | y :: t => if Rle_dec x y then x :: l else y :: insertR x t end.
Fixpoint isortR (l : list R) : list R := match l with [] => [] | x :: t => insertR x (isortR t) end.

Lemma insertR_perm x l : Permutation (insertR x l) (x :: l).
Proof.
  induction l as [|y t IH]; simpl; [apply Permutation_refl|]. destruct (Rle_dec x y); [apply Permutation_refl|].
  eapply Permutation_trans; [apply perm_skip; exact IH|apply perm_swap].
Qed.
Lemma isortR_perm l : Permutation (isortR l) l.
Proof. induction l; simpl; [constructor|]. eapply Permutation_trans; [apply insertR_perm|now constructor]. Qed.
Lemma insertR_sorted x l : Sorted Rle l -> Sorted Rle (insertR x l).
Proof.
  induction 1 as [|y t Ht IH Hy]; simpl; [repeat constructor|]. destruct (Rle_dec x y).
  - constructor; [now constructor|]. now constructor.
  - constructor; [exact IH|]. destruct t as [|z t']; simpl.
    + constructor. lra.
    + destruct (Rle_dec x z); constructor; [lra|]. inversion Hy; assumption.
Qed.
Lemma isortR_sorted l : Sorted Rle (isortR l).
Proof. induction l; simpl; [constructor|now apply insertR_sorted]. Qed.

Lemma sort_contract_satisfiable : exists sortR : list R -> list R,
  (forall l, Permutation (sortR l) l) /\ (forall l, Sorted Rle (sortR l)).
Proof. exists isortR. split; [exact isortR_perm|exact isortR_sorted]. Qed.

Definition ex_rows : data :=
  [Row 1 10000000 false; Row 2 (1000000 * Rpower 2 (- 2)) true; Row 4 (1000000 * Rpower 4 (- 2)) true].

Lemma ex_ff : finite_fractures ex_rows = [Row 2 (1000000 * Rpower 2 (- 2)) true; Row 4 (1000000 * Rpower 4 (- 2)) true].
Proof.
  assert (HR : runouts ex_rows = [Row 1 10000000 false]) by reflexivity.
  assert (HM : max_runout_load ex_rows = 1) by (unfold max_runout_load; rewrite HR; reflexivity).
  unfold finite_fractures. rewrite (finite_zone_runouts _ _ _ HR), HM. unfold ex_rows. eval_fm. reflexivity.
Qed.

Lemma hypotheses_satisfiable : exists d r1 r2,
  positive d /\ runouts d <> [] /\ on_basquin_line 1000000 2 (finite_fractures d) /\
  In r1 (finite_fractures d) /\ In r2 (finite_fractures d) /\ load r1 <> load r2.
Proof.
  exists ex_rows, (Row 2 (1000000 * Rpower 2 (- 2)) true), (Row 4 (1000000 * Rpower 4 (- 2)) true).
  rewrite ex_ff. repeat split.
  - destruct H as [<-|[<-|[<-|[]]]]; simpl; lra.
  - destruct H as [<-|[<-|[<-|[]]]]; simpl; try lra; apply Rmult_lt_0_compat; try lra; apply exp_pos.
  - discriminate.
  - intros r [<-|[<-|[]]]; reflexivity.
  - now left.
  - right; now left.
  - simpl. lra.
Qed.

(* ---------------------------------------------------------------- the knee of MaxLikeInf
   MaxLikeInf._specific_analysis keeps the elementary slope and intercept and reports ND = _transition_cycles(SD) for the
   endurance limit SD its optimiser returned: the knee is the elementary line evaluated at SD.  Whatever SD the optimiser
   returns, the knee follows the unit of the cycle axis exactly, is independent of the load unit, and moves with an error
   factor q of SD by exactly q^slope = q^(-k_1) -- the only way in which optimiser noise can reach ND. *)
Definition knee_at (d : data) (sd : R) : R :=
  transition_cycles (fit_slope (finite_fractures d)) (fit_icpt (finite_fractures d)) sd.

Theorem knee_at_cycle_equivariant c d sd : 0 < c -> positive d -> finite_fractures d <> [] ->
  knee_at (scale_cycles c d) sd = c * knee_at d sd.
Proof.
  intros Hc Hp Hne. unfold knee_at. rewrite ff_scale_cycles.
  destruct (fit_scale_cycles c (finite_fractures d) Hc (positive_ff d Hp) Hne) as [Hs Hi]. rewrite Hs, Hi.
  unfold transition_cycles. set (L := log10R (if Req_EM_T sd 0 then 1 / 10 else sd)).
  set (s := fit_slope _). set (ic := fit_icpt _).
  replace (ic + log10R c + s * L) with ((ic + s * L) + log10R c) by ring.
  now apply Rpower10_plus_log.
Qed.

Theorem knee_at_load_equivariant c d sd : 0 < c -> 0 < sd -> positive d -> finite_fractures d <> [] ->
  knee_at (scale_load c d) (c * sd) = knee_at d sd.
Proof.
  intros Hc Hsd Hp Hne. unfold knee_at. rewrite ff_scale_load by assumption.
  destruct (fit_scale_load c (finite_fractures d) Hc (positive_ff d Hp) Hne) as [Hs Hi]. rewrite Hs, Hi.
  rewrite !transition_cycles_pos by nra. f_equal. rewrite log10R_mult by assumption. ring.
Qed.

Theorem knee_at_sd_sensitivity d sd q : 0 < sd -> 0 < q ->
  knee_at d (q * sd) = knee_at d sd * Rpower q (fit_slope (finite_fractures d)).
Proof.
  intros Hsd Hq. unfold knee_at. rewrite !transition_cycles_pos by nra.
  rewrite <- (Rpower10_mul_log q (fit_slope (finite_fractures d))), <- Rpower_plus. f_equal.
  rewrite log10R_mult by assumption. ring.
Qed.
