(* C18: the likelihood functions of likelihood.py.  scipy's norm.cdf enters as a Section variable (no contract is
   needed: the statements below hold for any function).  scipy.optimize.fmin (Nelder-Mead) is NOT modelled; what
   is proved is that the likelihood itself is invariant under load / cycle scaling (with the parameters scaled
   along) and under row permutation, hence every exact maximiser is equivariant (the ml_argmax theorems). *)
From Coq Require Import Reals Lra List Permutation Bool.
From PL Require Import Common.RPrelude WFit.OLS WFit.Zones WFit.Elem.
Import ListNotations.
Open Scope R_scope.

(* utils.functions.scattering_range_to_std *)
Definition scattering_range_to_std (T : R) : R := 39015207303618954 / 100000000000000000 * log10R T.

(* scipy.stats.norm.pdf(x, mu, s) *)
Definition norm_pdf (x mu s : R) : R := exp (- (((x - mu) / s) * ((x - mu) / s)) / 2) / (s * sqrt (2 * PI)).

(* Likelihood.likelihood_finite (SD > 0 branch): all fractures *)
Definition lh_finite (d : data) (sd k nd tn : R) : R :=
  rsum (map (fun r => ln (norm_pdf (log10R (cycles r * npow (load r / sd) k)) (log10R nd) (scattering_range_to_std tn)))
            (fractures d)).

Section Lh.
Variable Phi : R -> R.     (* the standard normal cdf *)

(* Likelihood.likelihood_infinite (branch in which no factor vanishes) *)
Definition lh_term (sd ts : R) (r : row) : R :=
  let t := if frac r then 0 else 1 in
  ln (t + (1 - 2 * t) * Phi (log10R (load r / sd) / Rabs (scattering_range_to_std ts))).
Definition lh_infinite (d : data) (sd ts : R) : R := rsum (map (lh_term sd ts) (infinite_zone d)).

Definition lh_total (d : data) (sd ts k nd tn : R) : R := lh_finite d sd k nd tn + lh_infinite d sd ts.

(* ---------------------------------------------------------------- load scaling *)
Lemma lh_finite_load c d sd k nd tn : c <> 0 -> sd <> 0 -> lh_finite (scale_load c d) (c * sd) k nd tn = lh_finite d sd k nd tn.
Proof.
  intros Hc Hs. unfold lh_finite. rewrite fractures_scale_load. unfold scale_load. rewrite map_map.
  apply rsum_map_ext. intros r _. simpl. replace (c * load r / (c * sd)) with (load r / sd) by (field; split; assumption).
  reflexivity.
Qed.

Lemma lh_infinite_load c d sd ts : 0 < c -> sd <> 0 -> lh_infinite (scale_load c d) (c * sd) ts = lh_infinite d sd ts.
Proof.
  intros Hc Hs. unfold lh_infinite. rewrite infinite_zone_scale_load by assumption. unfold scale_load. rewrite map_map.
  apply rsum_map_ext. intros r _. unfold lh_term. simpl.
  replace (c * load r / (c * sd)) with (load r / sd) by (field; split; lra). reflexivity.
Qed.

Theorem lh_total_load c d sd ts k nd tn : 0 < c -> sd <> 0 ->
  lh_total (scale_load c d) (c * sd) ts k nd tn = lh_total d sd ts k nd tn.
Proof. intros Hc Hs. unfold lh_total. rewrite lh_finite_load, lh_infinite_load by lra. reflexivity. Qed.

(* ---------------------------------------------------------------- cycle scaling *)
Lemma lh_finite_cycles c d sd k nd tn : 0 < c -> 0 < sd -> 0 < nd -> positive d ->
  lh_finite (scale_cycles c d) sd k (c * nd) tn = lh_finite d sd k nd tn.
Proof.
  intros Hc Hs Hn Hp. unfold lh_finite. rewrite fractures_scale_cycles. unfold scale_cycles. rewrite map_map.
  apply rsum_map_ext. intros r Hr. simpl.
  assert (Hrd : In r d) by (unfold fractures in Hr; apply filter_In in Hr; tauto). destruct (Hp r Hrd) as [HL HN].
  assert (0 < npow (load r / sd) k) by (apply npow_gt0; now apply Rdiv_lt_0_compat).
  unfold norm_pdf. rewrite Rmult_assoc. rewrite (log10R_mult c) by (try assumption; now apply Rmult_lt_0_compat).
  rewrite (log10R_mult c nd) by assumption.
  replace (log10R c + log10R (cycles r * npow (load r / sd) k) - (log10R c + log10R nd))
    with (log10R (cycles r * npow (load r / sd) k) - log10R nd) by ring.
  reflexivity.
Qed.

Lemma lh_infinite_cycles c d sd ts : lh_infinite (scale_cycles c d) sd ts = lh_infinite d sd ts.
Proof. unfold lh_infinite. rewrite infinite_zone_scale_cycles. unfold scale_cycles. rewrite map_map. reflexivity. Qed.

Theorem lh_total_cycles c d sd ts k nd tn : 0 < c -> 0 < sd -> 0 < nd -> positive d ->
  lh_total (scale_cycles c d) sd ts k (c * nd) tn = lh_total d sd ts k nd tn.
Proof. intros. unfold lh_total. rewrite lh_finite_cycles, lh_infinite_cycles by assumption. reflexivity. Qed.

(* ---------------------------------------------------------------- row permutation *)
Theorem lh_total_perm a b sd ts k nd tn : Permutation a b -> lh_total a sd ts k nd tn = lh_total b sd ts k nd tn.
Proof.
  intros H. unfold lh_total, lh_finite, lh_infinite. f_equal; apply rsum_perm; apply Permutation_map.
  - unfold fractures. now apply filter_perm.
  - now apply infinite_zone_perm.
Qed.

(* ---------------------------------------------------------------- exact maximisers are equivariant *)
Definition is_ml (d : data) (sd ts k nd tn : R) : Prop :=
  0 < sd /\ 0 < nd /\
  forall sd' ts' k' nd' tn', 0 < sd' -> 0 < nd' -> lh_total d sd' ts' k' nd' tn' <= lh_total d sd ts k nd tn.

Theorem ml_argmax_load_equivariant c d sd ts k nd tn : 0 < c ->
  is_ml d sd ts k nd tn -> is_ml (scale_load c d) (c * sd) ts k nd tn.
Proof.
  intros Hc [Hs [Hn Hmax]]. split; [now apply Rmult_lt_0_compat|]. split; [assumption|].
  intros sd' ts' k' nd' tn' Hs' Hn'.
  rewrite lh_total_load by lra.
  replace sd' with (c * (sd' / c)) by (field; lra).
  rewrite lh_total_load; [|assumption|apply Rgt_not_eq; now apply Rdiv_lt_0_compat].
  apply Hmax; [now apply Rdiv_lt_0_compat|assumption].
Qed.

Theorem ml_argmax_cycle_equivariant c d sd ts k nd tn : 0 < c -> positive d ->
  is_ml d sd ts k nd tn -> is_ml (scale_cycles c d) sd ts k (c * nd) tn.
Proof.
  intros Hc Hp [Hs [Hn Hmax]]. split; [assumption|]. split; [now apply Rmult_lt_0_compat|].
  intros sd' ts' k' nd' tn' Hs' Hn'.
  rewrite lh_total_cycles by assumption.
  replace nd' with (c * (nd' / c)) by (field; lra).
  rewrite lh_total_cycles; try assumption; [|now apply Rdiv_lt_0_compat].
  apply Hmax; [assumption|now apply Rdiv_lt_0_compat].
Qed.

Theorem ml_argmax_perm_invariant a b sd ts k nd tn : Permutation a b -> is_ml a sd ts k nd tn -> is_ml b sd ts k nd tn.
Proof.
  intros H [Hs [Hn Hmax]]. split; [assumption|]. split; [assumption|].
  intros. rewrite <- !(lh_total_perm a b) by assumption. now apply Hmax.
Qed.

End Lh.

(* ---------------------------------------------------------------- certificate interface *)
Definition lh_arg (sd ts : R) (r : row) : R := log10R (load r / sd) / Rabs (scattering_range_to_std ts).
Definition lh_term_v (r : row) (phi : R) : R := let t := if frac r then 0 else 1 in ln (t + (1 - 2 * t) * phi).
Definition lh_infinite_v (z : data) (phis : list R) : R := rsum (map (fun p => lh_term_v (fst p) (snd p)) (combine z phis)).

Lemma lh_infinite_as_v Phi d sd ts :
  lh_infinite Phi d sd ts = lh_infinite_v (infinite_zone d) (map (fun r => Phi (lh_arg sd ts r)) (infinite_zone d)).
Proof.
  unfold lh_infinite, lh_infinite_v. induction (infinite_zone d) as [|r t IH]; simpl; [reflexivity|].
  rewrite IH. reflexivity.
Qed.
