(* C18: fatigue test rows, the finite/infinite zone split of FatigueData (fatigue_data.py) and the
   reported finite-infinite transition.  Hand-written model over R; tied to the implementation per run by
   kernel-checked certificates (zone lists exactly, transition by interval). *)
From Coq Require Import Reals Lra List Permutation Bool.
From PL Require Import WFit.OLS.
Import ListNotations.
Open Scope R_scope.

Record row := Row { load : R; cycles : R; frac : bool }.
Definition data := list row.

Definition Rltb (a b : R) : bool := if Rlt_dec a b then true else false.
Definition Rleb (a b : R) : bool := if Rle_dec a b then true else false.
Definition Reqb (a b : R) : bool := if Req_EM_T a b then true else false.

Lemma Rltb_true a b : Rltb a b = true <-> a < b.
Proof. unfold Rltb. destruct (Rlt_dec a b); split; intros; try assumption; try reflexivity; try discriminate; contradiction. Qed.
Lemma Rleb_true a b : Rleb a b = true <-> a <= b.
Proof. unfold Rleb. destruct (Rle_dec a b); split; intros; try assumption; try reflexivity; try discriminate; contradiction. Qed.
Lemma Reqb_true a b : Reqb a b = true <-> a = b.
Proof. unfold Reqb. destruct (Req_EM_T a b); split; intros; try assumption; try reflexivity; try discriminate; contradiction. Qed.
Lemma Rltb_false a b : Rltb a b = false <-> b <= a.
Proof. unfold Rltb. destruct (Rlt_dec a b); split; intros; try discriminate; try reflexivity; lra. Qed.
Lemma Rleb_false a b : Rleb a b = false <-> b < a.
Proof. unfold Rleb. destruct (Rle_dec a b); split; intros; try discriminate; try reflexivity; lra. Qed.

Lemma Rltb_scale c a b : 0 < c -> Rltb (c * a) (c * b) = Rltb a b.
Proof.
  intros Hc. destruct (Rltb a b) eqn:E.
  - apply Rltb_true. apply Rltb_true in E. now apply Rmult_lt_compat_l.
  - apply Rltb_false. apply Rltb_false in E. apply Rmult_le_compat_l; lra.
Qed.
Lemma Rleb_scale c a b : 0 < c -> Rleb (c * a) (c * b) = Rleb a b.
Proof.
  intros Hc. destruct (Rleb a b) eqn:E.
  - apply Rleb_true. apply Rleb_true in E. apply Rmult_le_compat_l; lra.
  - apply Rleb_false. apply Rleb_false in E. now apply Rmult_lt_compat_l.
Qed.

(* maximum / minimum of a list (0 for the empty list; the implementation never asks for it then) *)
Fixpoint lmax (l : list R) : R :=
  match l with [] => 0 | x :: t => match t with [] => x | _ => Rmax x (lmax t) end end.
Fixpoint lmin (l : list R) : R :=
  match l with [] => 0 | x :: t => match t with [] => x | _ => Rmin x (lmin t) end end.

Lemma lmax_in l : l <> [] -> In (lmax l) l.
Proof.
  induction l as [|x t IH]; [congruence|]. intros _. destruct t as [|y t']; [now left|].
  change (lmax (x :: y :: t')) with (Rmax x (lmax (y :: t'))).
  unfold Rmax. destruct (Rle_dec x (lmax (y :: t'))); [right; apply IH; congruence|now left].
Qed.
Lemma lmax_ge l y : In y l -> y <= lmax l.
Proof.
  induction l as [|x t IH]; [contradiction|]. destruct t as [|z t'].
  - intros [<-|[]]. simpl. lra.
  - change (lmax (x :: z :: t')) with (Rmax x (lmax (z :: t'))). intros [<-|H].
    + apply Rmax_l. + eapply Rle_trans; [apply IH; exact H|apply Rmax_r].
Qed.
Lemma lmax_unique l v : In v l -> (forall y, In y l -> y <= v) -> lmax l = v.
Proof.
  intros Hi Hu. assert (l <> []) by (destruct l; [contradiction|congruence]).
  apply Rle_antisym; [apply Hu; now apply lmax_in|now apply lmax_ge].
Qed.
Lemma lmin_in l : l <> [] -> In (lmin l) l.
Proof.
  induction l as [|x t IH]; [congruence|]. intros _. destruct t as [|y t']; [now left|].
  change (lmin (x :: y :: t')) with (Rmin x (lmin (y :: t'))).
  unfold Rmin. destruct (Rle_dec x (lmin (y :: t'))); [now left|right; apply IH; congruence].
Qed.
Lemma lmin_le l y : In y l -> lmin l <= y.
Proof.
  induction l as [|x t IH]; [contradiction|]. destruct t as [|z t'].
  - intros [<-|[]]. simpl. lra.
  - change (lmin (x :: z :: t')) with (Rmin x (lmin (z :: t'))). intros [<-|H].
    + apply Rmin_l. + eapply Rle_trans; [apply Rmin_r|apply IH; exact H].
Qed.
Lemma lmin_unique l v : In v l -> (forall y, In y l -> v <= y) -> lmin l = v.
Proof.
  intros Hi Hu. assert (l <> []) by (destruct l; [contradiction|congruence]).
  apply Rle_antisym; [now apply lmin_le|apply Hu; now apply lmin_in].
Qed.

Lemma lmax_perm a b : Permutation a b -> lmax a = lmax b.
Proof.
  intros H. destruct a as [|x a'].
  - apply Permutation_nil in H. now subst.
  - symmetry. apply lmax_unique.
    + eapply Permutation_in; [exact H|]. apply lmax_in. congruence.
    + intros y Hy. apply lmax_ge. eapply Permutation_in; [apply Permutation_sym; exact H|exact Hy].
Qed.
Lemma lmin_perm a b : Permutation a b -> lmin a = lmin b.
Proof.
  intros H. destruct a as [|x a'].
  - apply Permutation_nil in H. now subst.
  - symmetry. apply lmin_unique.
    + eapply Permutation_in; [exact H|]. apply lmin_in. congruence.
    + intros y Hy. apply lmin_le. eapply Permutation_in; [apply Permutation_sym; exact H|exact Hy].
Qed.
Lemma lmax_scale c l : 0 < c -> lmax (map (Rmult c) l) = c * lmax l.
Proof.
  intros Hc. destruct l as [|x t]; [simpl; lra|]. apply lmax_unique.
  - apply in_map. apply lmax_in. congruence.
  - intros y Hy. apply in_map_iff in Hy. destruct Hy as [z [<- Hz]].
    apply Rmult_le_compat_l; [lra|now apply lmax_ge].
Qed.
Lemma lmin_scale c l : 0 < c -> lmin (map (Rmult c) l) = c * lmin l.
Proof.
  intros Hc. destruct l as [|x t]; [simpl; lra|]. apply lmin_unique.
  - apply in_map. apply lmin_in. congruence.
  - intros y Hy. apply in_map_iff in Hy. destruct Hy as [z [<- Hz]].
    apply Rmult_le_compat_l; [lra|now apply lmin_le].
Qed.

(* ---------------------------------------------------------------- the zones (fatigue_data.py) *)
Definition loads (d : data) := map load d.
Definition fractures (d : data) := filter frac d.
Definition runouts (d : data) := filter (fun r => negb (frac r)) d.
Definition max_runout_load (d : data) := lmax (loads (runouts d)).

(* _calc_finite_zone_manual(limit) *)
Definition finite_manual (limit : R) (d : data) := filter (fun r => frac r && Rltb limit (load r)) d.
Definition infinite_manual (limit : R) (d : data) := filter (fun r => Rleb (load r) limit) d.

(* _calc_finite_zone *)
Definition finite_zone (d : data) : data :=
  match runouts d with [] => d | _ => finite_manual (max_runout_load d) d end.
Definition infinite_zone (d : data) : data :=
  match runouts d with [] => [] | _ => infinite_manual (max_runout_load d) d end.

(* _guess_from_second_highest_runout: the two highest distinct load levels m0 < m1 |-> m1 + (m1-m0)/2 *)
Definition second_max (l : list R) : R := lmax (filter (fun x => Rltb x (lmax l)) l).
Definition guess_transition (d : data) : R :=
  lmax (loads d) + (lmax (loads d) - second_max (loads d)) / 2.

(* _calc_finite_infinite_transition *)
Definition transition (d : data) : R :=
  match runouts d with
  | [] => 0
  | _ => match finite_zone d with
         | [] => guess_transition d
         | _ => (lmin (loads (finite_zone d)) + max_runout_load d) / 2
         end
  end.

(* ---------------------------------------------------------------- scaling and permuting the rows *)
Definition scale_load (c : R) (d : data) := map (fun r => Row (c * load r) (cycles r) (frac r)) d.
Definition scale_cycles (c : R) (d : data) := map (fun r => Row (load r) (c * cycles r) (frac r)) d.

Lemma filter_map_comm {A B} (f : A -> B) (p : B -> bool) (q : A -> bool) l :
  (forall x, p (f x) = q x) -> filter p (map f l) = map f (filter q l).
Proof. intros H. induction l; simpl; [reflexivity|]. rewrite H. destruct (q a); simpl; now rewrite IHl. Qed.

Lemma loads_scale_load c d : loads (scale_load c d) = map (Rmult c) (loads d).
Proof. unfold loads, scale_load. rewrite !map_map. reflexivity. Qed.
Lemma loads_scale_cycles c d : loads (scale_cycles c d) = loads d.
Proof. unfold loads, scale_cycles. rewrite !map_map. reflexivity. Qed.
Lemma runouts_scale_load c d : runouts (scale_load c d) = scale_load c (runouts d).
Proof. unfold runouts, scale_load. now apply filter_map_comm. Qed.
Lemma runouts_scale_cycles c d : runouts (scale_cycles c d) = scale_cycles c (runouts d).
Proof. unfold runouts, scale_cycles. now apply filter_map_comm. Qed.
Lemma fractures_scale_load c d : fractures (scale_load c d) = scale_load c (fractures d).
Proof. unfold fractures, scale_load. now apply filter_map_comm. Qed.
Lemma fractures_scale_cycles c d : fractures (scale_cycles c d) = scale_cycles c (fractures d).
Proof. unfold fractures, scale_cycles. now apply filter_map_comm. Qed.

Lemma max_runout_scale_load c d : 0 < c -> max_runout_load (scale_load c d) = c * max_runout_load d.
Proof. intros Hc. unfold max_runout_load. rewrite runouts_scale_load, loads_scale_load. now apply lmax_scale. Qed.
Lemma max_runout_scale_cycles c d : max_runout_load (scale_cycles c d) = max_runout_load d.
Proof. unfold max_runout_load. now rewrite runouts_scale_cycles, loads_scale_cycles. Qed.

Lemma finite_manual_scale_load c lim d : 0 < c ->
  finite_manual (c * lim) (scale_load c d) = scale_load c (finite_manual lim d).
Proof. intros Hc. unfold finite_manual, scale_load. apply filter_map_comm. intros r. simpl. now rewrite Rltb_scale. Qed.
Lemma infinite_manual_scale_load c lim d : 0 < c ->
  infinite_manual (c * lim) (scale_load c d) = scale_load c (infinite_manual lim d).
Proof. intros Hc. unfold infinite_manual, scale_load. apply filter_map_comm. intros r. simpl. now rewrite Rleb_scale. Qed.
Lemma finite_manual_scale_cycles c lim d : finite_manual lim (scale_cycles c d) = scale_cycles c (finite_manual lim d).
Proof. unfold finite_manual, scale_cycles. now apply filter_map_comm. Qed.
Lemma infinite_manual_scale_cycles c lim d : infinite_manual lim (scale_cycles c d) = scale_cycles c (infinite_manual lim d).
Proof. unfold infinite_manual, scale_cycles. now apply filter_map_comm. Qed.

Lemma map_nil_iff {A B} (f : A -> B) l : map f l = [] <-> l = [].
Proof. destruct l; simpl; split; congruence. Qed.

Lemma finite_zone_scale_load c d : 0 < c -> finite_zone (scale_load c d) = scale_load c (finite_zone d).
Proof.
  intros Hc. unfold finite_zone. rewrite runouts_scale_load, max_runout_scale_load by assumption.
  destruct (runouts d) eqn:E; simpl; [reflexivity|]. now apply finite_manual_scale_load.
Qed.
Lemma infinite_zone_scale_load c d : 0 < c -> infinite_zone (scale_load c d) = scale_load c (infinite_zone d).
Proof.
  intros Hc. unfold infinite_zone. rewrite runouts_scale_load, max_runout_scale_load by assumption.
  destruct (runouts d) eqn:E; simpl; [reflexivity|]. now apply infinite_manual_scale_load.
Qed.
Lemma finite_zone_scale_cycles c d : finite_zone (scale_cycles c d) = scale_cycles c (finite_zone d).
Proof.
  unfold finite_zone. rewrite runouts_scale_cycles, max_runout_scale_cycles.
  destruct (runouts d) eqn:E; simpl; [reflexivity|]. apply finite_manual_scale_cycles.
Qed.
Lemma infinite_zone_scale_cycles c d : infinite_zone (scale_cycles c d) = scale_cycles c (infinite_zone d).
Proof.
  unfold infinite_zone. rewrite runouts_scale_cycles, max_runout_scale_cycles.
  destruct (runouts d) eqn:E; simpl; [reflexivity|]. apply infinite_manual_scale_cycles.
Qed.

Lemma second_max_scale c l : 0 < c -> second_max (map (Rmult c) l) = c * second_max l.
Proof.
  intros Hc. unfold second_max. rewrite lmax_scale by assumption.
  rewrite (filter_map_comm (Rmult c) _ (fun x => Rltb x (lmax l))).
  - now apply lmax_scale.
  - intros x. now apply Rltb_scale.
Qed.

Lemma transition_scale_load c d : 0 < c -> transition (scale_load c d) = c * transition d.
Proof.
  intros Hc. unfold transition. rewrite runouts_scale_load, finite_zone_scale_load by assumption.
  destruct (runouts d) eqn:E; simpl; [lra|].
  destruct (finite_zone d) eqn:F.
  - simpl. unfold guess_transition. rewrite loads_scale_load, lmax_scale, second_max_scale by assumption. field.
  - change (scale_load c (r0 :: d0)) with (Row (c * load r0) (cycles r0) (frac r0) :: scale_load c d0).
    cbv iota. rewrite max_runout_scale_load by assumption.
    change (Row (c * load r0) (cycles r0) (frac r0) :: scale_load c d0) with (scale_load c (r0 :: d0)).
    rewrite loads_scale_load, lmin_scale by assumption. field.
Qed.

Lemma transition_scale_cycles c d : transition (scale_cycles c d) = transition d.
Proof.
  unfold transition. rewrite runouts_scale_cycles, finite_zone_scale_cycles.
  destruct (runouts d) eqn:E; simpl; [reflexivity|].
  destruct (finite_zone d) eqn:F.
  - simpl. unfold guess_transition. now rewrite loads_scale_cycles.
  - change (scale_cycles c (r0 :: d0)) with (Row (load r0) (c * cycles r0) (frac r0) :: scale_cycles c d0).
    cbv iota. rewrite max_runout_scale_cycles.
    change (Row (load r0) (c * cycles r0) (frac r0) :: scale_cycles c d0) with (scale_cycles c (r0 :: d0)).
    now rewrite loads_scale_cycles.
Qed.

(* permutation *)
Lemma filter_perm {A} (p : A -> bool) a b : Permutation a b -> Permutation (filter p a) (filter p b).
Proof.
  induction 1; simpl.
  - constructor.
  - destruct (p x); [now constructor|assumption].
  - destruct (p x), (p y); try apply perm_swap; apply Permutation_refl.
  - eapply Permutation_trans; eassumption.
Qed.

Lemma perm_nil_iff {A} (a b : list A) : Permutation a b -> (a = [] <-> b = []).
Proof.
  intros H. split; intros ->.
  - now apply Permutation_nil in H.
  - apply Permutation_sym in H. now apply Permutation_nil in H.
Qed.

Lemma max_runout_perm a b : Permutation a b -> max_runout_load a = max_runout_load b.
Proof. intros H. unfold max_runout_load. apply lmax_perm. apply Permutation_map. now apply filter_perm. Qed.

Lemma finite_zone_perm a b : Permutation a b -> Permutation (finite_zone a) (finite_zone b).
Proof.
  intros H. unfold finite_zone. pose proof (filter_perm (fun r => negb (frac r)) a b H) as Hr.
  fold (runouts a) in Hr. fold (runouts b) in Hr. pose proof (perm_nil_iff _ _ Hr) as Hn.
  destruct (runouts a) eqn:Ea, (runouts b) eqn:Eb.
  - exact H.
  - destruct Hn as [Hn _]. discriminate (Hn eq_refl).
  - destruct Hn as [_ Hn]. discriminate (Hn eq_refl).
  - rewrite (max_runout_perm a b H). unfold finite_manual. now apply filter_perm.
Qed.

Lemma infinite_zone_perm a b : Permutation a b -> Permutation (infinite_zone a) (infinite_zone b).
Proof.
  intros H. unfold infinite_zone. pose proof (filter_perm (fun r => negb (frac r)) a b H) as Hr.
  fold (runouts a) in Hr. fold (runouts b) in Hr. pose proof (perm_nil_iff _ _ Hr) as Hn.
  destruct (runouts a) eqn:Ea, (runouts b) eqn:Eb.
  - constructor.
  - destruct Hn as [Hn _]. discriminate (Hn eq_refl).
  - destruct Hn as [_ Hn]. discriminate (Hn eq_refl).
  - rewrite (max_runout_perm a b H). unfold infinite_manual. now apply filter_perm.
Qed.

Lemma second_max_perm a b : Permutation a b -> second_max a = second_max b.
Proof.
  intros H. unfold second_max. rewrite (lmax_perm a b H). apply lmax_perm. now apply filter_perm.
Qed.

Lemma transition_perm a b : Permutation a b -> transition a = transition b.
Proof.
  intros H. unfold transition.
  pose proof (filter_perm (fun r => negb (frac r)) a b H) as Hr.
  fold (runouts a) in Hr. fold (runouts b) in Hr. pose proof (perm_nil_iff _ _ Hr) as Hn.
  pose proof (finite_zone_perm a b H) as Hf. pose proof (perm_nil_iff _ _ Hf) as Hfn.
  destruct (runouts a) eqn:Ea, (runouts b) eqn:Eb; try reflexivity.
  - destruct Hn as [Hn _]. discriminate (Hn eq_refl).
  - destruct Hn as [_ Hn]. discriminate (Hn eq_refl).
  - destruct (finite_zone a) eqn:Fa, (finite_zone b) eqn:Fb.
    + unfold guess_transition. unfold loads.
      now rewrite (lmax_perm _ _ (Permutation_map load H)), (second_max_perm _ _ (Permutation_map load H)).
    + destruct Hfn as [Hx _]. discriminate (Hx eq_refl).
    + destruct Hfn as [_ Hx]. discriminate (Hx eq_refl).
    + rewrite (max_runout_perm a b H). unfold loads. now rewrite (lmin_perm _ _ (Permutation_map load Hf)).
Qed.

(* ---------------------------------------------------------------- the zones partition the tests *)
Lemma filter_partition_perm {A} (p q : A -> bool) l :
  (forall x, In x l -> q x = negb (p x)) -> Permutation (filter p l ++ filter q l) l.
Proof.
  induction l as [|x t IH]; intros H; simpl; [constructor|].
  rewrite (H x) by now left.
  assert (Ht : forall y, In y t -> q y = negb (p y)) by (intros; apply H; now right).
  destruct (p x); simpl.
  - constructor. now apply IH.
  - apply Permutation_sym. apply Permutation_cons_app. apply Permutation_sym. now apply IH.
Qed.

Lemma runout_le_max d r : In r d -> frac r = false -> load r <= max_runout_load d.
Proof.
  intros Hi Hf. unfold max_runout_load. apply lmax_ge. unfold loads. apply in_map.
  unfold runouts. apply filter_In. split; [assumption|]. now rewrite Hf.
Qed.

(* default split: every test is in exactly one of the two zones *)
Lemma zones_partition d : Permutation (finite_zone d ++ infinite_zone d) d.
Proof.
  unfold finite_zone, infinite_zone. destruct (runouts d) eqn:E.
  - rewrite app_nil_r. apply Permutation_refl.
  - unfold finite_manual, infinite_manual. apply filter_partition_perm. intros x Hx.
    destruct (frac x) eqn:Fx; simpl.
    + destruct (Rltb (max_runout_load d) (load x)) eqn:L.
      * apply Rltb_true in L. simpl. apply Rleb_false. exact L.
      * apply Rltb_false in L. simpl. apply Rleb_true. exact L.
    + apply Rleb_true. now apply runout_le_max.
Qed.

(* ... and the reported transition separates them: finite-zone loads lie strictly above it, infinite-zone
   loads strictly below (when there are run-outs; without run-outs the transition is reported as 0 and the
   infinite zone is empty) *)
Lemma transition_separates d : (forall r, In r d -> 0 < load r) -> runouts d <> [] ->
  (forall r, In r (finite_zone d) -> frac r = true /\ transition d < load r) /\
  (forall r, In r (infinite_zone d) -> load r < transition d \/
                                        (finite_zone d = [] /\ load r <= transition d)).
Proof.
  intros Hpos Hr.
  assert (EF : finite_zone d = finite_manual (max_runout_load d) d)
    by (unfold finite_zone; destruct (runouts d); [congruence|reflexivity]).
  assert (EI : infinite_zone d = infinite_manual (max_runout_load d) d)
    by (unfold infinite_zone; destruct (runouts d); [congruence|reflexivity]).
  unfold transition. rewrite EF, EI. clear EF EI.
  destruct (runouts d) eqn:E; [congruence|].
  set (M := max_runout_load d).
  assert (HF : forall r, In r (finite_manual M d) -> frac r = true /\ M < load r).
  { intros x Hx. unfold finite_manual in Hx. apply filter_In in Hx. destruct Hx as [_ Hx].
    apply andb_true_iff in Hx. destruct Hx as [H1 H2]. apply Rltb_true in H2. now split. }
  assert (HI : forall r, In r (infinite_manual M d) -> load r <= M).
  { intros x Hx. unfold infinite_manual in Hx. apply filter_In in Hx. destruct Hx as [_ Hx]. now apply Rleb_true in Hx. }
  destruct (finite_manual M d) eqn:F.
  - split; [intros x []|]. intros x Hx. right. split.
    + reflexivity.
    + unfold guess_transition. specialize (HI x Hx).
      assert (Hxd : In x d) by (unfold infinite_manual in Hx; apply filter_In in Hx; tauto).
      assert (In (load x) (loads d)) by (unfold loads; now apply in_map).
      pose proof (lmax_ge _ _ H).
      assert (second_max (loads d) <= lmax (loads d)).
      { unfold second_max. destruct (filter (fun x0 => Rltb x0 (lmax (loads d))) (loads d)) as [|r1 l0] eqn:G.
        - simpl. specialize (Hpos x Hxd). lra.
        - assert (H1 : In (lmax (r1 :: l0)) (filter (fun x0 => Rltb x0 (lmax (loads d))) (loads d)))
            by (rewrite G; apply lmax_in; congruence).
          apply filter_In in H1. destruct H1 as [_ H1]. apply Rltb_true in H1. lra. }
      lra.
  - rewrite <- F. rewrite <- F in HF.
    assert (HM : M < lmin (loads (finite_manual M d))).
    { assert (H : In (lmin (loads (finite_manual M d))) (loads (finite_manual M d))).
      { apply lmin_in. rewrite F. simpl. congruence. }
      apply in_map_iff in H. destruct H as [z [Hz1 Hz2]]. destruct (HF z Hz2) as [_ Hz3]. rewrite <- Hz1. exact Hz3. }
    split.
    + intros x Hx. destruct (HF x Hx) as [H1 H2]. split; [assumption|].
      assert (lmin (loads (finite_manual M d)) <= load x) by (apply lmin_le; unfold loads; now apply in_map).
      lra.
    + intros x Hx. left. specialize (HI x Hx). lra.
Qed.
