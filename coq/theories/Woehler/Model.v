(* C08 -- element-wise model of pylife.materiallaws.woehlercurve.WoehlerCurve over R.

   Hand-written (the Python uses masked assignment, which py2coq does not translate); every definition mirrors
   the branches of the source literally and is tied to the implementation on every run by interval certificates
   (harness/props/c08.py).  The two conversions of utils/functions.py are GENERATED (PLgen.GenWoehlerFunctions).

   woehlercurve.py                                   model
   _make_k(src, ref, wc)                             make_k        k[src < ref] = k_2  else k_1
   basquin_cycles (after the transformation)         basquin_cycles_of   inf where k is not finite
   basquin_load   (after the transformation)         basquin_load_of     SD where k is not finite, src = -cycles, ref = -ND
   transform_to_failure_probability                  transform_z (ppf values as arguments) / transform (ppf a function)
   miner_original / _elementary / _haibach           miner_original / miner_elementary / miner_haibach
   cycles / load                                     cycles / load  (= basquin_* of the transformed curve)        *)
From Coq Require Import Reals Lra List.
From Coquelicot Require Import Coquelicot.
From PL Require Import Common.RPrelude.
From PLgen Require Import GenWoehlerFunctions.
Open Scope R_scope.

(* k_2 and cycle numbers live in R + {inf} *)
Inductive ER := Fin (r : R) | PInf.

Definition ER_le (a b : ER) : Prop :=
  match a, b with
  | _, PInf => True
  | PInf, Fin _ => False
  | Fin x, Fin y => x <= y
  end.

Record curve := mkcurve { k_1 : R; k_2 : ER; SD : R; ND : R; TN : R; TS : R; pf : R }.

(* k = k_1.copy(); k[src < ref] = k_2[src < ref] *)
Definition make_k (src ref : R) (k1 : R) (k2 : ER) : ER := if Rlt_dec src ref then k2 else Fin k1.

(* cycles = full(inf); cycles[isfinite k] = ND * power(load / SD, -k) *)
Definition basquin_cycles_of (wc : curve) (load : R) : ER :=
  match make_k load (SD wc) (k_1 wc) (k_2 wc) with
  | PInf => PInf
  | Fin k => Fin (ND wc * npow (load / SD wc) (- k))
  end.

(* load = SD.copy(); load[isfinite k] = SD * power(cycles / ND, -1. / k)   with k = _make_k(-cycles, -ND) *)
Definition basquin_load_of (wc : curve) (cyc : R) : R :=
  match make_k (- cyc) (- ND wc) (k_1 wc) (k_2 wc) with
  | PInf => SD wc
  | Fin k => SD wc * npow (cyc / ND wc) (-1 / k)
  end.

(* SD = obj.SD / 10**((native_ppf - goal_ppf) * scattering_range_to_std(obj.TS))
   ND = obj.ND / 10**((native_ppf - goal_ppf) * scattering_range_to_std(obj.TN))
   ND[SD != 0] *= power(SD[SD != 0] / obj.SD, -obj.k_1) *)
Definition transform_z (wc : curve) (native_ppf goal_ppf p : R) : curve :=
  let SD' := SD wc / npow 10 ((native_ppf - goal_ppf) * fn_scattering_range_to_std (TS wc)) in
  let ND0 := ND wc / npow 10 ((native_ppf - goal_ppf) * fn_scattering_range_to_std (TN wc)) in
  let ND' := if Req_EM_T SD' 0 then ND0 else ND0 * npow (SD' / SD wc) (- k_1 wc) in
  mkcurve (k_1 wc) (k_2 wc) SD' ND' (TN wc) (TS wc) p.

Definition miner_original (wc : curve) : curve := mkcurve (k_1 wc) PInf (SD wc) (ND wc) (TN wc) (TS wc) (pf wc).
Definition miner_elementary (wc : curve) : curve := mkcurve (k_1 wc) (Fin (k_1 wc)) (SD wc) (ND wc) (TN wc) (TS wc) (pf wc).
Definition miner_haibach (wc : curve) : curve := mkcurve (k_1 wc) (Fin (2 * k_1 wc - 1)) (SD wc) (ND wc) (TN wc) (TS wc) (pf wc).

Section WithPpf.
Variable ppf : R -> R.     (* scipy.stats.norm.ppf: enters only through the contract stated in the theorems *)

Definition transform (wc : curve) (p : R) : curve := transform_z wc (ppf (pf wc)) (ppf p) p.
Definition cycles (wc : curve) (load p : R) : ER := basquin_cycles_of (transform wc p) load.
Definition load (wc : curve) (cyc p : R) : R := basquin_load_of (transform wc p) cyc.

(* broadcast inputs: one (curve, operand) pair per row of the broadcast index *)
Definition cycles_rows (rows : list (curve * R)) (p : R) : list ER := map (fun r => cycles (fst r) (snd r) p) rows.
Definition load_rows (rows : list (curve * R)) (p : R) : list R := map (fun r => load (fst r) (snd r) p) rows.
End WithPpf.

(* finite value of a cycle number (0 for inf; used only where the life is finite) *)
Definition fin_or0 (x : ER) : R := match x with Fin r => r | PInf => 0 end.

(* --- what a per-run certificate states about an ER-valued output *)
Definition er_near (x : ER) (v tol : R) : Prop := match x with Fin r => Rabs (r - v) <= tol | PInf => False end.
Definition er_inf (x : ER) : Prop := match x with Fin _ => False | PInf => True end.

(* the standard normal distribution function, defined (not assumed) *)
Definition Phi (z : R) : R := 1 / 2 + / sqrt (2 * PI) * RInt (fun t => exp (- t * t / 2)) 0 z.
