(* Tactics for the per-run certificates of the hand-written Woehler model (used through cert.run_certs's extra_tac).
   Branch decisions between rational literals (load vs SD, -cycles vs -ND -- also exactly at the knee) are made by
   lra, i.e. exactly; everything else falls through to Common.Cert.cert_prep / interval. *)
From Coq Require Import Reals Lra.
From Coquelicot Require Import Coquelicot.
From Interval Require Import Tactic.
From PL Require Import Common.RPrelude Common.Cert Woehler.Model.
From PLgen Require Import GenWoehlerFunctions.
Open Scope R_scope.

Lemma if_Req_true (a b : R) (T : Type) (x y : T) : a = b -> (if Req_EM_T a b then x else y) = x.
Proof. intros H. destruct (Req_EM_T a b); [reflexivity|contradiction]. Qed.

Ltac wc_decide_step :=
  match goal with
  | |- context [if Rlt_dec ?a ?b then ?x else ?y] =>
      first [rewrite (if_Rlt_true a b _ x y) by lra | rewrite (if_Rlt_false a b _ x y) by lra]
  | |- context [if Req_EM_T ?a ?b then ?x else ?y] =>
      first [rewrite (if_Req_true a b _ x y) by (unfold Rdiv; ring) | rewrite (if_Req_false a b _ x y) by lra]
  end.

Ltac wc_prep :=
  unfold transform_z, basquin_cycles_of, basquin_load_of, make_k, miner_original, miner_elementary, miner_haibach,
         er_near, er_inf, fin_or0, k_1, k_2, SD, ND, TN, TS, pf,
         fn_scattering_range_to_std, fn_std_to_scattering_range;
  cbv beta iota zeta; repeat match goal with |- _ /\ _ => split end;
  repeat (wc_decide_step; cbv beta iota zeta); try exact I.

(* Phi(z) against a probability: closed by CoqInterval's integral *)
Ltac phi_cert := unfold Phi; integral with (i_prec 80, i_fuel 2000, i_degree 15).
