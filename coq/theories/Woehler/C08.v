(* C08 -- Woehler curve: theorems about the model of Woehler/Model.v and the GENERATED conversions of
   utils/functions.py (PLgen.GenWoehlerFunctions). *)
From Coq Require Import Reals Lra List.
From Coquelicot Require Import Coquelicot.
From Interval Require Import Tactic.
From PL Require Import Common.RPrelude Woehler.Model.
From PLgen Require Import GenWoehlerFunctions.
Open Scope R_scope.

(* ------------------------------------------------------------------ exp/ln toolbox *)
Lemma pos_is_exp x : 0 < x -> exists l, x = exp l.
Proof. intros H. exists (ln x). now rewrite exp_ln. Qed.

Lemma npow_exp a y : npow (exp a) y = exp (y * a).
Proof. rewrite npow_pos by apply exp_pos. unfold Rpower. now rewrite ln_exp. Qed.

Lemma exp_mul a b : exp a * exp b = exp (a + b).
Proof. symmetry. apply exp_plus. Qed.
Lemma exp_div a b : exp a / exp b = exp (a - b).
Proof. unfold Rdiv, Rminus. rewrite exp_plus, exp_Ropp. reflexivity. Qed.
Lemma exp_inv a : / exp a = exp (- a).
Proof. symmetry. apply exp_Ropp. Qed.

Lemma exp_lt_iff a b : exp a < exp b <-> a < b.
Proof. split; [apply exp_lt_inv | apply exp_increasing]. Qed.
Lemma exp_le_iff a b : exp a <= exp b <-> a <= b.
Proof.
  split; intros H.
  - destruct (Rle_or_lt a b) as [?|Hlt]; [assumption|]. apply exp_increasing in Hlt. lra.
  - destruct H as [H|H]; [left; now apply exp_increasing | subst; lra].
Qed.

Lemma exp_le_elim a b : exp a <= exp b -> a <= b.
Proof. apply exp_le_iff. Qed.
Lemma exp_le_intro a b : a <= b -> exp a <= exp b.
Proof. apply exp_le_iff. Qed.

Lemma ln10_pos : 0 < ln 10.
Proof. rewrite <- ln_1. apply ln_increasing; lra. Qed.

Ltac expnorm := repeat (rewrite ?npow_exp, ?exp_mul, ?exp_div, ?exp_inv).

(* ------------------------------------------------------------------ scatter range <-> standard deviation *)
(* the constant of scattering_range_to_std, whatever literal the source contains *)
Definition c_std : R := fn_scattering_range_to_std 10.
Definition c_T : R := log10R (fn_std_to_scattering_range 1).

Lemma log10R_10 : log10R 10 = 1.
Proof. unfold log10R. field. generalize ln10_pos; lra. Qed.

Lemma std_is_c_log T : fn_scattering_range_to_std T = c_std * log10R T.
Proof. unfold c_std, fn_scattering_range_to_std. rewrite log10R_10. ring. Qed.

Lemma T_is_pow10 s : fn_std_to_scattering_range s = npow 10 (c_T * s).
Proof.
  unfold c_T, fn_std_to_scattering_range. f_equal.
  rewrite npow_pos by lra. unfold log10R, Rpower. rewrite ln_exp. field. generalize ln10_pos; lra.
Qed.

Lemma pow10_std_exp t d : npow 10 (d * fn_scattering_range_to_std (exp t)) = exp (d * c_std * t).
Proof.
  rewrite std_is_c_log, npow_pos by lra. unfold Rpower, log10R. rewrite ln_exp. f_equal. field.
  generalize ln10_pos; lra.
Qed.

(* the literals: decimal constants, not exact reciprocals *)
Lemma c_std_literal : c_std = 39015207303618954 / 10 ^ 17.
Proof. unfold c_std, fn_scattering_range_to_std. rewrite log10R_10. lra. Qed.
Lemma c_T_literal : c_T = 25631031310892007 / 10 ^ 16.
Proof.
  unfold c_T, fn_std_to_scattering_range. rewrite npow_pos by lra. unfold log10R, Rpower. rewrite ln_exp.
  field. generalize ln10_pos; lra.
Qed.

Lemma c_product_near_1 : Rabs (c_T * c_std - 1) <= 1 / 10 ^ 15.
Proof. rewrite c_std_literal, c_T_literal. apply Rabs_le. lra. Qed.   (* exact rational arithmetic *)

(* std_to_T (T_to_std T) = T^c and T_to_std (std_to_T s) = c s with c = c_T c_std, |c - 1| <= 1e-15 *)
Lemma T_std_roundtrip_exponent T : 0 < T ->
  fn_std_to_scattering_range (fn_scattering_range_to_std T) = npow T (c_T * c_std) /\ Rabs (c_T * c_std - 1) <= 1 / 10 ^ 15.
Proof.
  intros HT. split; [|exact c_product_near_1].
  destruct (pos_is_exp T HT) as [t ->]. rewrite T_is_pow10. replace (c_T * _) with (c_T * fn_scattering_range_to_std (exp t)) by reflexivity.
  rewrite pow10_std_exp. expnorm. f_equal; ring.
Qed.

Lemma std_T_roundtrip_factor s :
  fn_scattering_range_to_std (fn_std_to_scattering_range s) = (c_T * c_std) * s.
Proof.
  rewrite std_is_c_log, T_is_pow10. rewrite npow_pos by lra. unfold log10R, Rpower. rewrite ln_exp. field.
  generalize ln10_pos; lra.
Qed.

(* ------------------------------------------------------------------ the piecewise Basquin law *)
Definition k2_ok (k1 : R) (k2 : ER) : Prop := match k2 with PInf => True | Fin k => k1 <= k end.

(* the quantifier of the property: k_1 > 0 (the property says > 1; nothing below needs more than > 0),
   k_2 >= k_1 or inf, SD, ND > 0, TN, TS >= 1, native failure probability in (0,1) *)
Definition valid (wc : curve) : Prop :=
  0 < k_1 wc /\ k2_ok (k_1 wc) (k_2 wc) /\ 0 < SD wc /\ 0 < ND wc /\ 1 <= TN wc /\ 1 <= TS wc /\ 0 < pf wc < 1.

Lemma valid_example : valid (mkcurve 5 (Fin 9) 300 1000000 4 (3/2) (3/10)) /\ valid (mkcurve 5 PInf 300 1000000 1 1 (1/2)).
Proof. unfold valid; simpl; repeat split; lra. Qed.

Lemma mul_div_neg k u : 0 < k -> 0 < u -> -1 / k * u < 0.
Proof. intros Hk Hu. replace (-1 / k * u) with (- (u / k)) by (field; lra). apply Ropp_lt_gt_0_contravar. now apply Rdiv_lt_0_compat. Qed.
Lemma mul_div_nonneg k u : 0 < k -> u <= 0 -> 0 <= -1 / k * u.
Proof.
  intros Hk Hu. replace (-1 / k * u) with ((- u) / k) by (field; lra).
  apply Rmult_le_pos; [lra|]. left. now apply Rinv_0_lt_compat.
Qed.

Ltac destr_valid H :=
  let Hk1 := fresh "Hk1" in let Hk2 := fresh "Hk2" in let HSD := fresh "HSD" in let HND := fresh "HND" in
  let HTN := fresh "HTN" in let HTS := fresh "HTS" in let Hpf := fresh "Hpf" in
  destruct H as (Hk1 & Hk2 & HSD & HND & HTN & HTS & Hpf).

(* cycles(load(N)) = N wherever the life is finite: N <= ND, or any N when k_2 is finite *)
Lemma basquin_cycles_load wc N : valid wc -> 0 < N -> (N <= ND wc \/ k_2 wc <> PInf) ->
  basquin_cycles_of wc (basquin_load_of wc N) = Fin N.
Proof.
  intros Hv HN Hfin. destr_valid Hv. destruct wc as [k1 k2 sd nd tn ts p]; simpl in *.
  destruct (pos_is_exp _ HN) as [n ->], (pos_is_exp _ HSD) as [s ->], (pos_is_exp _ HND) as [d ->].
  unfold basquin_load_of, basquin_cycles_of, make_k; simpl.
  destruct (Rlt_dec (- exp n) (- exp d)) as [Hlt|Hge].
  - assert (Hnd : d < n) by (apply exp_lt_inv; lra).
    destruct k2 as [k2|]; [|destruct Hfin as [H|H]; [apply exp_le_elim in H; lra|congruence]].
    simpl in Hk2. assert (0 < k2) by lra. expnorm.
    destruct (Rlt_dec (exp (s + -1 / k2 * (n - d))) (exp s)) as [_|Hn].
    + expnorm. f_equal. f_equal. field. lra.
    + exfalso. apply Hn. apply exp_increasing. generalize (mul_div_neg k2 (n - d)). lra.
  - assert (Hnd : n <= d) by (apply exp_le_elim; lra). expnorm.
    destruct (Rlt_dec (exp (s + -1 / k1 * (n - d))) (exp s)) as [Hl|_].
    + exfalso. apply exp_lt_inv in Hl. generalize (mul_div_nonneg k1 (n - d)). lra.
    + expnorm. f_equal. f_equal. field. lra.
Qed.

(* load(cycles(L)) = L wherever the life is finite: L >= SD, or any L > 0 when k_2 is finite *)
Lemma basquin_load_cycles wc L : valid wc -> 0 < L -> (SD wc <= L \/ k_2 wc <> PInf) ->
  exists N, basquin_cycles_of wc L = Fin N /\ 0 < N /\ basquin_load_of wc N = L.
Proof.
  intros Hv HL Hfin. destr_valid Hv. destruct wc as [k1 k2 sd nd tn ts p]; simpl in *.
  destruct (pos_is_exp _ HL) as [l ->], (pos_is_exp _ HSD) as [s ->], (pos_is_exp _ HND) as [d ->].
  unfold basquin_load_of, basquin_cycles_of, make_k; simpl.
  destruct (Rlt_dec (exp l) (exp s)) as [Hlt|Hge].
  - apply exp_lt_inv in Hlt.
    destruct k2 as [k2|]; [|destruct Hfin as [H|H]; [apply exp_le_elim in H; lra|congruence]].
    simpl in Hk2. assert (0 < k2) by lra. expnorm. eexists; split; [reflexivity|]. split; [apply exp_pos|].
    destruct (Rlt_dec (- exp (d + - k2 * (l - s))) (- exp d)) as [_|Hn].
    + expnorm. f_equal. field. lra.
    + exfalso. apply Hn. apply Ropp_lt_contravar. apply exp_increasing. nra.
  - assert (Hls : s <= l) by (apply exp_le_elim; lra). expnorm. eexists; split; [reflexivity|]. split; [apply exp_pos|].
    destruct (Rlt_dec (- exp (d + - k1 * (l - s))) (- exp d)) as [Hl|_].
    + exfalso. apply Ropp_lt_cancel in Hl. apply exp_lt_inv in Hl. nra.
    + expnorm. f_equal. field. lra.
Qed.

(* infinite life below the endurance limit for k_2 = inf; the load for more than ND cycles is the endurance limit *)
Lemma k2_inf_infinite_life wc L : k_2 wc = PInf -> L < SD wc -> basquin_cycles_of wc L = PInf.
Proof. intros Hk HL. unfold basquin_cycles_of, make_k. destruct (Rlt_dec L (SD wc)); [now rewrite Hk|contradiction]. Qed.
Lemma k2_inf_load_is_SD wc N : k_2 wc = PInf -> ND wc < N -> basquin_load_of wc N = SD wc.
Proof. intros Hk HN. unfold basquin_load_of, make_k. destruct (Rlt_dec (- N) (- ND wc)); [now rewrite Hk|lra]. Qed.
(* and finite life everywhere else *)
Lemma finite_life_elsewhere wc L : (SD wc <= L \/ k_2 wc <> PInf) -> basquin_cycles_of wc L <> PInf.
Proof.
  intros H. unfold basquin_cycles_of, make_k. destruct (Rlt_dec L (SD wc)).
  - destruct (k_2 wc); [discriminate|]. destruct H; [lra|congruence].
  - discriminate.
Qed.

(* the knee *)
Lemma knee_cycles wc : 0 < SD wc -> basquin_cycles_of wc (SD wc) = Fin (ND wc).
Proof.
  intros H. unfold basquin_cycles_of, make_k. destruct (Rlt_dec (SD wc) (SD wc)); [lra|].
  f_equal. replace (SD wc / SD wc) with 1 by (field; lra). rewrite npow_pos by lra. rewrite Rpower_base_1 || (unfold Rpower; rewrite ln_1, Rmult_0_r, exp_0). ring.
Qed.
Lemma knee_load wc : 0 < ND wc -> basquin_load_of wc (ND wc) = SD wc.
Proof.
  intros H. unfold basquin_load_of, make_k. destruct (Rlt_dec (- ND wc) (- ND wc)); [lra|].
  replace (ND wc / ND wc) with 1 by (field; lra). rewrite npow_pos by lra. unfold Rpower; rewrite ln_1, Rmult_0_r, exp_0. ring.
Qed.

(* non-increasing in load (inf counts as the largest value) *)
Lemma basquin_cycles_antitone wc L1 L2 : valid wc -> 0 < L1 -> L1 <= L2 ->
  ER_le (basquin_cycles_of wc L2) (basquin_cycles_of wc L1).
Proof.
  intros Hv HL1 HL. destr_valid Hv. destruct wc as [k1 k2 sd nd tn ts p]; simpl in *.
  assert (HL2 : 0 < L2) by lra.
  destruct (pos_is_exp _ HL1) as [a ->], (pos_is_exp _ HL2) as [b ->], (pos_is_exp _ HSD) as [s ->], (pos_is_exp _ HND) as [d ->].
  apply exp_le_elim in HL.
  unfold basquin_cycles_of, make_k; simpl.
  destruct (Rlt_dec (exp b) (exp s)) as [Hb|Hb], (Rlt_dec (exp a) (exp s)) as [Ha|Ha];
    try apply exp_lt_inv in Hb; try apply exp_lt_inv in Ha;
    try (assert (s <= b) by (apply exp_le_elim; lra)); try (assert (s <= a) by (apply exp_le_elim; lra)).
  - destruct k2 as [k2|]; simpl in *; [|exact I]. expnorm. apply exp_le_intro. nra.
  - lra.
  - destruct k2 as [k2|]; simpl in *; [|exact I]. expnorm. apply exp_le_intro. nra.
  - simpl. expnorm. apply exp_le_intro. nra.
Qed.

(* the load is non-increasing in the cycle number *)
Lemma basquin_load_antitone wc N1 N2 : valid wc -> 0 < N1 -> N1 <= N2 ->
  basquin_load_of wc N2 <= basquin_load_of wc N1.
Proof.
  intros Hv HN1 HN. destr_valid Hv. destruct wc as [k1 k2 sd nd tn ts p]; simpl in *.
  assert (HN2 : 0 < N2) by lra.
  destruct (pos_is_exp _ HN1) as [a ->], (pos_is_exp _ HN2) as [b ->], (pos_is_exp _ HSD) as [s ->], (pos_is_exp _ HND) as [d ->].
  apply exp_le_elim in HN.
  unfold basquin_load_of, make_k; simpl.
  destruct (Rlt_dec (- exp b) (- exp d)) as [Hb|Hb], (Rlt_dec (- exp a) (- exp d)) as [Ha|Ha];
    try (assert (d < b) by (apply exp_lt_inv; lra)); try (assert (d < a) by (apply exp_lt_inv; lra));
    try (assert (b <= d) by (apply exp_le_elim; lra)); try (assert (a <= d) by (apply exp_le_elim; lra)).
  - destruct k2 as [k2|]; simpl in *; [|lra]. assert (0 < k2) by lra. expnorm. apply exp_le_intro.
    assert (0 <= (b - a) / k2) by (apply Rmult_le_pos; [lra|left; now apply Rinv_0_lt_compat]).
    replace (-1 / k2 * (b - d)) with (-1 / k2 * (a - d) - (b - a) / k2) by (field; lra). lra.
  - assert (0 <= -1 / k1 * (a - d)) by (apply mul_div_nonneg; lra).
    destruct k2 as [k2|]; simpl in *.
    + assert (0 < k2) by lra. expnorm. apply exp_le_intro. generalize (mul_div_neg k2 (b - d)). lra.
    + expnorm. rewrite <- (Rplus_0_r s) at 1. apply exp_le_intro. lra.
  - lra.
  - expnorm. apply exp_le_intro.
    assert (0 <= (b - a) / k1) by (apply Rmult_le_pos; [lra|left; now apply Rinv_0_lt_compat]).
    replace (-1 / k1 * (b - d)) with (-1 / k1 * (a - d) - (b - a) / k1) by (field; lra). lra.
Qed.

(* strictly decreasing where the life is finite *)
Lemma basquin_cycles_strictly_decreasing wc L1 L2 : valid wc -> 0 < L1 -> L1 < L2 -> (SD wc <= L1 \/ k_2 wc <> PInf) ->
  exists N1 N2, basquin_cycles_of wc L1 = Fin N1 /\ basquin_cycles_of wc L2 = Fin N2 /\ N2 < N1.
Proof.
  intros Hv HL1 HL Hfin. destr_valid Hv. destruct wc as [k1 k2 sd nd tn ts p]; simpl in *.
  assert (HL2 : 0 < L2) by lra.
  destruct (pos_is_exp _ HL1) as [a ->], (pos_is_exp _ HL2) as [b ->], (pos_is_exp _ HSD) as [s ->], (pos_is_exp _ HND) as [d ->].
  apply exp_lt_inv in HL.
  unfold basquin_cycles_of, make_k; simpl.
  destruct (Rlt_dec (exp b) (exp s)) as [Hb|Hb], (Rlt_dec (exp a) (exp s)) as [Ha|Ha];
    try apply exp_lt_inv in Hb; try apply exp_lt_inv in Ha;
    try (assert (s <= b) by (apply exp_le_elim; lra)); try (assert (s <= a) by (apply exp_le_elim; lra)).
  - destruct k2 as [k2|]; simpl in *; [|destruct Hfin as [Hf|Hf]; [apply exp_le_elim in Hf; lra|congruence]].
    do 2 eexists. split; [reflexivity|]. split; [reflexivity|]. expnorm. apply exp_increasing. nra.
  - lra.
  - destruct k2 as [k2|]; simpl in *; [|destruct Hfin as [Hf|Hf]; [apply exp_le_elim in Hf; lra|congruence]].
    do 2 eexists. split; [reflexivity|]. split; [reflexivity|]. expnorm. apply exp_increasing. nra.
  - do 2 eexists. split; [reflexivity|]. split; [reflexivity|]. expnorm. apply exp_increasing. nra.
Qed.

(* slope k_1 at and above the endurance limit, k_2 below: ratios of cycle numbers are powers of the load ratio *)
Lemma slope_k1_above wc L1 L2 : valid wc -> SD wc <= L1 -> SD wc <= L2 ->
  exists N1 N2, basquin_cycles_of wc L1 = Fin N1 /\ basquin_cycles_of wc L2 = Fin N2 /\ 0 < N2 /\
                N1 / N2 = npow (L1 / L2) (- k_1 wc).
Proof.
  intros Hv H1 H2. destr_valid Hv. destruct wc as [k1 k2 sd nd tn ts p]; simpl in *.
  assert (HL1 : 0 < L1) by lra. assert (HL2 : 0 < L2) by lra.
  destruct (pos_is_exp _ HL1) as [a ->], (pos_is_exp _ HL2) as [b ->], (pos_is_exp _ HSD) as [s ->], (pos_is_exp _ HND) as [d ->].
  unfold basquin_cycles_of, make_k; simpl.
  destruct (Rlt_dec (exp a) (exp s)); [lra|]. destruct (Rlt_dec (exp b) (exp s)); [lra|].
  do 2 eexists. split; [reflexivity|]. split; [reflexivity|]. expnorm. split; [apply exp_pos|]. f_equal; ring.
Qed.

Lemma slope_k2_below wc k2 L1 L2 : valid wc -> k_2 wc = Fin k2 -> 0 < L1 < SD wc -> 0 < L2 < SD wc ->
  exists N1 N2, basquin_cycles_of wc L1 = Fin N1 /\ basquin_cycles_of wc L2 = Fin N2 /\ 0 < N2 /\
                N1 / N2 = npow (L1 / L2) (- k2).
Proof.
  intros Hv Hk [HL1 H1] [HL2 H2]. destr_valid Hv. destruct wc as [k1 k2' sd nd tn ts p]; simpl in *. subst k2'.
  destruct (pos_is_exp _ HL1) as [a ->], (pos_is_exp _ HL2) as [b ->], (pos_is_exp _ HSD) as [s ->], (pos_is_exp _ HND) as [d ->].
  unfold basquin_cycles_of, make_k; simpl.
  destruct (Rlt_dec (exp a) (exp s)); [|lra]. destruct (Rlt_dec (exp b) (exp s)); [|lra].
  do 2 eexists. split; [reflexivity|]. split; [reflexivity|]. expnorm. split; [apply exp_pos|]. f_equal; ring.
Qed.

(* continuity at the knee (finite k_2): the cycle number as a real function of the load is continuous at SD *)
Lemma continuous_glue (f g h : R -> R) a :
  locally a (fun x => f x = g x \/ f x = h x) -> g a = f a -> h a = f a ->
  continuous g a -> continuous h a -> continuous f a.
Proof.
  intros Hsel Hg Hh Cg Ch P HP.
  unfold continuous in Cg, Ch. rewrite Hg in Cg. rewrite Hh in Ch.
  specialize (Cg P HP). specialize (Ch P HP). unfold filtermap in *.
  generalize (filter_and _ _ Hsel (filter_and _ _ Cg Ch)). apply filter_imp.
  intros x [Hs [H1 H2]]. destruct Hs as [-> | ->]; assumption.
Qed.

Lemma basquin_branch_continuous nd sd k a : 0 < sd -> 0 < a ->
  continuous (fun L => nd * exp (- k * ln (L / sd))) a.
Proof.
  intros Hs Ha. apply (ex_derive_continuous (fun L => nd * exp (- k * ln (L / sd)))). auto_derive.
  repeat split; try exact I. apply Rdiv_lt_0_compat; assumption.
Qed.

Lemma continuous_at_knee wc k2 : valid wc -> k_2 wc = Fin k2 ->
  continuous (fun L => fin_or0 (basquin_cycles_of wc L)) (SD wc) /\ fin_or0 (basquin_cycles_of wc (SD wc)) = ND wc.
Proof.
  intros Hv Hk. pose proof Hv as Hv'. destr_valid Hv.
  assert (Hknee : fin_or0 (basquin_cycles_of wc (SD wc)) = ND wc) by (rewrite knee_cycles by assumption; reflexivity).
  split; [|exact Hknee].
  assert (Hone : forall k, ND wc * exp (- k * ln (SD wc / SD wc)) = ND wc).
  { intros k. replace (SD wc / SD wc) with 1 by (field; lra). rewrite ln_1, Rmult_0_r, exp_0. ring. }
  apply (continuous_glue _ (fun L => ND wc * exp (- k_1 wc * ln (L / SD wc))) (fun L => ND wc * exp (- k2 * ln (L / SD wc)))).
  - exists (mkposreal _ HSD). intros L HL. 
    assert (0 < L).
    { unfold ball in HL; simpl in HL. unfold AbsRing_ball, abs, minus, plus, opp in HL; simpl in HL.
      apply Rabs_def2 in HL. lra. }
    assert (0 < L / SD wc) by (apply Rdiv_lt_0_compat; assumption).
    unfold basquin_cycles_of, make_k. rewrite Hk. destruct (Rlt_dec L (SD wc)); simpl; rewrite npow_pos by assumption; unfold Rpower; [right|left]; reflexivity.
  - rewrite Hknee. apply Hone.
  - rewrite Hknee. apply Hone.
  - apply basquin_branch_continuous; assumption.
  - apply basquin_branch_continuous; assumption.
Qed.

(* ------------------------------------------------------------------ transformation to another failure probability *)
Lemma transform_z_closed k1 k2 s nd tn ts p0 z0 z p :
  transform_z (mkcurve k1 k2 (exp s) nd (exp tn) (exp ts) p0) z0 z p
  = mkcurve k1 k2 (exp (s - (z0 - z) * c_std * ts)) (nd * exp (- ((z0 - z) * c_std * tn) + k1 * ((z0 - z) * c_std * ts)))
            (exp tn) (exp ts) p.
Proof.
  unfold transform_z; simpl. rewrite !pow10_std_exp. expnorm.
  destruct (Req_EM_T (exp (s - (z0 - z) * c_std * ts)) 0) as [H|_]; [generalize (exp_pos (s - (z0 - z) * c_std * ts)); lra|].
  f_equal. unfold Rdiv. rewrite exp_inv, Rmult_assoc, exp_mul. f_equal. f_equal. ring.
Qed.

Lemma transform_z_closed_SD0 k1 k2 nd tn ts p0 z0 z p :
  transform_z (mkcurve k1 k2 0 nd (exp tn) (exp ts) p0) z0 z p
  = mkcurve k1 k2 0 (nd * exp (- ((z0 - z) * c_std * tn))) (exp tn) (exp ts) p.
Proof.
  unfold transform_z; simpl. rewrite !pow10_std_exp.
  assert (H0 : 0 / exp ((z0 - z) * c_std * ts) = 0) by (unfold Rdiv; ring). rewrite H0.
  destruct (Req_EM_T 0 0) as [_|H]; [|lra]. f_equal. unfold Rdiv. now rewrite exp_inv.
Qed.

(* transforming to p1 and then to p2 equals transforming to p2 directly (also for the special case SD = 0) *)
Lemma transform_z_compose wc z0 z1 z2 p1 p2 : 0 <= SD wc -> 0 < TN wc -> 0 < TS wc ->
  transform_z (transform_z wc z0 z1 p1) z1 z2 p2 = transform_z wc z0 z2 p2.
Proof.
  intros HSD HTN HTS. destruct wc as [k1 k2 sd nd tn ts p]; simpl in *.
  destruct (pos_is_exp _ HTN) as [n ->], (pos_is_exp _ HTS) as [t ->].
  destruct HSD as [HSD|<-].
  - destruct (pos_is_exp _ HSD) as [s ->]. rewrite !transform_z_closed. f_equal.
    + f_equal; ring.
    + rewrite Rmult_assoc, exp_mul. f_equal. f_equal. ring.
  - rewrite !transform_z_closed_SD0. f_equal. rewrite Rmult_assoc, exp_mul. f_equal. f_equal. ring.
Qed.

(* transforming to the native probability is the identity -- for every curve, no side condition *)
Lemma transform_z_identity wc z : transform_z wc z z (pf wc) = wc.
Proof.
  destruct wc as [k1 k2 sd nd tn ts p]. unfold transform_z; simpl.
  assert (H1 : forall x, npow 10 ((z - z) * x) = 1).
  { intros x. replace ((z - z) * x) with 0 by ring. rewrite npow_pos by lra. unfold Rpower. now rewrite Rmult_0_l, exp_0. }
  rewrite !H1. replace (sd / 1) with sd by field. replace (nd / 1) with nd by field.
  destruct (Req_EM_T sd 0) as [H|H]; [reflexivity|].
  f_equal. replace (sd / sd) with 1 by (field; assumption). rewrite npow_pos by lra. unfold Rpower. rewrite ln_1, Rmult_0_r, exp_0. ring.
Qed.

Lemma one_le_exp t : 1 <= exp t -> 0 <= t.
Proof. intros H. apply exp_le_elim. now rewrite exp_0. Qed.

Lemma transform_z_valid wc z0 z p : valid wc -> 0 < p < 1 -> valid (transform_z wc z0 z p).
Proof.
  intros Hv Hp. destr_valid Hv. destruct wc as [k1 k2 sd nd tn ts p0]; simpl in *.
  assert (HTN' : 0 < tn) by lra. assert (HTS' : 0 < ts) by lra.
  destruct (pos_is_exp _ HSD) as [s ->], (pos_is_exp _ HTN') as [n ->], (pos_is_exp _ HTS') as [t ->].
  rewrite transform_z_closed. unfold valid; simpl. repeat split; try assumption; try lra; try apply exp_pos.
  apply Rmult_lt_0_compat; [assumption|apply exp_pos].
Qed.

Lemma c_std_pos : 0 < c_std.
Proof. rewrite c_std_literal. lra. Qed.

(* allowable cycles grow with the failure probability (stated on the probit values z1 <= z2) *)
Lemma cycles_monotone_in_z wc z0 z1 z2 p1 p2 L : valid wc -> 0 < L -> z1 <= z2 ->
  ER_le (basquin_cycles_of (transform_z wc z0 z1 p1) L) (basquin_cycles_of (transform_z wc z0 z2 p2) L).
Proof.
  intros Hv HL Hz. destr_valid Hv. destruct wc as [k1 k2 sd nd tn ts p0]; simpl in *.
  assert (HTN' : 0 < tn) by lra. assert (HTS' : 0 < ts) by lra.
  destruct (pos_is_exp _ HSD) as [s ->], (pos_is_exp _ HND) as [d ->], (pos_is_exp _ HTN') as [n ->], (pos_is_exp _ HTS') as [t ->], (pos_is_exp _ HL) as [l ->].
  apply one_le_exp in HTN. apply one_le_exp in HTS.
  rewrite !transform_z_closed. unfold basquin_cycles_of, make_k; simpl.
  pose proof c_std_pos as Hc.
  set (u1 := (z0 - z1) * c_std). set (u2 := (z0 - z2) * c_std).
  assert (Hu : u2 <= u1) by (unfold u1, u2; nra).
  assert (Hut : u2 * t <= u1 * t) by nra. assert (Hun : u2 * n <= u1 * n) by nra.
  destruct (Rlt_dec (exp l) (exp (s - u1 * t))) as [H1|H1], (Rlt_dec (exp l) (exp (s - u2 * t))) as [H2|H2];
    try apply exp_lt_inv in H1; try apply exp_lt_inv in H2;
    try (assert (s - u1 * t <= l) by (apply exp_le_elim; lra)); try (assert (s - u2 * t <= l) by (apply exp_le_elim; lra)).
  - destruct k2 as [k2|]; simpl in *; [|exact I]. expnorm. apply exp_le_intro.
    assert (0 <= (k2 - k1) * (u1 * t - u2 * t)) by (apply Rmult_le_pos; lra). nra.
  - lra.
  - destruct k2 as [k2|]; simpl in *; [|exact I]. expnorm. apply exp_le_intro.
    assert (0 <= (k2 - k1) * (s - u2 * t - l)) by (apply Rmult_le_pos; lra). nra.
  - simpl. expnorm. apply exp_le_intro. nra.
Qed.

(* N_90 / N_10 and SD_90 / SD_10 on the probit values +z9 / -z9 *)
Lemma SD_ratio_z wc z0 z9 pa pb : 0 < SD wc -> 0 < TN wc -> 0 < TS wc ->
  SD (transform_z wc z0 z9 pa) / SD (transform_z wc z0 (- z9) pb) = npow (TS wc) (2 * z9 * c_std).
Proof.
  intros HSD HTN HTS. destruct wc as [k1 k2 sd nd tn ts p]; simpl in HSD, HTN, HTS.
  destruct (pos_is_exp _ HSD) as [s ->], (pos_is_exp _ HTN) as [n ->], (pos_is_exp _ HTS) as [t ->].
  rewrite !transform_z_closed; simpl. expnorm. f_equal; ring.
Qed.

Lemma N_ratio_z wc z0 z9 pa pb L : valid wc ->
  SD (transform_z wc z0 z9 pa) <= L -> SD (transform_z wc z0 (- z9) pb) <= L ->
  exists N90 N10, basquin_cycles_of (transform_z wc z0 z9 pa) L = Fin N90 /\
                  basquin_cycles_of (transform_z wc z0 (- z9) pb) L = Fin N10 /\ 0 < N10 /\
                  N90 / N10 = npow (TN wc) (2 * z9 * c_std).
Proof.
  intros Hv H1 H2. destr_valid Hv. destruct wc as [k1 k2 sd nd tn ts p]; simpl in Hk1, Hk2, HSD, HND, HTN, HTS, Hpf.
  assert (HTN' : 0 < tn) by lra. assert (HTS' : 0 < ts) by lra.
  destruct (pos_is_exp _ HSD) as [s ->], (pos_is_exp _ HND) as [d ->], (pos_is_exp _ HTN') as [n ->], (pos_is_exp _ HTS') as [t ->].
  rewrite !transform_z_closed in H1. rewrite !transform_z_closed in H2. rewrite !transform_z_closed. simpl in H1, H2 |- *.
  assert (HL : 0 < L) by (eapply Rlt_le_trans; [apply exp_pos|exact H1]).
  destruct (pos_is_exp _ HL) as [l ->].
  unfold basquin_cycles_of, make_k; simpl.
  destruct (Rlt_dec (exp l) (exp (s - (z0 - z9) * c_std * t))); [lra|].
  destruct (Rlt_dec (exp l) (exp (s - (z0 - - z9) * c_std * t))); [lra|].
  do 2 eexists. split; [reflexivity|]. split; [reflexivity|]. expnorm. split; [apply exp_pos|]. f_equal; ring.
Qed.

(* the float that scipy returns for norm.ppf(0.9) *)
Definition z9_float : R := 12815515655446004 / 10 ^ 16.

Lemma z9_is_the_90_percent_quantile : Rabs (Phi z9_float - 9 / 10) <= 1 / 10 ^ 12.
Proof. unfold Phi, z9_float. integral with (i_prec 80, i_fuel 2000, i_degree 15). Qed.

(* T = 10^(2 z_0.9 s): the two literals of utils/functions.py are 1/(2 z9) and 2 z9 up to 1e-15 *)
Lemma scatter_constants_are_z9 :
  Rabs (c_T - 2 * z9_float) <= 1 / 10 ^ 15 /\ Rabs (2 * z9_float * c_std - 1) <= 1 / 10 ^ 15.
Proof. rewrite c_std_literal, c_T_literal. unfold z9_float. split; apply Rabs_le; lra. Qed.

(* hence with any ppf(0.9) within 1e-15 of that float the exponent of TN / TS is 1 up to 2e-15 *)
Lemma quantile_exponent_near_1 z9 : Rabs (z9 - z9_float) <= 1 / 10 ^ 15 -> Rabs (2 * z9 * c_std - 1) <= 2 / 10 ^ 15.
Proof.
  intros H. destruct scatter_constants_are_z9 as [_ H2]. pose proof c_std_literal as Hc.
  replace (2 * z9 * c_std - 1) with ((2 * z9_float * c_std - 1) + 2 * c_std * (z9 - z9_float)) by ring.
  eapply Rle_trans; [apply Rabs_triang|]. rewrite Rabs_mult.
  assert (Rabs (2 * c_std) <= 8 / 10) by (rewrite Hc; apply Rabs_le; lra).
  assert (0 <= Rabs (z9 - z9_float)) by apply Rabs_pos. assert (0 <= Rabs (2 * c_std)) by apply Rabs_pos. nra.
Qed.

(* ------------------------------------------------------------------ Miner variants *)
Lemma miner_only_change_k2 wc :
  (let m := miner_original wc in k_2 m = PInf /\ (k_1 m, SD m, ND m, TN m, TS m, pf m) = (k_1 wc, SD wc, ND wc, TN wc, TS wc, pf wc)) /\
  (let m := miner_elementary wc in k_2 m = Fin (k_1 wc) /\ (k_1 m, SD m, ND m, TN m, TS m, pf m) = (k_1 wc, SD wc, ND wc, TN wc, TS wc, pf wc)) /\
  (let m := miner_haibach wc in k_2 m = Fin (2 * k_1 wc - 1) /\ (k_1 m, SD m, ND m, TN m, TS m, pf m) = (k_1 wc, SD wc, ND wc, TN wc, TS wc, pf wc)).
Proof. repeat split. Qed.

(* the variants stay inside the quantifier of the property when k_1 >= 1 *)
Lemma miner_valid wc : valid wc -> 1 <= k_1 wc -> valid (miner_original wc) /\ valid (miner_elementary wc) /\ valid (miner_haibach wc).
Proof. intros Hv Hk. destr_valid Hv. unfold valid; simpl. repeat split; try assumption; try lra. Qed.

(* above the endurance limit the variants do not change the life; below it original >= haibach >= elementary *)
Lemma miner_order wc L : valid wc -> 1 <= k_1 wc -> 0 < L ->
  ER_le (basquin_cycles_of (miner_elementary wc) L) (basquin_cycles_of (miner_haibach wc) L) /\
  ER_le (basquin_cycles_of (miner_haibach wc) L) (basquin_cycles_of (miner_original wc) L) /\
  (SD wc <= L -> basquin_cycles_of (miner_original wc) L = basquin_cycles_of wc L /\
                 basquin_cycles_of (miner_elementary wc) L = basquin_cycles_of wc L /\
                 basquin_cycles_of (miner_haibach wc) L = basquin_cycles_of wc L).
Proof.
  intros Hv Hk HL. destr_valid Hv. destruct wc as [k1 k2 sd nd tn ts p]; simpl in *.
  destruct (pos_is_exp _ HSD) as [s ->], (pos_is_exp _ HND) as [d ->], (pos_is_exp _ HL) as [l ->].
  unfold basquin_cycles_of, make_k, miner_elementary, miner_haibach, miner_original; simpl.
  destruct (Rlt_dec (exp l) (exp s)) as [H|H].
  - apply exp_lt_inv in H. split; [|split; [exact I|intros Hs; apply exp_le_elim in Hs; lra]]. simpl. expnorm. apply exp_le_intro. nra.
  - simpl. split; [lra|]. split; [lra|]. intros _. repeat split.
Qed.

(* ------------------------------------------------------------------ the accessor level: cycles / load / transform with ppf *)
Section Ppf.
Variable ppf : R -> R.
(* contract of scipy.stats.norm.ppf used by the theorems (checked on the sampled probabilities on every run) *)
Definition ppf_increasing := forall p q, 0 < p -> p < q -> q < 1 -> ppf p < ppf q.
Definition ppf_antisymmetric := forall p, 0 < p < 1 -> ppf (1 - p) = - ppf p.

Lemma transform_valid wc p : valid wc -> 0 < p < 1 -> valid (transform ppf wc p).
Proof. apply transform_z_valid. Qed.

Lemma cycles_load_inverse wc p N : valid wc -> 0 < p < 1 -> 0 < N ->
  (N <= ND (transform ppf wc p) \/ k_2 wc <> PInf) -> cycles ppf wc (load ppf wc N p) p = Fin N.
Proof.
  intros Hv Hp HN Hf. unfold cycles, load. apply basquin_cycles_load; [now apply transform_valid|assumption|].
  destruct Hf as [H|H]; [left; exact H|right; exact H].
Qed.

Lemma load_cycles_inverse wc p L : valid wc -> 0 < p < 1 -> 0 < L ->
  (SD (transform ppf wc p) <= L \/ k_2 wc <> PInf) ->
  exists N, cycles ppf wc L p = Fin N /\ 0 < N /\ load ppf wc N p = L.
Proof.
  intros Hv Hp HL Hf. unfold cycles, load. apply basquin_load_cycles; [now apply transform_valid|assumption|].
  destruct Hf as [H|H]; [left; exact H|right; exact H].
Qed.

Lemma cycles_antitone wc p L1 L2 : valid wc -> 0 < p < 1 -> 0 < L1 -> L1 <= L2 ->
  ER_le (cycles ppf wc L2 p) (cycles ppf wc L1 p).
Proof. intros Hv Hp H1 H2. apply basquin_cycles_antitone; [now apply transform_valid|assumption..]. Qed.

Lemma pf_monotone wc p1 p2 L : ppf_increasing -> valid wc -> 0 < p1 -> p1 <= p2 -> p2 < 1 -> 0 < L ->
  ER_le (cycles ppf wc L p1) (cycles ppf wc L p2).
Proof.
  intros Hinc Hv H1 H12 H2 HL. unfold cycles, transform. apply cycles_monotone_in_z; [assumption..|].
  destruct H12 as [H12| ->]; [left; now apply Hinc|right; reflexivity].
Qed.

Lemma transform_compose wc p1 p2 : 0 <= SD wc -> 0 < TN wc -> 0 < TS wc ->
  transform ppf (transform ppf wc p1) p2 = transform ppf wc p2.
Proof. intros. unfold transform at 1 3. simpl. now apply transform_z_compose. Qed.

Lemma transform_native_identity wc : transform ppf wc (pf wc) = wc.
Proof. apply transform_z_identity. Qed.

Lemma ppf_10 : ppf_antisymmetric -> ppf (1 / 10) = - ppf (9 / 10).
Proof. intros Hs. replace (1 / 10) with (1 - 9 / 10) by lra. apply Hs. lra. Qed.

Lemma quantile_ratio_TS wc : ppf_antisymmetric -> 0 < SD wc -> 0 < TN wc -> 0 < TS wc ->
  SD (transform ppf wc (9 / 10)) / SD (transform ppf wc (1 / 10)) = npow (TS wc) (2 * ppf (9 / 10) * c_std).
Proof. intros Hs H1 H2 H3. unfold transform. rewrite (ppf_10 Hs). now apply SD_ratio_z. Qed.

Lemma quantile_ratio_TN wc L : ppf_antisymmetric -> valid wc ->
  SD (transform ppf wc (9 / 10)) <= L -> SD (transform ppf wc (1 / 10)) <= L ->
  exists N90 N10, cycles ppf wc L (9 / 10) = Fin N90 /\ cycles ppf wc L (1 / 10) = Fin N10 /\ 0 < N10 /\
                  N90 / N10 = npow (TN wc) (2 * ppf (9 / 10) * c_std).
Proof. intros Hs Hv. unfold cycles, transform. rewrite (ppf_10 Hs). now apply N_ratio_z. Qed.

(* broadcast inputs: the row-wise result is the element-wise scalar evaluation *)
Lemma broadcast_is_elementwise rows p i d :
  length (cycles_rows ppf rows p) = length rows /\ length (load_rows ppf rows p) = length rows /\
  nth i (cycles_rows ppf rows p) (cycles ppf (fst d) (snd d) p) = cycles ppf (fst (nth i rows d)) (snd (nth i rows d)) p /\
  nth i (load_rows ppf rows p) (load ppf (fst d) (snd d) p) = load ppf (fst (nth i rows d)) (snd (nth i rows d)) p.
Proof.
  unfold cycles_rows, load_rows. rewrite !map_length. repeat split.
  - apply (map_nth (fun r => cycles ppf (fst r) (snd r) p)).
  - apply (map_nth (fun r => load ppf (fst r) (snd r) p)).
Qed.
End Ppf.

(* the contract is satisfiable (the logit function meets it; scipy's ppf is checked on samples at run time) *)
Lemma ppf_contract_satisfiable : exists ppf, ppf_increasing ppf /\ ppf_antisymmetric ppf.
Proof.
  exists (fun p => ln (p / (1 - p))). split.
  - intros p q Hp Hpq Hq. apply ln_increasing.
    + apply Rdiv_lt_0_compat; lra.
    + apply Rmult_lt_reg_r with ((1 - p) * (1 - q)); [apply Rmult_lt_0_compat; lra|].
      replace (p / (1 - p) * ((1 - p) * (1 - q))) with (p * (1 - q)) by (field; lra).
      replace (q / (1 - q) * ((1 - p) * (1 - q))) with (q * (1 - p)) by (field; lra). nra.
  - intros p Hp. rewrite <- ln_Rinv by (apply Rdiv_lt_0_compat; lra). f_equal. field. lra.
Qed.
