(* C12 -- generic part of the proofs about PL.Strength.MeanStress:
   (1) every step of the segment algorithm preserves  amplitude * H(R)  for a potential H that is, on every
       segment, a multiple of  w M R = 1 + M * (1+R)/(1-R)  (the iso-damage invariant of slope M);
   (2) the R component of a cycle evolves independently of its amplitude (stepR), so that "the cycle arrives at
       the goal" is a statement about comparisons only;
   (3) membership in the schedule does not depend on the sorting. *)
From Coq Require Import QArith Qabs Qminmax Bool List Lqa Lia Setoid Morphisms.
From PL Require Import Strength.MeanStress.
Import ListNotations.
Open Scope Q_scope.

(* ------------------------------------------------------------------ boolean comparisons *)
Lemma Qle_bool_true a b : a <= b -> Qle_bool a b = true.
Proof. intro H; apply Qle_bool_iff; exact H. Qed.
Lemma Qle_bool_false a b : b < a -> Qle_bool a b = false.
Proof.
  intro H. destruct (Qle_bool a b) eqn:E; [|reflexivity].
  apply Qle_bool_iff in E. exfalso. apply (Qlt_irrefl a). eapply Qle_lt_trans; eassumption.
Qed.
Lemma Qltb_true a b : a < b -> Qltb a b = true.
Proof. intro H. unfold Qltb. rewrite Qle_bool_false by exact H. reflexivity. Qed.
Lemma Qltb_false a b : b <= a -> Qltb a b = false.
Proof. intro H. unfold Qltb. rewrite Qle_bool_true by exact H. reflexivity. Qed.
Lemma Qltb_lt a b : Qltb a b = true -> a < b.
Proof.
  unfold Qltb. intro H. destruct (Qlt_le_dec a b) as [L|L]; [exact L|].
  rewrite (Qle_bool_true _ _ L) in H. discriminate.
Qed.
Lemma Qltb_ge a b : Qltb a b = false -> b <= a.
Proof.
  unfold Qltb. intro H. destruct (Qlt_le_dec a b) as [L|L]; [|exact L].
  rewrite (Qle_bool_false _ _ L) in H. discriminate.
Qed.
Lemma Qle_bool_gt a b : Qle_bool a b = false -> b < a.
Proof.
  intro H. destruct (Qlt_le_dec b a) as [L|L]; [exact L|].
  rewrite (Qle_bool_true _ _ L) in H. discriminate.
Qed.
Lemma Qeq_bool_true a b : a == b -> Qeq_bool a b = true.
Proof. apply Qeq_eq_bool. Qed.
Lemma Qeq_bool_false a b : ~ a == b -> Qeq_bool a b = false.
Proof. intro H. destruct (Qeq_bool a b) eqn:E; [|reflexivity]. apply Qeq_bool_eq in E. contradiction. Qed.

(* ------------------------------------------------------------------ the iso-damage weight *)
(* w M R = 1 + M * fake_meanstress(R): a * w M R is constant along a line of slope -M in the Haigh diagram *)
Definition w (M : Q) (R : ExtQ) : Q :=
  match R with
  | Fin r => (1 - r + M * (1 + r)) / (1 - r)
  | _ => 1 - M
  end.

(* admissible stress ratio of a stored cycle: never +inf, never 1 (amplitude 0) *)
Definition cyc_okR (R : ExtQ) : Prop :=
  match R with Fin r => ~ r == 1 | NegInf => True | PosInf => False end.

(* admissible local goal (after 1.0 -> -inf): the divisors of transformed_amplitude do not vanish *)
Definition target_ok (M : Q) (b' : ExtQ) : Prop :=
  match b' with
  | NegInf => ~ 1 - M == 0
  | Fin g => ~ g == 1 /\ ~ 1 - g + M * (1 + g) == 0
  | PosInf => False
  end.

Lemma target_ok_cyc M b' : target_ok M b' -> cyc_okR b'.
Proof. destruct b'; cbn; tauto. Qed.

Lemma trans_amp_w M b' a R :
  cyc_okR R -> target_ok M b' -> trans_amp M b' (a, R) * w M b' == a * w M R.
Proof.
  intros HR Hb. unfold trans_amp, mean_of. cbn [fst snd].
  destruct b' as [|g|]; cbn in Hb; [| |contradiction].
  - destruct R as [|r|]; cbn in HR; [| |contradiction]; cbn [w].
    + field. lra.
    + rewrite (Qeq_bool_false r 1 HR). field. split; lra.
  - destruct Hb as [Hg Hd]. destruct R as [|r|]; cbn in HR; [| |contradiction]; cbn [w].
    + field. split; lra.
    + rewrite (Qeq_bool_false r 1 HR). field. repeat split; lra.
Qed.

(* a step is good for the potential H if H is k * w on everything the step can move and on its target *)
Definition good_step (H : ExtQ -> Q) (sb : Seg * ExtQ) : Prop :=
  exists k : Q,
    (forall R, cyc_okR R -> in_test (fst sb) (snd sb) R = true -> H R == k * w (slope (fst sb)) R) /\
    H (local_goal (snd sb)) == k * w (slope (fst sb)) (local_goal (snd sb)) /\
    target_ok (slope (fst sb)) (local_goal (snd sb)).

Lemma step_invariant H sb c :
  good_step H sb -> cyc_okR (snd c) ->
  fst (step c sb) * H (snd (step c sb)) == fst c * H (snd c) /\ cyc_okR (snd (step c sb)).
Proof.
  intros [k [H1 [H2 H3]]] Hc. destruct sb as [s b], c as [a R]. cbn [fst snd] in *.
  unfold step. cbv beta iota. cbn [fst snd]. destruct (in_test s b R) eqn:E; cbn [fst snd]; [|split; [reflexivity|exact Hc]].
  split; [|eapply target_ok_cyc; exact H3].
  rewrite H2, (H1 R Hc E).
  transitivity (k * (trans_amp (slope s) (local_goal b) (a, R) * w (slope s) (local_goal b))); [ring|].
  rewrite (trans_amp_w _ _ a R Hc H3). ring.
Qed.

Lemma fold_invariant H l : forall c,
  Forall (good_step H) l -> cyc_okR (snd c) ->
  fst (fold_left step l c) * H (snd (fold_left step l c)) == fst c * H (snd c) /\
  cyc_okR (snd (fold_left step l c)).
Proof.
  induction l as [|sb l IH]; intros c Hl Hc; cbn [fold_left]; [split; [reflexivity|exact Hc]|].
  inversion Hl as [|? ? Hsb Hl']; subst.
  destruct (step_invariant H sb c Hsb Hc) as [E1 E2].
  destruct (IH (step c sb) Hl' E2) as [E3 E4]. split; [|exact E4].
  rewrite E3. exact E1.
Qed.

(* ------------------------------------------------------------------ the R component alone *)
Definition stepR (R : ExtQ) (sb : Seg * ExtQ) : ExtQ :=
  if in_test (fst sb) (snd sb) R then local_goal (snd sb) else R.

Lemma snd_step c sb : snd (step c sb) = stepR (snd c) sb.
Proof. destruct sb as [s b], c as [a R]. unfold step, stepR. cbv beta iota. cbn [fst snd]. destruct (in_test s b R); reflexivity. Qed.

Lemma snd_fold_step l : forall c, snd (fold_left step l c) = fold_left stepR l (snd c).
Proof. induction l as [|sb l IH]; intro c; cbn [fold_left]; [reflexivity|]. rewrite IH, snd_step. reflexivity. Qed.

(* ------------------------------------------------------------------ what the schedule consists of *)
Lemma In_insert_by bf x l y : In y (insert_by bf x l) -> y = x \/ In y l.
Proof.
  induction l as [|z t IH]; cbn [insert_by].
  - intros [E|[]]; left; symmetry; exact E.
  - destruct (bf (snd x) (snd z)).
    + intros [E|Hy]; [left; symmetry; exact E|right; exact Hy].
    + intros [E|Hy]; [right; left; exact E|]. destruct (IH Hy) as [E|Hy']; [left; exact E|right; right; exact Hy'].
Qed.
Lemma In_sort_by bf l y : In y (sort_by bf l) -> In y l.
Proof.
  induction l as [|x t IH]; cbn [sort_by fold_right]; [tauto|].
  intro Hy. apply In_insert_by in Hy. destruct Hy as [E|Hy]; [left; symmetry; exact E|right; apply IH; exact Hy].
Qed.
Lemma In_dists D G p : In p (dists D G) -> In (fst p) D.
Proof. unfold dists. intro Hp. apply in_map_iff in Hp. destruct Hp as [s [E Hs]]. subst p. exact Hs. Qed.

Lemma In_schedule fx D G s b :
  In (s, b) (schedule fx D G) ->
  In s D /\ (b = left_boundary s \/ b = lo s \/
             (b = G /\ (contains_rc G s = true \/ contains_lc G s = true \/ (G = NegInf /\ contains_rc PosInf s = true)))).
Proof.
  unfold schedule. rewrite !in_app_iff. intros [Hl|[Hr|Hc]].
  - apply in_map_iff in Hl. destruct Hl as [s' [E Hs]]. inversion E; subst s' b.
    unfold left_segs in Hs. apply in_map_iff in Hs. destruct Hs as [p [E' Hp]]. subst s.
    apply In_sort_by, filter_In in Hp. destruct Hp as [Hp _]. apply In_dists in Hp. tauto.
  - apply in_map_iff in Hr. destruct Hr as [s' [E Hs]]. inversion E; subst s' b.
    unfold right_segs in Hs. apply in_map_iff in Hs. destruct Hs as [p [E' Hp]]. subst s.
    apply In_sort_by, filter_In in Hp. destruct Hp as [Hp _]. apply In_dists in Hp. tauto.
  - apply in_map_iff in Hc. destruct Hc as [s' [E Hs]]. inversion E; subst s' b.
    unfold containing in Hs. apply filter_In in Hs. destruct Hs as [Hs Hm].
    split; [exact Hs|]. right; right. split; [reflexivity|].
    apply orb_true_iff in Hm. destruct Hm as [Hm|Hm].
    + unfold goal_mask in Hm. destruct (existsb (contains_rc G) D); tauto.
    + apply andb_true_iff in Hm. destruct Hm as [Hm1 Hm2]. apply andb_true_iff in Hm1. destruct Hm1 as [Hn _].
      right; right. split; [destruct G; try discriminate; reflexivity|exact Hm2].
Qed.

(* a diagram-level criterion: every step the schedule can contain is good *)
Definition good_diagram (H : ExtQ -> Q) (D : list Seg) (G : ExtQ) : Prop :=
  forall s, In s D ->
    good_step H (s, left_boundary s) /\ good_step H (s, lo s) /\
    (contains_rc G s = true \/ contains_lc G s = true \/ (G = NegInf /\ contains_rc PosInf s = true) -> good_step H (s, G)).

Lemma good_schedule fx H D G : good_diagram H D G -> Forall (good_step H) (schedule fx D G).
Proof.
  intro HD. apply Forall_forall. intros [s b] Hsb. apply In_schedule in Hsb.
  destruct Hsb as [Hs Hb]. destruct (HD s Hs) as [G1 [G2 G3]].
  destruct Hb as [E|[E|[E Hc]]]; subst b; auto.
Qed.

(* the invariant of the whole transformation *)
Theorem transform_invariant fx H D G c :
  good_diagram H D G -> cyc_okR (snd c) ->
  fst (transform_state fx D G c) * H (snd (transform_state fx D G c)) == fst c * H (snd c).
Proof.
  intros HD Hc. unfold transform_state.
  exact (proj1 (fold_invariant H (schedule fx D G) c (good_schedule fx H D G HD) Hc)).
Qed.
