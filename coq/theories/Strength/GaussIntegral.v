(* The Gaussian integral bound  (RInt gauss 0 t)^2 < PI/2  for every t, hence 0 < Phi z < 1.
   Proof by differentiation under the integral sign (Coquelicot is_derive_RInt_param):
     K t := (int_0^t exp(-x^2/2) dx)^2 + 2 int_0^1 exp(-t^2 (1+x^2)/2) / (1+x^2) dx
   has derivative 0, and K 0 = 2 atan 1 = PI/2; the second summand is positive. *)
From Coq Require Import Reals Lra.
From Coquelicot Require Import Coquelicot.
From PL Require Import Strength.Normal.
Open Scope R_scope.

Definition gE (t : R) : R := RInt gauss 0 t.
Definition gf (t x : R) : R := exp (- (t * t * (1 + x * x)) / 2) / (1 + x * x).
Definition gdf (t x : R) : R := - t * exp (- (t * t * (1 + x * x)) / 2).
Definition gJ (t : R) : R := RInt (gf t) 0 1.
Definition gK (t : R) : R := gE t * gE t + 2 * gJ t.

Lemma one_plus_sq_pos x : 0 < 1 + x * x.
Proof. nra. Qed.

Lemma gf_pos t x : 0 < gf t x.
Proof. unfold gf. apply Rdiv_lt_0_compat; [apply exp_pos | apply one_plus_sq_pos]. Qed.

Lemma gf_derive t x : is_derive (fun u => gf u x) t (gdf t x).
Proof.
  unfold gf, gdf. auto_derive.
  - exact I.
  - unfold Rdiv. generalize (exp (- (t * t * (1 + x * x)) * / 2)). intros e.
    generalize (Rgt_not_eq _ _ (one_plus_sq_pos x)). generalize (1 + x * x). intros d Hd.
    simpl in t. field. exact Hd.
Qed.

Lemma gf_continuous_x t x : continuous (gf t) x.
Proof.
  apply (ex_derive_continuous (K:=R_AbsRing) (V:=R_NormedModule) (gf t) x).
  unfold gf. auto_derive. apply Rgt_not_eq, one_plus_sq_pos.
Qed.

Lemma gf_ex_RInt t a b : ex_RInt (gf t) a b.
Proof. apply (ex_RInt_continuous (V:=R_CompleteNormedModule)). intros z _. apply gf_continuous_x. Qed.

Lemma gdf_continuous_2d t x : continuity_2d_pt gdf t x.
Proof.
  unfold gdf.
  apply (continuity_2d_pt_mult (fun u v => - u) (fun u v => exp (- (u * u * (1 + v * v)) / 2))).
  - apply continuity_2d_pt_opp, continuity_2d_pt_id1.
  - apply (continuity_1d_2d_pt_comp exp (fun u v => - (u * u * (1 + v * v)) / 2)).
    + apply derivable_continuous_pt, derivable_pt_exp.
    + apply (continuity_2d_pt_ext (fun u v => - ((u * u) * (1 + v * v)) * / 2)).
      { intros; reflexivity. }
      apply (continuity_2d_pt_mult (fun u v => - (u * u * (1 + v * v))) (fun _ _ => / 2)); [|apply continuity_2d_pt_const].
      apply continuity_2d_pt_opp.
      apply (continuity_2d_pt_mult (fun u v => u * u) (fun u v => 1 + v * v)).
      * apply (continuity_2d_pt_mult (fun u v => u) (fun u v => u)); apply continuity_2d_pt_id1.
      * apply (continuity_2d_pt_plus (fun _ _ => 1) (fun u v => v * v)); [apply continuity_2d_pt_const|].
        apply (continuity_2d_pt_mult (fun u v => v) (fun u v => v)); apply continuity_2d_pt_id2.
Qed.

Lemma gJ_derive t : is_derive gJ t (RInt (gdf t) 0 1).
Proof.
  unfold gJ. evar_last.
  - apply (is_derive_RInt_param gf 0 1 t).
    + apply filter_forall. intros u x _. eexists. apply gf_derive.
    + intros x _. apply (continuity_2d_pt_ext gdf).
      * intros u v. symmetry. apply is_derive_unique, gf_derive.
      * apply gdf_continuous_2d.
    + apply filter_forall. intros u. apply gf_ex_RInt.
  - apply RInt_ext. intros x _. apply is_derive_unique, gf_derive.
Qed.

Lemma gauss_split t x : exp (- (t * t * (1 + x * x)) / 2) = gauss t * gauss (t * x).
Proof. unfold gauss. rewrite <- exp_plus. f_equal. field. Qed.

Lemma RInt_gdf t : RInt (gdf t) 0 1 = - (gauss t * gE t).
Proof.
  unfold gE.
  replace (RInt gauss 0 t) with (RInt gauss (t * 0 + 0) (t * 1 + 0)) by (f_equal; lra).
  rewrite <- (RInt_comp_lin (V:=R_CompleteNormedModule) gauss t 0 0 1) by apply gauss_ex_RInt.
  rewrite (RInt_ext (gdf t) (fun x => scal (- gauss t) (scal t (gauss (t * x + 0))))).
  - rewrite (RInt_scal (V:=R_CompleteNormedModule)).
    + unfold scal; simpl; unfold mult; simpl. lra.
    + apply (ex_RInt_comp_lin (V:=R_CompleteNormedModule) gauss t 0 0 1). apply gauss_ex_RInt.
  - intros x _. unfold gdf, scal; simpl; unfold mult; simpl. rewrite gauss_split.
    replace (t * x + 0) with (t * x) by lra. lra.
Qed.

Lemma gE_derive t : is_derive gE t (gauss t).
Proof.
  apply (is_derive_RInt gauss gE 0 t).
  - apply filter_forall. intros b. apply (RInt_correct (V:=R_CompleteNormedModule)), gauss_ex_RInt.
  - apply gauss_continuous.
Qed.

Lemma gK_derive t : is_derive gK t 0.
Proof.
  unfold gK. evar_last.
  - apply @is_derive_plus.
    + apply (is_derive_mult gE gE t (gauss t) (gauss t)); try apply gE_derive.
      intros n m. unfold mult; simpl. apply Rmult_comm.
    + apply is_derive_scal. apply gJ_derive.
  - rewrite RInt_gdf. unfold plus, mult; simpl. lra.
Qed.

Lemma gK_continuity t : continuity_pt gK t.
Proof.
  apply continuity_pt_filterlim.
  apply (ex_derive_continuous (K:=R_AbsRing) (V:=R_NormedModule) gK t). eexists. apply gK_derive.
Qed.

Lemma gK_constant t : gK t = gK 0.
Proof.
  destruct (MVT_gen gK 0 t (fun _ => 0)) as [c [_ Hc]].
  - intros x _. apply gK_derive.
  - intros x _. apply gK_continuity.
  - lra.
Qed.

Lemma gK_0 : gK 0 = PI / 2.
Proof.
  unfold gK, gE, gJ. rewrite RInt_point. unfold zero; simpl.
  assert (H : RInt (gf 0) 0 1 = PI / 4).
  { rewrite (RInt_ext (gf 0) (fun x => / (1 + Rsqr x))).
    - apply is_RInt_unique. rewrite <- atan_1.
      replace (atan 1) with (minus (atan 1) (atan 0)) by (rewrite atan_0; unfold minus, plus, opp; simpl; lra).
      apply (is_RInt_derive (V:=R_CompleteNormedModule) atan (fun x => / (1 + Rsqr x))).
      + intros x _. apply is_derive_atan.
      + intros x _. apply (ex_derive_continuous (K:=R_AbsRing) (V:=R_NormedModule) (fun x => / (1 + Rsqr x)) x).
        unfold Rsqr. auto_derive. apply Rgt_not_eq. nra.
    - intros x _. unfold gf. replace (- (0 * 0 * (1 + x * x)) / 2) with 0 by lra. rewrite exp_0.
      unfold Rdiv, Rsqr. rewrite Rmult_1_l. reflexivity. }
  rewrite H. lra.
Qed.

Lemma gJ_pos t : 0 < gJ t.
Proof.
  unfold gJ. apply RInt_gt_0; [lra | |]; intros; [apply gf_pos | apply gf_continuous_x].
Qed.

Theorem gauss_integral_sq_lt t : gE t * gE t < PI / 2.
Proof. generalize (gK_constant t), gK_0, (gJ_pos t). unfold gK. lra. Qed.

Lemma sqrt_half_PI : sqrt (PI / 2) * 2 = sqrt (2 * PI).
Proof.
  replace 2 with (sqrt 4) at 2.
  - rewrite <- sqrt_mult_alt by (generalize PI_RGT_0; lra). f_equal. lra.
  - replace 4 with (2 * 2) by lra. apply sqrt_square. lra.
Qed.

Theorem gauss_integral_abs_lt t : Rabs (gE t) < sqrt (2 * PI) / 2.
Proof.
  rewrite <- sqrt_half_PI. replace (sqrt (PI / 2) * 2 / 2) with (sqrt (PI / 2)) by lra.
  rewrite <- sqrt_Rsqr_abs. apply sqrt_lt_1_alt. split; [apply Rle_0_sqr|].
  unfold Rsqr. apply gauss_integral_sq_lt.
Qed.

(* the distribution function takes its values strictly between 0 and 1 *)
Theorem Phi_in_0_1 z : 0 < Phi z < 1.
Proof.
  unfold Phi. fold (gE z). generalize (gauss_integral_abs_lt z), sqrt_2PI_pos. intros H Hs.
  apply Rabs_def2 in H.
  assert (E : / sqrt (2 * PI) * gE z = gE z / sqrt (2 * PI)) by (unfold Rdiv; lra). rewrite E.
  assert (-(1/2) < gE z / sqrt (2 * PI) < 1 / 2); [|lra].
  split.
  - apply Rmult_lt_reg_r with (sqrt (2 * PI)); [assumption|]. unfold Rdiv at 2. rewrite Rmult_assoc, Rinv_l by lra. lra.
  - apply Rmult_lt_reg_r with (sqrt (2 * PI)); [assumption|]. unfold Rdiv at 1. rewrite Rmult_assoc, Rinv_l by lra. lra.
Qed.
