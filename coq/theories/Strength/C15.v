(* C15 -- failure probability = overlap of the load and strength distributions.
   Theorems about the model that py2coq regenerates from strength/failure_probability.py on every run
   (PLgen.GenFailureProbability) and about the closed form  Phi((lm - sm)/sqrt(ls^2+ss^2)). *)
From Coq Require Import Reals Lra.
From Coquelicot Require Import Coquelicot.
From PL Require Import Common.RPrelude Strength.Normal.
From PLgen Require Import GenFailureProbability.
Open Scope R_scope.

(* closed form; lm, sm are the log10 of the medians, ls, ss the scatters (standard deviations in log10 units) *)
Definition pf_closed (lm ls sm ss : R) : R := Phi ((lm - sm) / sqrt (ls * ls + ss * ss)).
(* the same in the arguments of the implementation *)
Definition pf_closed_of (strength_median strength_std load_median load_std : R) : R :=
  pf_closed (log10R load_median) load_std (log10R strength_median) strength_std.

(* what pf_norm_load hands to the quadrature: load density (centred at 0) times strength distribution
   function (centred at delta = log10 strength median - log10 load median), over +-16 load scatters *)
Definition overlap_integrand (ls ss delta x : R) : R := phi (x / ls) / ls * Phi ((x - delta) / ss).
Definition overlap_trunc (ls ss delta : R) : R := RInt (overlap_integrand ls ss delta) (-16 * ls) (16 * ls).

(* ------------------------------------------------------------------ the generated model is what the property says *)

Lemma pf_simple_load_is_Phi sm ss L :
  fp_pf_simple_load sm ss L = Phi ((log10R L - log10R sm) / ss).
Proof. reflexivity. Qed.

Lemma sqrt_sq_sum_0 ss : 0 < ss -> sqrt (0 * 0 + ss * ss) = ss.
Proof. intros H. replace (0 * 0 + ss * ss) with (ss * ss) by lra. apply sqrt_square. lra. Qed.

Lemma pf_simple_load_is_closed_at_zero_scatter sm ss L :
  0 < ss -> fp_pf_simple_load sm ss L = pf_closed_of sm ss L 0.
Proof. intros H. unfold pf_closed_of, pf_closed. rewrite sqrt_sq_sum_0 by assumption. reflexivity. Qed.

Lemma pf_norm_load_is_truncated_overlap sm ss lm ls :
  fp_pf_norm_load sm ss lm ls = overlap_trunc ls ss (log10R sm - log10R lm).
Proof.
  unfold fp_pf_norm_load, overlap_trunc, quad_ideal. cbv zeta.
  apply RInt_ext. intros x _. unfold overlap_integrand, norm_pdf, norm_cdf.
  replace (x - 0) with x by lra. reflexivity.
Qed.

Lemma pf_norm_load_limits_is_overlap sm ss lm ls lo up :
  fpl_pf_norm_load sm ss lm ls lo up =
  RInt (overlap_integrand ls ss (log10R sm - log10R lm)) (lo - log10R lm) (up - log10R lm).
Proof.
  unfold fpl_pf_norm_load, quad_ideal. cbv zeta.
  apply RInt_ext. intros x _. unfold overlap_integrand, norm_pdf, norm_cdf.
  replace (x - 0) with x by lra. reflexivity.
Qed.

Lemma pf_norm_load_default_limits sm ss lm ls :
  fpl_pf_norm_load sm ss lm ls (log10R lm - 16 * ls) (log10R lm + 16 * ls) = fp_pf_norm_load sm ss lm ls.
Proof.
  rewrite pf_norm_load_limits_is_overlap, pf_norm_load_is_truncated_overlap. unfold overlap_trunc.
  f_equal; lra.
Qed.

(* ------------------------------------------------------------------ the closed form *)

Lemma scatter_pos ls ss : 0 < ss -> 0 < sqrt (ls * ls + ss * ss).
Proof. intros H. apply sqrt_lt_R0. nra. Qed.

Lemma log10R_increasing a b : 0 < a -> a < b -> log10R a < log10R b.
Proof.
  intros Ha Hab. unfold log10R. apply Rmult_lt_compat_r.
  - apply Rinv_0_lt_compat. rewrite <- ln_1. apply ln_increasing; lra.
  - now apply ln_increasing.
Qed.

Lemma pf_closed_increasing_in_lm lm1 lm2 ls sm ss :
  0 < ss -> lm1 < lm2 -> pf_closed lm1 ls sm ss < pf_closed lm2 ls sm ss.
Proof.
  intros Hs H. unfold pf_closed. apply Phi_strictly_increasing.
  apply Rmult_lt_compat_r; [apply Rinv_0_lt_compat, scatter_pos; assumption | lra].
Qed.

Lemma pf_closed_decreasing_in_sm lm ls sm1 sm2 ss :
  0 < ss -> sm1 < sm2 -> pf_closed lm ls sm2 ss < pf_closed lm ls sm1 ss.
Proof.
  intros Hs H. unfold pf_closed. apply Phi_strictly_increasing.
  apply Rmult_lt_compat_r; [apply Rinv_0_lt_compat, scatter_pos; assumption | lra].
Qed.

Theorem pf_closed_increasing_in_load sm ss L1 L2 ls :
  0 < ss -> 0 < L1 -> L1 < L2 -> pf_closed_of sm ss L1 ls < pf_closed_of sm ss L2 ls.
Proof. intros. apply pf_closed_increasing_in_lm; [assumption|]. now apply log10R_increasing. Qed.

Theorem pf_closed_decreasing_in_strength sm1 sm2 ss L ls :
  0 < ss -> 0 < sm1 -> sm1 < sm2 -> pf_closed_of sm2 ss L ls < pf_closed_of sm1 ss L ls.
Proof. intros. apply pf_closed_decreasing_in_sm; [assumption|]. now apply log10R_increasing. Qed.

(* exchanging the roles of load and strength gives the complementary probability *)
Theorem pf_closed_complement lm ls sm ss :
  pf_closed lm ls sm ss + pf_closed sm ss lm ls = 1.
Proof.
  unfold pf_closed. replace (ss * ss + ls * ls) with (ls * ls + ss * ss) by lra.
  replace ((sm - lm) / sqrt (ls * ls + ss * ss)) with (- ((lm - sm) / sqrt (ls * ls + ss * ss))) by (unfold Rdiv; lra).
  rewrite Phi_symmetry. lra.
Qed.

Theorem pf_closed_equal_medians ls ss m : pf_closed m ls m ss = 1 / 2.
Proof. unfold pf_closed. replace ((m - m) / _) with 0 by (unfold Rdiv; lra). apply Phi_0. Qed.

(* the closed form tends to the deterministic-load value as the load scatter vanishes *)
Lemma pf_closed_continuous_in_ls lm sm ss ls0 :
  0 < ss -> continuous (fun ls => pf_closed lm ls sm ss) ls0.
Proof.
  intros Hs. unfold pf_closed.
  apply (continuous_comp (fun ls => (lm - sm) / sqrt (ls * ls + ss * ss)) Phi); [|apply Phi_continuous].
  apply (ex_derive_continuous (K:=R_AbsRing) (V:=R_NormedModule)).
  auto_derive. split; [nra|]. split; [|exact I]. apply Rgt_not_eq, scatter_pos; assumption.
Qed.

Theorem pf_closed_tends_to_simple sm ss L :
  0 < ss ->
  filterlim (fun ls => pf_closed_of sm ss L ls) (locally 0) (locally (fp_pf_simple_load sm ss L)).
Proof.
  intros Hs. rewrite (pf_simple_load_is_closed_at_zero_scatter sm ss L Hs).
  apply (pf_closed_continuous_in_ls (log10R L) (log10R sm) ss 0 Hs).
Qed.

(* epsilon-delta reading of the same statement *)
Corollary pf_closed_tends_to_simple_eps sm ss L :
  0 < ss -> forall eps : posreal, exists d : posreal, forall ls,
    Rabs ls < d -> Rabs (pf_closed_of sm ss L ls - fp_pf_simple_load sm ss L) < eps.
Proof.
  intros Hs eps.
  destruct (proj1 (filterlim_locally _ _) (pf_closed_tends_to_simple sm ss L Hs) eps) as [d Hd].
  exists d. intros ls Hl. apply Hd. unfold ball; simpl. unfold AbsRing_ball, abs, minus, plus, opp; simpl.
  replace (ls + - 0) with ls by lra. assumption.
Qed.

(* ------------------------------------------------------------------ pf_arbitrary_load: hand-written model
   np.trapezoid(load_pdf * norm.cdf(load_values, loc=s_50, scale=s_std), x=load_values)
   (load values in log10 units; tied to the implementation by per-run certificates on short grids) *)
From Coq Require Import List.
Import ListNotations.

Fixpoint trapz (xs ys : list R) : R :=
  match xs, ys with
  | x0 :: ((x1 :: _) as xs'), y0 :: ((y1 :: _) as ys') => (x1 - x0) * (y0 + y1) / 2 + trapz xs' ys'
  | _, _ => 0
  end.

Fixpoint weight_by_cdf (s50 ss : R) (xs pdf : list R) : list R :=
  match xs, pdf with
  | x :: xs', p :: pdf' => p * norm_cdf x s50 ss :: weight_by_cdf s50 ss xs' pdf'
  | _, _ => []
  end.

Definition pf_arbitrary_model (strength_median strength_std : R) (xs pdf : list R) : R :=
  trapz xs (weight_by_cdf (log10R strength_median) strength_std xs pdf).
