(* C15 -- failure probability = overlap of the load and strength distributions.
   Theorems about the model that py2coq regenerates from strength/failure_probability.py on every run
   (PLgen.GenFailureProbability) and about the closed form  Phi((lm - sm)/sqrt(ls^2+ss^2)). *)
From Coq Require Import Reals Lra.
From Coquelicot Require Import Coquelicot.
From PL Require Import Common.RPrelude Strength.Normal Strength.GaussIntegral.
From PLgen Require Import GenFailureProbability.
Open Scope R_scope.

(* closed form; lm, sm are the log10 of the medians, ls, ss the scatters (standard deviations in log10 units) *)
Definition pf_closed (lm ls sm ss : R) : R := Phi ((lm - sm) / sqrt (ls * ls + ss * ss)).
(* the same in the arguments of the implementation *)
Definition pf_closed_of (strength_median strength_std load_median load_std : R) : R :=
  pf_closed (log10R load_median) load_std (log10R strength_median) strength_std.

(* what pf_norm_load hands to the quadrature: load density (centred at 0) times strength distribution
   function (centred at delta = log10 strength median - log10 load median), over +-16 load scatters *)
Definition overlap_integrand (ls ss delta x : R) : R := phi (x / ls) / ls * Phi ((x - delta) / ss).
Definition overlap_trunc (ls ss delta : R) : R := RInt (overlap_integrand ls ss delta) (-16 * ls) (16 * ls).

(* ------------------------------------------------------------------ the generated model is what the property says *)

(* the proofs below compare the generated text with the stated integral up to linear arithmetic in the limits and in the
   arguments of phi / Phi, so that behaviour-preserving rewrites of the source (16.*sc vs sc*16., x vs x - 0.0, renamed
   locals, a named local function instead of the lambda) do not break them, while any change of value does *)
Ltac arith_eq := repeat (try reflexivity; try lra; f_equal).
Ltac norm_arg f target :=
  repeat match goal with |- context [f ?a] =>
    lazymatch a with target => fail | _ => replace (f a) with (f target) by (apply f_equal; arith_eq) end end.
Ltac same_bounds :=
  match goal with |- RInt _ ?a ?b = RInt _ ?c ?d => replace a with c by lra; replace b with d by lra end.

Lemma pf_simple_load_is_Phi sm ss L :
  fp_pf_simple_load sm ss L = Phi ((log10R L - log10R sm) / ss).
Proof. reflexivity. Qed.

Lemma sqrt_sq_sum_0 ss : 0 < ss -> sqrt (0 * 0 + ss * ss) = ss.
Proof. intros H. replace (0 * 0 + ss * ss) with (ss * ss) by lra. apply sqrt_square. lra. Qed.

Lemma pf_simple_load_is_closed_at_zero_scatter sm ss L :
  0 < ss -> fp_pf_simple_load sm ss L = pf_closed_of sm ss L 0.
Proof. intros H. unfold pf_closed_of, pf_closed. rewrite sqrt_sq_sum_0 by assumption. reflexivity. Qed.

Lemma pf_norm_load_is_truncated_overlap sm ss lm ls :
  fp_pf_norm_load sm ss lm ls = overlap_trunc ls ss (log10R sm - log10R lm).
Proof.
  unfold fp_pf_norm_load, overlap_trunc, quad_ideal. cbv beta zeta.
  same_bounds. apply RInt_ext. intros x _. unfold overlap_integrand, norm_pdf, norm_cdf.
  norm_arg phi (x / ls). norm_arg Phi ((x - (log10R sm - log10R lm)) / ss). unfold Rdiv. match goal with |- ?a = ?b => change (@eq R a b) end. ring.
Qed.

Lemma pf_norm_load_limits_is_overlap sm ss lm ls lo up :
  fpl_pf_norm_load sm ss lm ls lo up =
  RInt (overlap_integrand ls ss (log10R sm - log10R lm)) (lo - log10R lm) (up - log10R lm).
Proof.
  unfold fpl_pf_norm_load, quad_ideal. cbv beta zeta.
  same_bounds. apply RInt_ext. intros x _. unfold overlap_integrand, norm_pdf, norm_cdf.
  norm_arg phi (x / ls). norm_arg Phi ((x - (log10R sm - log10R lm)) / ss). unfold Rdiv. match goal with |- ?a = ?b => change (@eq R a b) end. ring.
Qed.

Lemma pf_norm_load_default_limits sm ss lm ls :
  fpl_pf_norm_load sm ss lm ls (log10R lm - 16 * ls) (log10R lm + 16 * ls) = fp_pf_norm_load sm ss lm ls.
Proof.
  rewrite pf_norm_load_limits_is_overlap, pf_norm_load_is_truncated_overlap. unfold overlap_trunc.
  f_equal; lra.
Qed.

(* ------------------------------------------------------------------ the closed form *)

Lemma scatter_pos ls ss : 0 < ss -> 0 < sqrt (ls * ls + ss * ss).
Proof. intros H. apply sqrt_lt_R0. nra. Qed.

Lemma log10R_increasing a b : 0 < a -> a < b -> log10R a < log10R b.
Proof.
  intros Ha Hab. unfold log10R. apply Rmult_lt_compat_r.
  - apply Rinv_0_lt_compat. rewrite <- ln_1. apply ln_increasing; lra.
  - now apply ln_increasing.
Qed.

Lemma pf_closed_increasing_in_lm lm1 lm2 ls sm ss :
  0 < ss -> lm1 < lm2 -> pf_closed lm1 ls sm ss < pf_closed lm2 ls sm ss.
Proof.
  intros Hs H. unfold pf_closed. apply Phi_strictly_increasing.
  apply Rmult_lt_compat_r; [apply Rinv_0_lt_compat, scatter_pos; assumption | lra].
Qed.

Lemma pf_closed_decreasing_in_sm lm ls sm1 sm2 ss :
  0 < ss -> sm1 < sm2 -> pf_closed lm ls sm2 ss < pf_closed lm ls sm1 ss.
Proof.
  intros Hs H. unfold pf_closed. apply Phi_strictly_increasing.
  apply Rmult_lt_compat_r; [apply Rinv_0_lt_compat, scatter_pos; assumption | lra].
Qed.

Theorem pf_closed_increasing_in_load sm ss L1 L2 ls :
  0 < ss -> 0 < L1 -> L1 < L2 -> pf_closed_of sm ss L1 ls < pf_closed_of sm ss L2 ls.
Proof. intros. apply pf_closed_increasing_in_lm; [assumption|]. now apply log10R_increasing. Qed.

Theorem pf_closed_decreasing_in_strength sm1 sm2 ss L ls :
  0 < ss -> 0 < sm1 -> sm1 < sm2 -> pf_closed_of sm2 ss L ls < pf_closed_of sm1 ss L ls.
Proof. intros. apply pf_closed_decreasing_in_sm; [assumption|]. now apply log10R_increasing. Qed.

(* exchanging the roles of load and strength gives the complementary probability *)
Theorem pf_closed_complement lm ls sm ss :
  pf_closed lm ls sm ss + pf_closed sm ss lm ls = 1.
Proof.
  unfold pf_closed. replace (ss * ss + ls * ls) with (ls * ls + ss * ss) by lra.
  replace ((sm - lm) / sqrt (ls * ls + ss * ss)) with (- ((lm - sm) / sqrt (ls * ls + ss * ss))) by (unfold Rdiv; lra).
  rewrite Phi_symmetry. lra.
Qed.

Theorem pf_closed_equal_medians ls ss m : pf_closed m ls m ss = 1 / 2.
Proof. unfold pf_closed. replace ((m - m) / _) with 0 by (unfold Rdiv; lra). apply Phi_0. Qed.

(* the closed form tends to the deterministic-load value as the load scatter vanishes *)
Lemma pf_closed_continuous_in_ls lm sm ss ls0 :
  0 < ss -> continuous (fun ls => pf_closed lm ls sm ss) ls0.
Proof.
  intros Hs. unfold pf_closed.
  apply (continuous_comp (fun ls => (lm - sm) / sqrt (ls * ls + ss * ss)) Phi); [|apply Phi_continuous].
  apply (ex_derive_continuous (K:=R_AbsRing) (V:=R_NormedModule)).
  auto_derive. split; [nra|]. split; [|exact I]. apply Rgt_not_eq, scatter_pos; assumption.
Qed.

Theorem pf_closed_tends_to_simple sm ss L :
  0 < ss ->
  filterlim (fun ls => pf_closed_of sm ss L ls) (locally 0) (locally (fp_pf_simple_load sm ss L)).
Proof.
  intros Hs. rewrite (pf_simple_load_is_closed_at_zero_scatter sm ss L Hs).
  apply (pf_closed_continuous_in_ls (log10R L) (log10R sm) ss 0 Hs).
Qed.

(* epsilon-delta reading of the same statement *)
Corollary pf_closed_tends_to_simple_eps sm ss L :
  0 < ss -> forall eps : posreal, exists d : posreal, forall ls,
    Rabs ls < d -> Rabs (pf_closed_of sm ss L ls - fp_pf_simple_load sm ss L) < eps.
Proof.
  intros Hs eps.
  destruct (proj1 (filterlim_locally _ _) (pf_closed_tends_to_simple sm ss L Hs) eps) as [d Hd].
  exists d. intros ls Hl. apply Hd. unfold ball; simpl. unfold AbsRing_ball, abs, minus, plus, opp; simpl.
  replace (ls + - 0) with ls by lra. assumption.
Qed.

(* ------------------------------------------------------------------ range *)

Theorem pf_closed_in_0_1 lm ls sm ss : 0 < pf_closed lm ls sm ss < 1.
Proof. apply Phi_in_0_1. Qed.

Theorem pf_simple_load_in_0_1 sm ss L : 0 < fp_pf_simple_load sm ss L < 1.
Proof. rewrite pf_simple_load_is_Phi. apply Phi_in_0_1. Qed.

(* ------------------------------------------------------------------ the model of pf_norm_load itself (no borrowed fact):
   the truncated overlap integral is strictly monotone in both medians and lies strictly between 0 and 1 *)

Lemma overlap_integrand_continuous ls ss delta x :
  ls <> 0 -> ss <> 0 -> continuous (overlap_integrand ls ss delta) x.
Proof.
  intros Hl Hs. unfold overlap_integrand.
  apply (continuous_mult (fun x => phi (x / ls) / ls) (fun x => Phi ((x - delta) / ss))).
  - apply (continuous_mult (fun x => phi (x / ls)) (fun _ => / ls)); [|apply continuous_const].
    apply (continuous_comp (fun x => x / ls) phi); [|apply phi_continuous].
    apply (ex_derive_continuous (K:=R_AbsRing) (V:=R_NormedModule)). auto_derive. exact I.
  - apply (continuous_comp (fun x => (x - delta) / ss) Phi); [|apply Phi_continuous].
    apply (ex_derive_continuous (K:=R_AbsRing) (V:=R_NormedModule)). auto_derive. exact I.
Qed.

Lemma load_density_pos ls x : 0 < ls -> 0 < phi (x / ls) / ls.
Proof. intros H. apply Rdiv_lt_0_compat; [apply phi_pos | assumption]. Qed.

Lemma overlap_trunc_decreasing_in_delta ls ss d1 d2 :
  0 < ls -> 0 < ss -> d1 < d2 -> overlap_trunc ls ss d2 < overlap_trunc ls ss d1.
Proof.
  intros Hl Hs Hd. unfold overlap_trunc.
  apply RInt_lt; [lra| | |].
  - intros x _. apply overlap_integrand_continuous; lra.
  - intros x _. apply overlap_integrand_continuous; lra.
  - intros x _. unfold overlap_integrand.
    apply Rmult_lt_compat_l; [now apply load_density_pos|].
    apply Phi_strictly_increasing. apply Rmult_lt_compat_r; [now apply Rinv_0_lt_compat | lra].
Qed.

Theorem pf_norm_load_model_increasing_in_load sm ss L1 L2 ls :
  0 < ss -> 0 < ls -> 0 < L1 -> L1 < L2 -> fp_pf_norm_load sm ss L1 ls < fp_pf_norm_load sm ss L2 ls.
Proof.
  intros Hs Hl H1 H12. rewrite !pf_norm_load_is_truncated_overlap.
  apply overlap_trunc_decreasing_in_delta; try assumption.
  generalize (log10R_increasing L1 L2 H1 H12). lra.
Qed.

Theorem pf_norm_load_model_decreasing_in_strength sm1 sm2 ss L ls :
  0 < ss -> 0 < ls -> 0 < sm1 -> sm1 < sm2 -> fp_pf_norm_load sm2 ss L ls < fp_pf_norm_load sm1 ss L ls.
Proof.
  intros Hs Hl H1 H12. rewrite !pf_norm_load_is_truncated_overlap.
  apply overlap_trunc_decreasing_in_delta; try assumption.
  generalize (log10R_increasing sm1 sm2 H1 H12). lra.
Qed.

Lemma RInt_phi a b : RInt phi a b = Phi b - Phi a.
Proof.
  rewrite Phi_diff. unfold phi.
  change (/ sqrt (2 * PI) * RInt gauss a b) with (scal (/ sqrt (2 * PI)) (RInt gauss a b)).
  rewrite <- (RInt_scal (V:=R_CompleteNormedModule) gauss a b (/ sqrt (2 * PI))) by apply gauss_ex_RInt.
  reflexivity.
Qed.

Lemma phi_ex_RInt a b : ex_RInt phi a b.
Proof. apply (ex_RInt_continuous (V:=R_CompleteNormedModule)). intros z _. apply phi_continuous. Qed.

(* the load density integrates to Phi 16 - Phi (-16) over the integration interval *)
Lemma RInt_load_density ls : 0 < ls ->
  RInt (fun x => phi (x / ls) / ls) (-16 * ls) (16 * ls) = Phi 16 - Phi (-16).
Proof.
  intros Hl.
  transitivity (RInt phi (/ ls * (-16 * ls) + 0) (/ ls * (16 * ls) + 0)).
  - rewrite <- (RInt_comp_lin (V:=R_CompleteNormedModule) phi (/ ls) 0) by apply phi_ex_RInt.
    apply RInt_ext. intros x _. unfold scal; simpl; unfold mult; simpl.
    replace (/ ls * x + 0) with (x / ls) by (unfold Rdiv; lra). unfold Rdiv. lra.
  - rewrite RInt_phi. f_equal; f_equal; field; lra.
Qed.

Lemma load_density_continuous ls x : ls <> 0 -> continuous (fun x => phi (x / ls) / ls) x.
Proof.
  intros Hl.
  apply (continuous_mult (fun x => phi (x / ls)) (fun _ => / ls)); [|apply continuous_const].
  apply (continuous_comp (fun x => x / ls) phi); [|apply phi_continuous].
  apply (ex_derive_continuous (K:=R_AbsRing) (V:=R_NormedModule)). auto_derive. exact I.
Qed.

Theorem overlap_trunc_in_0_1 ls ss delta : 0 < ls -> 0 < ss -> 0 < overlap_trunc ls ss delta < 1.
Proof.
  intros Hl Hs. unfold overlap_trunc. split.
  - apply RInt_gt_0; [lra| |].
    + intros x _. unfold overlap_integrand. apply Rmult_lt_0_compat; [now apply load_density_pos | apply Phi_in_0_1].
    + intros x _. apply overlap_integrand_continuous; lra.
  - apply Rlt_trans with (RInt (fun x => phi (x / ls) / ls) (-16 * ls) (16 * ls)).
    + apply RInt_lt; [lra| | |].
      * intros x _. apply load_density_continuous; lra.
      * intros x _. apply overlap_integrand_continuous; lra.
      * intros x _. unfold overlap_integrand.
        rewrite <- (Rmult_1_r (phi (x / ls) / ls)) at 2.
        apply Rmult_lt_compat_l; [now apply load_density_pos | apply Phi_in_0_1].
    + rewrite RInt_load_density by assumption.
      generalize (Phi_in_0_1 16), (Phi_in_0_1 (-16)). lra.
Qed.

Theorem pf_norm_load_model_in_0_1 sm ss L ls :
  0 < ss -> 0 < ls -> 0 < fp_pf_norm_load sm ss L ls < 1.
Proof. intros Hs Hl. rewrite pf_norm_load_is_truncated_overlap. now apply overlap_trunc_in_0_1. Qed.

(* ------------------------------------------------------------------ the borrowed fact, and what it gives.
   gaussian_overlap_identity eps: on the +-16 scatter interval the overlap integral is within eps of the closed form.
   (The identity on the whole line, int phi_ls(x) Phi((x-d)/ss) dx = Phi(-d/sqrt(ls^2+ss^2)), needs Fubini for Gaussian
   integrals and is NOT formalised; the truncation costs at most 2 Phi(-16) < 1e-56.  It is never assumed as an axiom:
   it only occurs as the hypothesis of the theorem below; the per-run certificates check the conclusion on samples.) *)
Definition gaussian_overlap_identity (eps : R) : Prop :=
  forall ls ss delta, 0 < ls -> 0 < ss ->
    Rabs (overlap_trunc ls ss delta - Phi (- delta / sqrt (ls * ls + ss * ss))) <= eps.

Theorem pf_norm_load_closed_form_partial eps :
  gaussian_overlap_identity eps ->
  forall sm ss L ls, 0 < ss -> 0 < ls ->
    Rabs (fp_pf_norm_load sm ss L ls - pf_closed_of sm ss L ls) <= eps.
Proof.
  intros H sm ss L ls Hs Hl. rewrite pf_norm_load_is_truncated_overlap.
  unfold pf_closed_of, pf_closed.
  replace ((log10R L - log10R sm) / sqrt (ls * ls + ss * ss))
    with (- (log10R sm - log10R L) / sqrt (ls * ls + ss * ss)) by (unfold Rdiv; lra).
  now apply H.
Qed.

(* ------------------------------------------------------------------ pf_arbitrary_load: hand-written model
   np.trapezoid(load_pdf * norm.cdf(load_values, loc=s_50, scale=s_std), x=load_values)
   (load values in log10 units; tied to the implementation by per-run certificates on short grids) *)
From Coq Require Import List.
Import ListNotations.

Fixpoint trapz (xs ys : list R) : R :=
  match xs, ys with
  | x0 :: ((x1 :: _) as xs'), y0 :: ((y1 :: _) as ys') => (x1 - x0) * (y0 + y1) / 2 + trapz xs' ys'
  | _, _ => 0
  end.

Fixpoint weight_by_cdf (s50 ss : R) (xs pdf : list R) : list R :=
  match xs, pdf with
  | x :: xs', p :: pdf' => p * norm_cdf x s50 ss :: weight_by_cdf s50 ss xs' pdf'
  | _, _ => []
  end.

Definition pf_arbitrary_model (strength_median strength_std : R) (xs pdf : list R) : R :=
  trapz xs (weight_by_cdf (log10R strength_median) strength_std xs pdf).

Inductive ascending : list R -> Prop :=
| asc_nil : ascending []
| asc_one x : ascending [x]
| asc_cons x y l : x <= y -> ascending (y :: l) -> ascending (x :: y :: l).

Lemma trapz_nonneg xs : ascending xs -> forall ys, Forall (fun y => 0 <= y) ys -> 0 <= trapz xs ys.
Proof.
  induction 1 as [|x|x y l Hxy Hasc IH]; intros ys Hy.
  - destruct ys; simpl; lra.
  - destruct ys as [|y0 [|y1 ys]]; simpl; lra.
  - destruct ys as [|y0 [|y1 ys]]; try (simpl; lra).
    inversion Hy as [|? ? H0 Hy']; subst. inversion Hy' as [|? ? H1 _]; subst.
    specialize (IH _ Hy').
    change (0 <= (y - x) * (y0 + y1) / 2 + trapz (y :: l) (y1 :: ys)).
    assert (0 <= (y - x) * (y0 + y1)) by (apply Rmult_le_pos; lra). lra.
Qed.

Lemma trapz_mono xs : ascending xs -> forall ys zs, Forall2 Rle ys zs -> trapz xs ys <= trapz xs zs.
Proof.
  induction 1 as [|x|x y l Hxy Hasc IH]; intros ys zs H.
  - destruct ys, zs; simpl; lra.
  - inversion H as [|? ? ? ? ? H']; subst; [simpl; lra|]. inversion H'; subst; simpl; lra.
  - inversion H as [|y0 z0 ys' zs' H0 H']; subst; [simpl; lra|].
    inversion H' as [|y1 z1 ys'' zs'' H1 H'']; subst; [simpl; lra|].
    specialize (IH _ _ H').
    change ((y - x) * (y0 + y1) / 2 + trapz (y :: l) (y1 :: ys'') <= (y - x) * (z0 + z1) / 2 + trapz (y :: l) (z1 :: zs'')).
    assert ((y - x) * (y0 + y1) <= (y - x) * (z0 + z1)) by (apply Rmult_le_compat_l; lra). lra.
Qed.

Lemma weight_by_cdf_le s50 ss xs : forall pdf, length xs = length pdf -> Forall (fun p => 0 <= p) pdf ->
  Forall2 Rle (weight_by_cdf s50 ss xs pdf) pdf /\ Forall (fun y => 0 <= y) (weight_by_cdf s50 ss xs pdf).
Proof.
  induction xs as [|x xs IH]; intros [|p pdf] Hlen Hp; simpl in *; try discriminate; [split; constructor|].
  inversion Hp; subst. destruct (IH pdf) as [A B]; [congruence|assumption|].
  generalize (Phi_in_0_1 ((x - s50) / ss)). intros [P0 P1]. unfold norm_cdf.
  split; constructor; try assumption.
  - rewrite <- (Rmult_1_r p) at 2. apply Rmult_le_compat_l; lra.
  - apply Rmult_le_pos; lra.
Qed.

(* with a non-negative sampled density on an ascending grid the result lies between 0 and the trapezoid sum of the density
   (which is the discrete total probability, 1 up to the discretisation) *)
Theorem pf_arbitrary_model_bounds sm ss xs pdf :
  ascending xs -> length xs = length pdf -> Forall (fun p => 0 <= p) pdf ->
  0 <= pf_arbitrary_model sm ss xs pdf <= trapz xs pdf.
Proof.
  intros Ha Hl Hp. unfold pf_arbitrary_model.
  destruct (weight_by_cdf_le (log10R sm) ss xs pdf Hl Hp) as [A B]. split.
  - now apply trapz_nonneg.
  - now apply trapz_mono.
Qed.

(* one sampled density assessed for several strengths (the arrays are shared by the calls): the result does not
   increase with the strength median *)
Lemma weight_by_cdf_antitone s1 s2 ss xs : 0 < ss -> s1 <= s2 -> forall pdf, Forall (fun p => 0 <= p) pdf ->
  Forall2 Rle (weight_by_cdf s2 ss xs pdf) (weight_by_cdf s1 ss xs pdf).
Proof.
  intros Hs H12. induction xs as [|x xs IH]; intros [|p pdf] Hp; simpl; try constructor.
  - inversion Hp; subst. apply Rmult_le_compat_l; [assumption|]. unfold norm_cdf.
    destruct (Req_dec s1 s2) as [->|Hne]; [lra|]. left. apply Phi_strictly_increasing.
    unfold Rdiv. apply Rmult_lt_compat_r; [now apply Rinv_0_lt_compat | lra].
  - inversion Hp; subst. now apply IH.
Qed.

Theorem pf_arbitrary_model_decreasing_in_strength sm1 sm2 ss xs pdf :
  0 < ss -> 0 < sm1 -> sm1 <= sm2 -> ascending xs -> Forall (fun p => 0 <= p) pdf ->
  pf_arbitrary_model sm2 ss xs pdf <= pf_arbitrary_model sm1 ss xs pdf.
Proof.
  intros Hs H1 H12 Ha Hp. unfold pf_arbitrary_model. apply trapz_mono; [assumption|].
  apply weight_by_cdf_antitone; try assumption.
  destruct H12 as [H12| ->]; [left; now apply log10R_increasing | lra].
Qed.

(* the hypothesis `ascending` of pf_arbitrary_model_bounds cannot be dropped: the trapezoid sum is an oriented integral,
   on a descending grid the model (= what the implementation computes) is negative *)
Theorem pf_arbitrary_model_range_refuted_descending :
  exists sm ss xs pdf, 0 < sm /\ 0 < ss /\ length xs = length pdf /\ Forall (fun p => 0 <= p) pdf /\
                       pf_arbitrary_model sm ss xs pdf < 0.
Proof.
  exists 1, 1, [1; 0], [1; 1]. repeat split; try lra; [repeat constructor; lra|].
  unfold pf_arbitrary_model. simpl. unfold norm_cdf.
  generalize (Phi_in_0_1 ((1 - log10R 1) / 1)) (Phi_in_0_1 ((0 - log10R 1) / 1)). intros [A _] [B _]. lra.
Qed.

Example pf_arbitrary_model_bounds_satisfiable :
  ascending [1; 2; 3] /\ length [1; 2; 3] = length [0; 1; 0] /\ Forall (fun p => 0 <= p) [0; 1; 0].
Proof. repeat split; repeat constructor; lra. Qed.

Example pf_arbitrary_model_decreasing_satisfiable :
  0 < 1/20 /\ 0 < 100 /\ 100 <= 125 /\ ascending [1; 2; 3] /\ Forall (fun p => 0 <= p) [0; 1; 0].
Proof. repeat split; repeat constructor; lra. Qed.

(* the hypothesis of pf_norm_load_closed_form_partial is satisfiable (trivially for eps = 1: both sides lie in (0,1)) *)
Example gaussian_overlap_identity_1 : gaussian_overlap_identity 1.
Proof.
  intros ls ss delta Hl Hs.
  generalize (overlap_trunc_in_0_1 ls ss delta Hl Hs), (Phi_in_0_1 (- delta / sqrt (ls * ls + ss * ss))).
  intros [A B] [C D]. apply Rabs_le. lra.
Qed.

Example monotone_hypotheses_satisfiable : exists sm ss L1 L2 ls, 0 < ss /\ 0 < ls /\ 0 < L1 /\ L1 < L2 /\ 0 < sm.
Proof. exists 100, (1/20), 50, 70, (1/10). lra. Qed.
