(* C11 -- Miner damage is linear and agrees with the predicted Gassner lifetime: proofs about C11Model. *)
From Coq Require Import Reals Lra List Permutation.
From PL Require Import Common.RPrelude Strength.C11Model.
Import ListNotations.
Open Scope R_scope.

(* ------------------------------------------------------------------ guards *)
Definition curve_ok (c : curve) : Prop := 0 < ND c /\ 0 < SD c /\ 1 <= k1 c.
Definition coll_ok (l : coll) : Prop := Forall (fun p => 0 <= fst p /\ 0 <= snd p) l.

(* ------------------------------------------------------------------ sums *)
Lemma Rsum_app a b : Rsum (a ++ b) = Rsum a + Rsum b.
Proof. induction a as [|x a IH]; simpl; [lra|rewrite IH; lra]. Qed.

Lemma Rsum_perm a b : Permutation a b -> Rsum a = Rsum b.
Proof. induction 1; simpl; lra. Qed.

Lemma Rsum_map_scal {A} (f g : A -> R) (k : R) (l : list A) :
  (forall x, In x l -> f x = k * g x) -> Rsum (map f l) = k * Rsum (map g l).
Proof.
  induction l as [|x l IH]; intros H; simpl; [lra|].
  rewrite (H x (or_introl eq_refl)), IH; [lra|]. intros y Hy. apply H. now right.
Qed.

Lemma Rsum_map_ext {A} (f g : A -> R) (l : list A) :
  (forall x, In x l -> f x = g x) -> Rsum (map f l) = Rsum (map g l).
Proof.
  intros H. rewrite (Rsum_map_scal f g 1); [lra|]. intros x Hx. rewrite (H x Hx). lra.
Qed.

Lemma Rsum_map_plus {A} (f g : A -> R) (l : list A) :
  Rsum (map f l) + Rsum (map g l) = Rsum (map (fun x => f x + g x) l).
Proof. induction l as [|x l IH]; simpl; [lra|rewrite <- IH; lra]. Qed.

Lemma Rsum_map_le {A} (f g : A -> R) (l : list A) :
  (forall x, In x l -> f x <= g x) -> Rsum (map f l) <= Rsum (map g l).
Proof.
  induction l as [|x l IH]; intros H; simpl; [lra|].
  assert (f x <= g x) by (apply H; now left).
  assert (Rsum (map f l) <= Rsum (map g l)) by (apply IH; intros y Hy; apply H; now right). lra.
Qed.

Lemma Rsum_map_nonneg {A} (f : A -> R) (l : list A) :
  (forall x, In x l -> 0 <= f x) -> 0 <= Rsum (map f l).
Proof.
  induction l as [|x l IH]; intros H; simpl; [lra|].
  assert (0 <= f x) by (apply H; now left).
  assert (0 <= Rsum (map f l)) by (apply IH; intros y Hy; apply H; now right). lra.
Qed.

Lemma Rsum_map_pos {A} (f : A -> R) (l : list A) (x : A) :
  (forall y, In y l -> 0 <= f y) -> In x l -> 0 < f x -> 0 < Rsum (map f l).
Proof.
  induction l as [|y l IH]; intros H Hin Hx; [contradiction|]. simpl.
  assert (0 <= f y) by (apply H; now left).
  assert (0 <= Rsum (map f l)) by (apply Rsum_map_nonneg; intros z Hz; apply H; now right).
  destruct Hin as [->|Hin]; [lra|].
  assert (0 < Rsum (map f l)) by (apply IH; auto; intros z Hz; apply H; now right). lra.
Qed.

(* ------------------------------------------------------------------ maxima *)
Lemma max_amp_nonneg l : 0 <= max_amp l.
Proof. induction l as [|p l IH]; simpl; [lra|]. eapply Rle_trans; [exact IH|apply Rmax_r]. Qed.

Lemma max_amp_ge l p : In p l -> fst p <= max_amp l.
Proof.
  induction l as [|q l IH]; intros H; [contradiction|]. simpl. destruct H as [->|H].
  - apply Rmax_l. - eapply Rle_trans; [apply IH; exact H|apply Rmax_r].
Qed.

Lemma max_occ_nonneg l : 0 <= max_occ l.
Proof. induction l as [|p l IH]; simpl; [lra|]. eapply Rle_trans; [exact IH|apply Rmax_r]. Qed.

Lemma max_occ_ge l p : In p l -> 0 < snd p -> fst p <= max_occ l.
Proof.
  induction l as [|q l IH]; intros H Hp; [contradiction|]. simpl. destruct H as [->|H].
  - destruct (Rlt_dec 0 (snd p)); [apply Rmax_l|contradiction].
  - eapply Rle_trans; [apply IH; assumption|apply Rmax_r].
Qed.

Lemma max_occ_le_max_amp l : coll_ok l -> max_occ l <= max_amp l.
Proof.
  induction 1 as [|p l [Ha Hn] Hl IH]; simpl; [lra|].
  apply Rmax_lub.
  - destruct (Rlt_dec 0 (snd p)); [apply Rmax_l|]. eapply Rle_trans; [apply max_amp_nonneg|apply Rmax_r].
  - eapply Rle_trans; [exact IH|apply Rmax_r].
Qed.

Lemma max_occ_attained l : 0 < max_occ l -> exists p, In p l /\ 0 < snd p /\ fst p = max_occ l.
Proof.
  induction l as [|q l IH]; simpl; [lra|]. intros H. unfold Rmax in *.
  destruct (Rle_dec (if Rlt_dec 0 (snd q) then fst q else 0) (max_occ l)).
  - destruct (IH H) as [p [Hin [Hp He]]]. exists p. auto.
  - destruct (Rlt_dec 0 (snd q)); [exists q; auto|lra].
Qed.

(* every class occupied up to the top one: the two maxima coincide *)
Lemma max_occ_eq_max_amp l : coll_ok l ->
  (exists p, In p l /\ 0 < snd p /\ fst p = max_amp l) -> max_occ l = max_amp l.
Proof.
  intros Hl [p [Hin [Hp He]]]. apply Rle_antisym; [now apply max_occ_le_max_amp|].
  rewrite <- He. now apply max_occ_ge.
Qed.

(* ------------------------------------------------------------------ powers *)
Lemma npow_0l y : y <> 0 -> forall x, x = 0 -> npow x y = 0.
Proof. intros Hy x ->. now apply npow_0. Qed.

Lemma npow_split a m s k : 0 < m -> 0 < s -> 0 <= a -> k <> 0 ->
  npow (a / s) k = npow (a / m) k * npow (m / s) k.
Proof.
  intros Hm Hs [Ha|Ha] Hk.
  - assert (0 < a / s) by (apply Rdiv_lt_0_compat; assumption).
    assert (0 < a / m) by (apply Rdiv_lt_0_compat; assumption).
    assert (0 < m / s) by (apply Rdiv_lt_0_compat; assumption).
    rewrite !npow_pos by assumption. rewrite Rpower_mult_distr by assumption. f_equal. field. split; lra.
  - subst a. unfold Rdiv. rewrite !Rmult_0_l, npow_0 by assumption. lra.
Qed.

Lemma Rpower_inv_neg x k : 0 < x -> / Rpower x (- k) = Rpower x k.
Proof.
  intros Hx. rewrite Rpower_Ropp. apply Rinv_inv.
Qed.

Lemma Rpower_le_exp_lt1 x a b : 0 < x < 1 -> a <= b -> Rpower x b <= Rpower x a.
Proof.
  intros [H0 H1] Hab. unfold Rpower.
  assert (ln x < 0) by (rewrite <- ln_1; apply ln_increasing; lra).
  destruct Hab as [Hab|Hab].
  - left. apply exp_increasing. nra.
  - subst. lra.
Qed.

(* the comparison of the normalised values done by the source equals the comparison of the raw values *)
Lemma norm_lt_iff a s m : 0 < m -> (a / m < s / m <-> a < s).
Proof.
  intros Hm. split; intros H.
  - apply Rmult_lt_reg_r with (/ m); [now apply Rinv_0_lt_compat|exact H].
  - apply Rmult_lt_compat_r; [now apply Rinv_0_lt_compat|exact H].
Qed.

(* ------------------------------------------------------------------ damage of one member *)
Lemma damage1_some c k a n : 0 < ND c -> 0 < SD c -> 0 <= a -> k <> 0 ->
  make_k c a = Some k -> damage1 c (a, n) = n * npow (a / SD c) k / ND c.
Proof.
  intros HN HS Ha Hk Hm. unfold damage1, cycles. simpl. rewrite Hm.
  destruct (Rle_dec a 0) as [H0|H0].
  - assert (a = 0) by lra. subst a. unfold Rdiv at 2. rewrite Rmult_0_l, npow_0 by assumption. unfold Rdiv. lra.
  - assert (0 < a / SD c) by (apply Rdiv_lt_0_compat; lra).
    rewrite !npow_pos by assumption. rewrite <- (Rpower_inv_neg (a / SD c) k) by assumption.
    assert (0 < Rpower (a / SD c) (- k)) by (unfold Rpower; apply exp_pos).
    field. split; lra.
Qed.

Lemma damage1_none c a n : make_k c a = None -> damage1 c (a, n) = 0.
Proof. intros Hm. unfold damage1, cycles. simpl. now rewrite Hm. Qed.

Lemma k1_ne0 c : curve_ok c -> k1 c <> 0.
Proof. intros (_ & _ & H). lra. Qed.
Lemma k2h_ne0 c : curve_ok c -> 2 * k1 c - 1 <> 0.
Proof. intros (_ & _ & H). lra. Qed.

Lemma damage1_elementary c a n : curve_ok c -> 0 <= a ->
  damage1 (miner_elementary c) (a, n) = n * npow (a / SD c) (k1 c) / ND c.
Proof.
  intros Hc Ha. pose proof (k1_ne0 c Hc). destruct Hc as (HN & HS & Hk).
  apply (damage1_some (miner_elementary c)); simpl; try assumption.
  unfold make_k. simpl. now destruct (Rlt_dec a (SD c)).
Qed.

Lemma damage1_haibach c a n : curve_ok c -> 0 <= a ->
  damage1 (miner_haibach c) (a, n) =
  if Rlt_dec a (SD c) then n * npow (a / SD c) (2 * k1 c - 1) / ND c else n * npow (a / SD c) (k1 c) / ND c.
Proof.
  intros Hc Ha. pose proof (k1_ne0 c Hc). pose proof (k2h_ne0 c Hc). destruct Hc as (HN & HS & Hk).
  destruct (Rlt_dec a (SD c)) as [Hlt|Hge].
  - apply (damage1_some (miner_haibach c)); simpl; try assumption.
    unfold make_k. simpl. destruct (Rlt_dec a (SD c)); [reflexivity|contradiction].
  - apply (damage1_some (miner_haibach c)); simpl; try assumption.
    unfold make_k. simpl. destruct (Rlt_dec a (SD c)); [contradiction|reflexivity].
Qed.

Lemma damage1_original c a n : curve_ok c -> 0 <= a ->
  damage1 (miner_original c) (a, n) = if Rlt_dec a (SD c) then 0 else n * npow (a / SD c) (k1 c) / ND c.
Proof.
  intros Hc Ha. pose proof (k1_ne0 c Hc). destruct Hc as (HN & HS & Hk).
  destruct (Rlt_dec a (SD c)) as [Hlt|Hge].
  - apply damage1_none. unfold make_k. simpl. destruct (Rlt_dec a (SD c)); [reflexivity|contradiction].
  - apply (damage1_some (miner_original c)); simpl; try assumption.
    unfold make_k. simpl. destruct (Rlt_dec a (SD c)); [contradiction|reflexivity].
Qed.

(* ------------------------------------------------------------------ linearity *)
Lemma damage_app c l1 l2 : damage c (l1 ++ l2) = damage c l1 ++ damage c l2.
Proof. apply map_app. Qed.

Theorem damage_additive c l1 l2 : damage_sum c (l1 ++ l2) = damage_sum c l1 + damage_sum c l2.
Proof. unfold damage_sum. rewrite damage_app. apply Rsum_app. Qed.

Lemma damage1_scale c f a n : damage1 c (a, f * n) = f * damage1 c (a, n).
Proof. unfold damage1. simpl. destruct (cycles c a); unfold Rdiv; lra. Qed.

Theorem damage_proportional_members c f l :
  damage c (scale_cycles f l) = map (fun d => f * d) (damage c l).
Proof.
  unfold damage, scale_cycles. rewrite !map_map. apply map_ext. intros [a n]. simpl. apply damage1_scale.
Qed.

Theorem damage_proportional c f l : damage_sum c (scale_cycles f l) = f * damage_sum c l.
Proof.
  unfold damage_sum. rewrite damage_proportional_members.
  rewrite <- (map_id (damage c l)) at 2. apply Rsum_map_scal. intros x _. reflexivity.
Qed.

Theorem damage_perm_members c l l' : Permutation l l' -> Permutation (damage c l) (damage c l').
Proof. apply Permutation_map. Qed.

Theorem damage_perm_invariant c l l' : Permutation l l' -> damage_sum c l = damage_sum c l'.
Proof. intros H. apply Rsum_perm. now apply damage_perm_members. Qed.

(* ------------------------------------------------------------------ order of the three rules *)
Theorem damage1_order c a n : curve_ok c -> 0 <= a -> 0 <= n ->
  0 <= damage1 (miner_original c) (a, n) <= damage1 (miner_haibach c) (a, n) /\
  damage1 (miner_haibach c) (a, n) <= damage1 (miner_elementary c) (a, n).
Proof.
  intros Hc Ha Hn. rewrite damage1_original, damage1_haibach, damage1_elementary by assumption.
  pose proof (k1_ne0 c Hc). pose proof (k2h_ne0 c Hc). destruct Hc as (HN & HS & Hk).
  assert (Hp : forall k, 0 <= n * npow (a / SD c) k / ND c).
  { intros k. apply Rmult_le_pos; [apply Rmult_le_pos; [assumption|]|left; now apply Rinv_0_lt_compat].
    apply npow_ge0. apply Rmult_le_pos; [assumption|left; now apply Rinv_0_lt_compat]. }
  destruct (Rlt_dec a (SD c)) as [Hlt|Hge].
  - split; [split; [lra|apply Hp]|].
    apply Rmult_le_compat_r; [left; now apply Rinv_0_lt_compat|]. apply Rmult_le_compat_l; [assumption|].
    destruct Ha as [Ha|Ha].
    + assert (0 < a / SD c < 1).
      { split; [apply Rdiv_lt_0_compat; assumption|]. apply Rmult_lt_reg_r with (SD c); [assumption|].
        unfold Rdiv. rewrite Rmult_assoc, Rinv_l by lra. lra. }
      rewrite !npow_pos by tauto. apply Rpower_le_exp_lt1; [assumption|lra].
    + subst a. unfold Rdiv. rewrite Rmult_0_l, !npow_0 by assumption. lra.
  - split; [split; [apply Hp|lra]|lra].
Qed.

Theorem damage_order_original_le_haibach_le_elementary c l : curve_ok c -> coll_ok l ->
  0 <= damage_sum (miner_original c) l <= damage_sum (miner_haibach c) l /\
  damage_sum (miner_haibach c) l <= damage_sum (miner_elementary c) l.
Proof.
  intros Hc Hl. unfold damage_sum, damage.
  assert (H : forall p, In p l -> 0 <= damage1 (miner_original c) p <= damage1 (miner_haibach c) p /\
                                  damage1 (miner_haibach c) p <= damage1 (miner_elementary c) p).
  { intros [a n] Hin. unfold coll_ok in Hl. rewrite Forall_forall in Hl. destruct (Hl _ Hin) as [Ha Hn].
    now apply damage1_order. }
  split; [split|].
  - apply Rsum_map_nonneg. intros p Hp. apply (H p Hp).
  - apply Rsum_map_le. intros p Hp. apply (H p Hp).
  - apply Rsum_map_le. intros p Hp. apply (H p Hp).
Qed.

(* ------------------------------------------------------------------ solidity / lifetime multiple facts *)
Lemma total_pos_of_occ l : coll_ok l -> 0 < max_occ l -> 0 < total l.
Proof.
  intros Hl Hm. destruct (max_occ_attained l Hm) as [p [Hin [Hp _]]].
  unfold total. apply Rsum_map_pos with p; auto.
  intros q Hq. unfold coll_ok in Hl. rewrite Forall_forall in Hl. apply (Hl q Hq).
Qed.

(* V * total = sum n_i (a_i/max_occ)^k *)
Lemma solidity_times_total l k : total l <> 0 ->
  solidity_haibach l k * total l = Rsum (map (fun p => snd p * npow (fst p / max_occ l) k) l).
Proof.
  intros HT. unfold solidity_haibach.
  rewrite (Rsum_map_scal (fun p => snd p * npow (fst p / max_occ l) k / total l)
                         (fun p => snd p * npow (fst p / max_occ l) k) (/ total l)).
  - field. exact HT.
  - intros x _. unfold Rdiv. lra.
Qed.

Lemma solidity_pos l k : coll_ok l -> 0 < max_occ l -> 0 < solidity_haibach l k.
Proof.
  intros Hl Hm. pose proof (total_pos_of_occ l Hl Hm) as HT.
  destruct (max_occ_attained l Hm) as [p [Hin [Hp He]]].
  unfold solidity_haibach. unfold coll_ok in Hl. rewrite Forall_forall in Hl.
  apply Rsum_map_pos with p; auto.
  - intros q Hq. destruct (Hl q Hq) as [Ha Hn].
    apply Rmult_le_pos; [apply Rmult_le_pos; [assumption|]|left; now apply Rinv_0_lt_compat].
    apply npow_ge0. apply Rmult_le_pos; [assumption|left; now apply Rinv_0_lt_compat].
  - rewrite He. unfold Rdiv at 2. rewrite Rinv_r by lra.
    apply Rmult_lt_0_compat; [apply Rmult_lt_0_compat; [assumption|apply npow_gt0; lra]|now apply Rinv_0_lt_compat].
Qed.

Theorem solidity_le_one l k : coll_ok l -> 0 < max_occ l -> 0 < k -> solidity_haibach l k <= 1.
Proof.
  intros Hl Hm Hk. pose proof (total_pos_of_occ l Hl Hm) as HT.
  apply Rmult_le_reg_r with (total l); [assumption|]. rewrite solidity_times_total by lra.
  rewrite Rmult_1_l. unfold total. rewrite <- (map_id (map snd l)), map_map.
  apply Rsum_map_le. intros [a n] Hin. simpl.
  unfold coll_ok in Hl. rewrite Forall_forall in Hl. destruct (Hl _ Hin) as [Ha Hn]. simpl in Ha, Hn.
  destruct Hn as [Hn|Hn]; [|subst n; lra].
  assert (a <= max_occ l) by (apply (max_occ_ge l (a, n)); assumption).
  assert (npow (a / max_occ l) k <= 1); [|nra].
  destruct Ha as [Ha|Ha].
  - assert (0 < a / max_occ l) by (apply Rdiv_lt_0_compat; assumption).
    rewrite npow_pos by assumption. rewrite <- (Rpower_O 1) by lra.
    replace (Rpower 1 0) with (Rpower 1 k) by (unfold Rpower; rewrite ln_1, !Rmult_0_r; reflexivity).
    apply Rle_Rpower_l; [lra|]. split; [assumption|].
    apply Rmult_le_reg_r with (max_occ l); [assumption|]. unfold Rdiv. rewrite Rmult_assoc, Rinv_l by lra. lra.
  - subst a. unfold Rdiv. rewrite Rmult_0_l, npow_0 by lra. lra.
Qed.

Theorem lifetime_multiple_elementary_ge_one c l : curve_ok c -> coll_ok l -> 0 < max_occ l -> 1 <= lm_elementary c l.
Proof.
  intros Hc Hl Hm. unfold lm_elementary.
  pose proof (solidity_pos l (k1 c) Hl Hm). destruct Hc as (_ & _ & Hk).
  pose proof (solidity_le_one l (k1 c) Hl Hm ltac:(lra)).
  apply Rmult_le_reg_r with (solidity_haibach l (k1 c)); [assumption|].
  unfold Rdiv. rewrite Rmult_assoc, Rinv_l by lra. lra.
Qed.

Theorem solidity_fkm_power l k : coll_ok l -> 0 < max_occ l -> k <> 0 ->
  npow (solidity_fkm l k) k = solidity_haibach l k.
Proof.
  intros Hl Hm Hk. unfold solidity_fkm. pose proof (solidity_pos l k Hl Hm).
  rewrite npow_npow by assumption. replace (1 / k * k) with 1 by (field; assumption). now apply npow_1.
Qed.

(* ------------------------------------------------------------------ Gassner, Miner elementary *)
(* damage sum of the collective applied for N * A_ele cycles, N any cycle number: the general formula *)
Theorem gassner_elementary_damage_general c l N : curve_ok c -> coll_ok l -> 0 < max_occ l ->
  damage_sum (miner_elementary c) (apply_for (N * lm_elementary c l) l) = N * npow (max_occ l / SD c) (k1 c) / ND c.
Proof.
  intros Hc Hl Hm. pose proof (k1_ne0 c Hc) as Hk0.
  pose proof (total_pos_of_occ l Hl Hm) as HT. pose proof (solidity_pos l (k1 c) Hl Hm) as HV.
  unfold apply_for. rewrite damage_proportional. unfold damage_sum, damage.
  assert (HS : 0 < SD c) by apply Hc. assert (HN : 0 < ND c) by apply Hc.
  rewrite (Rsum_map_scal (damage1 (miner_elementary c)) (fun p => snd p * npow (fst p / max_occ l) (k1 c))
                         (npow (max_occ l / SD c) (k1 c) / ND c)).
  - rewrite <- solidity_times_total by lra. unfold lm_elementary. field. repeat split; lra.
  - intros [a n] Hin. unfold coll_ok in Hl. rewrite Forall_forall in Hl. destruct (Hl _ Hin) as [Ha Hn]. simpl in Ha.
    rewrite damage1_elementary by assumption. simpl.
    rewrite (npow_split a (max_occ l) (SD c)) by assumption. unfold Rdiv. lra.
Qed.

Theorem gassner_elementary_damage_one c l : curve_ok c -> coll_ok l -> 0 < max_occ l ->
  max_occ l = max_amp l ->                                   (* the top class is occupied *)
  (SD c <= max_amp l \/ k2 c = Some (k1 c)) ->               (* load level at/above the knee, or an elementary curve *)
  exists Ng, gassner_cycles lm_elementary c l = Some Ng /\
             damage_sum (miner_elementary c) (apply_for Ng l) = 1.
Proof.
  intros Hc Hl Hm Heq Hlev. pose proof (k1_ne0 c Hc) as Hk0.
  assert (HS : 0 < SD c) by apply Hc. assert (HN : 0 < ND c) by apply Hc.
  assert (Hcy : cycles c (max_amp l) = Some (ND c * npow (max_amp l / SD c) (- k1 c))).
  { unfold cycles, make_k. rewrite <- Heq.
    destruct (Rlt_dec (max_occ l) (SD c)) as [Hlt|Hge].
    - destruct Hlev as [Hlev|Hlev]; [lra|]. rewrite Hlev. destruct (Rle_dec (max_occ l) 0); [lra|reflexivity].
    - destruct (Rle_dec (max_occ l) 0); [lra|reflexivity]. }
  unfold gassner_cycles. rewrite Hcy. eexists. split; [reflexivity|].
  rewrite gassner_elementary_damage_general by assumption. rewrite Heq.
  assert (0 < max_amp l / SD c) by (apply Rdiv_lt_0_compat; lra).
  rewrite !npow_pos by assumption. rewrite Rpower_Ropp.
  assert (0 < Rpower (max_amp l / SD c) (k1 c)) by (unfold Rpower; apply exp_pos).
  field. split; lra.
Qed.

(* what the code computes when the largest class is empty: (S_occupied / S_all)^k1, not 1 *)
Theorem gassner_elementary_empty_top_value c l : curve_ok c -> coll_ok l -> 0 < max_occ l ->
  SD c <= max_amp l ->
  exists Ng, gassner_cycles lm_elementary c l = Some Ng /\
             damage_sum (miner_elementary c) (apply_for Ng l) = npow (max_occ l / max_amp l) (k1 c).
Proof.
  intros Hc Hl Hm Hlev. pose proof (k1_ne0 c Hc) as Hk0.
  assert (HS : 0 < SD c) by apply Hc. assert (HN : 0 < ND c) by apply Hc.
  assert (Hcy : cycles c (max_amp l) = Some (ND c * npow (max_amp l / SD c) (- k1 c))).
  { unfold cycles, make_k. destruct (Rlt_dec (max_amp l) (SD c)); [lra|].
    destruct (Rle_dec (max_amp l) 0); [lra|reflexivity]. }
  unfold gassner_cycles. rewrite Hcy. eexists. split; [reflexivity|].
  rewrite gassner_elementary_damage_general by assumption.
  assert (0 < max_amp l) by lra.
  rewrite (npow_split (max_occ l) (max_amp l) (SD c)) by lra.
  assert (0 < max_amp l / SD c) by (apply Rdiv_lt_0_compat; lra).
  rewrite !(npow_pos (max_amp l / SD c)) by assumption. rewrite Rpower_Ropp.
  assert (0 < Rpower (max_amp l / SD c) (k1 c)) by (unfold Rpower; apply exp_pos).
  field. split; lra.
Qed.

Theorem gassner_elementary_empty_top_lt_one c l : curve_ok c -> coll_ok l -> 0 < max_occ l ->
  SD c <= max_amp l -> max_occ l < max_amp l ->
  exists Ng, gassner_cycles lm_elementary c l = Some Ng /\
             damage_sum (miner_elementary c) (apply_for Ng l) < 1.
Proof.
  intros Hc Hl Hm Hlev Hlt.
  destruct (gassner_elementary_empty_top_value c l Hc Hl Hm Hlev) as [Ng [H1 H2]].
  exists Ng. split; [exact H1|]. rewrite H2.
  assert (0 < max_amp l) by lra.
  assert (0 < max_occ l / max_amp l) by (apply Rdiv_lt_0_compat; lra).
  assert (max_occ l / max_amp l < 1).
  { apply Rmult_lt_reg_r with (max_amp l); [assumption|]. unfold Rdiv. rewrite Rmult_assoc, Rinv_l by lra. lra. }
  destruct Hc as (_ & _ & Hk).
  assert (E : npow 1 (k1 c) = 1).
  { rewrite npow_pos by lra. unfold Rpower. rewrite ln_1, Rmult_0_r. apply exp_0. }
  rewrite <- E. apply npow_lt_base; lra.
Qed.

(* the repaired variant (largest occupied amplitude) gives damage one whichever classes are empty *)
Theorem gassner_elementary_occ_damage_one c l : curve_ok c -> coll_ok l -> 0 < max_occ l ->
  (SD c <= max_occ l \/ k2 c = Some (k1 c)) ->
  exists Ng, gassner_cycles_occ lm_elementary c l = Some Ng /\
             damage_sum (miner_elementary c) (apply_for Ng l) = 1.
Proof.
  intros Hc Hl Hm Hlev. pose proof (k1_ne0 c Hc) as Hk0.
  assert (HS : 0 < SD c) by apply Hc. assert (HN : 0 < ND c) by apply Hc.
  assert (Hcy : cycles c (max_occ l) = Some (ND c * npow (max_occ l / SD c) (- k1 c))).
  { unfold cycles, make_k.
    destruct (Rlt_dec (max_occ l) (SD c)) as [Hlt|Hge].
    - destruct Hlev as [Hlev|Hlev]; [lra|]. rewrite Hlev. destruct (Rle_dec (max_occ l) 0); [lra|reflexivity].
    - destruct (Rle_dec (max_occ l) 0); [lra|reflexivity]. }
  unfold gassner_cycles_occ. rewrite Hcy. eexists. split; [reflexivity|].
  rewrite gassner_elementary_damage_general by assumption.
  assert (0 < max_occ l / SD c) by (apply Rdiv_lt_0_compat; lra).
  rewrite !npow_pos by assumption. rewrite Rpower_Ropp.
  assert (0 < Rpower (max_occ l / SD c) (k1 c)) by (unfold Rpower; apply exp_pos).
  field. split; lra.
Qed.

(* MinerElementary.gassner: the shifted curve read at the largest occupied amplitude gives the same cycles *)
Theorem gassner_curve_cycles c l S : cycles (gassner_curve c l) S =
  match cycles c S with None => None | Some N => Some (N * lm_elementary c l) end.
Proof.
  unfold cycles, make_k, gassner_curve. simpl. destruct (Rlt_dec S (SD c)).
  - destruct (k2 c); [|reflexivity]. destruct (Rle_dec S 0); [reflexivity|]. f_equal. ring.
  - destruct (Rle_dec S 0); [reflexivity|]. f_equal. ring.
Qed.

(* ------------------------------------------------------------------ Gassner, Miner-Haibach *)
Lemma Rpower_inv_base y e : 0 < y -> Rpower (/ y) e = Rpower y (- e).
Proof. intros Hy. unfold Rpower. rewrite ln_Rinv by assumption. f_equal. ring. Qed.

(* one member's share of the denominator of MinerHaibach.lifetime_multiple *)
Definition haibach_term (c : curve) (m : R) (p : R * R) : R :=
  (if Rlt_dec (fst p) (SD c) then 0 else snd p * npow (fst p / m) (k1 c)) +
  npow (SD c / m) (1 - k1 c) * (if Rlt_dec (fst p) (SD c) then snd p * npow (fst p / m) (2 * k1 c - 1) else 0).

Lemma haibach_denominator c l :
  haibach_sum1 c l + npow (SD c / max_amp l) (1 - k1 c) * haibach_sum2 c l = Rsum (map (haibach_term c (max_amp l)) l).
Proof.
  unfold haibach_sum1, haibach_sum2, haibach_term. cbv zeta.
  rewrite <- Rsum_map_plus. f_equal. symmetry. apply Rsum_map_scal. intros x _. reflexivity.
Qed.

Lemma haibach_term_nonneg c m a n : 0 < SD c -> 0 < m -> 0 <= a -> 0 <= n -> 0 <= haibach_term c m (a, n).
Proof.
  intros HS Hm Ha Hn. unfold haibach_term. simpl.
  assert (0 <= a / m) by (apply Rmult_le_pos; [assumption|left; now apply Rinv_0_lt_compat]).
  assert (0 < SD c / m) by (apply Rdiv_lt_0_compat; assumption).
  pose proof (npow_gt0 (SD c / m) (1 - k1 c) H0).
  pose proof (npow_ge0 (a / m) (k1 c) H). pose proof (npow_ge0 (a / m) (2 * k1 c - 1) H).
  destruct (Rlt_dec a (SD c)).
  - rewrite Rplus_0_l. apply Rmult_le_pos; [lra|apply Rmult_le_pos; assumption].
  - rewrite Rmult_0_r, Rplus_0_r. apply Rmult_le_pos; assumption.
Qed.

Lemma haibach_term_pos c m a n : 0 < SD c -> 0 < m -> 0 < a -> 0 < n -> 0 < haibach_term c m (a, n).
Proof.
  intros HS Hm Ha Hn. unfold haibach_term. simpl.
  assert (0 < a / m) by (apply Rdiv_lt_0_compat; assumption).
  assert (0 < SD c / m) by (apply Rdiv_lt_0_compat; assumption).
  pose proof (npow_gt0 (SD c / m) (1 - k1 c) H0).
  pose proof (npow_gt0 (a / m) (k1 c) H). pose proof (npow_gt0 (a / m) (2 * k1 c - 1) H).
  destruct (Rlt_dec a (SD c)).
  - rewrite Rplus_0_l. apply Rmult_lt_0_compat; [lra|apply Rmult_lt_0_compat; assumption].
  - rewrite Rmult_0_r, Rplus_0_r. apply Rmult_lt_0_compat; assumption.
Qed.

Lemma damage1_haibach_term c m a n : curve_ok c -> 0 < m -> 0 <= a ->
  damage1 (miner_haibach c) (a, n) = npow (m / SD c) (k1 c) / ND c * haibach_term c m (a, n).
Proof.
  intros Hc Hm Ha. rewrite damage1_haibach by assumption.
  pose proof (k1_ne0 c Hc). pose proof (k2h_ne0 c Hc). destruct Hc as (HN & HS & Hk).
  unfold haibach_term. simpl.
  assert (Hy : 0 < m / SD c) by (apply Rdiv_lt_0_compat; assumption).
  destruct (Rlt_dec a (SD c)).
  - rewrite (npow_split a m (SD c)) by assumption.
    assert (E : npow (m / SD c) (2 * k1 c - 1) = npow (m / SD c) (k1 c) * npow (SD c / m) (1 - k1 c)).
    { replace (SD c / m) with (/ (m / SD c)) by (field; split; lra).
      rewrite (npow_pos (/ (m / SD c))) by (now apply Rinv_0_lt_compat).
      rewrite !npow_pos by assumption. rewrite Rpower_inv_base by assumption.
      rewrite <- Rpower_plus. f_equal. ring. }
    rewrite E. unfold Rdiv. ring.
  - rewrite (npow_split a m (SD c)) by assumption. unfold Rdiv. ring.
Qed.

Theorem gassner_haibach_damage_one c l : curve_ok c -> coll_ok l -> 0 < max_occ l ->
  SD c <= max_amp l ->                                       (* load level at/above the knee point *)
  exists Ng, gassner_cycles lm_haibach c l = Some Ng /\
             damage_sum (miner_haibach c) (apply_for Ng l) = 1.
Proof.
  intros Hc Hl Hm Hlev. pose proof (k1_ne0 c Hc) as Hk0.
  assert (HS : 0 < SD c) by apply Hc. assert (HN : 0 < ND c) by apply Hc.
  assert (Hma : 0 < max_amp l) by lra.
  pose proof (total_pos_of_occ l Hl Hm) as HT.
  assert (Hcy : cycles c (max_amp l) = Some (ND c * npow (max_amp l / SD c) (- k1 c))).
  { unfold cycles, make_k. destruct (Rlt_dec (max_amp l) (SD c)); [lra|].
    destruct (Rle_dec (max_amp l) 0); [lra|reflexivity]. }
  unfold gassner_cycles. rewrite Hcy. eexists. split; [reflexivity|].
  unfold apply_for. rewrite damage_proportional. unfold damage_sum, damage.
  pose proof Hl as Hl'. unfold coll_ok in Hl'. rewrite Forall_forall in Hl'.
  rewrite (Rsum_map_scal (damage1 (miner_haibach c)) (haibach_term c (max_amp l))
                         (npow (max_amp l / SD c) (k1 c) / ND c)).
  2:{ intros [a n] Hin. destruct (Hl' _ Hin) as [Ha Hn]. now apply damage1_haibach_term. }
  unfold lm_haibach. rewrite haibach_denominator.
  assert (HD : 0 < Rsum (map (haibach_term c (max_amp l)) l)).
  { destruct (max_occ_attained l Hm) as [[a n] [Hin [Hp He]]]. simpl in Hp, He.
    apply Rsum_map_pos with (a, n); [|assumption|apply haibach_term_pos; lra].
    intros [a' n'] Hin'. destruct (Hl' _ Hin') as [Ha' Hn']. now apply haibach_term_nonneg. }
  assert (0 < max_amp l / SD c) by (apply Rdiv_lt_0_compat; lra).
  rewrite !npow_pos by assumption. rewrite Rpower_Ropp.
  assert (0 < Rpower (max_amp l / SD c) (k1 c)) by (unfold Rpower; apply exp_pos).
  field. repeat split; lra.
Qed.

(* below the knee point the formula is not the Gassner life of the Haibach rule (documented in the source:
   "return value is 'inf' if maximum collective amplitude < SD"): with the default k_2 = inf the code returns inf *)
Theorem gassner_haibach_below_knee_inf c l : k2 c = None -> max_amp l < SD c ->
  gassner_cycles lm_haibach c l = None.
Proof.
  intros Hk Hlt. unfold gassner_cycles, cycles, make_k. rewrite Hk.
  destruct (Rlt_dec (max_amp l) (SD c)); [reflexivity|contradiction].
Qed.

(* ... but for a curve that carries a finite k_2 the formula does return a number below the knee point, and it is not the Gassner
   life of the Haibach rule: the lifetime multiple refers to the k_1 line extended below the knee (factor (SD/max)^(1-k_1)), whereas
   cycles(max) is read on the k_2 branch.  The damage at the predicted cycles is (max/SD)^(k_1 - k_2), i.e. (SD/max)^(k_1 - 1) > 1 for
   k_2 = 2 k_1 - 1 (found by an independent seeder probing the unchanged tree; known finding C11 `haibach-below-knee`). *)
Theorem gassner_haibach_below_knee_damage c l k2v : curve_ok c -> coll_ok l -> 0 < max_occ l ->
  0 < max_amp l < SD c -> k2 c = Some k2v ->
  exists Ng, gassner_cycles lm_haibach c l = Some Ng /\
             damage_sum (miner_haibach c) (apply_for Ng l) = npow (max_amp l / SD c) (k1 c - k2v).
Proof.
  intros Hc Hl Hm [Hma Hlev] Hk2. pose proof (k1_ne0 c Hc) as Hk0.
  assert (HS : 0 < SD c) by apply Hc. assert (HN : 0 < ND c) by apply Hc.
  pose proof (total_pos_of_occ l Hl Hm) as HT.
  assert (Hcy : cycles c (max_amp l) = Some (ND c * npow (max_amp l / SD c) (- k2v))).
  { unfold cycles, make_k. rewrite Hk2. destruct (Rlt_dec (max_amp l) (SD c)); [|lra].
    destruct (Rle_dec (max_amp l) 0); [lra|reflexivity]. }
  unfold gassner_cycles. rewrite Hcy. eexists. split; [reflexivity|].
  unfold apply_for. rewrite damage_proportional. unfold damage_sum, damage.
  pose proof Hl as Hl'. unfold coll_ok in Hl'. rewrite Forall_forall in Hl'.
  rewrite (Rsum_map_scal (damage1 (miner_haibach c)) (haibach_term c (max_amp l))
                         (npow (max_amp l / SD c) (k1 c) / ND c)).
  2:{ intros [a n] Hin. destruct (Hl' _ Hin) as [Ha Hn]. now apply damage1_haibach_term. }
  unfold lm_haibach. rewrite haibach_denominator.
  assert (HD : 0 < Rsum (map (haibach_term c (max_amp l)) l)).
  { destruct (max_occ_attained l Hm) as [[a n] [Hin [Hp He]]]. simpl in Hp, He.
    apply Rsum_map_pos with (a, n); [|assumption|apply haibach_term_pos; lra].
    intros [a' n'] Hin'. destruct (Hl' _ Hin') as [Ha' Hn']. now apply haibach_term_nonneg. }
  assert (Hy : 0 < max_amp l / SD c) by (apply Rdiv_lt_0_compat; lra).
  rewrite !npow_pos by assumption. unfold Rminus. rewrite Rpower_plus.
  assert (0 < Rpower (max_amp l / SD c) (k1 c)) by (unfold Rpower; apply exp_pos).
  assert (0 < Rpower (max_amp l / SD c) (- k2v)) by (unfold Rpower; apply exp_pos).
  field. repeat split; lra.
Qed.

(* ---- curves with scatter whose native failure probability is not 50 %: cycles() / Fatigue.damage() read the curve at 50 % (c50),
   MinerHaibach.lifetime_multiple reads the knee point of the native curve (cn) *)
Lemma lm_haibach_ext c c' l : SD c = SD c' -> k1 c = k1 c' -> lm_haibach c l = lm_haibach c' l.
Proof. intros H1 H2. unfold lm_haibach, haibach_sum1, haibach_sum2. rewrite H1, H2. reflexivity. Qed.

(* same knee point (no scatter, or native probability 50 %, or the repaired code): nothing changes *)
Theorem gassner_haibach_split_same_knee c50 cn l : SD cn = SD c50 -> k1 cn = k1 c50 ->
  gassner_cycles_split lm_haibach c50 cn l = gassner_cycles lm_haibach c50 l.
Proof.
  intros H1 H2. unfold gassner_cycles_split, gassner_cycles. rewrite (lm_haibach_ext cn c50 l H1 H2). reflexivity.
Qed.

(* the general value: damage after the code's Gassner cycles = A(knee of the native curve) / A(knee at 50 %) *)
Theorem gassner_haibach_split_value c50 cn l : curve_ok c50 -> coll_ok l -> 0 < max_occ l -> SD c50 <= max_amp l ->
  exists Ng, gassner_cycles_split lm_haibach c50 cn l = Some Ng /\
             damage_sum (miner_haibach c50) (apply_for Ng l) * lm_haibach c50 l = lm_haibach cn l.
Proof.
  intros Hc Hl Hm Hlev.
  destruct (gassner_haibach_damage_one c50 l Hc Hl Hm Hlev) as [Ng [E1 E2]].
  unfold gassner_cycles in E1. unfold gassner_cycles_split.
  destruct (cycles c50 (max_amp l)) as [N|]; [|discriminate].
  injection E1 as E1. exists (N * lm_haibach cn l). split; [reflexivity|].
  unfold apply_for in *. rewrite damage_proportional in *. subst Ng.
  transitivity (lm_haibach cn l * (N * lm_haibach c50 l / total l * damage_sum (miner_haibach c50) l)).
  - unfold Rdiv. ring.
  - rewrite E2. ring.
Qed.

(* ------------------------------------------------------------------ effective damage sum *)
Theorem effective_damage_in_range A : 3 / 10 <= eds A <= 1.
Proof.
  unfold eds. split.
  - apply Rmin_glb; [apply Rmax_l|lra].
  - apply Rmin_r.
Qed.

Lemma div_mul_cancel a r : 0 < r -> a / r * r = a.
Proof. intros. field. lra. Qed.

Lemma pow4_lt x y : 0 <= x -> x < y -> x ^ 4 < y ^ 4.
Proof.
  intros H0 H. assert (x * x < y * y) by nra. assert (0 <= x * x) by nra.
  replace (x ^ 4) with ((x * x) * (x * x)) by ring. replace (y ^ 4) with ((y * y) * (y * y)) by ring. nra.
Qed.

(* inside the clipping range the value is 2 / A^(1/4), i.e. eds(A)^4 * A = 16 *)
Theorem effective_damage_unclipped A : 16 <= A -> A * 81 <= 160000 -> eds A = 2 / npow A (1 / 4) /\ eds A ^ 4 * A = 16.
Proof.
  intros Hlo Hhi. assert (HA : 0 < A) by lra.
  set (r := npow A (1 / 4)).
  assert (Hr : 0 < r) by (apply npow_gt0; assumption).
  assert (Hr4 : r ^ 4 = A).
  { unfold r. rewrite npow_pos by assumption. rewrite <- Rpower_pow by (unfold Rpower; apply exp_pos).
    rewrite Rpower_mult. replace (1 / 4 * INR 4) with 1 by (simpl; field). now apply Rpower_1. }
  assert (H2 : 2 <= r).
  { destruct (Rle_lt_dec 2 r) as [|Hc]; [assumption|]. exfalso.
    assert (r ^ 4 < 2 ^ 4) by (apply pow4_lt; lra). lra. }
  assert (H3 : r * 3 <= 20).
  { destruct (Rle_lt_dec (r * 3) 20) as [|Hc]; [assumption|]. exfalso.
    assert (H : 20 ^ 4 < (r * 3) ^ 4) by (apply pow4_lt; lra). replace ((r * 3) ^ 4) with (r ^ 4 * 81) in H by ring. lra. }
  assert (E : eds A = 2 / r).
  { unfold eds. fold r.
    assert (3 / 10 <= 2 / r) by (pose proof (div_mul_cancel 2 r Hr); set (q := 2 / r) in *; nra).
    assert (2 / r <= 1) by (pose proof (div_mul_cancel 2 r Hr); set (q := 2 / r) in *; nra).
    rewrite Rmax_right by assumption. now rewrite Rmin_left. }
  split; [exact E|]. rewrite E, <- Hr4. field. lra.
Qed.

Theorem effective_damage_clipped A : 0 < A -> (A <= 16 -> eds A = 1) /\ (160000 <= A * 81 -> eds A = 3 / 10).
Proof.
  intros HA. set (r := npow A (1 / 4)).
  assert (Hr : 0 < r) by (apply npow_gt0; assumption).
  assert (Hr4 : r ^ 4 = A).
  { unfold r. rewrite npow_pos by assumption. rewrite <- Rpower_pow by (unfold Rpower; apply exp_pos).
    rewrite Rpower_mult. replace (1 / 4 * INR 4) with 1 by (simpl; field). now apply Rpower_1. }
  split; intros H.
  - assert (r <= 2).
    { destruct (Rle_lt_dec r 2) as [|Hc]; [assumption|]. exfalso. assert (2 ^ 4 < r ^ 4) by (apply pow4_lt; lra). lra. }
    assert (1 <= 2 / r) by (pose proof (div_mul_cancel 2 r Hr); set (q := 2 / r) in *; nra).
    unfold eds. fold r. rewrite Rmin_right; [reflexivity|]. eapply Rle_trans; [exact H1|apply Rmax_r].
  - assert (20 <= r * 3).
    { destruct (Rle_lt_dec 20 (r * 3)) as [|Hc]; [assumption|]. exfalso.
      assert (H0 : (r * 3) ^ 4 < 20 ^ 4) by (apply pow4_lt; lra). replace ((r * 3) ^ 4) with (r ^ 4 * 81) in H0 by ring. lra. }
    assert (2 / r <= 3 / 10) by (pose proof (div_mul_cancel 2 r Hr); set (q := 2 / r) in *; nra).
    unfold eds. fold r. rewrite Rmax_left by assumption. rewrite Rmin_left by lra. reflexivity.
Qed.

(* ------------------------------------------------------------------ witnesses *)
Ltac max_compute :=
  cbv [max_occ max_amp fold_right fst snd];
  repeat match goal with
         | |- context [Rlt_dec ?a ?b] => destruct (Rlt_dec a b); try lra
         | |- context [Rmax ?a ?b] => first [rewrite (Rmax_left a b) by lra | rewrite (Rmax_right a b) by lra]
         end; try reflexivity.

Definition ex_curve : curve := mkCurve 5 None 1000000 100.
Definition ex_full : coll := [(50, 10); (150, 5); (250, 2); (350, 1)].
Definition ex_empty_top : coll := [(50, 10); (150, 5); (250, 2); (350, 0)].   (* fixed-bin histogram, top class empty *)

Lemma ex_curve_ok : curve_ok ex_curve.
Proof. unfold curve_ok, ex_curve; simpl; lra. Qed.
Lemma ex_full_ok : coll_ok ex_full.
Proof. unfold coll_ok, ex_full. repeat constructor; simpl; lra. Qed.
Lemma ex_empty_top_ok : coll_ok ex_empty_top.
Proof. unfold coll_ok, ex_empty_top. repeat constructor; simpl; lra. Qed.
Lemma ex_full_max : max_occ ex_full = 350 /\ max_amp ex_full = 350.
Proof. unfold ex_full. split; max_compute. Qed.
Lemma ex_empty_top_max : max_occ ex_empty_top = 250 /\ max_amp ex_empty_top = 350.
Proof. unfold ex_empty_top. split; max_compute. Qed.

(* the hypotheses of the positive theorems are satisfiable *)
Example gassner_hypotheses_satisfiable :
  curve_ok ex_curve /\ coll_ok ex_full /\ 0 < max_occ ex_full /\ max_occ ex_full = max_amp ex_full /\
  SD ex_curve <= max_amp ex_full.
Proof.
  destruct ex_full_max as [H1 H2]. rewrite H1, H2. simpl.
  repeat split; try apply ex_curve_ok; try apply ex_full_ok; lra.
Qed.

(* the unrestricted statement (damage one whichever classes are empty) is false of the faithful model *)
Theorem gassner_elementary_empty_top_refuted :
  exists c l, curve_ok c /\ coll_ok l /\ 0 < total l /\ SD c <= max_amp l /\
    exists Ng, gassner_cycles lm_elementary c l = Some Ng /\
               damage_sum (miner_elementary c) (apply_for Ng l) = (5 / 7) ^ 5 /\
               damage_sum (miner_elementary c) (apply_for Ng l) <> 1.
Proof.
  exists ex_curve, ex_empty_top. destruct ex_empty_top_max as [H1 H2].
  assert (Hm : 0 < max_occ ex_empty_top) by lra.
  assert (Hlev : SD ex_curve <= max_amp ex_empty_top) by (rewrite H2; simpl; lra).
  split; [apply ex_curve_ok|]. split; [apply ex_empty_top_ok|].
  split; [apply total_pos_of_occ; [apply ex_empty_top_ok|assumption]|]. split; [assumption|].
  destruct (gassner_elementary_empty_top_value ex_curve ex_empty_top ex_curve_ok ex_empty_top_ok Hm Hlev) as [Ng [E1 E2]].
  exists Ng. split; [exact E1|].
  assert (E3 : damage_sum (miner_elementary ex_curve) (apply_for Ng ex_empty_top) = (5 / 7) ^ 5).
  { rewrite E2, H1, H2. simpl k1. rewrite npow_pos by lra.
    replace (Rpower (250 / 350) 5) with (Rpower (250 / 350) (INR 5)) by (f_equal; simpl; ring).
    rewrite Rpower_pow by lra. f_equal. field. }
  split; [exact E3|]. rewrite E3. lra.
Qed.

(* ---- Miner-Haibach for a curve whose knee point at 50 % (2) differs from the knee point of the native curve (1): a member between
   the two knee points is counted with full damage in the lifetime multiple and with reduced damage in Fatigue.damage *)
Definition ex_c50 : curve := mkCurve 2 None 1 2.
Definition ex_cn : curve := mkCurve 2 None 1 1.
Definition ex_two : coll := [(1, 1); (2, 1)].

Lemma ex_two_max : max_occ ex_two = 2 /\ max_amp ex_two = 2.
Proof. unfold ex_two. split; max_compute. Qed.

Lemma npow_nat x (n : nat) : 0 < x -> npow x (INR n) = x ^ n.
Proof. intros H. rewrite npow_pos by assumption. apply Rpower_pow. assumption. Qed.

Lemma npow_one_base y : npow 1 y = 1.
Proof. rewrite npow_pos by lra. unfold Rpower. rewrite ln_1, Rmult_0_r. apply exp_0. Qed.

Ltac dec_compute :=
  repeat match goal with
         | |- context [Rlt_dec ?a ?b] => destruct (Rlt_dec a b); try lra
         end.

Lemma ex_lm_native : lm_haibach ex_cn ex_two = 8 / 5.
Proof.
  destruct ex_two_max as [_ Hm]. unfold lm_haibach, haibach_sum1, haibach_sum2. cbv zeta. rewrite Hm.
  cbv [ex_two ex_cn total map Rsum fst snd k1 SD]. dec_compute.
  set (z := npow (1 / 2) (1 - 2)).
  replace (2 / 2) with 1 by field. rewrite npow_one_base.
  replace 2 with (INR 2) at 2 by (simpl; ring). rewrite npow_nat by lra.
  simpl INR. field.
Qed.

Lemma ex_lm_50 : lm_haibach ex_c50 ex_two = 16 / 9.
Proof.
  destruct ex_two_max as [_ Hm]. unfold lm_haibach, haibach_sum1, haibach_sum2. cbv zeta. rewrite Hm.
  cbv [ex_two ex_c50 total map Rsum fst snd k1 SD]. dec_compute.
  replace (2 / 2) with 1 by field. rewrite !npow_one_base.
  replace (2 * 2 - 1) with (INR 3) by (simpl; ring). rewrite npow_nat by lra.
  field.
Qed.

Theorem gassner_haibach_native_knee_refuted :
  exists c50 cn l, curve_ok c50 /\ curve_ok cn /\ k1 cn = k1 c50 /\ coll_ok l /\ 0 < max_occ l /\ SD c50 <= max_amp l /\
    exists Ng, gassner_cycles_split lm_haibach c50 cn l = Some Ng /\
               damage_sum (miner_haibach c50) (apply_for Ng l) = 9 / 10 /\
               damage_sum (miner_haibach c50) (apply_for Ng l) <> 1.
Proof.
  exists ex_c50, ex_cn, ex_two. destruct ex_two_max as [H1 H2].
  assert (Hc : curve_ok ex_c50) by (unfold curve_ok, ex_c50; simpl; lra).
  assert (Hl : coll_ok ex_two) by (unfold coll_ok, ex_two; repeat constructor; simpl; lra).
  assert (Hm : 0 < max_occ ex_two) by lra.
  assert (Hlev : SD ex_c50 <= max_amp ex_two) by (rewrite H2; simpl; lra).
  split; [exact Hc|]. split; [unfold curve_ok, ex_cn; simpl; lra|]. split; [reflexivity|].
  split; [exact Hl|]. split; [exact Hm|]. split; [exact Hlev|].
  destruct (gassner_haibach_split_value ex_c50 ex_cn ex_two Hc Hl Hm Hlev) as [Ng [E1 E2]].
  exists Ng. split; [exact E1|].
  rewrite ex_lm_native, ex_lm_50 in E2.
  assert (E3 : damage_sum (miner_haibach ex_c50) (apply_for Ng ex_two) = 9 / 10) by lra.
  split; [exact E3|]. rewrite E3. lra.
Qed.
