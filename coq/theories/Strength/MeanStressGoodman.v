(* C12 -- FKM-Goodman diagram: the segment algorithm equals the closed form (potential H_fkm); consequences. *)
From Coq Require Import QArith Qabs Qminmax Bool List Lqa Lia Setoid Morphisms.
From PL Require Import Strength.MeanStress Strength.MeanStressInv.
Import ListNotations.
Open Scope Q_scope.

(* ------------------------------------------------------------------ fake mean stress *)
Global Instance fms_Proper : Proper (Qeq ==> Qeq) fms.
Proof. intros x y E. unfold fms. rewrite E. reflexivity. Qed.

Lemma fms_gt_m1 x : x < 1 -> -1 < fms x.
Proof. intro H. unfold fms. apply Qlt_shift_div_l; lra. Qed.
Lemma fms_lt_m1 x : 1 < x -> fms x < -1.
Proof.
  intro H. assert (E : fms x == - ((1 + x) / (x - 1))) by (unfold fms; field; lra).
  rewrite E. assert (1 < (1 + x) / (x - 1)) by (apply Qlt_shift_div_l; lra). lra.
Qed.
Lemma fms_mono x y : x < y -> y < 1 -> fms x < fms y.
Proof.
  intros H1 H2. unfold fms. apply Qlt_shift_div_r; [lra|].
  assert (E : (1 + y) / (1 - y) * (1 - x) == ((1 + y) * (1 - x)) / (1 - y)) by (field; lra).
  rewrite E. apply Qlt_shift_div_l; [lra|]. nra.
Qed.
Lemma fms_0 : fms 0 == 1.
Proof. reflexivity. Qed.
Lemma fms_le x y : x <= y -> y < 1 -> fms x <= fms y.
Proof.
  intros H1 H2. destruct (Qlt_le_dec x y) as [L|L]; [apply Qlt_le_weak, fms_mono; assumption|].
  assert (E : x == y) by lra. rewrite E. lra.
Qed.

(* ------------------------------------------------------------------ deciding boolean comparisons *)
Ltac qb_solve := first [assumption | lra | nra].
Ltac qb_step :=
  match goal with
  | |- context [Qle_bool ?a ?b] =>
      first [ rewrite (Qle_bool_true a b) by qb_solve | rewrite (Qle_bool_false a b) by qb_solve ]
  | |- context [Qltb ?a ?b] =>
      first [ rewrite (Qltb_true a b) by qb_solve | rewrite (Qltb_false a b) by qb_solve ]
  | |- context [Qeq_bool ?a ?b] =>
      first [ rewrite (Qeq_bool_true a b) by qb_solve | rewrite (Qeq_bool_false a b) by qb_solve ]
  end.
Ltac ms_cbn := repeat progress (
  unfold stepR, in_test, local_goal, left_boundary, contains_rc, contains_lc, containing, goal_mask, is_neginf, eeqb, eltb,
         schedule, left_segs, right_segs, dists;
  cbn [schedule left_segs right_segs containing goal_mask is_neginf existsb dists map filter sort_by fold_right insert_by fst snd app
       seg_fms goal_fms lo hi slope contains_rc contains_lc eleb eltb eeqb negb andb orb left_boundary
       fold_left stepR in_test push local_goal]).
Ltac ms_eval := ms_cbn; repeat (qb_step; ms_cbn).

(* ------------------------------------------------------------------ the cycle arrives at the goal *)
Definition RokFkm (R : ExtQ) : Prop := cyc_okR R.

Lemma fkm_reaches fx M M2 G R :
  goal_accepted G = true -> cyc_okR R ->
  (G = NegInf -> match R with Fin r => r < 1 | _ => True end) ->
  fold_left stepR (schedule fx (fkm_goodman_diagram M M2) G) R = G.
Proof.
  intros HG HR Hex. unfold fkm_goodman_diagram.
  assert (F3 : fms ((0 + 1) / 2) == 3) by reflexivity.
  assert (Hh1 : (0 + 1) / 2 < 1) by reflexivity.
  assert (Hh0 : 0 < (0 + 1) / 2) by reflexivity.
  destruct G as [|g|]; cbn in HG; [| |discriminate].
  - (* goal -inf *)
    destruct fx; ms_eval.
    all: destruct R as [|r|]; cbn in HR; [| |contradiction].
    all: try (ms_eval; reflexivity).
    all: specialize (Hex eq_refl); cbn in Hex.
    all: destruct (Q_dec r 0) as [[L|L]|L]; ms_eval; reflexivity.
  - assert (Hg1 : ~ g == 1) by (intro E; rewrite (Qeq_bool_true _ _ E) in HG; discriminate).
    clear Hex.
    destruct (Qlt_le_dec 1 g) as [G1|G1].
    + (* goal > 1 *)
      pose proof (fms_lt_m1 g G1) as Fg.
      ms_eval.
      destruct R as [|r|]; cbn in HR; [| |contradiction].
      * ms_eval. reflexivity.
      * destruct (Q_dec r 0) as [[L|L]|L]; [| destruct (Qlt_le_dec r 1) |]; ms_eval; reflexivity.
    + assert (G1' : g < 1) by lra.
      pose proof (fms_gt_m1 g G1') as Fg.
      destruct (Qlt_le_dec 0 g) as [G0|G0].
      * (* 0 < g < 1 *)
        assert (Fg1 : 1 < fms g) by (pose proof (fms_mono 0 g G0 G1'); pose proof fms_0; lra).
        destruct (Q_dec g ((0 + 1) / 2)) as [[Gh|Gh]|Gh].
        -- pose proof (fms_mono g ((0 + 1) / 2) Gh Hh1) as Fh.
           ms_eval.
           destruct R as [|r|]; cbn in HR; [| |contradiction].
           ++ ms_eval. reflexivity.
           ++ destruct (Q_dec r 0) as [[L|L]|L]; [| destruct (Qlt_le_dec r 1) |]; ms_eval; reflexivity.
        -- pose proof (fms_mono ((0 + 1) / 2) g Gh G1') as Fh.
           ms_eval.
           destruct R as [|r|]; cbn in HR; [| |contradiction].
           ++ ms_eval. reflexivity.
           ++ destruct (Q_dec r 0) as [[L|L]|L]; [| destruct (Qlt_le_dec r 1) |]; ms_eval; reflexivity.
        -- assert (Fh : fms g == fms ((0 + 1) / 2)) by (rewrite Gh; reflexivity).
           ms_eval.
           destruct R as [|r|]; cbn in HR; [| |contradiction].
           ++ ms_eval. reflexivity.
           ++ destruct (Q_dec r 0) as [[L|L]|L]; [| destruct (Qlt_le_dec r 1) |]; ms_eval; reflexivity.
      * (* g <= 0 *)
        assert (Fg1 : fms g <= 1) by (pose proof (fms_le g 0 G0 ltac:(lra)); pose proof fms_0; lra).
        ms_eval.
        destruct R as [|r|]; cbn in HR; [| |contradiction].
        -- ms_eval. reflexivity.
        -- destruct (Q_dec r 0) as [[L|L]|L]; [| destruct (Qlt_le_dec r 1) |]; ms_eval; reflexivity.
Qed.

Lemma fkm_compressive_stays fx M M2 r :
  1 < r -> fold_left stepR (schedule fx (fkm_goodman_diagram M M2) NegInf) (Fin r) = if fx then NegInf else Fin r.
Proof.
  intro Hr. unfold fkm_goodman_diagram. assert (F3 : fms ((0 + 1) / 2) == 3) by reflexivity.
  destruct fx; ms_eval; reflexivity.
Qed.

(* ------------------------------------------------------------------ the potential of the FKM-Goodman diagram *)
(* H_fkm M M2 R = (amplitude at R = -1) / (amplitude at R) along an iso-damage line *)
Definition H_fkm (M M2 : Q) (R : ExtQ) : Q :=
  match R with
  | Fin r => if Qltb 1 r then 1 - M
             else if Qle_bool r 0 then w M R
             else (1 + M) / (1 + M2) * w M2 R
  | _ => 1 - M
  end.

Ltac bh := repeat match goal with
  | H : _ && _ = true |- _ => apply andb_true_iff in H; destruct H
  | H : Qle_bool _ _ = true |- _ => apply Qle_bool_iff in H
  | H : Qltb _ _ = true |- _ => apply Qltb_lt in H
  | H : Qltb _ _ = false |- _ => apply Qltb_ge in H
  | H : negb _ = true |- _ => apply negb_true_iff in H
  | H : negb _ = false |- _ => apply negb_false_iff in H
  | H : Qle_bool _ _ = false |- _ => apply Qle_bool_gt in H
  | H : false = true |- _ => discriminate H
  | H : true = false |- _ => discriminate H
  | H : true = true |- _ => clear H
  | H : false = false |- _ => clear H
  end.

(* evaluate H_fkm at a finite ratio whose position is known *)
Ltac h_eval := unfold H_fkm; repeat qb_step; cbn [w].

Lemma good_diagram_fkm M M2 G :
  0 <= M2 -> 0 <= M -> M < 1 -> goal_accepted G = true ->
  good_diagram (H_fkm M M2) (fkm_goodman_diagram M M2) G.
Proof.
  intros HM2 HM0 HM1 HG s Hs. unfold fkm_goodman_diagram in Hs.
  destruct Hs as [E|[E|[E|[]]]]; subst s.
  - (* (1, inf), slope 0 *)
    assert (Hb : good_step (H_fkm M M2) ({| lo := Fin 1; hi := PosInf; slope := 0 |}, Fin 1)).
    { exists (1 - M). cbn [fst snd slope]. split; [|split].
      - intros R HR Ht. revert Ht. destruct R as [|r|]; cbn in HR; [| |contradiction]; ms_eval; intro Ht; bh.
        assert (1 < r) by lra. h_eval. field. lra.
      - ms_eval. cbn. ring.
      - ms_eval. cbn. lra. }
    split; [exact Hb|split; [exact Hb|]].
    intro Hc. destruct G as [|g|]; cbn in HG; [| |discriminate].
    + exists (1 - M). cbn [fst snd slope]. split; [|split].
      * intros R HR Ht. revert Ht. destruct R as [|r|]; cbn in HR; [| |contradiction]; ms_eval; intro Ht; bh.
        assert (1 < r) by lra. h_eval. field. lra.
      * ms_eval. cbn. ring.
      * ms_eval. cbn. lra.
    + assert (Hg1 : ~ g == 1) by (intro E; rewrite (Qeq_bool_true _ _ E) in HG; discriminate).
      assert (G1 : 1 < g).
      { revert Hc. ms_eval. intros [Hc|[Hc|[Hn Hc]]]; [| |discriminate Hn]; bh; lra. }
      exists (1 - M). cbn [fst snd slope]. split; [|split].
      * intros R HR Ht. revert Ht. destruct R as [|r|]; cbn in HR; [| |contradiction]; ms_eval; intro Ht; bh.
        -- cbn. ring.
        -- assert (1 < r) by lra. h_eval. field. lra.
      * ms_eval. h_eval. field. lra.
      * ms_eval. cbn. split; lra.
  - (* (-inf, 0], slope M *)
    split; [|split].
    + exists 1. cbn [fst snd slope]. split; [|split].
      * intros R HR Ht. revert Ht. destruct R as [|r|]; cbn in HR; [| |contradiction]; ms_eval; intro Ht; bh.
        -- cbn. ring.
        -- h_eval. ring.
      * ms_eval. h_eval. ring.
      * ms_eval. cbn. split; lra.
    + exists 1. cbn [fst snd slope]. split; [|split].
      * intros R HR Ht. revert Ht. destruct R as [|r|]; cbn in HR; [| |contradiction]; ms_eval; intro Ht; bh.
        -- cbn. ring.
        -- h_eval. ring.
      * ms_eval. cbn. ring.
      * ms_eval. cbn. lra.
    + intro Hc. destruct G as [|g|]; cbn in HG; [| |discriminate].
      * exists 1. cbn [fst snd slope]. split; [|split].
        -- intros R HR Ht. revert Ht. destruct R as [|r|]; cbn in HR; [| |contradiction]; ms_eval; intro Ht; bh.
           ++ cbn. ring.
           ++ h_eval. ring.
        -- ms_eval. cbn. ring.
        -- ms_eval. cbn. lra.
      * assert (G0 : g <= 0).
        { revert Hc. ms_eval. intros [Hc|[Hc|[Hn Hc]]]; [| |discriminate Hn]; bh; lra. }
        exists 1. cbn [fst snd slope]. split; [|split].
        -- intros R HR Ht. revert Ht. destruct R as [|r|]; cbn in HR; [| |contradiction]; ms_eval; intro Ht; bh.
           ++ cbn. ring.
           ++ h_eval. ring.
        -- ms_eval. h_eval. ring.
        -- ms_eval. cbn. split; [lra|nra].
  - (* (0, 1], slope M2 *)
    assert (Hb : good_step (H_fkm M M2) ({| lo := Fin 0; hi := Fin 1; slope := M2 |}, Fin 0)).
    { exists ((1 + M) / (1 + M2)). cbn [fst snd slope]. split; [|split].
      - intros R HR Ht. revert Ht. destruct R as [|r|]; cbn in HR; [| |contradiction]; ms_eval; intro Ht; bh.
        destruct (Qlt_le_dec 0 r) as [L|L].
        + h_eval. ring.
        + assert (E : r == 0) by lra. h_eval. rewrite E. field. lra.
      - ms_eval. h_eval. field. lra.
      - ms_eval. cbn. split; lra. }
    split; [exact Hb|split; [exact Hb|]].
    intro Hc. destruct G as [|g|]; cbn in HG; [| |discriminate].
    + revert Hc; ms_eval; intros [Hc|[Hc|[_ Hc]]]; discriminate.
    + assert (Hg1 : ~ g == 1) by (intro E; rewrite (Qeq_bool_true _ _ E) in HG; discriminate).
      assert (G0 : 0 <= g /\ g < 1).
      { revert Hc. ms_eval. intros [Hc|[Hc|[Hn Hc]]]; [| |discriminate Hn]; bh; lra. }
      exists ((1 + M) / (1 + M2)). cbn [fst snd slope]. split; [|split].
      * intros R HR Ht. revert Ht. destruct R as [|r|]; cbn in HR; [| |contradiction]; ms_eval; intro Ht; bh.
        destruct (Qlt_le_dec 0 r) as [L|L].
        -- h_eval. ring.
        -- assert (E : r == 0) by lra. h_eval. rewrite E. field. lra.
      * ms_eval. destruct (Qlt_le_dec 0 g) as [L|L].
        -- h_eval. ring.
        -- assert (E : g == 0) by lra. h_eval. rewrite E. field. lra.
      * ms_eval. cbn. split; [lra|nra].
Qed.

(* ------------------------------------------------------------------ invariant + arrival = closed form on states *)
Lemma H_fkm_compressive M M2 r : 1 < r -> H_fkm M M2 (Fin r) == H_fkm M M2 NegInf.
Proof. intro Hr. h_eval. cbn. reflexivity. Qed.

Lemma H_fkm_pos M M2 G :
  0 <= M2 -> 0 <= M -> M < 1 -> cyc_okR G -> 0 < H_fkm M M2 G.
Proof.
  intros HM2 HM0 HM1 HG. destruct G as [|g|]; cbn in HG; [cbn; lra| |contradiction].
  destruct (Qlt_le_dec 1 g) as [G1|G1]; [h_eval; lra|].
  assert (g < 1) by lra.
  destruct (Qlt_le_dec 0 g) as [G0|G0]; h_eval.
  - apply Qmult_lt_0_compat; apply Qlt_shift_div_l; try lra. nra.
  - apply Qlt_shift_div_l; try lra. nra.
Qed.

Theorem fkm_state_invariant fx M M2 G c :
  0 <= M2 -> 0 <= M -> M < 1 -> goal_accepted G = true -> cyc_okR (snd c) ->
  fst (transform_state fx (fkm_goodman_diagram M M2) G c) * H_fkm M M2 G == fst c * H_fkm M M2 (snd c)
  /\ cyc_okR (snd (transform_state fx (fkm_goodman_diagram M M2) G c))
  /\ H_fkm M M2 (snd (transform_state fx (fkm_goodman_diagram M M2) G c)) == H_fkm M M2 G.
Proof.
  intros HM2 HM0 HM1 HG Hc.
  pose proof (good_diagram_fkm M M2 G HM2 HM0 HM1 HG) as GD.
  pose proof (transform_invariant fx _ _ _ c GD Hc) as Inv.
  assert (Ok : cyc_okR (snd (transform_state fx (fkm_goodman_diagram M M2) G c))).
  { unfold transform_state. exact (proj2 (fold_invariant _ _ c (good_schedule fx _ _ _ GD) Hc)). }
  assert (HH : H_fkm M M2 (snd (transform_state fx (fkm_goodman_diagram M M2) G c)) == H_fkm M M2 G).
  { unfold transform_state. rewrite snd_fold_step.
    destruct G as [|g|] eqn:EG.
    - destruct (snd c) as [|r|] eqn:ER; cbn in Hc; [| |contradiction].
      + rewrite fkm_reaches; [reflexivity|exact HG|exact I|intros _; exact I].
      + destruct (Qlt_le_dec 1 r) as [L|L].
        * rewrite (fkm_compressive_stays fx M M2 r L). destruct fx; [reflexivity|]. apply H_fkm_compressive. exact L.
        * rewrite fkm_reaches; [reflexivity|exact HG|exact Hc|intros _; lra].
    - rewrite fkm_reaches; [reflexivity|exact HG|exact Hc|intro E; discriminate E].
    - discriminate HG. }
  split; [|split; [exact Ok|exact HH]].
  rewrite <- HH. exact Inv.
Qed.

Lemma goal_accepted_ok G : goal_accepted G = true -> cyc_okR G.
Proof.
  destruct G as [|g|]; cbn; [tauto| |discriminate].
  intros H E. rewrite (Qeq_bool_true _ _ E) in H. discriminate.
Qed.

(* the transformed amplitude of a cycle state: a * H(R) / H(G) *)
Theorem fkm_state_closed fx M M2 G a R :
  0 <= M2 -> 0 <= M -> M < 1 -> goal_accepted G = true -> cyc_okR R ->
  fst (transform_state fx (fkm_goodman_diagram M M2) G (a, R)) == a * H_fkm M M2 R / H_fkm M M2 G.
Proof.
  intros HM2 HM0 HM1 HG HR.
  destruct (fkm_state_invariant fx M M2 G (a, R) HM2 HM0 HM1 HG HR) as [Inv _]. cbn [fst snd] in Inv.
  pose proof (H_fkm_pos M M2 G HM2 HM0 HM1 (goal_accepted_ok G HG)) as Hp.
  rewrite <- Inv. field. lra.
Qed.

(* path independence, idempotence, fixed points -- on cycle states *)
Theorem fkm_path_independent fx M M2 G1 G2 c :
  0 <= M2 -> 0 <= M -> M < 1 -> goal_accepted G1 = true -> goal_accepted G2 = true -> cyc_okR (snd c) ->
  fst (transform_state fx (fkm_goodman_diagram M M2) G2 (transform_state fx (fkm_goodman_diagram M M2) G1 c))
  == fst (transform_state fx (fkm_goodman_diagram M M2) G2 c).
Proof.
  intros HM2 HM0 HM1 HG1 HG2 Hc.
  destruct (fkm_state_invariant fx M M2 G1 c HM2 HM0 HM1 HG1 Hc) as [I1 [Ok1 HH1]].
  destruct (fkm_state_invariant fx M M2 G2 _ HM2 HM0 HM1 HG2 Ok1) as [I12 _].
  destruct (fkm_state_invariant fx M M2 G2 c HM2 HM0 HM1 HG2 Hc) as [I2 _].
  pose proof (H_fkm_pos M M2 G2 HM2 HM0 HM1 (goal_accepted_ok G2 HG2)) as Hp.
  rewrite HH1, I1, <- I2 in I12.
  apply (Qmult_inj_r _ _ (H_fkm M M2 G2)); [lra|exact I12].
Qed.

Theorem fkm_idempotent fx M M2 G c :
  0 <= M2 -> 0 <= M -> M < 1 -> goal_accepted G = true -> cyc_okR (snd c) ->
  fst (transform_state fx (fkm_goodman_diagram M M2) G (transform_state fx (fkm_goodman_diagram M M2) G c))
  == fst (transform_state fx (fkm_goodman_diagram M M2) G c).
Proof. intros. apply fkm_path_independent; assumption. Qed.

Global Instance Qltb_Proper : Proper (Qeq ==> Qeq ==> eq) Qltb.
Proof. intros a b E c d E'. unfold Qltb. rewrite E, E'. reflexivity. Qed.

Lemma H_fkm_ext M M2 r g : r == g -> H_fkm M M2 (Fin r) == H_fkm M M2 (Fin g).
Proof.
  intro E. unfold H_fkm.
  rewrite (Qltb_Proper 1 1 (Qeq_refl 1) r g E), (Qleb_comp r g E 0 0 (Qeq_refl 0)).
  destruct (Qltb 1 g); [reflexivity|]. destruct (Qle_bool g 0); unfold w; rewrite E; reflexivity.
Qed.

(* a cycle that already has the target stress ratio keeps its amplitude *)
Theorem fkm_at_target_unchanged fx M M2 G a R :
  0 <= M2 -> 0 <= M -> M < 1 -> goal_accepted G = true -> cyc_okR R ->
  match R, G with Fin r, Fin g => r == g | NegInf, NegInf => True | _, _ => False end ->
  fst (transform_state fx (fkm_goodman_diagram M M2) G (a, R)) == a.
Proof.
  intros HM2 HM0 HM1 HG HR E.
  rewrite (fkm_state_closed fx M M2 G a R HM2 HM0 HM1 HG HR).
  pose proof (H_fkm_pos M M2 G HM2 HM0 HM1 (goal_accepted_ok G HG)) as Hp.
  assert (EH : H_fkm M M2 R == H_fkm M M2 G).
  { destruct R as [|r|], G as [|g|]; try contradiction; [reflexivity|apply H_fkm_ext; exact E]. }
  rewrite EH. field. lra.
Qed.

(* ------------------------------------------------------------------ closed form in (amplitude, mean) coordinates *)
(* equivalent amplitude at R = -1: three mean stress regions *)
Definition goodman_equiv (M M2 a m : Q) : Q :=
  if Qle_bool m (- a) then a * (1 - M)
  else if Qle_bool m a then a + M * m
  else (1 + M) * (a + M2 * m) / (1 + M2).
(* amplitude at the target ratio of the iso-damage line with equivalent amplitude e: R = -inf or R > 1, R <= 0, 0 < R < 1 *)
Definition goodman_at (M M2 e : Q) (G : ExtQ) : Q :=
  match G with
  | Fin g => if Qltb 1 g then e / (1 - M)
             else if Qle_bool g 0 then e * (1 - g) / (1 - g + M * (1 + g))
             else e * (1 + M2) * (1 - g) / ((1 + M) * (1 - g + M2 * (1 + g)))
  | _ => e / (1 - M)
  end.
Definition goodman_closed (M M2 a m : Q) (G : ExtQ) : Q := goodman_at M M2 (goodman_equiv M M2 a m) G.

Lemma Qdiv_gt1_neg l u : u < 0 -> l < u -> 1 < l / u.
Proof.
  intros Hu Hl. assert (E : l / u == (- l) / (- u)) by (field; lra).
  rewrite E. apply Qlt_shift_div_l; lra.
Qed.

(* the cycle state built from range = 2a and mean m, and its equivalent amplitude *)
Lemma cyc_of_range_mean_fkm M M2 a m :
  0 <= M2 -> 0 < a ->
  exists a' R, cyc_of_range_mean (2 * a) m = (a', R) /\ a' == a /\ cyc_okR R /\
               a * H_fkm M M2 R == goodman_equiv M M2 a m.
Proof.
  intros HM2 Ha. unfold cyc_of_range_mean.
  set (fr := m - 2 * a / 2). set (to := m + 2 * a / 2).
  assert (Efr : fr == m - a) by (unfold fr; field).
  assert (Eto : to == m + a) by (unfold to; field).
  assert (Hle : fr <= to) by lra.
  assert (Emin : Qmin fr to == m - a) by (rewrite (Q.min_l fr to Hle); exact Efr).
  assert (Emax : Qmax fr to == m + a) by (rewrite (Q.max_r fr to Hle); exact Eto).
  eexists. eexists. split; [reflexivity|]. split.
  { rewrite Qabs_neg by lra. rewrite Efr, Eto. field. }
  unfold R_of, goodman_equiv.
  destruct (Q_dec (m + a) 0) as [[L|L]|L].
  - (* m < -a : R > 1 *)
    rewrite (Qeq_bool_false (Qmax fr to) 0) by lra.
    set (r := Qmin fr to / Qmax fr to).
    assert (Er : r == (m - a) / (m + a)) by (unfold r; rewrite Emin, Emax; reflexivity).
    assert (Hr : 1 < r) by (rewrite Er; apply Qdiv_gt1_neg; lra).
    split; [cbn; lra|]. h_eval. repeat qb_step. ring.
  - (* -a < m : R < 1 *)
    rewrite (Qeq_bool_false (Qmax fr to) 0) by lra.
    set (r := Qmin fr to / Qmax fr to).
    assert (Er : r == (m - a) / (m + a)) by (unfold r; rewrite Emin, Emax; reflexivity).
    assert (Hr : r < 1) by (rewrite Er; apply Qlt_shift_div_r; lra).
    split; [cbn; lra|].
    rewrite (Qle_bool_false m (- a)) by lra.
    destruct (Qlt_le_dec a m) as [Lm|Lm].
    + assert (0 < r) by (rewrite Er; apply Qlt_shift_div_l; lra).
      h_eval. repeat qb_step. rewrite Er. field. repeat split; lra.
    + assert (r <= 0) by (rewrite Er; apply Qle_shift_div_r; lra).
      h_eval. repeat qb_step. rewrite Er. field. split; lra.
  - (* m = -a : R = -inf *)
    rewrite (Qeq_bool_true (Qmax fr to) 0) by lra.
    rewrite (Qltb_true (Qmin fr to) 0) by lra.
    split; [exact I|]. repeat qb_step. cbn. ring.
Qed.

Lemma goodman_at_H M M2 e G :
  0 <= M2 -> 0 <= M -> M < 1 -> cyc_okR G -> goodman_at M M2 e G == e / H_fkm M M2 G.
Proof.
  intros HM2 HM0 HM1 HG. destruct G as [|g|]; cbn in HG; [reflexivity| |contradiction].
  unfold goodman_at.
  destruct (Qlt_le_dec 1 g) as [G1|G1]; [h_eval; repeat qb_step; reflexivity|].
  assert (g < 1) by lra.
  destruct (Qlt_le_dec 0 g) as [G0|G0]; h_eval; repeat qb_step.
  - assert (0 < 1 - g + M2 * (1 + g)) by nra. field. repeat split; lra.
  - assert (0 < 1 - g + M * (1 + g)) by nra. field. repeat split; lra.
Qed.

(* amplitude returned by the plain function fkm_goodman(amplitude, meanstress, M, M2, R_goal) for one cycle *)
Definition fkm_amp (fx : bool) (M M2 : Q) (G : ExtQ) (a m : Q) : Q :=
  match transform fx (fkm_goodman_diagram M M2) G (cyc_of_range_mean (2 * a) m) with
  | Some (x, _) => x
  | None => 0
  end.

Theorem fkm_goodman_closed_form fx M M2 G a m :
  0 <= M2 -> 0 <= M -> M < 1 -> 0 < a -> goal_accepted G = true ->
  fkm_amp fx M M2 G a m == goodman_closed M M2 a m G.
Proof.
  intros HM2 HM0 HM1 Ha HG. unfold fkm_amp, transform. rewrite HG.
  destruct (cyc_of_range_mean_fkm M M2 a m HM2 Ha) as [a' [R [Ec [Ea [HR HE]]]]].
  rewrite Ec. unfold result_amp, goodman_closed.
  rewrite (goodman_at_H M M2 _ G HM2 HM0 HM1 (goal_accepted_ok G HG)), <- HE.
  rewrite (fkm_state_closed fx M M2 G a' R HM2 HM0 HM1 HG HR).
  pose proof (H_fkm_pos M M2 G HM2 HM0 HM1 (goal_accepted_ok G HG)) as Hp.
  pose proof (H_fkm_pos M M2 R HM2 HM0 HM1 HR) as HpR.
  rewrite Ea. rewrite Qabs_pos.
  - reflexivity.
  - apply Qlt_le_weak. apply Qlt_shift_div_l; [lra|]. nra.
Qed.

(* ------------------------------------------------------------------ monotone, Lipschitz: the closed form *)
Lemma goodman_equiv_mono M M2 a1 a2 m :
  0 <= M2 -> 0 <= M -> M < 1 -> 0 < a1 -> a1 < a2 ->
  goodman_equiv M M2 a1 m < goodman_equiv M M2 a2 m.
Proof.
  intros HM2 HM0 HM1 Ha1 Ha.
  set (k := (1 + M) / (1 + M2)).
  assert (Ek : k * (1 + M2) == 1 + M) by (unfold k; field; lra).
  assert (Hk : 0 < k) by (unfold k; apply Qlt_shift_div_l; lra).
  assert (E3 : forall a, (1 + M) * (a + M2 * m) / (1 + M2) == k * (a + M2 * m)) by (intro; unfold k; field; lra).
  unfold goodman_equiv.
  destruct (Qle_bool m (- a1)) eqn:B1; destruct (Qle_bool m (- a2)) eqn:B2;
  destruct (Qle_bool m a1) eqn:B3; destruct (Qle_bool m a2) eqn:B4; bh; try (exfalso; lra);
  rewrite ?E3; try nra.
Qed.

Lemma goodman_equiv_lipschitz_mean M M2 a m1 m2 :
  0 <= M2 -> M2 <= M -> M < 1 -> 0 < a -> m1 <= m2 ->
  0 <= goodman_equiv M M2 a m2 - goodman_equiv M M2 a m1 /\
  goodman_equiv M M2 a m2 - goodman_equiv M M2 a m1 <= m2 - m1.
Proof.
  intros HM2 HM0 HM1 Ha Hm.
  set (k := (1 + M) / (1 + M2)).
  assert (Ek : k * (1 + M2) == 1 + M) by (unfold k; field; lra).
  assert (Hk : 0 < k) by (unfold k; apply Qlt_shift_div_l; lra).
  assert (Hk2 : k * M2 <= M) by nra.
  assert (E3 : forall m, (1 + M) * (a + M2 * m) / (1 + M2) == k * (a + M2 * m)) by (intro; unfold k; field; lra).
  unfold goodman_equiv.
  destruct (Qle_bool m1 (- a)) eqn:B1; destruct (Qle_bool m2 (- a)) eqn:B2;
  destruct (Qle_bool m1 a) eqn:B3; destruct (Qle_bool m2 a) eqn:B4; bh; try (exfalso; lra);
  rewrite ?E3; split; try nra.
  all: assert (T3 : 0 <= k * (M2 * (m2 - m1))) by (apply Qmult_le_0_compat; [lra|apply Qmult_le_0_compat; lra]).
  all: assert (T1 : 0 <= k * (M2 * (m2 - a))) by (apply Qmult_le_0_compat; [lra|apply Qmult_le_0_compat; lra]).
  all: nra.
Qed.

Lemma goodman_at_linear M M2 e1 e2 G :
  0 <= M2 -> 0 <= M -> M < 1 -> cyc_okR G -> e1 < e2 -> goodman_at M M2 e1 G < goodman_at M M2 e2 G.
Proof.
  intros HM2 HM0 HM1 HG He. rewrite !goodman_at_H by assumption.
  pose proof (H_fkm_pos M M2 G HM2 HM0 HM1 HG) as Hp.
  apply Qlt_shift_div_l; [exact Hp|]. assert (E : e1 / H_fkm M M2 G * H_fkm M M2 G == e1) by (field; lra). lra.
Qed.

Theorem fkm_monotone_in_amplitude fx M M2 G a1 a2 m :
  0 <= M2 -> 0 <= M -> M < 1 -> 0 < a1 -> a1 < a2 -> goal_accepted G = true ->
  fkm_amp fx M M2 G a1 m < fkm_amp fx M M2 G a2 m.
Proof.
  intros HM2 HM0 HM1 Ha1 Ha HG.
  rewrite !fkm_goodman_closed_form by (assumption || lra).
  unfold goodman_closed. apply goodman_at_linear; try assumption; [apply goal_accepted_ok; exact HG|].
  apply goodman_equiv_mono; assumption.
Qed.

(* the hypotheses of the FKM-Goodman theorems are satisfiable: M = 1/2, M2 = 1/4, amplitude 1 at mean 2 (R = 1/3),
   target R = -1: (1 + M) (a + M2 m) / (1 + M2) = 9/5 *)
Example fkm_hypotheses_satisfiable :
  goal_accepted (Fin (-1)) = true /\ fkm_amp false (1#2) (1#4) (Fin (-1)) 1 2 == 9 # 5
  /\ goodman_closed (1#2) (1#4) 1 2 (Fin (-1)) == 9 # 5.
Proof. vm_compute. repeat split; reflexivity. Qed.
