(* C12 -- hand-written model of pylife/strength/meanstress.py (HaighDiagram.transform, _SegmentTransformer,
   HaighDiagram.fkm_goodman / five_segment, MeanstressTransformMatrix._rebin_results) over Q with an extended
   rational type for the stress ratio R (R = -inf / +inf occur).  The model mirrors the code literally, per cycle
   (the code is element-wise over the collective); it is tied to the code by the correspondence check of
   harness/props/c12.py (vm_compute on generated inputs).  No theorem in this file. *)
From Coq Require Import QArith Qabs Qminmax Bool List.
Import ListNotations.
Open Scope Q_scope.

(* ------------------------------------------------------------------ extended rationals *)
Inductive ExtQ := NegInf | Fin (q : Q) | PosInf.

Definition Qltb (a b : Q) : bool := negb (Qle_bool b a).

Definition eleb (x y : ExtQ) : bool :=            (* x <= y *)
  match x, y with
  | NegInf, _ => true
  | _, PosInf => true
  | Fin a, Fin b => Qle_bool a b
  | _, _ => false
  end.
Definition eltb (x y : ExtQ) : bool := negb (eleb y x).   (* x < y *)
Definition eeqb (x y : ExtQ) : bool := eleb x y && eleb y x.

(* ------------------------------------------------------------------ cycles *)
(* state of one row of _SegmentTransformer.transformed_cycles: (amplitude, R) *)
Definition Cyc := (Q * ExtQ)%type.

(* LoadCollective.R / LoadHistogram.R : (lower / upper).fillna(0.0) in IEEE arithmetic *)
Definition R_of (lower upper : Q) : ExtQ :=
  if Qeq_bool upper 0 then
    (if Qltb lower 0 then NegInf else if Qltb 0 lower then PosInf else Fin 0)
  else Fin (lower / upper).

(* DataFrame collective given as range/mean: LoadCollective._validate builds from/to,
   amplitude = |from - to| / 2, lower/upper = row-wise min/max *)
Definition cyc_of_range_mean (rng mean : Q) : Cyc :=
  let fr := mean - rng / 2 in
  let to := mean + rng / 2 in
  (Qabs (fr - to) / 2, R_of (Qmin fr to) (Qmax fr to)).

(* DataFrame collective given as from/to *)
Definition cyc_of_from_to (fr to : Q) : Cyc :=
  (Qabs (fr - to) / 2, R_of (Qmin fr to) (Qmax fr to)).

(* LoadHistogram (range/mean matrix, class mids): amplitude = range/2, lower = mean - amplitude, upper = mean + amplitude *)
Definition cyc_of_hist_range_mean (rng mean : Q) : Cyc :=
  let a := rng / 2 in (a, R_of (mean - a) (mean + a)).

(* LoadHistogram (from/to matrix, class mids): amplitude = |from - to|/2, mean = (from + to)/2 *)
Definition cyc_of_hist_from_to (fr to : Q) : Cyc :=
  let a := Qabs (fr - to) / 2 in
  let m := (fr + to) / 2 in (a, R_of (m - a) (m + a)).

(* ------------------------------------------------------------------ Haigh diagram *)
(* one interval (lo, hi] of the 'R' IntervalIndex with its mean stress sensitivity *)
Record Seg := mkSeg { lo : ExtQ; hi : ExtQ; slope : Q }.

(* HaighDiagram.fkm_goodman: interval order (1, inf), (-inf, 0), (0, 1); slopes 0, M, M2 *)
Definition fkm_goodman_diagram (M M2 : Q) : list Seg :=
  [ mkSeg (Fin 1) PosInf 0; mkSeg NegInf (Fin 0) M; mkSeg (Fin 0) (Fin 1) M2 ].
(* ... with the default  M2 = M / 3  when 'M2' is not given *)
Definition fkm_goodman_diagram_default (M : Q) : list Seg := fkm_goodman_diagram M (M / 3).

(* HaighDiagram.five_segment: (1, inf) M4, (-inf, 0) M0, (0, R12) M1, (R12, R23) M2, (R23, 1) M3 *)
Definition five_segment_diagram (M0 M1 M2 M3 M4 R12 R23 : Q) : list Seg :=
  [ mkSeg (Fin 1) PosInf M4; mkSeg NegInf (Fin 0) M0; mkSeg (Fin 0) (Fin R12) M1;
    mkSeg (Fin R12) (Fin R23) M2; mkSeg (Fin R23) (Fin 1) M3 ].

(* ------------------------------------------------------------------ _SegmentTransformer: ordering of the segments *)
(* fake_meanstress(R) = (1 + R) / (1 - R) *)
Definition fms (x : Q) : Q := (1 + x) / (1 - x).

(* fake_meanstress(interval.mid).fillna(-1.0): an infinite bound makes the mid infinite and the quotient NaN *)
Definition seg_fms (s : Seg) : Q :=
  match lo s, hi s with
  | Fin l, Fin h => fms ((l + h) / 2)
  | _, _ => -1
  end.

(* meanstress_goal = -1.0 if R_goal == -inf else fake_meanstress(R_goal);  R_goal = +inf (NaN) and R_goal = 1
   (division by zero) are rejected by [transform] below *)
Definition goal_fms (G : ExtQ) : Q :=
  match G with Fin g => fms g | _ => -1 end.

Definition dists (D : list Seg) (G : ExtQ) : list (Seg * Q) :=
  map (fun s => (s, seg_fms s - goal_fms G)) D.

(* Series.sort_values is stable here (numpy sorts arrays of <= 16 elements by insertion; descending order is
   obtained by pandas through reverse / stable sort / reverse): ties keep the order of the IntervalIndex *)
Fixpoint insert_by (before : Q -> Q -> bool) (x : Seg * Q) (l : list (Seg * Q)) : list (Seg * Q) :=
  match l with
  | [] => [x]
  | y :: t => if before (snd x) (snd y) then x :: l else y :: insert_by before x t
  end.
Definition sort_by (before : Q -> Q -> bool) (l : list (Seg * Q)) : list (Seg * Q) :=
  fold_right (insert_by before) [] l.

(* distances[distances < 0].sort_values(ascending=True) *)
Definition left_segs (D : list Seg) (G : ExtQ) : list Seg :=
  map fst (sort_by (fun a b => Qle_bool a b) (filter (fun p => Qltb (snd p) 0) (dists D G))).
(* distances[distances > 0].sort_values(ascending=False) *)
Definition right_segs (D : list Seg) (G : ExtQ) : list Seg :=
  map fst (sort_by (fun a b => Qle_bool b a) (filter (fun p => Qltb 0 (snd p)) (dists D G))).

(* segments_containing_R_goal: right-closed intervals first, left-closed ones if none contains the goal *)
Definition contains_rc (G : ExtQ) (s : Seg) : bool := eltb (lo s) G && eleb G (hi s).
Definition contains_lc (G : ExtQ) (s : Seg) : bool := eleb (lo s) G && eltb G (hi s).
Definition goal_mask (D : list Seg) (G : ExtQ) (s : Seg) : bool :=
  if existsb (contains_rc G) D then contains_rc G s else contains_lc G s.
(* fx = false: the code as it is.  fx = true: the repaired code (fixes/C12-five-segment-target-neg-inf.patch), which for
   R_goal = -inf also takes the segments containing +inf (R = -inf and R = +inf are the same point of the diagram):
   goal_segments | self._R_index.contains(np.inf) *)
Definition is_neginf (G : ExtQ) : bool := match G with NegInf => true | _ => false end.
Definition containing (fx : bool) (D : list Seg) (G : ExtQ) : list Seg :=
  filter (fun s => goal_mask D G s || (is_neginf G && fx && contains_rc PosInf s)) D.

(* HaighDiagram.transform: interval_boundary = interval.right if interval.right < 1.0 else interval.left *)
Definition left_boundary (s : Seg) : ExtQ := if eltb (hi s) (Fin 1) then hi s else lo s.

(* the sequence of (segment, local goal) pairs that HaighDiagram.transform walks through *)
Definition schedule (fx : bool) (D : list Seg) (G : ExtQ) : list (Seg * ExtQ) :=
  map (fun s => (s, left_boundary s)) (left_segs D G)
  ++ map (fun s => (s, lo s)) (right_segs D G)
  ++ map (fun s => (s, G)) (containing fx D G).

(* ------------------------------------------------------------------ transform_cycles_in_interval, one cycle *)
(* push_over_flipping_point (b = the local R_goal as passed in, before 1.0 is replaced by -inf) *)
Definition push (b R : ExtQ) : ExtQ :=
  match R with
  | NegInf => if eltb (Fin 1) b then PosInf else R
  | PosInf => if eltb b (Fin 1) then NegInf else R
  | Fin _ => R
  end.

(* R in pd.Interval(interval.left, interval.right, closed='both') *)
Definition in_test (s : Seg) (b R : ExtQ) : bool :=
  let R' := push b R in eleb (lo s) R' && eleb R' (hi s).

(* mean = amp * (1 + R) / (1 - R);  mean[R == -inf] = -amp;  mean[R == 1.0] = -amp *)
Definition mean_of (c : Cyc) : Q :=
  match snd c with
  | Fin r => if Qeq_bool r 1 then - fst c else fst c * (1 + r) / (1 - r)
  | _ => - fst c
  end.

(* transformed_amplitude (b' = local goal after 1.0 -> -inf) *)
Definition trans_amp (M : Q) (b' : ExtQ) (c : Cyc) : Q :=
  let a := fst c in
  let m := mean_of c in
  match b' with
  | NegInf => (a + M * m) / (1 - M)
  | Fin g => (1 - g) * (a + M * m) / (1 - g + M * (1 + g))
  | PosInf => 0      (* NaN.fillna(0.0); never scheduled for an accepted goal *)
  end.

Definition local_goal (b : ExtQ) : ExtQ := if eeqb b (Fin 1) then NegInf else b.

Definition step (c : Cyc) (sb : Seg * ExtQ) : Cyc :=
  let (s, b) := sb in
  if in_test s b (snd c) then (trans_amp (slope s) (local_goal b) c, local_goal b) else c.

(* all rows of transformed_cycles after the three loops of HaighDiagram.transform *)
Definition transform_state (fx : bool) (D : list Seg) (G : ExtQ) (c : Cyc) : Cyc :=
  fold_left step (schedule fx D G) c.

Definition goal_accepted (G : ExtQ) : bool :=
  match G with
  | PosInf => false                 (* distances are NaN: nothing is ordered, result is garbage *)
  | Fin g => negb (Qeq_bool g 1)    (* ZeroDivisionError in fake_meanstress *)
  | NegInf => true
  end.

(* result frame: range = 2 amp, mean = amp * ((1 + R)/(1 - R)).fillna(-1); read back through
   .load_collective: amplitude = |from - to| / 2, meanstress = (from + to) / 2 *)
Definition result_amp (c : Cyc) : Q := Qabs (fst c).
Definition result_mean (c : Cyc) : Q :=
  match snd c with
  | Fin r => fst c * ((1 + r) / (1 - r))
  | _ => fst c * -1
  end.

Definition transform (fx : bool) (D : list Seg) (G : ExtQ) (c : Cyc) : option (Q * Q) :=
  if goal_accepted G then
    let c' := transform_state fx D G c in Some (result_amp c', result_mean c')
  else None.

(* ------------------------------------------------------------------ listing order of the segments (HaighDiagram.from_dict) *)
(* The walk above depends on the order in which the segments are LISTED in the 'R' index: (1, inf) and (-inf, 0) always
   have the same distance from the goal (both map to the fake mean stress -1) and the stable sort keeps ties in listing
   order.  fo = false: the code as it is.  fo = true: the code with fixes/C12-segment-listing-order.patch, whose
   segments_left_from_R_goal puts the segments beyond R = 1 (interval.left >= 1.0) in front before the stable sort. *)
Definition beyond_one (s : Seg) : bool := eleb (Fin 1) (lo s).
Definition beyond_first (D : list Seg) : list Seg :=
  filter beyond_one D ++ filter (fun s => negb (beyond_one s)) D.

Definition schedule_ord (fo fx : bool) (D : list Seg) (G : ExtQ) : list (Seg * ExtQ) :=
  map (fun s => (s, left_boundary s)) (left_segs (if fo then beyond_first D else D) G)
  ++ map (fun s => (s, lo s)) (right_segs D G)
  ++ map (fun s => (s, G)) (containing fx D G).

Definition transform_state_ord (fo fx : bool) (D : list Seg) (G : ExtQ) (c : Cyc) : Cyc :=
  fold_left step (schedule_ord fo fx D G) c.

Definition transform_ord (fo fx : bool) (D : list Seg) (G : ExtQ) (c : Cyc) : option (Q * Q) :=
  if goal_accepted G then
    let c' := transform_state_ord fo fx D G c in Some (result_amp c', result_mean c')
  else None.

(* ------------------------------------------------------------------ MeanstressTransformMatrix._rebin_results *)
(* breaks = np.linspace(0, ranges_max, bincount + 1) are supplied by the harness (they depend on ceil and hypot of
   floats); the model is the aggregation: interval k = (b_k, b_{k+1}], closed on the left iff b_k == 0 *)
Definition in_bin (l r x : Q) : bool :=
  (if Qeq_bool l 0 then Qle_bool l x else Qltb l x) && Qle_bool x r.

Fixpoint bin_sum (l r : Q) (ranges cycles : list Q) : Q :=
  match ranges, cycles with
  | x :: xs, c :: cs => (if in_bin l r x then c else 0) + bin_sum l r xs cs
  | _, _ => 0
  end.

Fixpoint rebin (breaks : list Q) (ranges cycles : list Q) : list Q :=
  match breaks with
  | l :: ((r :: _) as t) => bin_sum l r ranges cycles :: rebin t ranges cycles
  | _ => []
  end.

Fixpoint qsum (l : list Q) : Q := match l with [] => 0 | x :: t => x + qsum t end.

(* ------------------------------------------------------------------ comparison helpers of the correspondence check *)
Definition close (tol scale x y : Q) : bool := Qle_bool (Qabs (x - y)) (tol * Qmax 1 scale).

Definition obs_close (tol scale : Q) (o : option (Q * Q)) (amp mean : Q) : bool :=
  match o with
  | Some (a, m) => close tol scale a amp && close tol scale m mean
  | None => false
  end.
Definition obs_amp_close (tol scale : Q) (o : option (Q * Q)) (amp : Q) : bool :=
  match o with Some (a, _) => close tol scale a amp | None => false end.

Fixpoint all_close (tol scale : Q) (xs ys : list Q) : bool :=
  match xs, ys with
  | [], [] => true
  | x :: xt, y :: yt => close tol scale x y && all_close tol scale xt yt
  | _, _ => false
  end.
