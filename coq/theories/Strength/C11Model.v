(* C11 -- Miner damage / Gassner lifetime: the model.

   Hand-written element-wise model of
     src/pylife/materiallaws/woehlercurve.py  WoehlerCurve.{_make_k, basquin_cycles, miner_original,
                                              miner_elementary, miner_haibach}   (failure probability 50 %)
     src/pylife/strength/fatigue.py           Fatigue.damage
     src/pylife/strength/solidity.py          haibach, fkm
     src/pylife/strength/miner.py             MinerElementary.{lifetime_multiple, gassner},
                                              MinerHaibach.lifetime_multiple, MinerBase.gassner_cycles,
                                              MinerBase.effective_damage_sum / effective_damage_sum
     src/pylife/stress/collective/load_histogram.py   amplitude of a class (mid / left / right)
   A collective is a list of (amplitude, cycles); `None` stands for numpy's +inf (cycle numbers).
   The model is tied to the implementation on every run by interval certificates (harness/props/c11.py). *)
From Coq Require Import Reals Lra List.
From PL Require Import Common.RPrelude.
Import ListNotations.
Open Scope R_scope.

Record curve := mkCurve { k1 : R; k2 : option R; ND : R; SD : R }.   (* k2 = None: numpy inf (the default) *)
Definition coll := list (R * R).                                      (* (amplitude, cycles) *)

(* WoehlerCurve.miner_original / miner_elementary / miner_haibach *)
Definition miner_original (c : curve) := mkCurve (k1 c) None (ND c) (SD c).
Definition miner_elementary (c : curve) := mkCurve (k1 c) (Some (k1 c)) (ND c) (SD c).
Definition miner_haibach (c : curve) := mkCurve (k1 c) (Some (2 * k1 c - 1)) (ND c) (SD c).

(* WoehlerCurve._make_k (src < ref picks k_2) *)
Definition make_k (c : curve) (S : R) : option R := if Rlt_dec S (SD c) then k2 c else Some (k1 c).

(* WoehlerCurve.basquin_cycles at the native failure probability: inf where k is inf; numpy's 0**(-k) = inf *)
Definition cycles (c : curve) (S : R) : option R :=
  match make_k c S with
  | None => None
  | Some k => if Rle_dec S 0 then None else Some (ND c * npow (S / SD c) (- k))
  end.

(* Fatigue.damage, one member: n / N, n / inf = 0 *)
Definition damage1 (c : curve) (p : R * R) : R :=
  match cycles c (fst p) with None => 0 | Some N => snd p / N end.
Definition damage (c : curve) (l : coll) : list R := map (damage1 c) l.

Fixpoint Rsum (l : list R) : R := match l with [] => 0 | x :: t => x + Rsum t end.
Definition damage_sum (c : curve) (l : coll) : R := Rsum (damage c l).

Definition total (l : coll) : R := Rsum (map snd l).
(* amplitudes are |from - to| / 2 >= 0, so the maximum over a non-empty collective is the fold from 0 *)
Definition max_amp (l : coll) : R := fold_right (fun p acc => Rmax (fst p) acc) 0 l.
(* S[hi > 0].max(): the largest OCCUPIED amplitude *)
Definition max_occ (l : coll) : R :=
  fold_right (fun p acc => Rmax (if Rlt_dec 0 (snd p) then fst p else 0) acc) 0 l.

(* solidity.haibach / solidity.fkm *)
Definition solidity_haibach (l : coll) (k : R) : R :=
  Rsum (map (fun p => snd p * npow (fst p / max_occ l) k / total l) l).
Definition solidity_fkm (l : coll) (k : R) : R := npow (solidity_haibach l k) (1 / k).

(* MinerElementary.lifetime_multiple *)
Definition lm_elementary (c : curve) (l : coll) : R := 1 / solidity_haibach l (k1 c).

(* MinerHaibach.lifetime_multiple.  The source compares the normalised values s_a/max < SD/max; over the reals
   (max > 0) this is s_a < SD (lemma norm_lt_iff in C11.v), which is what the model tests. *)
Definition haibach_sum1 (c : curve) (l : coll) : R :=
  let m := max_amp l in
  Rsum (map (fun p => if Rlt_dec (fst p) (SD c) then 0 else snd p * npow (fst p / m) (k1 c)) l).
Definition haibach_sum2 (c : curve) (l : coll) : R :=
  let m := max_amp l in
  Rsum (map (fun p => if Rlt_dec (fst p) (SD c) then snd p * npow (fst p / m) (2 * k1 c - 1) else 0) l).
Definition lm_haibach (c : curve) (l : coll) : R :=
  total l / (haibach_sum1 c l + npow (SD c / max_amp l) (1 - k1 c) * haibach_sum2 c l).

(* MinerBase.gassner_cycles: cycles(collective.amplitude.max()) * lifetime_multiple -- the maximum over ALL classes *)
Definition gassner_cycles (lm : curve -> coll -> R) (c : curve) (l : coll) : option R :=
  match cycles c (max_amp l) with None => None | Some N => Some (N * lm c l) end.
(* the repaired elementary variant (fixes/C11-...patch): evaluated at the largest OCCUPIED amplitude *)
Definition gassner_cycles_occ (lm : curve -> coll -> R) (c : curve) (l : coll) : option R :=
  match cycles c (max_occ l) with None => None | Some N => Some (N * lm c l) end.

(* MinerBase.gassner_cycles for a curve with scatter whose NATIVE failure probability is not 50 %: `self.cycles(...)` reads the curve
   transformed to 50 % (c50: SD, ND as WoehlerCurve.transform_to_failure_probability(0.5) reports them), whereas
   `self.lifetime_multiple` reads `self.SD` / `self.k_1` of the native curve (cn).  With cn = c50 this is gassner_cycles. *)
Definition gassner_cycles_split (lm : curve -> coll -> R) (c50 cn : curve) (l : coll) : option R :=
  match cycles c50 (max_amp l) with None => None | Some N => Some (N * lm cn l) end.

(* MinerElementary.gassner: the Woehler curve shifted by the lifetime multiple *)
Definition gassner_curve (c : curve) (l : coll) : curve :=
  mkCurve (k1 c) (k2 c) (ND c * lm_elementary c l) (SD c).

(* effective_damage_sum *)
Definition eds (A : R) : R := Rmin (Rmax (3 / 10) (2 / npow A (1 / 4))) 1.

(* applying the collective for N cycles in total *)
Definition scale_cycles (f : R) (l : coll) : coll := map (fun p => (fst p, f * snd p)) l.
Definition scale_amps (f : R) (l : coll) : coll := map (fun p => (f * fst p, snd p)) l.
Definition apply_for (N : R) (l : coll) : coll := scale_cycles (N / total l) l.

(* load_histogram.py: class value of an interval, amplitude of a range class / of a from-to class *)
Inductive loc := LMid | LLeft | LRight.
Definition class_value (w : loc) (iv : R * R) : R :=
  match w with LMid => (fst iv + snd iv) / 2 | LLeft => fst iv | LRight => snd iv end.
Definition range_amplitude (w : loc) (iv : R * R) : R := class_value w iv / 2.
Definition fromto_amplitude (w : loc) (fr to : R * R) : R := Rabs (class_value w fr - class_value w to) / 2.
Definition hist_coll (w : loc) (h : list ((R * R) * R)) : coll :=
  map (fun e => (range_amplitude w (fst e), snd e)) h.

(* option R with a sentinel for the certificates (inf is reported as the sentinel) *)
Definition or_else (o : option R) (d : R) : R := match o with None => d | Some x => x end.
