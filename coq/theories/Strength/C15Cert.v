(* Certificate tactic for goals that contain several Gaussian integrals (pf_arbitrary_load on a short grid):
   every  RInt f 0 z  is enclosed by CoqInterval's integral_intro and abstracted; `interval` closes the rest. *)
From Coq Require Import Reals.
From Coquelicot Require Import Coquelicot.
From Interval Require Import Tactic.
Open Scope R_scope.

Ltac enclose_integrals :=
  repeat match goal with |- context [RInt ?f 0 ?z] =>
    let H := fresh "H" in let P := fresh "P" in
    integral_intro (RInt f 0 z) with (i_prec 70, i_fuel 2000, i_degree 12, i_relwidth 45) as H;
    set (P := RInt f 0 z) in *; clearbody P end.
