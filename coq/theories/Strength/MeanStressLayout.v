(* C12 -- index layout of the inputs does not matter (model level).
   1. Matrix interface: the re-binned result depends only on the multiset of the NON-EMPTY rows (transformed range, cycles) of
      the matrix: neither the order in which the rows are listed nor whether empty cells are listed at all (a sparse matrix,
      mat[mat > 0]) changes any result class.  This is what the harness relation "booked bin by bin as the plain function says,
      rows taken by label" (W_BOOK) relies on for reordered and for sparse matrices.
   2. Collective interface with one parameter set per element: every row is transformed with the diagram its element id looks
      up in the frame of parameter sets; the result does not depend on the order in which the frame lists its (distinct) ids,
      and equals the single-diagram transformation with that element's diagram. *)
From Coq Require Import QArith Bool List Lqa ZArith Permutation.
From PL Require Import Strength.MeanStress.
Import ListNotations.
Open Scope Q_scope.

(* ------------------------------------------------------------------ 1. rows of a matrix *)
Definition Row : Type := (Q * Q)%type.      (* transformed range, cycles *)

Definition rebin_rows (breaks : list Q) (rows : list Row) : list Q :=
  rebin breaks (map fst rows) (map snd rows).

Definition bin_rows (l r : Q) (rows : list Row) : Q := bin_sum l r (map fst rows) (map snd rows).

Definition nonempty (rc : Row) : bool := negb (Qeq_bool (snd rc) 0).
Definition listed_nonempty (rows : list Row) : list Row := filter nonempty rows.

Lemma bin_rows_cons l r x c rows :
  bin_rows l r ((x, c) :: rows) = (if in_bin l r x then c else 0) + bin_rows l r rows.
Proof. reflexivity. Qed.

Lemma bin_rows_perm l r rows rows' : Permutation rows rows' -> bin_rows l r rows == bin_rows l r rows'.
Proof.
  induction 1 as [|[x c] a b _ IH|[x c] [y d] a|a b c _ IH1 _ IH2].
  - reflexivity.
  - rewrite !bin_rows_cons, IH. reflexivity.
  - rewrite !bin_rows_cons. ring.
  - rewrite IH1. exact IH2.
Qed.

Lemma bin_rows_nonempty l r rows : bin_rows l r (listed_nonempty rows) == bin_rows l r rows.
Proof.
  induction rows as [|[x c] t IH]; [reflexivity|].
  unfold listed_nonempty in *. cbn [filter]. unfold nonempty at 1. cbn [snd].
  destruct (Qeq_bool c 0) eqn:E; cbn [negb].
  - apply Qeq_bool_eq in E. rewrite bin_rows_cons, IH. destruct (in_bin l r x); lra.
  - rewrite !bin_rows_cons, IH. reflexivity.
Qed.

Lemma rebin_rows_cons2 l r t rows :
  rebin_rows (l :: r :: t) rows = bin_rows l r rows :: rebin_rows (r :: t) rows.
Proof. reflexivity. Qed.

Lemma rebin_rows_ext breaks rows rows' :
  (forall l r, bin_rows l r rows == bin_rows l r rows') ->
  Forall2 Qeq (rebin_rows breaks rows) (rebin_rows breaks rows').
Proof.
  intro H. induction breaks as [|l t IH]; [constructor|].
  destruct t as [|r t']; [constructor|].
  rewrite !rebin_rows_cons2. constructor; [apply H|exact IH].
Qed.

(* the result classes depend only on the multiset of the non-empty rows *)
Theorem rebin_rows_layout breaks rows rows' :
  Permutation (listed_nonempty rows) (listed_nonempty rows') ->
  Forall2 Qeq (rebin_rows breaks rows) (rebin_rows breaks rows').
Proof.
  intro P. apply rebin_rows_ext. intros l r.
  rewrite <- (bin_rows_nonempty l r rows), <- (bin_rows_nonempty l r rows').
  apply bin_rows_perm, P.
Qed.

Corollary rebin_rows_perm breaks rows rows' :
  Permutation rows rows' -> Forall2 Qeq (rebin_rows breaks rows) (rebin_rows breaks rows').
Proof.
  intro P. apply rebin_rows_ext. intros l r. apply bin_rows_perm, P.
Qed.

Corollary rebin_rows_sparse breaks rows :
  Forall2 Qeq (rebin_rows breaks (listed_nonempty rows)) (rebin_rows breaks rows).
Proof. apply rebin_rows_ext. intros l r. apply bin_rows_nonempty. Qed.

(* instance: the 3 x 3 from/to matrix of corpus/C12/layouts.json (ranges for M = 3/10, M2 = 1/10, R_goal = -1), the sparse
   listing pairs by label what the full listing pairs *)
Example rebin_rows_sparse_example :
  let full := [(0, 0); (7 # 5, 2); (4, 1); (7 # 5, 3); (0, 0); (13 # 5, 5); (4, 4); (13 # 5, 7); (0, 0)] in
  rebin_rows [0; 2; 4] (listed_nonempty full) = rebin_rows [0; 2; 4] full /\
  rebin_rows [0; 2; 4] full = [5; 17].
Proof. vm_compute. split; reflexivity. Qed.

(* ------------------------------------------------------------------ 2. one parameter set per element *)
Fixpoint lookup {A : Type} (i : Z) (ps : list (Z * A)) : option A :=
  match ps with
  | [] => None
  | (j, a) :: t => if Z.eqb i j then Some a else lookup i t
  end.

(* df.meanstress_transform.<diagram>(frame of parameter sets, R_goal): rows = (element id, cycle) *)
Definition transform_frame (fo fx : bool) (ps : list (Z * list Seg)) (G : ExtQ) (rows : list (Z * Cyc))
  : list (option (Q * Q)) :=
  map (fun row => match lookup (fst row) ps with
                  | Some D => transform_ord fo fx D G (snd row)
                  | None => None
                  end) rows.

Lemma lookup_in {A : Type} (i : Z) (a : A) ps :
  NoDup (map fst ps) -> In (i, a) ps -> lookup i ps = Some a.
Proof.
  induction ps as [|[j b] t IH]; intros ND Hin; [contradiction|].
  cbn [map fst] in ND. inversion ND as [|? ? Hnot ND']; subst.
  cbn [lookup]. destruct Hin as [E|Hin].
  - inversion E; subst. rewrite Z.eqb_refl. reflexivity.
  - destruct (Z.eqb i j) eqn:E.
    + apply Z.eqb_eq in E. subst j. exfalso. apply Hnot.
      change i with (fst (i, a)). apply in_map, Hin.
    + apply IH; assumption.
Qed.

Lemma lookup_none {A : Type} (i : Z) (ps : list (Z * A)) : ~ In i (map fst ps) -> lookup i ps = None.
Proof.
  induction ps as [|[j b] t IH]; intro H; [reflexivity|].
  cbn [lookup]. destruct (Z.eqb i j) eqn:E.
  - apply Z.eqb_eq in E. subst j. exfalso. apply H. left. reflexivity.
  - apply IH. intro Hin. apply H. right. exact Hin.
Qed.

Lemma lookup_perm {A : Type} (i : Z) (ps ps' : list (Z * A)) :
  NoDup (map fst ps) -> Permutation ps ps' -> lookup i ps = lookup i ps'.
Proof.
  intros ND P.
  assert (ND' : NoDup (map fst ps')) by (eapply Permutation_NoDup; [apply Permutation_map, P|exact ND]).
  destruct (lookup i ps) as [a|] eqn:E.
  - assert (Hin : In (i, a) ps).
    { clear -E. induction ps as [|[j b] t IH]; [discriminate|].
      cbn [lookup] in E. destruct (Z.eqb i j) eqn:Eij.
      - apply Z.eqb_eq in Eij. subst j. inversion E; subst. left. reflexivity.
      - right. apply IH, E. }
    symmetry. apply lookup_in; [exact ND'|]. eapply Permutation_in; [exact P|exact Hin].
  - symmetry. apply lookup_none. intro Hin.
    assert (Hin0 : In i (map fst ps)).
    { eapply Permutation_in; [apply Permutation_sym, Permutation_map, P|exact Hin]. }
    apply in_map_iff in Hin0. destruct Hin0 as [[j a] [Ej Hin0]]. cbn in Ej. subst j.
    rewrite (lookup_in i a ps ND Hin0) in E. discriminate.
Qed.

(* the order in which the frame of parameter sets lists its (distinct) element ids does not matter *)
Theorem transform_frame_index_order fo fx ps ps' G rows :
  NoDup (map fst ps) -> Permutation ps ps' ->
  transform_frame fo fx ps G rows = transform_frame fo fx ps' G rows.
Proof.
  intros ND P. unfold transform_frame. apply map_ext. intro row.
  rewrite (lookup_perm (fst row) ps ps' ND P). reflexivity.
Qed.

(* every row is transformed with the diagram of ITS element: the per-element result is the single-diagram result *)
Theorem transform_frame_per_element fo fx ps G rows i D c :
  NoDup (map fst ps) -> In (i, D) ps -> In (i, c) rows ->
  In (transform_ord fo fx D G c) (transform_frame fo fx ps G rows).
Proof.
  intros ND Hp Hr. unfold transform_frame. apply in_map_iff. exists (i, c). split; [|exact Hr].
  cbn [fst snd]. rewrite (lookup_in i D ps ND Hp). reflexivity.
Qed.

Theorem transform_frame_nth fo fx ps G rows k i D c :
  NoDup (map fst ps) -> In (i, D) ps -> nth_error rows k = Some (i, c) ->
  nth_error (transform_frame fo fx ps G rows) k = Some (transform_ord fo fx D G c).
Proof.
  intros ND Hp Hk. unfold transform_frame. rewrite nth_error_map, Hk. cbn [option_map fst snd].
  rewrite (lookup_in i D ps ND Hp). reflexivity.
Qed.
