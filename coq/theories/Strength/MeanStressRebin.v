(* C12 -- MeanstressTransformMatrix._rebin_results conserves the number of cycles: every transformed range in
   [0, max] falls into exactly one of the result intervals (first one closed at 0, last edge = max). *)
From Coq Require Import QArith Qabs Bool List Lqa Lia.
From PL Require Import Strength.MeanStress Strength.MeanStressInv.
Import ListNotations.
Open Scope Q_scope.

Fixpoint increasing (l : list Q) : Prop :=
  match l with
  | a :: ((b :: _) as t) => a < b /\ increasing t
  | _ => True
  end.

(* how often one range x (with count c) is counted by the result intervals *)
Fixpoint hits (breaks : list Q) (x c : Q) : Q :=
  match breaks with
  | l :: ((r :: _) as t) => (if in_bin l r x then c else 0) + hits t x c
  | _ => 0
  end.

Lemma rebin_cons breaks x xs c cs :
  qsum (rebin breaks (x :: xs) (c :: cs)) == hits breaks x c + qsum (rebin breaks xs cs).
Proof.
  induction breaks as [|l t IH]; [cbn; ring|].
  destruct t as [|r t']; [cbn; ring|].
  change (rebin (l :: r :: t') (x :: xs) (c :: cs))
    with (bin_sum l r (x :: xs) (c :: cs) :: rebin (r :: t') (x :: xs) (c :: cs)).
  change (rebin (l :: r :: t') xs cs) with (bin_sum l r xs cs :: rebin (r :: t') xs cs).
  change (hits (l :: r :: t') x c) with ((if in_bin l r x then c else 0) + hits (r :: t') x c).
  cbn [qsum bin_sum]. rewrite IH. ring.
Qed.

Lemma rebin_nil_l breaks cs : qsum (rebin breaks [] cs) == 0.
Proof.
  induction breaks as [|l t IH]; [reflexivity|]. destruct t as [|r t']; [reflexivity|].
  change (rebin (l :: r :: t') [] cs) with (bin_sum l r [] cs :: rebin (r :: t') [] cs).
  cbn [qsum bin_sum]. rewrite IH. ring.
Qed.

(* a range left of the first edge (or on it, when that edge is not 0) is in no interval *)
Lemma hits_left breaks : forall l x c,
  increasing (l :: breaks) -> (x < l \/ (x == l /\ ~ l == 0)) -> hits (l :: breaks) x c == 0.
Proof.
  induction breaks as [|r t IH]; intros l x c Hinc Hx; [reflexivity|].
  change (hits (l :: r :: t) x c) with ((if in_bin l r x then c else 0) + hits (r :: t) x c).
  destruct Hinc as [Hlr Hinc].
  rewrite (IH r x c Hinc) by (left; destruct Hx as [Hx|[Hx _]]; lra).
  assert (E : in_bin l r x = false).
  { unfold in_bin. destruct (Qeq_bool l 0) eqn:E0.
    - apply Qeq_bool_eq in E0. destruct Hx as [Hx|[_ Hx]]; [|contradiction].
      rewrite (Qle_bool_false l x) by lra. reflexivity.
    - rewrite (Qltb_false l x) by (destruct Hx as [Hx|[Hx _]]; lra). reflexivity. }
  rewrite E. ring.
Qed.

Lemma last_default (l : list Q) d d' : l <> [] -> last l d = last l d'.
Proof.
  induction l as [|a t IH]; [contradiction|]. intros _. destruct t as [|b t']; [reflexivity|].
  change (last (a :: b :: t') d) with (last (b :: t') d). change (last (a :: b :: t') d') with (last (b :: t') d').
  apply IH. discriminate.
Qed.

Definition left_test (l x : Q) : Prop := if Qeq_bool l 0 then l <= x else l < x.

(* a range between the first edge and the last edge is in exactly one interval *)
Lemma hits_inside breaks : forall l x c,
  breaks <> [] -> increasing (l :: breaks) -> 0 <= l -> left_test l x -> x <= last breaks l ->
  hits (l :: breaks) x c == c.
Proof.
  induction breaks as [|r t IH]; intros l x c Hne Hinc Hl Hlt Hlast; [contradiction|].
  change (hits (l :: r :: t) x c) with ((if in_bin l r x then c else 0) + hits (r :: t) x c).
  destruct Hinc as [Hlr Hinc].
  destruct (Qlt_le_dec r x) as [Hx|Hx].
  - (* right of this interval *)
    assert (E : in_bin l r x = false).
    { unfold in_bin. rewrite (Qle_bool_false x r Hx). apply andb_false_r. }
    rewrite E.
    assert (Ht : t <> []).
    { intro Et. subst t. cbn in Hlast. lra. }
    rewrite (IH r x c Ht Hinc).
    + ring.
    + lra.
    + unfold left_test. rewrite (Qeq_bool_false r 0) by lra. exact Hx.
    + destruct t as [|r' t']; [contradiction|]. change (last (r :: r' :: t') l) with (last (r' :: t') l) in Hlast.
      rewrite (last_default (r' :: t') r l Ht). exact Hlast.
  - (* in this interval *)
    assert (E : in_bin l r x = true).
    { unfold in_bin. rewrite (Qle_bool_true x r Hx), andb_true_r. unfold left_test in Hlt.
      destruct (Qeq_bool l 0); [apply Qle_bool_true|apply Qltb_true]; exact Hlt. }
    rewrite E, (hits_left t r x c Hinc).
    + ring.
    + destruct (Qlt_le_dec x r) as [L|L]; [left; exact L|right; split; lra].
Qed.

Theorem rebin_conserves_cycles b0 breaks : forall ranges cycles,
  breaks <> [] -> increasing (b0 :: breaks) -> b0 == 0 ->
  length ranges = length cycles ->
  Forall (fun x => 0 <= x /\ x <= last breaks b0) ranges ->
  qsum (rebin (b0 :: breaks) ranges cycles) == qsum cycles.
Proof.
  intros ranges cycles Hne Hinc H0. revert cycles.
  induction ranges as [|x xs IH]; intros cycles Hlen Hall.
  - destruct cycles; [|discriminate]. rewrite rebin_nil_l. reflexivity.
  - destruct cycles as [|c cs]; [discriminate|].
    inversion Hall as [|? ? [Hx0 Hx1] Hall']; subst.
    rewrite rebin_cons, (IH cs) by (auto; cbn in Hlen; lia).
    rewrite (hits_inside breaks b0 x c Hne Hinc).
    + cbn [qsum]. ring.
    + lra.
    + unfold left_test. rewrite (Qeq_bool_true b0 0 H0). lra.
    + exact Hx1.
Qed.

(* the hypotheses are satisfiable and the statement is not vacuous *)
Example rebin_example : map Qred (rebin [0; 1; 2] [0; 1; 3 # 2; 2] [5; 7; 11; 13]) = [12; 24].
Proof. vm_compute. reflexivity. Qed.
