(* Tactics for the per-run interval certificates of C11: evaluate the list model on a concrete collective,
   resolve every decision (class occupied?, below the knee?, maxima, clipping) -- by lra where both sides are
   rational literals, by c11_itv arithmetic otherwise -- and leave a closed real expression for `interval`. *)
From Coq Require Import Reals Lra List.
From Interval Require Import Tactic.
From PL Require Import Common.RPrelude Common.Cert Strength.C11Model.
Open Scope R_scope.

Lemma npow_zero_base x y : x = 0 -> y < 0 \/ 0 < y -> npow x y = 0.
Proof. intros -> H. apply npow_0. lra. Qed.

(* layer 1: the functions of a collective, keeping max_amp / max_occ / total folded *)
Ltac c11_unfold1 :=
  cbv beta iota zeta delta
      [miner_original miner_elementary miner_haibach damage damage_sum
       solidity_haibach solidity_fkm lm_elementary haibach_sum1 haibach_sum2 lm_haibach
       gassner_cycles gassner_cycles_occ gassner_cycles_split gassner_curve scale_cycles scale_amps apply_for hist_coll or_else
       k1 k2 ND SD].
(* layer 2: everything *)
Ltac c11_unfold2 :=
  cbv beta iota zeta delta
      [make_k cycles damage1 Rsum total max_amp max_occ eds class_value range_amplitude fromto_amplitude or_else
       k1 k2 ND SD map fold_right fst snd].

Ltac c11_dec_lra :=
  match goal with
  | |- context [if Rlt_dec ?a ?b then ?x else ?y] =>
      first [rewrite (if_Rlt_true a b _ x y) by lra | rewrite (if_Rlt_false a b _ x y) by lra]
  | |- context [if Rle_dec ?a ?b then ?x else ?y] =>
      first [rewrite (if_Rle_true a b _ x y) by lra | rewrite (if_Rle_false a b _ x y) by lra]
  | |- context [Rmax ?a ?b] =>
      lazymatch b with context [Rmax _ _] => fail | _ => idtac end;
      lazymatch a with context [Rlt_dec _ _] => fail | _ => idtac end;
      first [rewrite (Rmax_right a b) by lra | rewrite (Rmax_left a b) by lra]
  end.

(* evaluate max_amp l / max_occ l of a literal collective to the literal member that attains it *)
Ltac c11_eval_max f l :=
  let E := fresh "E" in
  eassert (E : f l = _);
  [ cbv beta iota zeta delta [max_amp max_occ fold_right fst snd]; repeat (c11_dec_lra; cbv beta iota); reflexivity
  | rewrite E; clear E ].

Ltac c11_maxima :=
  repeat match goal with
         | |- context [max_occ ?l] => c11_eval_max max_occ l
         | |- context [max_amp ?l] => c11_eval_max max_amp l
         end.

Ltac c11_itv := unfold Rpower; interval with (i_prec 80).

Ltac c11_step :=
  match goal with
  | |- context [if Rlt_dec ?a ?b then ?x else ?y] =>
      first [rewrite (if_Rlt_true a b _ x y) by lra | rewrite (if_Rlt_false a b _ x y) by lra
            | rewrite (if_Rlt_true a b _ x y) by c11_itv | rewrite (if_Rlt_false a b _ x y) by c11_itv]
  | |- context [if Rle_dec ?a ?b then ?x else ?y] =>
      first [rewrite (if_Rle_true a b _ x y) by lra | rewrite (if_Rle_false a b _ x y) by lra
            | rewrite (if_Rle_true a b _ x y) by c11_itv | rewrite (if_Rle_false a b _ x y) by c11_itv]
  | |- context [npow ?x ?y] =>
      first [rewrite (npow_pos x y) by lra
            | rewrite (npow_zero_base x y) by lra
            | rewrite (npow_pos x y) by c11_itv]
  | |- context [Rmax ?a ?b] =>
      first [rewrite (Rmax_right a b) by lra | rewrite (Rmax_left a b) by lra
            | rewrite (Rmax_right a b) by c11_itv | rewrite (Rmax_left a b) by c11_itv]
  | |- context [Rmin ?a ?b] =>
      first [rewrite (Rmin_right a b) by lra | rewrite (Rmin_left a b) by lra
            | rewrite (Rmin_right a b) by c11_itv | rewrite (Rmin_left a b) by c11_itv]
  end.

Ltac c11_prep := c11_unfold1; c11_maxima; c11_unfold2; repeat (c11_step; cbv beta iota).
