(* C12 -- the listing order of the segments of a Haigh diagram (HaighDiagram.from_dict).
   The segment walk sorts the segments by their distance from the goal with a STABLE sort; (1, inf) and (-inf, 0) always tie
   (both map to the fake mean stress -1), so their processing order is the order in which the diagram lists them.  The
   constructors fkm_goodman / five_segment list (1, inf) first; a diagram that lists (-inf, 0) first (e.g. the natural order
   (-inf, 0), (0, 1), (1, inf)) parks the cycles from beyond R = 1 at R = -inf AFTER (-inf, 0) has been walked, and for a goal
   in (0, 1) nothing picks them up again.  fo = true models fixes/C12-segment-listing-order.patch. *)
From Coq Require Import QArith Qabs Bool List Lqa.
From PL Require Import Strength.MeanStress Strength.MeanStressInv Strength.MeanStressGoodman Strength.MeanStressFive.
Import ListNotations.
Open Scope Q_scope.

(* the FKM-Goodman diagram listed in the natural order of R, and the third listing that the gap check accepts *)
Definition fkm_natural (M M2 : Q) : list Seg :=
  [ mkSeg NegInf (Fin 0) M; mkSeg (Fin 0) (Fin 1) M2; mkSeg (Fin 1) PosInf 0 ].
Definition fkm_rotated (M M2 : Q) : list Seg :=
  [ mkSeg (Fin 0) (Fin 1) M2; mkSeg (Fin 1) PosInf 0; mkSeg NegInf (Fin 0) M ].

(* ------------------------------------------------------------------ fo = false is the code as it is *)
Lemma transform_state_ord_as_is fx D G c : transform_state_ord false fx D G c = transform_state fx D G c.
Proof. reflexivity. Qed.

(* ------------------------------------------------------------------ the repair does not change the constructors' diagrams *)
Lemma beyond_first_fkm M M2 : beyond_first (fkm_goodman_diagram M M2) = fkm_goodman_diagram M M2.
Proof. reflexivity. Qed.

Lemma beyond_first_five M0 M1 M2 M3 M4 R12 R23 :
  R12 < 1 -> R23 < 1 ->
  beyond_first (five_segment_diagram M0 M1 M2 M3 M4 R12 R23) = five_segment_diagram M0 M1 M2 M3 M4 R12 R23.
Proof.
  intros H1 H2. unfold beyond_first, beyond_one, five_segment_diagram.
  cbn [filter lo eleb negb app].
  rewrite (Qle_bool_false 1 R12) by lra. rewrite (Qle_bool_false 1 R23) by lra.
  reflexivity.
Qed.

Theorem repair_keeps_fkm fx M M2 G c :
  transform_state_ord true fx (fkm_goodman_diagram M M2) G c = transform_state fx (fkm_goodman_diagram M M2) G c.
Proof. unfold transform_state_ord, schedule_ord. rewrite beyond_first_fkm. reflexivity. Qed.

Theorem repair_keeps_five fx M0 M1 M2 M3 M4 R12 R23 G c :
  R12 < 1 -> R23 < 1 ->
  transform_state_ord true fx (five_segment_diagram M0 M1 M2 M3 M4 R12 R23) G c
  = transform_state fx (five_segment_diagram M0 M1 M2 M3 M4 R12 R23) G c.
Proof. intros H1 H2. unfold transform_state_ord, schedule_ord. rewrite (beyond_first_five _ _ _ _ _ _ _ H1 H2). reflexivity. Qed.

(* ------------------------------------------------------------------ the invariant does not depend on the listing *)
Lemma In_beyond_first D s : In s (beyond_first D) -> In s D.
Proof. unfold beyond_first. rewrite in_app_iff. intros [H|H]; apply filter_In in H; tauto. Qed.

Lemma In_schedule_ord fo fx D G s b :
  In (s, b) (schedule_ord fo fx D G) ->
  In s D /\ (b = left_boundary s \/ b = lo s \/
             (b = G /\ (contains_rc G s = true \/ contains_lc G s = true \/ (G = NegInf /\ contains_rc PosInf s = true)))).
Proof.
  unfold schedule_ord. rewrite !in_app_iff. intros [Hl|Hrc].
  - apply in_map_iff in Hl. destruct Hl as [s' [E Hs]]. inversion E; subst s' b.
    unfold left_segs in Hs. apply in_map_iff in Hs. destruct Hs as [p [E' Hp]]. subst s.
    apply In_sort_by, filter_In in Hp. destruct Hp as [Hp _]. apply In_dists in Hp.
    split; [|tauto]. destruct fo; [apply In_beyond_first|]; exact Hp.
  - apply (In_schedule fx D G s b). unfold schedule. rewrite !in_app_iff. right. exact Hrc.
Qed.

Lemma good_schedule_ord fo fx H D G : good_diagram H D G -> Forall (good_step H) (schedule_ord fo fx D G).
Proof.
  intro HD. apply Forall_forall. intros [s b] Hsb. apply In_schedule_ord in Hsb.
  destruct Hsb as [Hs Hb]. destruct (HD s Hs) as [G1 [G2 G3]].
  destruct Hb as [E|[E|[E Hc]]]; subst b; auto.
Qed.

(* a * H(R) is invariant for every listing of the segments, with and without the repair *)
Theorem transform_ord_invariant fo fx H D G c :
  good_diagram H D G -> cyc_okR (snd c) ->
  fst (transform_state_ord fo fx D G c) * H (snd (transform_state_ord fo fx D G c)) == fst c * H (snd c) /\
  cyc_okR (snd (transform_state_ord fo fx D G c)).
Proof.
  intros HD Hc. unfold transform_state_ord.
  exact (fold_invariant H (schedule_ord fo fx D G) c (good_schedule_ord fo fx H D G HD) Hc).
Qed.

(* good_diagram only speaks about the members of the diagram *)
Lemma good_diagram_members H D D' G : (forall s, In s D' -> In s D) -> good_diagram H D G -> good_diagram H D' G.
Proof. intros Hm HD s Hs. exact (HD s (Hm s Hs)). Qed.

(* ------------------------------------------------------------------ the code as it is depends on the listing *)
(* M = 3/10, M2 = 1/10, cycle of amplitude 1 at R = 2 (mean -3), goal R = 1/2: natural listing, code as it is: the cycle is
   parked at R = -inf with amplitude 1; via R = -1 it arrives with 77/169; the constructor's listing gives 77/169 directly;
   with the repair the natural listing gives 77/169 too and is path independent on this instance *)
Lemma natural_listing_refuted :
  let Dn := fkm_natural (3#10) (1#10) in
  let Dc := fkm_goodman_diagram (3#10) (1#10) in
  let c := (1, Fin 2) in
  transform_state true Dn (Fin (1#2)) c = (1, NegInf)
  /\ ~ fst (transform_state true Dn (Fin (1#2)) (transform_state true Dn (Fin (-1)) c))
       == fst (transform_state true Dn (Fin (1#2)) c)
  /\ fst (transform_state true Dc (Fin (1#2)) c) == 77 # 169
  /\ fst (transform_state_ord true true Dn (Fin (1#2)) c) == 77 # 169
  /\ fst (transform_state_ord true true Dn (Fin (1#2)) (transform_state_ord true true Dn (Fin (-1)) c))
     == fst (transform_state_ord true true Dn (Fin (1#2)) c).
Proof. vm_compute. repeat split; try reflexivity. intro H; discriminate H. Qed.
