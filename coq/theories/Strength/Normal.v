(* The standard normal distribution function, defined (not axiomatised) through the Riemann integral of
   the Gaussian, with the facts the failure-probability property (C15) needs. *)
From Coq Require Import Reals Lra.
From Coquelicot Require Import Coquelicot.
Open Scope R_scope.

Definition gauss (t : R) : R := exp (- (t * t) / 2).
Definition Phi (z : R) : R := 1 / 2 + / sqrt (2 * PI) * RInt gauss 0 z.
Definition phi (z : R) : R := / sqrt (2 * PI) * gauss z.

(* scipy.stats.norm.cdf / norm.pdf with loc and scale (scale > 0) *)
Definition norm_cdf (x loc scale : R) : R := Phi ((x - loc) / scale).
Definition norm_pdf (x loc scale : R) : R := phi ((x - loc) / scale) / scale.

(* scipy.integrate.quad idealised: the value is the Riemann integral, the error estimate is not modelled.
   (Contract of the library routine; it is checked per sample by the certificates, never assumed of the code.) *)
Definition quad_ideal (f : R -> R) (a b : R) : R * R := (RInt f a b, 0).

Lemma gauss_pos t : 0 < gauss t.
Proof. apply exp_pos. Qed.

Lemma gauss_even t : gauss (- t) = gauss t.
Proof. unfold gauss. f_equal. lra. Qed.

Lemma gauss_le_1 t : gauss t <= 1.
Proof.
  unfold gauss. rewrite <- exp_0. destruct (Req_dec t 0) as [->|H].
  - right. f_equal. lra.
  - left. apply exp_increasing. assert (0 < t * t) by nra. lra.
Qed.

Lemma gauss_continuous t : continuous gauss t.
Proof. apply (ex_derive_continuous (K:=R_AbsRing) (V:=R_NormedModule) gauss t). unfold gauss. auto_derive. exact I. Qed.

Lemma gauss_ex_RInt a b : ex_RInt gauss a b.
Proof. apply (ex_RInt_continuous (V:=R_CompleteNormedModule)). intros z _. apply gauss_continuous. Qed.

Lemma sqrt_2PI_pos : 0 < sqrt (2 * PI).
Proof. apply sqrt_lt_R0. generalize PI_RGT_0. lra. Qed.

Lemma inv_sqrt_2PI_pos : 0 < / sqrt (2 * PI).
Proof. apply Rinv_0_lt_compat, sqrt_2PI_pos. Qed.

Lemma phi_pos z : 0 < phi z.
Proof. unfold phi. apply Rmult_lt_0_compat; [apply inv_sqrt_2PI_pos | apply gauss_pos]. Qed.

Lemma phi_even z : phi (- z) = phi z.
Proof. unfold phi. now rewrite gauss_even. Qed.

Lemma phi_continuous z : continuous phi z.
Proof. unfold phi. apply (continuous_scal_r (/ sqrt (2 * PI)) gauss). apply gauss_continuous. Qed.

Lemma Phi_0 : Phi 0 = 1 / 2.
Proof. unfold Phi. rewrite RInt_point. unfold zero; simpl. lra. Qed.

Lemma Phi_diff a b : Phi b - Phi a = / sqrt (2 * PI) * RInt gauss a b.
Proof.
  unfold Phi.
  rewrite <- (RInt_Chasles gauss 0 a b) by apply gauss_ex_RInt.
  unfold plus; simpl. lra.
Qed.

Theorem Phi_strictly_increasing a b : a < b -> Phi a < Phi b.
Proof.
  intros H. apply Rminus_gt_0_lt. rewrite Phi_diff.
  apply Rmult_lt_0_compat; [apply inv_sqrt_2PI_pos|].
  apply RInt_gt_0; [assumption| |]; intros; [apply gauss_pos | apply gauss_continuous].
Qed.

Lemma Phi_increasing a b : a <= b -> Phi a <= Phi b.
Proof. intros [H| ->]; [left; now apply Phi_strictly_increasing | right; reflexivity]. Qed.

Lemma Phi_lt_inv a b : Phi a < Phi b -> a < b.
Proof.
  intros H. destruct (Rlt_dec a b); [assumption|].
  assert (Phi b <= Phi a) by (apply Phi_increasing; lra). lra.
Qed.

Lemma Phi_injective a b : Phi a = Phi b -> a = b.
Proof.
  intros H. destruct (Rtotal_order a b) as [L|[E|G]]; [|assumption|].
  - apply Phi_strictly_increasing in L. lra.
  - apply Phi_strictly_increasing in G. lra.
Qed.

Lemma RInt_gauss_opp z : RInt gauss 0 (- z) = - RInt gauss 0 z.
Proof.
  replace (RInt gauss 0 (- z)) with (RInt gauss (-1 * 0 + 0) (-1 * z + 0)) by (f_equal; lra).
  rewrite <- RInt_comp_lin by apply gauss_ex_RInt.
  rewrite (RInt_ext _ (fun y => opp (gauss y))).
  - rewrite (RInt_opp (V:=R_CompleteNormedModule) gauss) by apply gauss_ex_RInt. reflexivity.
  - intros x _. unfold scal, opp; simpl. unfold mult; simpl.
    replace (-1 * x + 0) with (- x) by lra. rewrite gauss_even. lra.
Qed.

Theorem Phi_symmetry z : Phi (- z) = 1 - Phi z.
Proof. unfold Phi. rewrite RInt_gauss_opp. lra. Qed.

Lemma Phi_is_derive z : is_derive Phi z (phi z).
Proof.
  unfold Phi, phi.
  evar_last.
  - apply @is_derive_plus; [apply is_derive_const|].
    apply is_derive_scal.
    apply (is_derive_RInt gauss (fun b => RInt gauss 0 b) 0 z).
    + apply filter_forall. intros b. apply (RInt_correct (V:=R_CompleteNormedModule)), gauss_ex_RInt.
    + apply gauss_continuous.
  - unfold plus, zero; simpl. lra.
Qed.

Lemma Phi_continuous z : continuous Phi z.
Proof. apply (ex_derive_continuous (K:=R_AbsRing) (V:=R_NormedModule) Phi z). eexists. apply Phi_is_derive. Qed.

Lemma Phi_gt_half z : 0 < z -> 1 / 2 < Phi z.
Proof. intros H. rewrite <- Phi_0. now apply Phi_strictly_increasing. Qed.

Lemma Phi_lt_half z : z < 0 -> Phi z < 1 / 2.
Proof. intros H. rewrite <- Phi_0. now apply Phi_strictly_increasing. Qed.
