(* C12 -- five-segment Haigh diagram: potential H_five, the segment walk arrives at the goal, closed form;
   the one exception of the code as it is (fx = false): R_goal = -inf and a cycle at R > 1. *)
From Coq Require Import QArith Qabs Qminmax Bool List Lqa Lia Setoid Morphisms.
From PL Require Import Strength.MeanStress Strength.MeanStressInv Strength.MeanStressGoodman.
Import ListNotations.
Open Scope Q_scope.

Section Five.
Variables M0 M1 M2 M3 M4 R12 R23 : Q.
Hypothesis HR12 : 0 < R12.
Hypothesis HR1223 : R12 < R23.
Hypothesis HR23 : R23 < 1.
Hypothesis HM0 : 0 <= M0 /\ M0 < 1.
Hypothesis HM1 : 0 <= M1 /\ M1 < 1.
Hypothesis HM2 : 0 <= M2 /\ M2 < 1.
Hypothesis HM3 : 0 <= M3 /\ M3 < 1.
Hypothesis HM4 : 0 <= M4 /\ M4 < 1.

Let D := five_segment_diagram M0 M1 M2 M3 M4 R12 R23.

(* continuity constants of the potential: H is k * w(M_k, .) on segment k, continuous at R = +-inf, 0, R12, R23 *)
Definition k4 : Q := (1 - M0) / (1 - M4).
Definition k1 : Q := (1 + M0) / (1 + M1).
Definition k2 : Q := k1 * (1 - R12 + M1 * (1 + R12)) / (1 - R12 + M2 * (1 + R12)).
Definition k3 : Q := k2 * (1 - R23 + M2 * (1 + R23)) / (1 - R23 + M3 * (1 + R23)).

Definition H_five (R : ExtQ) : Q :=
  match R with
  | Fin r => if Qltb 1 r then k4 * w M4 R
             else if Qle_bool r 0 then w M0 R
             else if Qle_bool r R12 then k1 * w M1 R
             else if Qle_bool r R23 then k2 * w M2 R
             else k3 * w M3 R
  | _ => 1 - M0
  end.

Ltac h5 := unfold H_five; repeat qb_step; cbn [w].

Lemma P12_1 : 0 < 1 - R12 + M1 * (1 + R12). Proof. nra. Qed.
Lemma P12_2 : 0 < 1 - R12 + M2 * (1 + R12). Proof. nra. Qed.
Lemma P23_2 : 0 < 1 - R23 + M2 * (1 + R23). Proof. nra. Qed.
Lemma P23_3 : 0 < 1 - R23 + M3 * (1 + R23). Proof. nra. Qed.

Lemma pos_lt1 M g : 0 <= M -> M < 1 -> g < 1 -> 0 < 1 - g + M * (1 + g).
Proof. intros. nra. Qed.

Ltac facts := pose proof P12_1; pose proof P12_2; pose proof P23_2; pose proof P23_3.

(* evaluation of in_test hypotheses / goals for this diagram *)
Ltac gs_R R HR Ht := revert Ht; destruct R as [|?r|]; cbn in HR; [| |contradiction]; ms_eval; intro Ht; bh.

Lemma good_diagram_five G :
  goal_accepted G = true ->
  (forall g, G = Fin g -> 1 < g -> ~ 1 - g + M4 * (1 + g) == 0) ->
  good_diagram H_five D G.
Proof.
  intros HG HG4 s Hs. unfold D, five_segment_diagram in Hs. facts.
  destruct Hs as [E|[E|[E|[E|[E|[]]]]]]; subst s.
  - (* (1, inf), M4 *)
    assert (Hb : good_step H_five ({| lo := Fin 1; hi := PosInf; slope := M4 |}, Fin 1)).
    { exists k4. cbn [fst snd slope]. split; [|split].
      - intros R HR Ht. gs_R R HR Ht. assert (1 < r) by lra. h5. ring.
      - ms_eval. cbn. unfold k4. field. lra.
      - ms_eval. cbn. lra. }
    split; [exact Hb|split; [exact Hb|]].
    intro Hc. destruct G as [|g|]; cbn in HG; [| |discriminate].
    + exists k4. cbn [fst snd slope]. split; [|split].
      * intros R HR Ht. gs_R R HR Ht. assert (1 < r) by lra. h5. ring.
      * ms_eval. cbn. unfold k4. field. lra.
      * ms_eval. cbn. lra.
    + assert (Hg1 : ~ g == 1) by (intro E; rewrite (Qeq_bool_true _ _ E) in HG; discriminate).
      assert (G1 : 1 < g).
      { revert Hc. ms_eval. intros [Hc|[Hc|[Hn Hc]]]; [| |discriminate Hn]; bh; lra. }
      exists k4. cbn [fst snd slope]. split; [|split].
      * intros R HR Ht. gs_R R HR Ht.
        -- cbn. unfold k4. field. lra.
        -- assert (1 < r) by lra. h5. ring.
      * ms_eval. h5. ring.
      * ms_eval. cbn. split; [lra|]. apply (HG4 g eq_refl G1).
  - (* (-inf, 0], M0 *)
    split; [|split].
    + exists 1. cbn [fst snd slope]. split; [|split].
      * intros R HR Ht. gs_R R HR Ht; [cbn; ring|h5; ring].
      * ms_eval. h5. ring.
      * ms_eval. cbn. split; lra.
    + exists 1. cbn [fst snd slope]. split; [|split].
      * intros R HR Ht. gs_R R HR Ht; [cbn; ring|h5; ring].
      * ms_eval. cbn. ring.
      * ms_eval. cbn. lra.
    + intro Hc. destruct G as [|g|]; cbn in HG; [| |discriminate].
      * exists 1. cbn [fst snd slope]. split; [|split].
        -- intros R HR Ht. gs_R R HR Ht; [cbn; ring|h5; ring].
        -- ms_eval. cbn. ring.
        -- ms_eval. cbn. lra.
      * assert (G0 : g <= 0).
        { revert Hc. ms_eval. intros [Hc|[Hc|[Hn Hc]]]; [| |discriminate Hn]; bh; lra. }
        exists 1. cbn [fst snd slope]. split; [|split].
        -- intros R HR Ht. gs_R R HR Ht; [cbn; ring|h5; ring].
        -- ms_eval. h5. ring.
        -- ms_eval. cbn. split; [lra|]. pose proof (pos_lt1 M0 g). lra.
  - (* (0, R12], M1 *)
    assert (HS : forall r, 0 <= r -> r <= R12 -> H_five (Fin r) == k1 * w M1 (Fin r)).
    { intros r L0 L1. destruct (Qlt_le_dec 0 r) as [L|L]; [h5; ring|].
      assert (E : r == 0) by lra. h5. unfold k1. rewrite E. field. lra. }
    assert (HT : forall g, 0 <= g -> g <= R12 -> target_ok M1 (Fin g)).
    { intros g L0 L1. cbn. split; [lra|]. pose proof (pos_lt1 M1 g). lra. }
    split; [|split].
    + exists k1. cbn [fst snd slope]. split; [|split].
      * intros R HR Ht. gs_R R HR Ht. apply HS; lra.
      * ms_eval. apply HS; lra.
      * ms_eval. apply HT; lra.
    + exists k1. cbn [fst snd slope]. split; [|split].
      * intros R HR Ht. gs_R R HR Ht. apply HS; lra.
      * ms_eval. apply HS; lra.
      * ms_eval. apply HT; lra.
    + intro Hc. destruct G as [|g|]; cbn in HG; [| |discriminate].
      * revert Hc; ms_eval; intros [Hc|[Hc|[_ Hc]]]; discriminate.
      * assert (G0 : 0 <= g /\ g <= R12).
        { revert Hc. ms_eval. intros [Hc|[Hc|[Hn Hc]]]; [| |discriminate Hn]; bh; lra. }
        exists k1. cbn [fst snd slope]. split; [|split].
        -- intros R HR Ht. gs_R R HR Ht. apply HS; lra.
        -- ms_eval. apply HS; lra.
        -- ms_eval. apply HT; lra.
  - (* (R12, R23], M2 *)
    assert (HS : forall r, R12 <= r -> r <= R23 -> H_five (Fin r) == k2 * w M2 (Fin r)).
    { intros r L0 L1. destruct (Qlt_le_dec R12 r) as [L|L]; [h5; ring|].
      assert (E : r == R12) by lra. h5. unfold k2. rewrite E. field. lra. }
    assert (HT : forall g, R12 <= g -> g <= R23 -> target_ok M2 (Fin g)).
    { intros g L0 L1. cbn. split; [lra|]. pose proof (pos_lt1 M2 g). lra. }
    split; [|split].
    + exists k2. cbn [fst snd slope]. split; [|split].
      * intros R HR Ht. gs_R R HR Ht. apply HS; lra.
      * ms_eval. apply HS; lra.
      * ms_eval. apply HT; lra.
    + exists k2. cbn [fst snd slope]. split; [|split].
      * intros R HR Ht. gs_R R HR Ht. apply HS; lra.
      * ms_eval. apply HS; lra.
      * ms_eval. apply HT; lra.
    + intro Hc. destruct G as [|g|]; cbn in HG; [| |discriminate].
      * revert Hc; ms_eval; intros [Hc|[Hc|[_ Hc]]]; discriminate.
      * assert (G0 : R12 <= g /\ g <= R23).
        { revert Hc. ms_eval. intros [Hc|[Hc|[Hn Hc]]]; [| |discriminate Hn]; bh; lra. }
        exists k2. cbn [fst snd slope]. split; [|split].
        -- intros R HR Ht. gs_R R HR Ht. apply HS; lra.
        -- ms_eval. apply HS; lra.
        -- ms_eval. apply HT; lra.
  - (* (R23, 1], M3 *)
    assert (HS : forall r, R23 <= r -> r < 1 -> H_five (Fin r) == k3 * w M3 (Fin r)).
    { intros r L0 L1. destruct (Qlt_le_dec R23 r) as [L|L]; [h5; ring|].
      assert (E : r == R23) by lra. h5. unfold k3. rewrite E. field. lra. }
    assert (HT : forall g, R23 <= g -> g < 1 -> target_ok M3 (Fin g)).
    { intros g L0 L1. cbn. split; [lra|]. pose proof (pos_lt1 M3 g). lra. }
    assert (Hb : good_step H_five ({| lo := Fin R23; hi := Fin 1; slope := M3 |}, Fin R23)).
    { exists k3. cbn [fst snd slope]. split; [|split].
      * intros R HR Ht. gs_R R HR Ht. apply HS; lra.
      * ms_eval. apply HS; lra.
      * ms_eval. apply HT; lra. }
    split; [exact Hb|split; [exact Hb|]].
    intro Hc. destruct G as [|g|]; cbn in HG; [| |discriminate].
    + revert Hc; ms_eval; intros [Hc|[Hc|[_ Hc]]]; discriminate.
    + assert (Hg1 : ~ g == 1) by (intro E; rewrite (Qeq_bool_true _ _ E) in HG; discriminate).
      assert (G0 : R23 <= g /\ g < 1).
      { revert Hc. ms_eval. intros [Hc|[Hc|[Hn Hc]]]; [| |discriminate Hn]; bh; lra. }
      exists k3. cbn [fst snd slope]. split; [|split].
      * intros R HR Ht. gs_R R HR Ht. apply HS; lra.
      * ms_eval. apply HS; lra.
      * ms_eval. apply HT; lra.
Qed.

(* ------------------------------------------------------------------ the cycle arrives at the goal *)
Definition x3 : Q := (0 + R12) / 2.
Definition x4 : Q := (R12 + R23) / 2.
Definition x5 : Q := (R23 + 1) / 2.
Ltac ms5 := ms_cbn; fold x3 x4 x5; repeat (qb_step; ms_cbn; fold x3 x4 x5).

Ltac r_cases r HR :=
  destruct (Q_dec r 0) as [[?L0|?L0]|?L0];
  [ | destruct (Q_dec r R12) as [[?L1|?L1]|?L1];
      [ | destruct (Q_dec r R23) as [[?L2|?L2]|?L2];
          [ | destruct (Qlt_le_dec r 1) as [?L3|?L3]; [|assert (1 < r) by lra] | ] | ] | ].

Ltac walk R HR :=
  destruct R as [|?r|]; cbn in HR; [| |contradiction];
  [ ms5; reflexivity | r_cases r HR; ms5; reflexivity ].

Lemma five_reaches fx G R :
  goal_accepted G = true -> cyc_okR R ->
  (fx = false -> G = NegInf -> match R with Fin r => r < 1 | _ => True end) ->
  fold_left stepR (schedule fx D G) R = G.
Proof.
  intros HG HR Hex. unfold D, five_segment_diagram.
  assert (X3 : 2 * x3 == R12) by (unfold x3; field).
  assert (X4 : 2 * x4 == R12 + R23) by (unfold x4; field).
  assert (X5 : 2 * x5 == R23 + 1) by (unfold x5; field).
  pose proof (fms_mono 0 x3 ltac:(lra) ltac:(lra)) as F03. rewrite fms_0 in F03.
  pose proof (fms_mono x3 x4 ltac:(lra) ltac:(lra)) as F34.
  pose proof (fms_mono x4 x5 ltac:(lra) ltac:(lra)) as F45.
  destruct G as [|g|]; cbn in HG; [| |discriminate].
  - (* goal -inf *)
    destruct fx; ms5.
    + walk R HR.
    + specialize (Hex eq_refl eq_refl).
      destruct R as [|r|]; cbn in HR, Hex; [| |contradiction]; [ms5; reflexivity|].
      r_cases r HR; ms5; reflexivity.
  - assert (Hg1 : ~ g == 1) by (intro E; rewrite (Qeq_bool_true _ _ E) in HG; discriminate).
    clear Hex.
    destruct (Qlt_le_dec 1 g) as [G1|G1].
    + (* goal > 1 *)
      pose proof (fms_lt_m1 g G1) as Fg. ms5. walk R HR.
    + assert (G1' : g < 1) by lra.
      pose proof (fms_gt_m1 g G1') as Fg.
      destruct (Qlt_le_dec 0 g) as [G0|G0].
      * pose proof (fms_mono 0 g G0 G1') as Fg0. rewrite fms_0 in Fg0.
        destruct (Qlt_le_dec g x3) as [A3|A3].
        { (* 0 < g < mid of (0, R12) *)
          pose proof (fms_mono g x3 A3 ltac:(lra)) as Fa. ms5. walk R HR. }
        destruct (Qlt_le_dec x3 g) as [B3|B3]; [|
          assert (E3 : fms g == fms x3) by (assert (E : g == x3) by lra; rewrite E; reflexivity);
          ms5; walk R HR ].
        pose proof (fms_mono x3 g B3 G1') as Fb3.
        destruct (Qlt_le_dec g x4) as [A4|A4].
        { pose proof (fms_mono g x4 A4 ltac:(lra)) as Fa.
          destruct (Qlt_le_dec g R12) as [C|C]; [|destruct (Qlt_le_dec R12 g) as [C'|C']];
            ms5; walk R HR. }
        destruct (Qlt_le_dec x4 g) as [B4|B4]; [|
          assert (E4 : fms g == fms x4) by (assert (E : g == x4) by lra; rewrite E; reflexivity);
          ms5; walk R HR ].
        pose proof (fms_mono x4 g B4 G1') as Fb4.
        destruct (Qlt_le_dec g x5) as [A5|A5].
        { pose proof (fms_mono g x5 A5 ltac:(lra)) as Fa.
          destruct (Qlt_le_dec g R23) as [C|C]; [|destruct (Qlt_le_dec R23 g) as [C'|C']];
            ms5; walk R HR. }
        destruct (Qlt_le_dec x5 g) as [B5|B5]; [|
          assert (E5 : fms g == fms x5) by (assert (E : g == x5) by lra; rewrite E; reflexivity);
          ms5; walk R HR ].
        pose proof (fms_mono x5 g B5 G1') as Fb5.
        ms5. walk R HR.
      * (* g <= 0 *)
        assert (Fg1 : fms g <= 1) by (pose proof (fms_le g 0 G0 ltac:(lra)); pose proof fms_0; lra).
        ms5. walk R HR.
Qed.

Lemma five_compressive_stays r :
  1 < r -> fold_left stepR (schedule false D NegInf) (Fin r) = Fin r.
Proof.
  intro Hr. unfold D, five_segment_diagram.
  assert (X3 : 2 * x3 == R12) by (unfold x3; field).
  assert (X4 : 2 * x4 == R12 + R23) by (unfold x4; field).
  assert (X5 : 2 * x5 == R23 + 1) by (unfold x5; field).
  pose proof (fms_mono 0 x3 ltac:(lra) ltac:(lra)) as F03. rewrite fms_0 in F03.
  pose proof (fms_mono x3 x4 ltac:(lra) ltac:(lra)) as F34.
  pose proof (fms_mono x4 x5 ltac:(lra) ltac:(lra)) as F45.
  ms5. reflexivity.
Qed.

(* the one situation in which the code as it is does not move a cycle: target -inf, cycle at R > 1 *)
Definition exc_free (fx : bool) (G R : ExtQ) : Prop :=
  fx = false -> G = NegInf -> match R with Fin r => r < 1 | _ => True end.
Definition goal_ok (G : ExtQ) : Prop :=
  goal_accepted G = true /\ (forall g, G = Fin g -> 1 < g -> ~ 1 - g + M4 * (1 + g) == 0).

Lemma k4_pos : 0 < k4. Proof. unfold k4. apply Qlt_shift_div_l; lra. Qed.
Lemma k1_pos : 0 < k1. Proof. unfold k1. apply Qlt_shift_div_l; lra. Qed.
Lemma k2_pos : 0 < k2.
Proof. pose proof k1_pos. pose proof P12_1. pose proof P12_2. unfold k2. apply Qlt_shift_div_l; [lra|]. nra. Qed.
Lemma k3_pos : 0 < k3.
Proof. pose proof k2_pos. pose proof P23_2. pose proof P23_3. unfold k3. apply Qlt_shift_div_l; [lra|]. nra. Qed.

Lemma w_pos M g : 0 <= M -> M < 1 -> g < 1 -> 0 < w M (Fin g).
Proof. intros. cbn. apply Qlt_shift_div_l; [lra|]. pose proof (pos_lt1 M g). lra. Qed.

Lemma H_five_nz G : goal_ok G -> ~ H_five G == 0.
Proof.
  intros [HG HG4]. destruct G as [|g|]; cbn in HG; [cbn; lra| |discriminate].
  assert (Hg1 : ~ g == 1) by (intro E; rewrite (Qeq_bool_true _ _ E) in HG; discriminate).
  pose proof k4_pos. pose proof k1_pos. pose proof k2_pos. pose proof k3_pos.
  destruct (Qlt_le_dec 1 g) as [G1|G1].
  - h5. specialize (HG4 g eq_refl G1). intro E.
    assert (E' : (1 - g + M4 * (1 + g)) / (1 - g) == 0).
    { apply (Qmult_inj_l _ _ k4); [lra|]. rewrite E. ring. }
    apply HG4. assert (E2 : 1 - g + M4 * (1 + g) == (1 - g + M4 * (1 + g)) / (1 - g) * (1 - g)) by (field; lra).
    rewrite E2, E'. ring.
  - assert (Hg : g < 1) by lra.
    assert (W : forall M, 0 <= M -> M < 1 -> 0 < w M (Fin g)) by (intros; apply w_pos; assumption).
    pose proof (W M0 ltac:(lra) ltac:(lra)) as W0. pose proof (W M1 ltac:(lra) ltac:(lra)) as W1.
    pose proof (W M2 ltac:(lra) ltac:(lra)) as W2. pose proof (W M3 ltac:(lra) ltac:(lra)) as W3.
    cbn [w] in W0, W1, W2, W3.
    destruct (Qlt_le_dec 0 g); [destruct (Qlt_le_dec R12 g); [destruct (Qlt_le_dec R23 g)|]|]; h5.
    + apply Qnot_eq_sym, Qlt_not_eq, Qmult_lt_0_compat; assumption.
    + apply Qnot_eq_sym, Qlt_not_eq, Qmult_lt_0_compat; assumption.
    + apply Qnot_eq_sym, Qlt_not_eq, Qmult_lt_0_compat; assumption.
    + apply Qnot_eq_sym, Qlt_not_eq; assumption.
Qed.

Theorem five_state_invariant fx G c :
  goal_ok G -> cyc_okR (snd c) -> exc_free fx G (snd c) ->
  fst (transform_state fx D G c) * H_five G == fst c * H_five (snd c)
  /\ snd (transform_state fx D G c) = G.
Proof.
  intros [HG HG4] Hc Hex.
  pose proof (good_diagram_five G HG HG4) as GD.
  pose proof (transform_invariant fx _ _ _ c GD Hc) as Inv.
  assert (E : snd (transform_state fx D G c) = G).
  { unfold transform_state. rewrite snd_fold_step. apply five_reaches; assumption. }
  split; [|exact E]. rewrite E in Inv. exact Inv.
Qed.

(* transformed amplitude = a * H(R) / H(R_goal) *)
Theorem five_state_closed fx G a R :
  goal_ok G -> cyc_okR R -> exc_free fx G R ->
  fst (transform_state fx D G (a, R)) == a * H_five R / H_five G.
Proof.
  intros HG HR Hex. destruct (five_state_invariant fx G (a, R) HG HR Hex) as [Inv _]. cbn [fst snd] in Inv.
  pose proof (H_five_nz G HG). rewrite <- Inv. field. assumption.
Qed.

Lemma goal_ok_cyc G : goal_ok G -> cyc_okR G.
Proof. intros [HG _]. apply goal_accepted_ok. exact HG. Qed.

Theorem five_path_independent fx G1 G2 c :
  goal_ok G1 -> goal_ok G2 -> cyc_okR (snd c) ->
  exc_free fx G1 (snd c) -> exc_free fx G2 G1 -> exc_free fx G2 (snd c) ->
  fst (transform_state fx D G2 (transform_state fx D G1 c)) == fst (transform_state fx D G2 c).
Proof.
  intros HG1 HG2 Hc E1 E12 E2.
  destruct (five_state_invariant fx G1 c HG1 Hc E1) as [I1 S1].
  assert (Ok1 : cyc_okR (snd (transform_state fx D G1 c))) by (rewrite S1; apply goal_ok_cyc; exact HG1).
  assert (E12' : exc_free fx G2 (snd (transform_state fx D G1 c))) by (rewrite S1; exact E12).
  destruct (five_state_invariant fx G2 _ HG2 Ok1 E12') as [I12 _].
  destruct (five_state_invariant fx G2 c HG2 Hc E2) as [I2 _].
  rewrite S1, I1, <- I2 in I12.
  apply (Qmult_inj_r _ _ (H_five G2)); [apply H_five_nz; exact HG2|exact I12].
Qed.

Theorem five_idempotent fx G c :
  goal_ok G -> cyc_okR (snd c) -> exc_free fx G (snd c) ->
  fst (transform_state fx D G (transform_state fx D G c)) == fst (transform_state fx D G c).
Proof.
  intros HG Hc E. apply five_path_independent; try assumption.
  intros _ EG. subst G. exact I.
Qed.

Global Instance w_Proper M : Proper (Qeq ==> Qeq) (fun r => w M (Fin r)).
Proof. intros x y E. cbn. rewrite E. reflexivity. Qed.

Lemma H_five_ext r g : r == g -> H_five (Fin r) == H_five (Fin g).
Proof.
  intro E. unfold H_five.
  rewrite (Qltb_Proper 1 1 (Qeq_refl 1) r g E), (Qleb_comp r g E 0 0 (Qeq_refl 0)),
          (Qleb_comp r g E R12 R12 (Qeq_refl R12)), (Qleb_comp r g E R23 R23 (Qeq_refl R23)).
  destruct (Qltb 1 g); [|destruct (Qle_bool g 0); [|destruct (Qle_bool g R12); [|destruct (Qle_bool g R23)]]];
    unfold w; rewrite E; reflexivity.
Qed.

Theorem five_at_target_unchanged fx G a R :
  goal_ok G -> cyc_okR R ->
  match R, G with Fin r, Fin g => r == g | NegInf, NegInf => True | _, _ => False end ->
  fst (transform_state fx D G (a, R)) == a.
Proof.
  intros HG HR E.
  assert (Hex : exc_free fx G R) by (intros _ EG; subst G; destruct R; [exact I|contradiction|contradiction]).
  rewrite (five_state_closed fx G a R HG HR Hex).
  pose proof (H_five_nz G HG).
  assert (EH : H_five R == H_five G).
  { destruct R as [|r|], G as [|g|]; try contradiction; [reflexivity|apply H_five_ext; exact E]. }
  rewrite EH. field. assumption.
Qed.

End Five.

(* ------------------------------------------------------------------ the exception is real (code as it is, fx = false) *)
(* M0..M4 = 1/2, 1/4, 1/8, 1/16, 1/4; R12 = 1/4, R23 = 1/2; cycle of amplitude 1 at R = 2 (mean -3):
   directly to R = -inf it keeps amplitude 1 (not transformed at all); via R = -1 it arrives with 1/3 *)
Lemma five_neg_inf_refuted :
  let Dx := five_segment_diagram (1#2) (1#4) (1#8) (1#16) (1#4) (1#4) (1#2) in
  let c := (1, Fin 2) in
  ~ fst (transform_state false Dx NegInf (transform_state false Dx (Fin (-1)) c))
    == fst (transform_state false Dx NegInf c)
  /\ transform_state false Dx NegInf c = c
  /\ fst (transform_state true Dx NegInf (transform_state true Dx (Fin (-1)) c))
     == fst (transform_state true Dx NegInf c).
Proof. vm_compute. repeat split; try reflexivity. intro H; discriminate H. Qed.

(* the hypotheses of five_state_closed / five_path_independent are satisfiable, and the conclusion is not vacuous:
   the same cycle transformed to R = -1 has amplitude 1/6 = 1 * H(2) / H(-1) *)
Example five_hypotheses_satisfiable :
  let Dx := five_segment_diagram (1#2) (1#4) (1#8) (1#16) (1#4) (1#4) (1#2) in
  goal_ok (1#4) (Fin (-1)) /\ cyc_okR (Fin 2) /\ exc_free false (Fin (-1)) (Fin 2) /\
  fst (transform_state false Dx (Fin (-1)) (1, Fin 2)) == 1 # 6.
Proof.
  repeat split.
  - intros g E Hg. inversion E; subst g. exfalso. revert Hg. unfold Qlt. cbn. intro H; discriminate H.
  - cbn. intro H; discriminate H.
  - intros _ E. discriminate E.
Qed.
