(* Real-number prelude shared by the generated models (py2coq) and their theorems. *)
From Coq Require Import Reals Lra.
Open Scope R_scope.

(* numpy's real power on x >= 0:  0^y = 0 for y > 0 (and for y<0 numpy gives inf: outside the model),
   0^0 = 1.  Deliberately NOT Rpower, for which Rpower 0 y = 1. *)
Definition npow (x y : R) : R :=
  if Req_EM_T x 0 then (if Req_EM_T y 0 then 1 else 0) else Rpower x y.

Definition sgnR (x : R) : R := if Rlt_dec 0 x then 1 else if Rlt_dec x 0 then -1 else 0.
Definition log10R (x : R) : R := ln x / ln 10.

Lemma npow_pos x y : 0 < x -> npow x y = Rpower x y.
Proof. intros H. unfold npow. destruct (Req_EM_T x 0); [lra|reflexivity]. Qed.

Lemma npow_0 y : y <> 0 -> npow 0 y = 0.
Proof. intros H. unfold npow. destruct (Req_EM_T 0 0); [|lra]. destruct (Req_EM_T y 0); [contradiction|reflexivity]. Qed.

Lemma npow_gt0 x y : 0 < x -> 0 < npow x y.
Proof. intros H. rewrite npow_pos by assumption. unfold Rpower. apply exp_pos. Qed.

Lemma npow_ge0 x y : 0 <= x -> 0 <= npow x y.
Proof.
  intros [H|H]. - left. now apply npow_gt0.
  - subst x. unfold npow. destruct (Req_EM_T 0 0); [|lra]. destruct (Req_EM_T y 0); lra.
Qed.

Lemma sgnR_pos x : 0 < x -> sgnR x = 1.
Proof. intros H. unfold sgnR. destruct (Rlt_dec 0 x); [reflexivity|contradiction]. Qed.
Lemma sgnR_neg x : x < 0 -> sgnR x = -1.
Proof. intros H. unfold sgnR. destruct (Rlt_dec 0 x); [lra|]. destruct (Rlt_dec x 0); [reflexivity|contradiction]. Qed.
Lemma sgnR_0 : sgnR 0 = 0.
Proof. unfold sgnR. destruct (Rlt_dec 0 0); [lra|]. destruct (Rlt_dec 0 0); [lra|reflexivity]. Qed.
Lemma sgnR_opp x : sgnR (- x) = - sgnR x.
Proof. unfold sgnR. destruct (Rlt_dec 0 (-x)), (Rlt_dec (-x) 0), (Rlt_dec 0 x), (Rlt_dec x 0); lra. Qed.
Lemma sgnR_mul_abs x : sgnR x * Rabs x = x.
Proof.
  destruct (Rtotal_order x 0) as [H|[H|H]].
  - rewrite sgnR_neg, Rabs_left by assumption. lra.
  - subst. rewrite sgnR_0. lra.
  - rewrite sgnR_pos, Rabs_right by lra. lra.
Qed.

Lemma Rpower_lt_base a b y : 0 < y -> 0 < a -> a < b -> Rpower a y < Rpower b y.
Proof.
  intros Hy Ha Hab. unfold Rpower. apply exp_increasing.
  apply Rmult_lt_compat_l; [assumption|]. apply ln_increasing; assumption.
Qed.

Lemma npow_lt_base a b y : 0 < y -> 0 <= a -> a < b -> npow a y < npow b y.
Proof.
  intros Hy [Ha|Ha] Hab.
  - rewrite !npow_pos by lra. apply Rpower_lt_base; assumption.
  - subst a. rewrite npow_0 by lra. apply npow_gt0. assumption.
Qed.

Lemma npow_mul_exp x a b : 0 < x -> npow x a * npow x b = npow x (a + b).
Proof. intros H. rewrite !npow_pos by assumption. symmetry. apply Rpower_plus. Qed.

Lemma npow_1 x : 0 < x -> npow x 1 = x.
Proof. intros H. rewrite npow_pos by assumption. apply Rpower_1. assumption. Qed.

Lemma npow_npow x a b : 0 < x -> npow (npow x a) b = npow x (a * b).
Proof. intros H. rewrite (npow_pos (npow x a)) by now apply npow_gt0. rewrite !npow_pos by assumption. apply Rpower_mult. Qed.

(* split an equation between tuples into its components (and nothing deeper) *)
Ltac tuple_eq := repeat match goal with |- (_, _) = (_, _) => apply f_equal2 end.
