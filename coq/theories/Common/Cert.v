(* Tactics for the per-run interval certificates  Rabs (model args - impl_value) <= tol. *)
From Coq Require Import Reals Lra.
From Interval Require Import Tactic.
From PL Require Import Common.RPrelude.
Open Scope R_scope.

Lemma if_Rlt_true (a b : R) (T : Type) (x y : T) : a < b -> (if Rlt_dec a b then x else y) = x.
Proof. intros H. destruct (Rlt_dec a b); [reflexivity|contradiction]. Qed.
Lemma if_Rlt_false (a b : R) (T : Type) (x y : T) : b <= a -> (if Rlt_dec a b then x else y) = y.
Proof. intros H. destruct (Rlt_dec a b); [lra|reflexivity]. Qed.
Lemma if_Rle_true (a b : R) (T : Type) (x y : T) : a <= b -> (if Rle_dec a b then x else y) = x.
Proof. intros H. destruct (Rle_dec a b); [reflexivity|contradiction]. Qed.
Lemma if_Rle_false (a b : R) (T : Type) (x y : T) : b < a -> (if Rle_dec a b then x else y) = y.
Proof. intros H. destruct (Rle_dec a b); [lra|reflexivity]. Qed.
Lemma if_Req_false (a b : R) (T : Type) (x y : T) : a < b \/ b < a -> (if Req_EM_T a b then x else y) = y.
Proof. intros H. destruct (Req_EM_T a b); [lra|reflexivity]. Qed.

(* resolve every decision the translated code makes (sign, where, guarded power) by interval arithmetic *)
Ltac cert_step :=
  match goal with
  | |- context [sgnR ?x] => first [rewrite (sgnR_pos x) by interval | rewrite (sgnR_neg x) by interval]
  | |- context [npow ?x ?y] => rewrite (npow_pos x y) by interval
  | |- context [if Rlt_dec ?a ?b then ?x else ?y] =>
      first [rewrite (if_Rlt_true a b _ x y) by interval | rewrite (if_Rlt_false a b _ x y) by interval]
  | |- context [if Rle_dec ?a ?b then ?x else ?y] =>
      first [rewrite (if_Rle_true a b _ x y) by interval | rewrite (if_Rle_false a b _ x y) by interval]
  | |- context [if Req_EM_T ?a ?b then ?x else ?y] =>
      rewrite (if_Req_false a b _ x y) by (first [left; interval | right; interval])
  end.

Ltac cert_prep := cbv zeta; repeat cert_step; unfold Rpower, log10R, Rmax, Rmin.
