(* C09, part 2 -- damage parameter P_RAM of a hysteresis and the per-hysteresis damage of DamageCalculatorPRAM.
   Hand-written element-wise models of the pandas code (masked .loc assignments are not in the py2coq subset):
     damage_parameter.py      P_RAM._compute_values
     damage_calculator.py     DamageCalculatorPRAM.__init__  (columns N and D)
   tied to the implementation on every run by interval certificates on random hysteresis tables.
   The guideline constants a_M, b_M (FKM nonlinear table 2.14) are written here independently of constants.py. *)
From Coq Require Import Reals Lra.
From Coquelicot Require Import Coquelicot.
From PL Require Import Common.RPrelude FKM.C09Curves.
From PLgen Require Import GenWoehlerFKMNonlinear.
Open Scope R_scope.

Inductive MatGroup := Steel | SteelCast | Al_wrought.
Definition guideline_a_M (g : MatGroup) : R := match g with Steel => 35 / 100 | SteelCast => 35 / 100 | Al_wrought => 1 end.
Definition guideline_b_M (g : MatGroup) : R := match g with Steel => - (1 / 10) | SteelCast => 5 / 100 | Al_wrought => - (4 / 100) end.

(* eq. (2.6-84): mean stress sensitivity *)
Definition M_sigma (g : MatGroup) (R_m : R) : R := guideline_a_M g * (1 / 1000) * R_m + guideline_b_M g.
(* eq. (2.6-83): the column k after the two masked assignments (S_m >= 0, S_m < 0) *)
Definition k_factor (M S_m : R) : R := if Rle_dec 0 S_m then M * (M + 2) else M / 3 * (M / 3 + 2).
(* eq. (2.6-82) *)
Definition P_RAM_value (g : MatGroup) (R_m E S_a S_m eps_a : R) : R :=
  let k := k_factor (M_sigma g R_m) S_m in
  let discriminant := S_a + k * S_m in
  if Rle_dec 0 discriminant then sqrt (discriminant * eps_a * E) else 0.

Theorem P_RAM_formula g R_m E S_a S_m eps_a : 0 <= eps_a -> 0 < E ->
  let M := M_sigma g R_m in
  let k := if Rle_dec 0 S_m then M * (M + 2) else M / 3 * (M / 3 + 2) in
  let product := (S_a + k * S_m) * eps_a * E in
  (0 <= product -> P_RAM_value g R_m E S_a S_m eps_a = sqrt product) /\
  (product < 0 -> P_RAM_value g R_m E S_a S_m eps_a = 0).
Proof.
  intros He HE M k product. unfold P_RAM_value. fold M. unfold k_factor. fold k. cbv zeta. fold product.
  destruct (Rle_dec 0 (S_a + k * S_m)) as [L|L].
  - split; [reflexivity|]. intros Hp. exfalso. unfold product in Hp.
    assert (0 <= (S_a + k * S_m) * eps_a) by (apply Rmult_le_pos; assumption). nra.
  - split; [|reflexivity]. intros Hp. unfold product in *.
    assert (Hd : S_a + k * S_m < 0) by lra.
    assert (Hde : (S_a + k * S_m) * eps_a <= 0) by nra.
    assert ((S_a + k * S_m) * eps_a * E <= 0) by nra.
    assert (E0 : (S_a + k * S_m) * eps_a * E = 0) by lra. rewrite E0, sqrt_0. reflexivity.
Qed.

Lemma P_RAM_nonneg g R_m E S_a S_m eps_a : 0 <= P_RAM_value g R_m E S_a S_m eps_a.
Proof. unfold P_RAM_value. cbv zeta. destruct (Rle_dec _ _); [apply sqrt_pos|lra]. Qed.

(* fully reversed hysteresis (S_m = 0): Smith-Watson-Topper  sqrt(S_a eps_a E), no influence of the material group *)
Lemma P_RAM_zero_mean g R_m E S_a eps_a : 0 <= S_a -> P_RAM_value g R_m E S_a 0 eps_a = sqrt (S_a * eps_a * E).
Proof.
  intros H. unfold P_RAM_value. cbv zeta. rewrite Rmult_0_r, Rplus_0_r. destruct (Rle_dec 0 S_a); [reflexivity|contradiction].
Qed.

(* the guideline's mean stress sensitivities, e.g. steel with R_m = 600: M = 0.11 *)
Example M_sigma_steel_600 : M_sigma Steel 600 = 11 / 100.
Proof. unfold M_sigma, guideline_a_M, guideline_b_M. field. Qed.

(* ---- DamageCalculatorPRAM.__init__: bearable cycles N of a hysteresis (no endurance cut-off: Miner elementary) and its damage *)
Definition dc_N (Z d1 d2 P : R) : R :=
  if Rle_dec Z P then 1000 * npow (P / Z) (1 / d1) else 1000 * npow (P / Z) (1 / d2).
Definition dc_D (closed : bool) (N : R) : R := if closed then 1 / N else (1 / 2) / N.

(* above the endurance value the calculator uses exactly the component Woehler curve *)
Theorem dc_N_is_curve Z D d1 d2 P : 0 < Z -> D < P -> pram_calc_N Z D d1 d2 P = Finite (dc_N Z d1 d2 P).
Proof.
  intros HZ HP. unfold pram_calc_N, dc_N, pram_fatigue_strength_limit. cbv zeta.
  repeat match goal with |- context [if ?c then _ else _] => destruct c end; try (exfalso; lra); try reflexivity.
  (* only reachable if the two sources write the comparison at the knee P = P_RAM_Z differently: both branches give 1e3 there *)
  all: assert (E : P = Z) by lra; rewrite E; replace (Z / Z) with 1 by (field; lra);
       unfold npow; destruct (Req_EM_T 1 0); [lra|]; rewrite !Rpower_base1; reflexivity.
Qed.

(* a half (open) hysteresis counts half *)
Theorem dc_half_counts_half N : dc_D false N = dc_D true N / 2.
Proof. unfold dc_D. unfold Rdiv. ring. Qed.

Lemma dc_N_pos Z d1 d2 P : 0 < Z -> 0 < P -> 0 < dc_N Z d1 d2 P.
Proof.
  intros HZ HP. unfold dc_N. assert (0 < P / Z) by (apply Rdiv_lt_0_compat; assumption).
  destruct (Rle_dec Z P); apply Rmult_lt_0_compat; try lra; apply npow_gt0; assumption.
Qed.

Lemma dc_D_pos c N : 0 < N -> 0 < dc_D c N.
Proof. intros H. unfold dc_D. destruct c; apply Rdiv_lt_0_compat; lra. Qed.
