(* C09, part 5 -- load safety factors gamma_L (FKM nonlinear 2.3.2) for the normal, log-normal and blanket case and the
   tabulated safety indices.  The functions fkm*_gamma_L / fkmload_get_beta are GENERATED from fkm_load_distribution.py on
   every run; the guideline formulas and the table are written here independently.
   beta (self._get_beta) and L_max (self.maximum_absolute_load, a pandas reduction) are parameters of the gamma_L models. *)
From Coq Require Import Reals Lra.
From PL Require Import Common.RPrelude Common.Cert.
From PLgen Require Import GenFKMLoadDistribution.
Open Scope R_scope.

(* decide np.isclose(a, b) on literals without any decision procedure beyond lra *)
Ltac close_dec H := unfold Rabs in H; repeat (let c := fresh in destruct (Rcase_abs _) as [c|c] in H; try lra); lra.
Ltac decide_close :=
  repeat match goal with
  | |- context [if Rle_dec ?a ?b then ?x else ?y] =>
      let H := fresh in destruct (Rle_dec a b) as [H|H];
      [first [exfalso; close_dec H | idtac] | first [exfalso; apply H; unfold Rabs; repeat destruct (Rcase_abs _); lra | idtac]]
  end.

(* equal up to the arrangement of the arithmetic (so that an algebraically equivalent rewrite of the source still checks) *)
Ltac close_eq := first [reflexivity | unfold Rdiv; ring | repeat f_equal; unfold Rdiv; ring | lra].

(* eq. (2.3-4), (2.3-5):  alpha_L = (0.7 beta - 2) s_L for P_L = 2.5 %,  0.7 beta s_L for P_L = 50 %;  gamma_L = (L_max + alpha_L) / L_max *)
Theorem gamma_L_normal s_L beta L_max :
  fkmnormal_gamma_L (5 / 2) s_L beta L_max = (L_max + (7 / 10 * beta - 2) * s_L) / L_max /\
  fkmnormal_gamma_L 50 s_L beta L_max = (L_max + 7 / 10 * beta * s_L) / L_max.
Proof. unfold fkmnormal_gamma_L. cbv zeta. split; decide_close; close_eq. Qed.

(* eq. (2.3-6), (2.3-7):  alpha_LSD likewise with LSD_s;  gamma_L = max(1, 10^alpha_LSD) *)
Theorem gamma_L_lognormal LSD_s beta :
  fkmlognormal_gamma_L LSD_s (5 / 2) beta = Rmax 1 (Rpower 10 ((7 / 10 * beta - 2) * LSD_s)) /\
  fkmlognormal_gamma_L LSD_s 50 beta = Rmax 1 (Rpower 10 (7 / 10 * beta * LSD_s)).
Proof. unfold fkmlognormal_gamma_L. cbv zeta. rewrite !npow_pos by lra. split; decide_close; close_eq. Qed.

Theorem gamma_L_lognormal_ge_1 LSD_s P_L beta : 1 <= fkmlognormal_gamma_L LSD_s P_L beta.
Proof. unfold fkmlognormal_gamma_L. cbv zeta. apply Rmax_l. Qed.

(* eq. (2.3-8) *)
Theorem gamma_L_blanket : fkmblanket_gamma_L (5 / 2) = 11 / 10 /\ fkmblanket_gamma_L 50 = 1.
Proof. unfold fkmblanket_gamma_L. cbv zeta. split; decide_close; close_eq. Qed.

(* safety in the direction of the load: with a non-negative scatter the 50 % factors are at least one *)
Theorem gamma_L_normal_ge_1 s_L beta L_max : 0 <= s_L -> 0 <= beta -> 0 < L_max -> 1 <= fkmnormal_gamma_L 50 s_L beta L_max.
Proof.
  intros Hs Hb HL. destruct (gamma_L_normal s_L beta L_max) as [_ ->].
  apply Rmult_le_reg_r with L_max; [assumption|]. unfold Rdiv. rewrite Rmult_assoc, Rinv_l by lra.
  assert (0 <= 7 / 10 * beta * s_L) by (apply Rmult_le_pos; lra). lra.
Qed.

(* the tabulated indices of the guideline (A. Fischer 2010) *)
Theorem get_beta_table :
  fkmload_get_beta (1 / 10 ^ 7) = 520 / 100 /\ fkmload_get_beta (1 / 10 ^ 6) = 475 / 100 /\
  fkmload_get_beta (1 / 10 ^ 5) = 427 / 100 /\ fkmload_get_beta (72 / 10 ^ 6) = 38 / 10 /\
  fkmload_get_beta (1 / 10 ^ 3) = 309 / 100 /\ fkmload_get_beta (23 / 100) = 739 / 1000 /\
  fkmload_get_beta (1 / 2) = 0.
Proof. unfold fkmload_get_beta. repeat split; decide_close; lra. Qed.
