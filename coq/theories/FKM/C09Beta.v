(* C09, part 4 -- the safety index beta of a failure probability P_A is the negative standard-normal quantile.
   compute_beta runs scipy.optimize.root on |Phi(x) - P_A| (a library solver: it enters as a Section variable
   with its contract; the contract is certified per sample on every run with CoqInterval's `integral`). *)
From Coq Require Import Reals Lra.
From Coquelicot Require Import Coquelicot.
From PL Require Import Common.RPrelude.
Open Scope R_scope.

Definition gauss (t : R) : R := exp (- t * t / 2).
(* standard normal distribution function *)
Definition Phi (x : R) : R := 1 / 2 + / sqrt (2 * PI) * RInt (fun t => exp (- t * t / 2)) 0 x.

Lemma gauss_continuous t : continuous (fun t => exp (- t * t / 2)) t.
Proof. apply (ex_derive_continuous (fun t => exp (- t * t / 2))). auto_derive. exact I. Qed.

Lemma gauss_integrable a b : ex_RInt (fun t => exp (- t * t / 2)) a b.
Proof. apply (ex_RInt_continuous (fun t => exp (- t * t / 2))). intros z _. apply gauss_continuous. Qed.

Lemma norm_const_pos : 0 < / sqrt (2 * PI).
Proof. apply Rinv_0_lt_compat, sqrt_lt_R0. pose proof PI_RGT_0. lra. Qed.

Lemma Phi_0 : Phi 0 = 1 / 2.
Proof. unfold Phi. rewrite RInt_point. unfold zero; simpl. lra. Qed.

Lemma Phi_diff x y : Phi y - Phi x = / sqrt (2 * PI) * RInt (fun t => exp (- t * t / 2)) x y.
Proof.
  unfold Phi.
  pose proof (RInt_Chasles (fun t => exp (- t * t / 2)) 0 x y (gauss_integrable 0 x) (gauss_integrable x y)) as C.
  unfold plus in C; simpl in C. rewrite <- C. ring.
Qed.

Theorem Phi_strictly_increasing x y : x < y -> Phi x < Phi y.
Proof.
  intros H. apply Rminus_gt_0_lt. rewrite Phi_diff. apply Rmult_lt_0_compat; [apply norm_const_pos|].
  apply RInt_gt_0; [assumption| |].
  - intros t _. apply exp_pos.
  - intros t _. apply gauss_continuous.
Qed.

Lemma Phi_injective x y : Phi x = Phi y -> x = y.
Proof.
  intros H. destruct (Rtotal_order x y) as [L|[E|L]]; [|assumption|];
    apply Phi_strictly_increasing in L; lra.
Qed.

Section ComputeBeta.
(* result.x[0] of scipy.optimize.root(lambda x: abs(norm.cdf(x, 0, sigma) - P_A), x0=-0.6, tol=1e-10), sigma = 1 *)
Variable root_of : R -> R.
Definition compute_beta (P_A : R) : R := let sigma := 1 in - root_of P_A / sigma.

(* contract of the solver: it returns a zero of x |-> |Phi(x) - P_A| *)
Hypothesis root_contract : forall P_A, 0 < P_A < 1 -> Rabs (Phi (root_of P_A) - P_A) = 0.

Theorem beta_is_quantile P_A : 0 < P_A < 1 ->
  Phi (- compute_beta P_A) = P_A /\ forall b, Phi (- b) = P_A -> b = compute_beta P_A.
Proof.
  intros HP. pose proof (root_contract P_A HP) as H.
  assert (E : Phi (root_of P_A) = P_A).
  { destruct (Req_dec (Phi (root_of P_A) - P_A) 0) as [Z|Z]; [lra|]. apply Rabs_no_R0 in Z. contradiction. }
  unfold compute_beta. cbv zeta. replace (- (- root_of P_A / 1)) with (root_of P_A) by field. split; [assumption|].
  intros b Hb. rewrite <- E in Hb. apply Phi_injective in Hb. rewrite <- Hb. field.
Qed.

(* for P_A <= 1/2 the index is non-negative, and beta(1/2) = 0 *)
Theorem beta_nonneg P_A : 0 < P_A <= 1 / 2 -> 0 <= compute_beta P_A.
Proof.
  intros HP. destruct (beta_is_quantile P_A ltac:(lra)) as [E _].
  destruct (Rle_dec 0 (compute_beta P_A)) as [|N]; [assumption|exfalso].
  assert (L : 0 < - compute_beta P_A) by lra. apply Phi_strictly_increasing in L. rewrite Phi_0 in L. lra.
Qed.
End ComputeBeta.

(* what a computed value with a small residual is worth: the quantile is unique, so two values with the same Phi agree;
   a strictly smaller / larger index has a strictly larger / smaller failure probability *)
Theorem beta_order b1 b2 : b1 < b2 -> Phi (- b2) < Phi (- b1).
Proof. intros H. apply Phi_strictly_increasing. lra. Qed.

(* the contract is satisfiable: the identity-like solver at P_A = 1/2 *)
Example root_contract_at_half : Rabs (Phi 0 - 1 / 2) = 0.
Proof. rewrite Phi_0. replace (1 / 2 - 1 / 2) with 0 by lra. apply Rabs_R0. Qed.
