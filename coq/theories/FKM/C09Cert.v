(* C09 -- goal shapes and preparation tactic of the per-run certificates (Rbar-valued curve functions, Rmax, Phi). *)
From Coq Require Import Reals Lra QArith Qabs.
From Coquelicot Require Import Coquelicot.
From Interval Require Import Tactic.
From PL Require Import Common.RPrelude Common.Cert.
Open Scope R_scope.

Definition rbar_near (x : Rbar) (v tol : R) : Prop := match x with Finite r => Rabs (r - v) <= tol | _ => False end.
Definition rbar_inf (x : Rbar) : Prop := x = p_infty.

(* comparisons of a literal with itself (points exactly at a knee) are decided syntactically *)
Ltac c09_eq_step :=
  match goal with
  | |- context [if Rle_dec ?a ?a then ?x else ?y] => rewrite (if_Rle_true a a _ x y) by apply Rle_refl
  | |- context [if Rlt_dec ?a ?a then ?x else ?y] => rewrite (if_Rlt_false a a _ x y) by apply Rle_refl
  end.

Ltac c09_prep :=
  cbv zeta; repeat c09_eq_step; repeat cert_step; unfold Rmax, Rmin; repeat cert_step;
  unfold rbar_near, rbar_inf; cbv beta iota; try reflexivity.

(* comparison of the executable accumulation model with implementation outputs *)
Definition qnear (a b tol : Q) : bool := Qle_bool (Qabs (a - b)) tol.
