(* C09, part 3b -- DamageCalculatorPRAM for SEVERAL assessment points at once.

   The collective of n points and k hystereses is one flat table ordered (hysteresis_index, assessment_point_index):
   block h = the rows of hysteresis h for the points 0 .. n-1, flat = concat blocks, row h * n + i belongs to point i.
     groupby("assessment_point_index")               = point_rows k n i flat      (rows i, n + i, 2 n + i, ...)
     per-point knee P_RAM_Z (a Series, one per point) = broadcast to the rows by tiling it once per hysteresis
                                                        (_initialize_P_RAM_Z_index; Assess/Layout.v: tile)
     columns N, D                                     = map2 f (broadcast knees) flat, f knee row element-wise
   Proved here:
     - grouping the flat table gives back the table of each point (point_rows_concat);
     - with the tiled knees, the rows of point i are computed with the knee of point i and nothing else
       (point_rows_tiled), hence the lifetime of point i in the batch is the accumulation of C09Accum on the table of
       point i with its own component curve (mp_lifetime_pointwise);
     - with each knee repeated k times instead (np.repeat) this is false (point_rows_repeated_refuted), and the
       mistake is invisible with a single hysteresis (rep_each_one) or equal knees (Layout.uniform_hides_layout):
       the harness therefore generates >= 2 hystereses and distinct knees.
   The multi-point accumulation mp_* is executable over Q (vm_compute correspondence with the implementation's D column). *)
From Coq Require Import QArith Qabs List Bool Arith Lia.
From PL Require Import Assess.Layout FKM.C09Accum.
Import ListNotations.
Open Scope nat_scope.

Section Rows.
  Context {A B C : Type}.

  Fixpoint map2 (f : A -> B -> C) (la : list A) (lb : list B) : list C :=
    match la, lb with
    | a :: ta, b :: tb => f a b :: map2 f ta tb
    | _, _ => []
    end.

  Lemma map2_length f la lb : length la = length lb -> length (map2 f la lb) = length la.
  Proof. revert lb. induction la; destruct lb; simpl; intros H; try discriminate; [reflexivity|]. f_equal. apply IHla. lia. Qed.

  Lemma map2_app f la la' lb lb' : length la = length lb ->
    map2 f (la ++ la') (lb ++ lb') = map2 f la lb ++ map2 f la' lb'.
  Proof.
    revert lb. induction la; destruct lb; simpl; intros H; try discriminate; [reflexivity|].
    f_equal. apply IHla. lia.
  Qed.

  Lemma nth_map2 f la lb i da db dc : i < length la -> length la = length lb ->
    nth i (map2 f la lb) dc = f (nth i la da) (nth i lb db).
  Proof.
    revert lb i. induction la; destruct lb; simpl; intros i Hi H; try discriminate; [lia|].
    destruct i; [reflexivity|]. apply IHla; lia.
  Qed.
End Rows.

Section Group.
  Context {A : Type}.

  (* the rows of point i: one out of every n, k of them *)
  Fixpoint point_rows (k n i : nat) (flat : list A) : list A :=
    match k with
    | O => []
    | S k' => match skipn i flat with
              | [] => []
              | x :: _ => x :: point_rows k' n i (skipn n flat)
              end
    end.

  Definition well_formed (n : nat) (blocks : list (list A)) : Prop := Forall (fun b => length b = n) blocks.

  Lemma skipn_app_le (l1 l2 : list A) i : i <= length l1 -> skipn i (l1 ++ l2) = skipn i l1 ++ l2.
  Proof. revert i. induction l1; intros [|i] H; simpl in *; try reflexivity; try lia. apply IHl1. lia. Qed.

  Lemma skipn_nth_cons (l : list A) i d : i < length l -> exists t, skipn i l = nth i l d :: t.
  Proof. revert i. induction l; intros [|i] H; simpl in *; try lia; [eexists; reflexivity|]. apply IHl. lia. Qed.

  (* grouping by point undoes the interleaving: the table of point i is row i of every block *)
  Lemma point_rows_concat (d : A) n i blocks : well_formed n blocks -> i < n ->
    point_rows (length blocks) n i (concat blocks) = map (fun b => nth i b d) blocks.
  Proof.
    intros W Hi. induction W as [|b bs Hb W IH]; simpl; [reflexivity|].
    rewrite skipn_app_le by lia.
    destruct (skipn_nth_cons b i d ltac:(lia)) as [t E]. rewrite E. simpl. f_equal.
    rewrite skipn_app_le by lia. replace (skipn n b) with (@nil A) by (rewrite <- Hb; symmetry; apply skipn_all). simpl. exact IH.
  Qed.

  Lemma concat_length_wf n blocks : well_formed n blocks -> length (concat blocks) = length blocks * n.
  Proof. induction 1; simpl; [reflexivity|]. rewrite app_length. lia. Qed.

  Lemma nth_concat_wf (d : A) n blocks h i : well_formed n blocks -> h < length blocks -> i < n ->
    nth (h * n + i) (concat blocks) d = nth i (nth h blocks []) d.
  Proof.
    intros W. revert h. induction W as [|b bs Hb W IH]; intros h Hh Hi; simpl in *; [lia|].
    destruct h; simpl.
    - rewrite app_nth1 by lia. reflexivity.
    - rewrite app_nth2 by lia. replace (n + h * n + i - length b) with (h * n + i) by lia. apply IH; lia.
  Qed.
End Group.

Section Broadcast.
  Context {K H V : Type}.
  Variable f : K -> H -> V.        (* knee of the row's point, row  |->  computed row (columns N, D) *)

  Lemma map2_tile_concat n (knees : list K) (blocks : list (list H)) : length knees = n -> well_formed n blocks ->
    map2 f (tile (length blocks) knees) (concat blocks) = concat (map (map2 f knees) blocks).
  Proof.
    intros Hk W. induction W as [|b bs Hb W IH]; simpl; [reflexivity|].
    rewrite map2_app by lia. f_equal. exact IH.
  Qed.

  (* tiled knees: the computed rows of point i are f (knee of point i) applied to the rows of point i *)
  Theorem point_rows_tiled (dz : K) (dr : H) n i knees blocks : length knees = n -> well_formed n blocks -> i < n ->
    point_rows (length blocks) n i (map2 f (tile (length blocks) knees) (concat blocks))
    = map (f (nth i knees dz)) (map (fun b => nth i b dr) blocks).
  Proof.
    intros Hk W Hi. rewrite (map2_tile_concat n) by assumption.
    assert (W' : well_formed n (map (map2 f knees) blocks)).
    { unfold well_formed in *. rewrite Forall_map. eapply Forall_impl; [|exact W]. intros b Hb. cbv beta in *. rewrite map2_length; lia. }
    destruct blocks as [|b0 bs]; [reflexivity|].
    assert (Hb0 : length b0 = n) by (inversion W; assumption).
    pose (dd := f dz dr).
    replace (length (b0 :: bs)) with (length (map (map2 f knees) (b0 :: bs))) by apply map_length.
    rewrite (point_rows_concat dd n i _ W' Hi). rewrite !map_map. apply map_ext_in.
    intros b Hb. unfold well_formed in W. rewrite Forall_forall in W. specialize (W b Hb).
    apply nth_map2; lia.
  Qed.

  (* the same statement by row number: row h * n + i carries the knee of point i *)
  Theorem row_tiled (dz : K) (dr : H) (dd : V) n h i knees blocks : length knees = n -> well_formed n blocks ->
    h < length blocks -> i < n ->
    nth (h * n + i) (map2 f (tile (length blocks) knees) (concat blocks)) dd
    = f (nth i knees dz) (nth i (nth h blocks []) dr).
  Proof.
    intros Hk W Hh Hi.
    rewrite (nth_map2 f _ _ _ dz dr).
    - subst n. rewrite nth_tile by assumption. rewrite (nth_concat_wf dr (length knees)) by assumption. reflexivity.
    - rewrite tile_length. subst n. nia.
    - rewrite tile_length, (concat_length_wf n) by assumption. subst n. reflexivity.
  Qed.
End Broadcast.

(* one hysteresis: tiling and repeating coincide, the layout mistake cannot show *)
Lemma rep_each_one {A} (z : list A) : rep_each 1 z = tile 1 z.
Proof. unfold rep_each. simpl. rewrite app_nil_r. induction z; simpl; [reflexivity|]. f_equal. exact IHz. Qed.

(* np.repeat instead of tile: two points, two hystereses -- the rows of point 0 are computed with (knee 0, knee 1) *)
Lemma point_rows_repeated_refuted :
  exists (knees : list nat) (blocks : list (list nat)) (n i : nat),
    length knees = n /\ well_formed n blocks /\ i < n /\
    point_rows (length blocks) n i (map2 pair (rep_each (length blocks) knees) (concat blocks))
    <> map (pair (nth i knees 0%nat)) (map (fun b => nth i b 0%nat) blocks).
Proof.
  exists [1; 2]%nat, [[10; 20]; [30; 40]]%nat, 2%nat, 0%nat. repeat split; try lia.
  - repeat constructor.
  - vm_compute. discriminate.
Qed.

(* ------------------------------------------------------------ accumulation per assessment point (executable over Q) *)
Open Scope Q_scope.

Definition mp_point (n k i : nat) (flat : list row) : list row := point_rows k n i flat.
Definition mp_n_until (n k : nat) (flat : list row) : list nat := map (fun i => n_until (mp_point n k i flat)) (seq 0 n).
Definition mp_n_times (n k : nat) (flat : list row) : list Q := map (fun i => n_times (mp_point n k i flat)) (seq 0 n).
Definition mp_n_cycles (n k : nat) (flat : list row) : list Q := map (fun i => n_cycles (mp_point n k i flat)) (seq 0 n).

(* a damage row of the batch: knee of the point, (P_RAM, closed, second pass) |-> (damage, second pass);
   dmg_of is the per-hysteresis damage on the curve with that knee (C09Damage.dc_D (dc_N knee ...) over R; any function here) *)
Section Lifetime.
  Context {Knee Hyst : Type}.
  Variable dmg_row : Knee -> Hyst -> row.
  Variables (dk : Knee) (dh : Hyst).

  Definition point_table (i : nat) (blocks : list (list Hyst)) : list Hyst := map (fun b => nth i b dh) blocks.
  Definition batch_rows (knees : list Knee) (blocks : list (list Hyst)) : list row :=
    map2 dmg_row (tile (length blocks) knees) (concat blocks).

  (* the lifetime of point i computed from the batch = the accumulation of the table of point i alone with its own knee *)
  Theorem mp_lifetime_pointwise n i knees blocks : length knees = n -> well_formed n blocks -> (i < n)%nat ->
    let alone := map (dmg_row (nth i knees dk)) (point_table i blocks) in
    nth i (mp_n_until n (length blocks) (batch_rows knees blocks)) O = n_until alone /\
    nth i (mp_n_times n (length blocks) (batch_rows knees blocks)) 0 = n_times alone /\
    nth i (mp_n_cycles n (length blocks) (batch_rows knees blocks)) 0 = n_cycles alone.
  Proof.
    intros Hk W Hi alone. unfold mp_n_until, mp_n_times, mp_n_cycles, mp_point, batch_rows.
    assert (E : point_rows (length blocks) n i (map2 dmg_row (tile (length blocks) knees) (concat blocks)) = alone)
      by (apply (point_rows_tiled dmg_row dk dh); assumption).
    repeat split.
    - rewrite (nth_indep _ O (n_until (point_rows (length blocks) n 0 (map2 dmg_row (tile (length blocks) knees) (concat blocks)))))
        by (rewrite map_length, seq_length; exact Hi).
      rewrite (map_nth (fun j => n_until (point_rows (length blocks) n j _)) (seq 0 n) 0%nat i), seq_nth by exact Hi.
      simpl. rewrite E. reflexivity.
    - rewrite (nth_indep _ 0 (n_times (point_rows (length blocks) n 0 (map2 dmg_row (tile (length blocks) knees) (concat blocks)))))
        by (rewrite map_length, seq_length; exact Hi).
      rewrite (map_nth (fun j => n_times (point_rows (length blocks) n j _)) (seq 0 n) 0%nat i), seq_nth by exact Hi.
      simpl. rewrite E. reflexivity.
    - rewrite (nth_indep _ 0 (n_cycles (point_rows (length blocks) n 0 (map2 dmg_row (tile (length blocks) knees) (concat blocks)))))
        by (rewrite map_length, seq_length; exact Hi).
      rewrite (map_nth (fun j => n_cycles (point_rows (length blocks) n j _)) (seq 0 n) 0%nat i), seq_nth by exact Hi.
      simpl. rewrite E. reflexivity.
  Qed.
End Lifetime.

(* two points, three hystereses (first pass: hysteresis 0): point 0 survives both passes, point 1 fails in hysteresis 1 *)
Example mp_two_points :
  let flat := [(1#8, false); (1#2, false);   (1#16, true); (1#2, true);   (1#8, true); (1#4, true)] in
  mp_n_until 2 3 flat = [3; 1]%nat /\ map Qred (mp_n_times 2 3 flat) = [17#3; 0] /\ map Qred (mp_n_cycles 2 3 flat) = [34#3; 1].
Proof. vm_compute. repeat split; reflexivity. Qed.

(* comparison of one point of the batch with implementation outputs (used by the per-run correspondence) *)
Definition mp_check (n k : nat) (flat : list row) (i : nat) (until : nat) (times tt cycles tc : Q) : bool :=
  let t := mp_point n k i flat in
  andb (Nat.eqb (n_until t) until)
       (andb (Qle_bool (Qabs (n_times t - times)) tt) (Qle_bool (Qabs (n_cycles t - cycles)) tc)).
