(* C09, part 1 -- the P_RAM and P_RAJ component Woehler curves.
   The models pram_*, praj_* are GENERATED from woehler_fkm_nonlinear.py on every run (PLgen.GenWoehlerFKMNonlinear);
   calc_N returns a Coquelicot Rbar (np.inf = p_infty). *)
From Coq Require Import Reals Lra.
From Coquelicot Require Import Coquelicot.
From PL Require Import Common.RPrelude.
From PLgen Require Import GenWoehlerFKMNonlinear.
Open Scope R_scope.

(* ---------------------------------------------------------------- power-law facts *)
Lemma Rpower_base1 d : Rpower 1 d = 1.
Proof. unfold Rpower. rewrite ln_1, Rmult_0_r. apply exp_0. Qed.

Lemma Rpower_inv_exp x d : 0 < x -> d <> 0 -> Rpower (Rpower x d) (1 / d) = x.
Proof. intros Hx Hd. rewrite Rpower_mult. replace (d * (1 / d)) with 1 by (field; assumption). apply Rpower_1; assumption. Qed.

Lemma Rpower_inv_exp' x d : 0 < x -> d <> 0 -> Rpower (Rpower x (1 / d)) d = x.
Proof. intros Hx Hd. rewrite Rpower_mult. replace (1 / d * d) with 1 by (field; assumption). apply Rpower_1; assumption. Qed.

Lemma Rpower_pos x d : 0 < Rpower x d.
Proof. unfold Rpower. apply exp_pos. Qed.

Lemma Rpower_neg_anti a b d : d < 0 -> 0 < a -> a < b -> Rpower b d < Rpower a d.
Proof.
  intros Hd Ha Hab. unfold Rpower. apply exp_increasing.
  assert (ln a < ln b) by (apply ln_increasing; assumption). nra.
Qed.

Lemma Rpower_neg_gt1 t d : d < 0 -> 0 < t -> t < 1 -> 1 < Rpower t d.
Proof. intros. rewrite <- (Rpower_base1 d). apply Rpower_neg_anti; assumption. Qed.

Lemma Rpower_neg_lt1 t d : d < 0 -> 1 < t -> Rpower t d < 1.
Proof. intros. pose proof (Rpower_neg_anti 1 t d). rewrite Rpower_base1 in H1. apply H1; lra. Qed.

Lemma inv_neg d : d < 0 -> 1 / d < 0.
Proof. intros. unfold Rdiv. rewrite Rmult_1_l. apply Rinv_lt_0_compat. assumption. Qed.

Lemma Rpower_neg_anti_inv a b d : d < 0 -> 0 < a -> 0 < b -> Rpower b d < Rpower a d -> a < b.
Proof.
  intros Hd Ha Hb H. destruct (Rlt_dec a b) as [|N]; [assumption|exfalso].
  destruct (Req_dec a b) as [->|Hne]; [lra|].
  assert (b < a) by lra. pose proof (Rpower_neg_anti b a d Hd Hb H0). lra.
Qed.

Ltac if_true := match goal with |- context [if ?c then _ else _] => destruct c as [?|?]; [|exfalso; try lra] end.
Ltac split_ifs := repeat match goal with |- context [if ?c then _ else _] => destruct c end.
Ltac if_false := match goal with |- context [if ?c then _ else _] => destruct c as [?|?]; [exfalso; try lra|] end.

(* a function glued from g (left of a) and h (right of a) that agree at a is continuous at a *)
Lemma continuous_glue (f g h : R -> R) (a : R) :
  (locally a (fun x => x < a -> f x = g x)) -> (locally a (fun x => a <= x -> f x = h x)) ->
  g a = h a -> continuous g a -> continuous h a -> continuous f a.
Proof.
  intros [e1 H1] [e2 H2] Hgh Cg Ch.
  assert (Hfa : f a = h a) by (apply H2; [apply ball_center|lra]).
  unfold continuous in *. apply filterlim_locally. intros eps.
  pose proof (proj1 (filterlim_locally g (g a)) Cg eps) as [dg Hg].
  pose proof (proj1 (filterlim_locally h (h a)) Ch eps) as [dh Hh].
  assert (Hd : 0 < Rmin (Rmin e1 e2) (Rmin dg dh)).
  { repeat apply Rmin_pos; [apply e1|apply e2|apply dg|apply dh]. }
  exists (mkposreal _ Hd). intros y Hy.
  assert (B : forall d : posreal, Rmin (Rmin e1 e2) (Rmin dg dh) <= d -> ball a d y).
  { intros d Hle. eapply ball_le; [exact Hle|exact Hy]. }
  rewrite Hfa.
  destruct (Rlt_dec y a) as [L|L].
  - rewrite (H1 y); [|apply B; eapply Rle_trans; [apply Rmin_l|apply Rmin_l]|assumption].
    rewrite <- Hgh. apply Hg. apply B. eapply Rle_trans; [apply Rmin_r|apply Rmin_l].
  - rewrite (H2 y); [|apply B; eapply Rle_trans; [apply Rmin_l|apply Rmin_r]|lra].
    apply Hh. apply B. eapply Rle_trans; [apply Rmin_r|apply Rmin_r].
Qed.

Lemma continuous_ext_locally (f g : R -> R) (a : R) :
  locally a (fun x => f x = g x) -> continuous g a -> continuous f a.
Proof.
  intros H C. apply (continuous_glue f g g a); try assumption; try reflexivity.
  - destruct H as [e H]. exists e. intros y Hy _. apply H, Hy.
  - destruct H as [e H]. exists e. intros y Hy _. apply H, Hy.
Qed.

Lemma continuous_powerlaw Z c d x : 0 < c -> 0 < x -> continuous (fun n => Z * Rpower (n * c) d) x.
Proof.
  intros Hc Hx. apply (ex_derive_continuous (fun n => Z * Rpower (n * c) d)). unfold Rpower.
  auto_derive. nra.
Qed.

Lemma locally_lt a b : a < b -> locally a (fun x => x < b).
Proof.
  intros H. assert (Hp : 0 < b - a) by lra. exists (mkposreal _ Hp). intros y Hy.
  unfold ball in Hy; simpl in Hy; unfold AbsRing_ball, abs, minus, plus, opp in Hy; simpl in Hy.
  apply Rabs_def2 in Hy. lra.
Qed.
Lemma locally_gt a b : b < a -> locally a (fun x => b < x).
Proof.
  intros H. assert (Hp : 0 < a - b) by lra. exists (mkposreal _ Hp). intros y Hy.
  unfold ball in Hy; simpl in Hy; unfold AbsRing_ball, abs, minus, plus, opp in Hy; simpl in Hy.
  apply Rabs_def2 in Hy. lra.
Qed.

(* ================================================================ P_RAM curve *)
Section PRAM.
Variables Z D d1 d2 : R.
Hypothesis HD : 0 < D.
Hypothesis HZ : D < Z.
Hypothesis H1 : d1 < 0.
Hypothesis H2 : d2 < 0.

Let ND := pram_fatigue_life_limit Z D d1 d2.
Let calcN := pram_calc_N Z D d1 d2.
Let calcP := pram_calc_P_RAM Z D d1 d2.
Set Default Proof Using "HD HZ H1 H2".

Lemma pram_ND_eq : ND = 1000 * Rpower (D / Z) (1 / d2).
Proof.
  unfold ND, pram_fatigue_life_limit. rewrite npow_pos; [reflexivity|].
  apply Rdiv_lt_0_compat; lra.
Qed.

Lemma pram_ND_gt_1000 : 1000 < ND.
Proof.
  rewrite pram_ND_eq. assert (0 < D / Z) by (apply Rdiv_lt_0_compat; lra).
  assert (D / Z < 1) by (apply Rmult_lt_reg_r with Z; [lra|]; unfold Rdiv; rewrite Rmult_assoc, Rinv_l; lra).
  pose proof (Rpower_neg_gt1 (D / Z) (1 / d2) (inv_neg d2 H2) H H0). lra.
Qed.

(* the value of the curve at the endurance knee is the endurance value *)
Lemma pram_P_at_ND : Z * Rpower (ND * (1 / 1000)) d2 = D.
Proof.
  rewrite pram_ND_eq. replace (1000 * Rpower (D / Z) (1 / d2) * (1 / 1000)) with (Rpower (D / Z) (1 / d2)) by field.
  rewrite Rpower_inv_exp'; [field; lra| apply Rdiv_lt_0_compat; lra | lra].
Qed.

(* explicit branch descriptions of the generated functions.  The proofs do not depend on how the source writes the branch
   conditions at the two knees (`>=` or `>` at P_RAM_Z, `<` or `<=` at N = 1e3 and at N_D): there both branches agree. *)
Ltac pram_open :=
  pose proof pram_ND_gt_1000 as HND; pose proof pram_P_at_ND as HPD;
  assert (Hq : 0 < D / Z) by (apply Rdiv_lt_0_compat; lra);
  unfold calcP, calcN, ND, pram_calc_P_RAM, pram_calc_N, pram_fatigue_life_limit, pram_fatigue_strength_limit in *; cbv zeta in *;
  rewrite ?(npow_pos (D / Z)) in * by assumption.

Lemma pram_calcP_low N : 0 < N -> N < 1000 -> calcP N = Z * Rpower (N * (1 / 1000)) d1.
Proof.
  intros H0 Hlt. pram_open. split_ifs; try (exfalso; lra); rewrite ?npow_pos by lra; reflexivity.
Qed.

Lemma pram_calcP_mid N : 1000 <= N -> N < ND -> calcP N = Z * Rpower (N * (1 / 1000)) d2.
Proof.
  intros H0 Hlt. pram_open. split_ifs; try (exfalso; lra); rewrite ?npow_pos by lra; try reflexivity.
  (* only reachable if the source takes the d_1 branch at N = 1e3 itself *)
  all: assert (E : N = 1000) by lra; rewrite E; replace (1000 * (1 / 1000)) with 1 by field; rewrite !Rpower_base1; reflexivity.
Qed.

Lemma pram_calcP_high N : ND <= N -> calcP N = D.
Proof.
  intros H0. pram_open. split_ifs; try (exfalso; lra); try reflexivity.
  (* only reachable if the source takes the sloped branch at N = N_D itself *)
  all: rewrite ?npow_pos by lra; assert (E : N = 1000 * Rpower (D / Z) (1 / d2)) by lra; rewrite E; exact HPD.
Qed.

Lemma pram_calcN_high P : Z <= P -> calcN P = Finite (1000 * Rpower (P / Z) (1 / d1)).
Proof.
  intros HP. assert (0 < P / Z) by (apply Rdiv_lt_0_compat; lra). pram_open.
  split_ifs; try (exfalso; lra); rewrite ?npow_pos by assumption; try reflexivity.
  all: assert (E : P = Z) by lra; rewrite E; replace (Z / Z) with 1 by (field; lra); rewrite !Rpower_base1; reflexivity.
Qed.

Lemma pram_calcN_mid P : D < P -> P < Z -> calcN P = Finite (1000 * Rpower (P / Z) (1 / d2)).
Proof.
  intros HP HPZ. assert (0 < P / Z) by (apply Rdiv_lt_0_compat; lra). pram_open.
  split_ifs; try (exfalso; lra); rewrite ?npow_pos by assumption; reflexivity.
Qed.

(* infinite at and below the endurance value, finite above *)
Lemma pram_infinite_at_and_below_limit P : P <= D -> calcN P = p_infty.
Proof. intros HP. pram_open. split_ifs; try (exfalso; lra); reflexivity. Qed.

Lemma pram_finite_above_limit P : D < P -> exists n, calcN P = Finite n /\ 0 < n < ND.
Proof.
  intros HP. destruct (Rle_dec Z P) as [HZP|HZP].
  - exists (1000 * Rpower (P / Z) (1 / d1)). split; [apply pram_calcN_high; assumption|].
    pose proof (Rpower_pos (P / Z) (1 / d1)). pose proof pram_ND_gt_1000.
    assert (Rpower (P / Z) (1 / d1) <= 1).
    { destruct (Req_dec P Z) as [->|Hne].
      - replace (Z / Z) with 1 by (field; lra). rewrite Rpower_base1. lra.
      - left. apply Rpower_neg_lt1; [apply inv_neg; assumption|].
        apply Rmult_lt_reg_r with Z; [lra|]. unfold Rdiv. rewrite Rmult_assoc, Rinv_l; lra. }
    lra.
  - assert (HPZ : P < Z) by lra. exists (1000 * Rpower (P / Z) (1 / d2)). split; [apply pram_calcN_mid; assumption|].
    pose proof (Rpower_pos (P / Z) (1 / d2)). split; [lra|]. rewrite pram_ND_eq.
    apply Rmult_lt_compat_l; [lra|]. apply Rpower_neg_anti; [apply inv_neg; assumption|apply Rdiv_lt_0_compat; lra|].
    unfold Rdiv. apply Rmult_lt_compat_r; [apply Rinv_0_lt_compat; lra|assumption].
Qed.

(* cycles-for-parameter after parameter-for-cycles is the identity on the finite-life range *)
Lemma pram_calc_N_of_calc_P N : 0 < N -> N < ND -> calcN (calcP N) = Finite N.
Proof.
  intros H0 Hlt. destruct (Rlt_dec N 1000) as [L|L].
  - rewrite pram_calcP_low by assumption.
    assert (Ht : 0 < N * (1 / 1000) < 1) by lra.
    pose proof (Rpower_neg_gt1 _ d1 H1 (proj1 Ht) (proj2 Ht)).
    rewrite pram_calcN_high by nra.
    replace (Z * Rpower (N * (1 / 1000)) d1 / Z) with (Rpower (N * (1 / 1000)) d1) by (field; lra).
    rewrite Rpower_inv_exp by lra. f_equal. field.
  - assert (L' : 1000 <= N) by lra. rewrite pram_calcP_mid by assumption.
    destruct (Req_dec N 1000) as [->|Hne].
    + replace (1000 * (1 / 1000)) with 1 by field. rewrite Rpower_base1, Rmult_1_r.
      rewrite pram_calcN_high by lra. replace (Z / Z) with 1 by (field; lra). rewrite Rpower_base1. f_equal. lra.
    + assert (Ht : 1 < N * (1 / 1000)) by lra.
      pose proof (Rpower_neg_lt1 _ d2 H2 Ht). pose proof (Rpower_pos (N * (1 / 1000)) d2).
      assert (HPD : D < Z * Rpower (N * (1 / 1000)) d2).
      { rewrite <- pram_P_at_ND. apply Rmult_lt_compat_l; [lra|]. apply Rpower_neg_anti; [assumption|lra|lra]. }
      rewrite pram_calcN_mid by nra.
      replace (Z * Rpower (N * (1 / 1000)) d2 / Z) with (Rpower (N * (1 / 1000)) d2) by (field; lra).
      rewrite Rpower_inv_exp by lra. f_equal. field.
Qed.

(* parameter-for-cycles after cycles-for-parameter is the identity above the endurance value *)
Lemma pram_calc_P_of_calc_N P n : D < P -> calcN P = Finite n -> calcP n = P.
Proof.
  intros HP Hn. destruct (Rle_dec Z P) as [HZP|HZP].
  - rewrite pram_calcN_high in Hn by assumption. injection Hn as <-.
    pose proof (Rpower_pos (P / Z) (1 / d1)).
    destruct (Req_dec P Z) as [->|Hne].
    + replace (Z / Z) with 1 by (field; lra). rewrite Rpower_base1, Rmult_1_r.
      pose proof pram_ND_gt_1000. rewrite pram_calcP_mid by lra.
      replace (1000 * (1 / 1000)) with 1 by field. rewrite Rpower_base1. lra.
    + assert (Hq : 1 < P / Z) by (apply Rmult_lt_reg_r with Z; [lra|]; unfold Rdiv; rewrite Rmult_assoc, Rinv_l; lra).
      pose proof (Rpower_neg_lt1 _ (1 / d1) (inv_neg d1 H1) Hq).
      rewrite pram_calcP_low by lra.
      replace (1000 * Rpower (P / Z) (1 / d1) * (1 / 1000)) with (Rpower (P / Z) (1 / d1)) by field.
      rewrite Rpower_inv_exp' by lra. field. lra.
  - assert (HPZ : P < Z) by lra. rewrite pram_calcN_mid in Hn by assumption. injection Hn as <-.
    assert (Hq : 0 < P / Z < 1).
    { split; [apply Rdiv_lt_0_compat; lra|]. apply Rmult_lt_reg_r with Z; [lra|]. unfold Rdiv. rewrite Rmult_assoc, Rinv_l; lra. }
    pose proof (Rpower_neg_gt1 _ (1 / d2) (inv_neg d2 H2) (proj1 Hq) (proj2 Hq)).
    assert (1000 * Rpower (P / Z) (1 / d2) < ND).
    { rewrite pram_ND_eq. apply Rmult_lt_compat_l; [lra|]. apply Rpower_neg_anti; [apply inv_neg; assumption|apply Rdiv_lt_0_compat; lra|].
      unfold Rdiv. apply Rmult_lt_compat_r; [apply Rinv_0_lt_compat; lra|assumption]. }
    rewrite pram_calcP_mid by lra.
    replace (1000 * Rpower (P / Z) (1 / d2) * (1 / 1000)) with (Rpower (P / Z) (1 / d2)) by field.
    rewrite Rpower_inv_exp' by lra. field. lra.
Qed.

(* strictly decreasing in the finite-life range: parameter-for-cycles ... *)
Lemma pram_calc_P_strictly_decreasing N1 N2 : 0 < N1 -> N1 < N2 -> N2 <= ND -> calcP N2 < calcP N1.
Proof.
  intros H0 H12 HN2.
  assert (P2 : calcP N2 = Z * Rpower (N2 * (1 / 1000)) (if Rlt_dec N2 1000 then d1 else d2)).
  { destruct (Rlt_dec N2 1000); [apply pram_calcP_low; lra|].
    destruct (Req_dec N2 ND) as [->|]; [rewrite pram_calcP_high by lra; symmetry; apply pram_P_at_ND|apply pram_calcP_mid; lra]. }
  assert (P1 : calcP N1 = Z * Rpower (N1 * (1 / 1000)) (if Rlt_dec N1 1000 then d1 else d2)).
  { destruct (Rlt_dec N1 1000); [apply pram_calcP_low; lra|apply pram_calcP_mid; lra]. }
  rewrite P1, P2. apply Rmult_lt_compat_l; [lra|].
  destruct (Rlt_dec N1 1000) as [A|A], (Rlt_dec N2 1000) as [B|B]; try lra.
  - apply Rpower_neg_anti; lra.
  - assert (Ht : 0 < N1 * (1 / 1000) < 1) by lra.
    pose proof (Rpower_neg_gt1 _ d1 H1 (proj1 Ht) (proj2 Ht)).
    destruct (Req_dec N2 1000) as [->|]; [replace (1000 * (1 / 1000)) with 1 by field; rewrite Rpower_base1; lra|].
    assert (Hgt : 1 < N2 * (1 / 1000)) by lra. pose proof (Rpower_neg_lt1 _ d2 H2 Hgt). lra.
  - apply Rpower_neg_anti; lra.
Qed.

(* ... and cycles-for-parameter *)
Lemma pram_calc_N_strictly_decreasing P1 P2 n1 n2 :
  D < P1 -> P1 < P2 -> calcN P1 = Finite n1 -> calcN P2 = Finite n2 -> n2 < n1.
Proof.
  intros HP1 H12 E1 E2.
  destruct (pram_finite_above_limit P1 HP1) as [m1 [F1 B1]]. rewrite F1 in E1. injection E1 as <-.
  assert (HP2 : D < P2) by lra.
  destruct (pram_finite_above_limit P2 HP2) as [m2 [F2 B2]]. rewrite F2 in E2. injection E2 as <-.
  destruct (Rlt_dec m2 m1) as [|N]; [assumption|exfalso].
  pose proof (pram_calc_P_of_calc_N P1 m1 HP1 F1). pose proof (pram_calc_P_of_calc_N P2 m2 HP2 F2).
  destruct (Req_dec m1 m2) as [E|E]; [subst; lra|].
  assert (Hm : m1 < m2) by lra.
  pose proof (pram_calc_P_strictly_decreasing m1 m2 (proj1 B1) Hm (Rlt_le _ _ (proj2 B2))). lra.
Qed.

(* continuity of parameter-for-cycles: at the knee N = 1e3, at the endurance knee, everywhere on N > 0 *)
Lemma pram_continuous_at_1e3 : continuous calcP 1000.
Proof.
  pose proof pram_ND_gt_1000.
  apply (continuous_glue calcP (fun n => Z * Rpower (n * (1 / 1000)) d1) (fun n => Z * Rpower (n * (1 / 1000)) d2) 1000).
  - generalize (locally_gt 1000 0 ltac:(lra)). apply filter_imp. intros x Hx Hlt. apply pram_calcP_low; assumption.
  - generalize (locally_lt 1000 ND H). apply filter_imp. intros x Hx Hle. apply pram_calcP_mid; assumption.
  - replace (1000 * (1 / 1000)) with 1 by field. rewrite !Rpower_base1. reflexivity.
  - apply continuous_powerlaw; lra.
  - apply continuous_powerlaw; lra.
Qed.

Lemma pram_continuous_at_endurance_knee : continuous calcP ND.
Proof.
  pose proof pram_ND_gt_1000.
  apply (continuous_glue calcP (fun n => Z * Rpower (n * (1 / 1000)) d2) (fun _ => D) ND).
  - generalize (locally_gt ND 1000 H). apply filter_imp. intros x Hx Hlt. apply pram_calcP_mid; lra.
  - apply filter_forall. intros x Hx. apply pram_calcP_high; assumption.
  - apply pram_P_at_ND.
  - apply continuous_powerlaw; lra.
  - apply continuous_const.
Qed.

Lemma pram_calc_P_continuous N : 0 < N -> continuous calcP N.
Proof.
  intros H0. pose proof pram_ND_gt_1000.
  destruct (Rtotal_order N 1000) as [L|[->|L]]; [|apply pram_continuous_at_1e3|].
  - apply (continuous_ext_locally _ (fun n => Z * Rpower (n * (1 / 1000)) d1)); [|apply continuous_powerlaw; lra].
    generalize (filter_and _ _ (locally_gt N 0 H0) (locally_lt N 1000 L)). apply filter_imp.
    intros x [A B]. apply pram_calcP_low; assumption.
  - destruct (Rtotal_order N ND) as [L2|[->|L2]]; [|apply pram_continuous_at_endurance_knee|].
    + apply (continuous_ext_locally _ (fun n => Z * Rpower (n * (1 / 1000)) d2)); [|apply continuous_powerlaw; lra].
      generalize (filter_and _ _ (locally_gt N 1000 L) (locally_lt N ND L2)). apply filter_imp.
      intros x [A B]. apply pram_calcP_mid; lra.
    + apply (continuous_ext_locally _ (fun _ => D)); [|apply continuous_const].
      generalize (locally_gt N ND L2). apply filter_imp. intros x A. apply pram_calcP_high; lra.
Qed.

(* continuity of cycles-for-parameter at the knee P_RAM_Z (value 1e3 from both sides) *)
Lemma pram_calc_N_continuous_at_Z : continuous (fun P => real (calcN P)) Z.
Proof.
  apply (continuous_glue _ (fun p => 1000 * Rpower (p * (1 / Z)) (1 / d2)) (fun p => 1000 * Rpower (p * (1 / Z)) (1 / d1)) Z).
  - generalize (locally_gt Z D HZ). apply filter_imp. intros x Hx Hlt. rewrite pram_calcN_mid by assumption. simpl.
    f_equal. f_equal. unfold Rdiv. ring.
  - apply filter_forall. intros x Hx. rewrite pram_calcN_high by assumption. simpl. f_equal. f_equal. unfold Rdiv. ring.
  - replace (Z * (1 / Z)) with 1 by (field; lra). rewrite !Rpower_base1. reflexivity.
  - apply continuous_powerlaw; [|lra]. apply Rdiv_lt_0_compat; lra.
  - apply continuous_powerlaw; [|lra]. apply Rdiv_lt_0_compat; lra.
Qed.

Lemma pram_knee_values : calcN Z = Finite 1000 /\ calcP 1000 = Z /\ calcP ND = D.
Proof.
  pose proof pram_ND_gt_1000. split; [|split].
  - rewrite pram_calcN_high by lra. replace (Z / Z) with 1 by (field; lra). rewrite Rpower_base1. f_equal. lra.
  - rewrite pram_calcP_mid by lra. replace (1000 * (1 / 1000)) with 1 by field. rewrite Rpower_base1. lra.
  - apply pram_calcP_high. lra.
Qed.
End PRAM.
Unset Default Proof Using.

(* ================================================================ P_RAJ curve *)
Section PRAJ.
Variables Z D d : R.
Hypothesis HD : 0 < D.
Hypothesis HZ : D < Z.
Hypothesis Hd : d < 0.

Let ND := praj_fatigue_life_limit Z D d.
Let calcN := praj_calc_N Z D d.
Let calcP := praj_calc_P_RAJ Z D d.
Set Default Proof Using "HD HZ Hd".

Lemma praj_q : 0 < D / Z < 1.
Proof. split; [apply Rdiv_lt_0_compat; lra|]. apply Rmult_lt_reg_r with Z; [lra|]. unfold Rdiv. rewrite Rmult_assoc, Rinv_l; lra. Qed.

Lemma praj_ND_eq : ND = Rpower (D / Z) (1 / d).
Proof. unfold ND, praj_fatigue_life_limit. cbv zeta. rewrite npow_pos; [reflexivity|apply praj_q]. Qed.

Lemma praj_ND_gt_1 : 1 < ND.
Proof. rewrite praj_ND_eq. apply Rpower_neg_gt1; [apply inv_neg; assumption|apply praj_q|apply praj_q]. Qed.

Lemma praj_P_at_ND : Z * Rpower ND d = D.
Proof. rewrite praj_ND_eq, Rpower_inv_exp'; [field; lra|apply praj_q|lra]. Qed.

Ltac praj_open :=
  pose proof praj_ND_gt_1 as HND; pose proof praj_P_at_ND as HPD; pose proof praj_q as Hq;
  unfold calcP, calcN, ND, praj_calc_P_RAJ, praj_calc_N, praj_fatigue_life_limit, praj_fatigue_strength_limit in *; cbv zeta in *;
  rewrite ?(npow_pos (D / Z)) in * by apply Hq.

Lemma praj_calcP_low N : 0 < N -> N < ND -> calcP N = Z * Rpower N d.
Proof.
  intros H0 Hlt. praj_open. split_ifs; try (exfalso; lra); rewrite ?npow_pos by lra; reflexivity.
Qed.

Lemma praj_calcP_high N : ND <= N -> calcP N = D.
Proof.
  intros H0. praj_open. split_ifs; try (exfalso; lra); try reflexivity.
  all: rewrite ?npow_pos by lra; assert (E : N = Rpower (D / Z) (1 / d)) by lra; rewrite E; exact HPD.
Qed.

Lemma praj_calcN_above P : D < P -> calcN P = Finite (Rpower (P / Z) (1 / d)).
Proof.
  intros HP. assert (0 < P / Z) by (apply Rdiv_lt_0_compat; lra). praj_open.
  split_ifs; try (exfalso; lra); rewrite ?npow_pos by assumption; reflexivity.
Qed.

Lemma praj_infinite_at_and_below_limit P : P <= D -> calcN P = p_infty.
Proof. intros HP. praj_open. split_ifs; try (exfalso; lra); reflexivity. Qed.

Lemma praj_finite_above_limit P : D < P -> exists n, calcN P = Finite n /\ 0 < n < ND.
Proof.
  intros HP. exists (Rpower (P / Z) (1 / d)). split; [apply praj_calcN_above; assumption|].
  split; [apply Rpower_pos|]. rewrite praj_ND_eq. apply Rpower_neg_anti; [apply inv_neg; assumption|apply praj_q|].
  unfold Rdiv. apply Rmult_lt_compat_r; [apply Rinv_0_lt_compat; lra|assumption].
Qed.

Lemma praj_calc_N_of_calc_P N : 0 < N -> N < ND -> calcN (calcP N) = Finite N.
Proof.
  intros H0 Hlt. rewrite praj_calcP_low by assumption.
  assert (D < Z * Rpower N d).
  { rewrite <- praj_P_at_ND. apply Rmult_lt_compat_l; [lra|]. apply Rpower_neg_anti; assumption. }
  rewrite praj_calcN_above by assumption.
  replace (Z * Rpower N d / Z) with (Rpower N d) by (field; lra). rewrite Rpower_inv_exp by lra. reflexivity.
Qed.

Lemma praj_calc_P_of_calc_N P n : D < P -> calcN P = Finite n -> calcP n = P.
Proof.
  intros HP Hn. destruct (praj_finite_above_limit P HP) as [m [F B]]. rewrite F in Hn. injection Hn as <-.
  rewrite praj_calcN_above in F by assumption. injection F as <-.
  rewrite praj_calcP_low by apply B. rewrite Rpower_inv_exp'; [field; lra|apply Rdiv_lt_0_compat; lra|lra].
Qed.

Lemma praj_calc_P_strictly_decreasing N1 N2 : 0 < N1 -> N1 < N2 -> N2 <= ND -> calcP N2 < calcP N1.
Proof.
  intros H0 H12 HN2. rewrite (praj_calcP_low N1) by lra.
  assert (P2 : calcP N2 = Z * Rpower N2 d).
  { destruct (Req_dec N2 ND) as [->|]; [rewrite praj_calcP_high by lra; symmetry; apply praj_P_at_ND|apply praj_calcP_low; lra]. }
  rewrite P2. apply Rmult_lt_compat_l; [lra|]. apply Rpower_neg_anti; lra.
Qed.

Lemma praj_calc_N_strictly_decreasing P1 P2 n1 n2 :
  D < P1 -> P1 < P2 -> calcN P1 = Finite n1 -> calcN P2 = Finite n2 -> n2 < n1.
Proof.
  intros HP1 H12 E1 E2. rewrite praj_calcN_above in E1, E2 by lra. injection E1 as <-. injection E2 as <-.
  apply Rpower_neg_anti; [apply inv_neg; assumption|apply Rdiv_lt_0_compat; lra|].
  unfold Rdiv. apply Rmult_lt_compat_r; [apply Rinv_0_lt_compat; lra|assumption].
Qed.

Lemma continuous_powerlaw1 c e x : 0 < x -> continuous (fun n => c * Rpower n e) x.
Proof.
  intros Hx. apply (ex_derive_continuous (fun n => c * Rpower n e)). unfold Rpower. auto_derive. assumption.
Qed.

Lemma praj_continuous_at_endurance_knee : continuous calcP ND.
Proof.
  pose proof praj_ND_gt_1.
  apply (continuous_glue calcP (fun n => Z * Rpower n d) (fun _ => D) ND).
  - generalize (locally_gt ND 0 ltac:(lra)). apply filter_imp. intros x Hx Hlt. apply praj_calcP_low; lra.
  - apply filter_forall. intros x Hx. apply praj_calcP_high; assumption.
  - apply praj_P_at_ND.
  - apply continuous_powerlaw1; lra.
  - apply continuous_const.
Qed.

Lemma praj_calc_P_continuous N : 0 < N -> continuous calcP N.
Proof.
  intros H0. pose proof praj_ND_gt_1.
  destruct (Rtotal_order N ND) as [L2|[->|L2]]; [|apply praj_continuous_at_endurance_knee|].
  - apply (continuous_ext_locally _ (fun n => Z * Rpower n d)); [|apply continuous_powerlaw1; lra].
    generalize (filter_and _ _ (locally_gt N 0 H0) (locally_lt N ND L2)). apply filter_imp.
    intros x [A B]. apply praj_calcP_low; lra.
  - apply (continuous_ext_locally _ (fun _ => D)); [|apply continuous_const].
    generalize (locally_gt N ND L2). apply filter_imp. intros x A. apply praj_calcP_high; lra.
Qed.

(* cycles-for-parameter is continuous above the endurance value *)
Lemma praj_calc_N_continuous P : D < P -> continuous (fun p => real (calcN p)) P.
Proof.
  intros HP. apply (continuous_ext_locally _ (fun p => 1 * Rpower (p * (1 / Z)) (1 / d))).
  - generalize (locally_gt P D HP). apply filter_imp. intros x Hx. rewrite praj_calcN_above by assumption. simpl.
    rewrite Rmult_1_l. f_equal. unfold Rdiv. ring.
  - apply continuous_powerlaw; [apply Rdiv_lt_0_compat; lra|lra].
Qed.

(* with an explicitly given endurance value the same power law is used *)
Lemma prajx_calc_N_given_limit P PD : prajx_calc_N Z D d P PD = if Rlt_dec PD P then Finite (npow (P / Z) (1 / d)) else p_infty.
Proof. reflexivity. Qed.
Lemma prajx_calc_N_default P : prajx_calc_N Z D d P D = calcN P.
Proof. reflexivity. Qed.
End PRAJ.
Unset Default Proof Using.

(* the hypotheses are satisfiable (guideline example 2.7.1 rounded) *)
Example pram_hypotheses_satisfiable : 0 < 150 /\ 150 < 437 /\ -302/1000 < 0 /\ -197/1000 < 0.
Proof. lra. Qed.
