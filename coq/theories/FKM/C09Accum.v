(* C09, part 3 -- DamageCalculatorPRAM: damage accumulation over a hysteresis table (hand-written model, executable over Q).
   A table is a list of rows (D, second) : D the damage of the hysteresis (1/N for a closed one, 0.5/N for a half one,
   see C09Damage.dc_D), second = true iff run_index == 2.  Table order = order of the collective (first pass, then second).
     cumulative_damage   = running sums                       (groupby(...).cumsum())
     n_cycles_until_dmg  = np.searchsorted(cumsum, 1)         (first index whose running sum is >= 1; len if none)
     x                   = where(D_1 == 0, 1/D_2, (1-D_1)/D_2)
     n_times             = where(n_until < H, 0, x + 1)
     n_cycles            = where(n_until < H, n_until, (x + 1) * H_2)                                               *)
From Coq Require Import QArith Qabs List Bool Arith Lia Lqa.
Import ListNotations.
Open Scope Q_scope.

Definition sumQ (l : list Q) : Q := fold_right Qplus 0 l.

(* np.searchsorted(np.cumsum(l) + acc, 1) on a non-decreasing running sum *)
Fixpoint first_reach (acc : Q) (l : list Q) : nat :=
  match l with
  | [] => O
  | d :: t => if Qlt_le_dec (acc + d) 1 then S (first_reach (acc + d) t) else O
  end.

Definition row := (Q * bool)%type.
Definition dmg (r : row) : Q := fst r.
Definition second (r : row) : bool := snd r.

Definition pass1 (rows : list row) : list Q := map dmg (filter (fun r => negb (second r)) rows).
Definition pass2 (rows : list row) : list Q := map dmg (filter second rows).
Definition D1 rows := sumQ (pass1 rows).
Definition D2 rows := sumQ (pass2 rows).
Definition Hn (rows : list row) : nat := length rows.
Definition H2n (rows : list row) : nat := length (pass2 rows).
Definition n_until (rows : list row) : nat := first_reach 0 (map dmg rows).
Definition ofnat (n : nat) : Q := inject_Z (Z.of_nat n).

Definition x_of rows : Q := if Qeq_bool (D1 rows) 0 then 1 / D2 rows else (1 - D1 rows) / D2 rows.
Definition early rows : bool := (n_until rows <? Hn rows)%nat.
Definition n_times rows : Q := if early rows then 0 else x_of rows + 1.
Definition n_cycles rows : Q := if early rows then ofnat (n_until rows) else (x_of rows + 1) * ofnat (H2n rows).

(* ------------------------------------------------------------ running sums *)
Lemma sumQ_app a b : sumQ (a ++ b) == sumQ a + sumQ b.
Proof. induction a as [|x a IH]; simpl; [lra|]. rewrite IH. lra. Qed.

Lemma sumQ_nonneg l : (forall d, In d l -> 0 <= d) -> 0 <= sumQ l.
Proof.
  induction l as [|x l IH]; simpl; intros H; [lra|].
  assert (0 <= x) by (apply H; now left). assert (0 <= sumQ l) by (apply IH; intros; apply H; now right). lra.
Qed.

Lemma first_reach_le acc l : (first_reach acc l <= length l)%nat.
Proof. revert acc. induction l as [|d t IH]; intros acc; simpl; [lia|]. destruct (Qlt_le_dec (acc + d) 1); [specialize (IH (acc + d))|]; lia. Qed.

(* every running sum up to the reported index is below one, the next one is not: it is the FIRST index that reaches one *)
Lemma first_reach_spec acc l : acc < 1 ->
  (forall m, (m <= first_reach acc l)%nat -> acc + sumQ (firstn m l) < 1) /\
  ((first_reach acc l < length l)%nat -> 1 <= acc + sumQ (firstn (S (first_reach acc l)) l)).
Proof.
  revert acc. induction l as [|d t IH]; intros acc Hacc; simpl.
  - split; [intros m Hm; replace m with O by lia; simpl; lra|lia].
  - destruct (Qlt_le_dec (acc + d) 1) as [L|L].
    + destruct (IH (acc + d) L) as [A B]. split.
      * intros [|m] Hm; simpl; [lra|]. specialize (A m ltac:(lia)). lra.
      * intros Hlt. specialize (B ltac:(lia)). simpl in B. simpl. lra.
    + split; [intros m Hm; replace m with O by lia; simpl; lra|]. intros _. simpl. lra.
Qed.

Lemma first_reach_full acc l : (forall d, In d l -> 0 <= d) -> acc + sumQ l < 1 -> first_reach acc l = length l.
Proof.
  revert acc. induction l as [|d t IH]; intros acc Hnn Hs; simpl; [reflexivity|]. simpl in Hs.
  assert (0 <= sumQ t) by (apply sumQ_nonneg; intros; apply Hnn; now right).
  destruct (Qlt_le_dec (acc + d) 1) as [L|L]; [|lra]. f_equal. apply IH; [intros; apply Hnn; now right|lra].
Qed.

Lemma first_reach_full_inv acc l : l <> [] -> first_reach acc l = length l -> acc + sumQ l < 1.
Proof.
  revert acc. induction l as [|d t IH]; intros acc Hne H; [congruence|].
  change (sumQ (d :: t)) with (d + sumQ t). change (first_reach acc (d :: t)) with
    (if Qlt_le_dec (acc + d) 1 then S (first_reach (acc + d) t) else O) in H. change (length (d :: t)) with (S (length t)) in H.
  destruct (Qlt_le_dec (acc + d) 1) as [L|L]; [|discriminate]. injection H as H.
  destruct t as [|d' t']; [change (sumQ []) with 0; lra|]. specialize (IH (acc + d) ltac:(discriminate) H). lra.
Qed.

Lemma sum_split rows : sumQ (map dmg rows) == D1 rows + D2 rows.
Proof.
  unfold D1, D2, pass1, pass2. induction rows as [|[d b] t IH]; [simpl; lra|].
  change (sumQ (map dmg ((d, b) :: t))) with (d + sumQ (map dmg t)). rewrite IH.
  destruct b; cbn [filter second snd negb map fold_right dmg fst]; unfold sumQ; cbn [fold_right]; lra.
Qed.

(* the branch D_1 == 0 of the source is redundant *)
Lemma x_of_eq rows : x_of rows == (1 - D1 rows) / D2 rows.
Proof.
  unfold x_of. destruct (Qeq_bool (D1 rows) 0) eqn:E; [|reflexivity]. apply Qeq_bool_eq in E. rewrite E.
  unfold Qdiv. ring.
Qed.

Lemma x_times_D2 rows : 0 < D2 rows -> D1 rows + x_of rows * D2 rows == 1.
Proof. intros H. rewrite x_of_eq. field. lra. Qed.

(* no early failure <-> the damage of both passes together stays below one *)
Lemma no_early_iff rows : rows <> [] -> (forall r, In r rows -> 0 <= dmg r) ->
  (early rows = false <-> D1 rows + D2 rows < 1).
Proof.
  intros Hne Hnn. unfold early, n_until, Hn. rewrite Nat.ltb_ge, <- sum_split.
  pose proof (first_reach_le 0 (map dmg rows)) as Hle. rewrite map_length in Hle. split.
  - intros H. assert (E : first_reach 0 (map dmg rows) = length (map dmg rows)) by (rewrite map_length; lia).
    apply first_reach_full_inv in E; [lra|]. destruct rows; [congruence|discriminate].
  - intros H. rewrite first_reach_full; [rewrite map_length; lia| |lra].
    intros d Hd. apply in_map_iff in Hd. destruct Hd as [r [<- Hr]]. apply Hnn, Hr.
Qed.

(* ------------------------------------------------------------ the lifetime formula is the literal accumulation *)
Theorem lifetime_no_early_failure rows :
  (forall r, In r rows -> 0 <= dmg r) -> 0 < D2 rows -> early rows = false ->
  let x := x_of rows in
  D1 rows + x * D2 rows == 1 /\ n_times rows == x + 1 /\ n_cycles rows == (x + 1) * ofnat (H2n rows) /\ 1 < x.
Proof.
  intros Hnn HD2 He x. pose proof (x_times_D2 rows HD2) as Hx. fold x in Hx.
  unfold n_times, n_cycles. rewrite He. repeat split; try reflexivity; try assumption.
  assert (Hne : rows <> []) by (intros ->; unfold D2, pass2 in HD2; simpl in HD2; lra).
  apply (no_early_iff rows Hne Hnn) in He.
  assert (x * D2 rows > 1 * D2 rows) by lra. apply Qmult_lt_r in H; assumption.
Qed.

Theorem lifetime_early_failure rows : early rows = true ->
  n_times rows == 0 /\ n_cycles rows == ofnat (n_until rows) /\
  (forall m, (m <= n_until rows)%nat -> sumQ (firstn m (map dmg rows)) < 1) /\
  1 <= sumQ (firstn (S (n_until rows)) (map dmg rows)).
Proof.
  intros He. unfold n_times, n_cycles. rewrite He. split; [reflexivity|split; [reflexivity|]].
  unfold early, Hn in He. apply Nat.ltb_lt in He. unfold n_until in *.
  destruct (first_reach_spec 0 (map dmg rows) ltac:(lra)) as [A B]. split.
  - intros m Hm. specialize (A m Hm). lra.
  - rewrite map_length in B. specialize (B He). lra.
Qed.

(* literally: the first pass once, then the second pass k times *)
Fixpoint repeat_list {A} (l : list A) (k : nat) : list A := match k with O => [] | S k => l ++ repeat_list l k end.
Definition literal_sum rows (k : nat) : Q := sumQ (pass1 rows ++ repeat_list (pass2 rows) k).

Lemma ofnat_S k : ofnat (S k) == ofnat k + 1.
Proof. unfold ofnat. rewrite Nat2Z.inj_succ, <- Z.add_1_r, inject_Z_plus. reflexivity. Qed.

Lemma sumQ_repeat l k : sumQ (repeat_list l k) == ofnat k * sumQ l.
Proof.
  induction k as [|k IH].
  - change (sumQ (repeat_list l 0)) with 0. change (ofnat 0) with 0. ring.
  - change (repeat_list l (S k)) with (l ++ repeat_list l k). rewrite sumQ_app, IH, ofnat_S. ring.
Qed.

Lemma literal_sum_eq rows k : literal_sum rows k == D1 rows + ofnat k * D2 rows.
Proof. unfold literal_sum. rewrite sumQ_app, sumQ_repeat. reflexivity. Qed.

(* the running sum after the first pass and k second passes is still below one exactly while k < x *)
Theorem literal_accumulation_reaches_one_at_x rows k : 0 < D2 rows ->
  (literal_sum rows k < 1 <-> ofnat k < x_of rows).
Proof.
  intros HD2. rewrite literal_sum_eq. pose proof (x_times_D2 rows HD2) as Hx. split; intros H.
  - apply (Qmult_lt_r _ _ (D2 rows) HD2). lra.
  - apply (Qmult_lt_r _ _ (D2 rows) HD2) in H. lra.
Qed.

(* the hypotheses are satisfiable, both branches occur *)
Example table_late : let t := [(1#8, false); (1#16, true); (1#8, true)] in
  early t = false /\ x_of t == 14#3 /\ n_cycles t == 34#3.
Proof. vm_compute. repeat split; reflexivity. Qed.
Example table_early : let t := [(1#2, false); (1#4, true); (1#4, true); (1#8, true)] in
  early t = true /\ n_until t = 2%nat /\ n_times t == 0.
Proof. vm_compute. repeat split; reflexivity. Qed.
