#!/bin/bash
# MANIFEST.setup_cmd: build everything the checks need from files on disk (offline).
set -e
HERE="$(cd "$(dirname "$0")" && pwd)"
cd "$HERE"
export PYTHONPATH="$HERE/harness:${PYLIFE_REPO:-/repo}/src" PYTHONHASHSEED=0 PYTHONDONTWRITEBYTECODE=1
ulimit -s unlimited 2>/dev/null || true
/venv/bin/python -B harness/setup_all.py
