#!/bin/bash
# MANIFEST.setup_cmd: build everything the checks need from files on disk (offline).
set -e
cd "$(dirname "$0")"
export PYTHONPATH=/verif/harness:/repo/src PYTHONHASHSEED=0 PYTHONDONTWRITEBYTECODE=1
ulimit -s unlimited 2>/dev/null || true
/venv/bin/python -B harness/setup_all.py
