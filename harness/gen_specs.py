"""Which source functions are translated into which generated Coq module (the whitelist of DESIGN 2.1)."""
import os
from common import SRC, COQ, write_if_changed
import py2coq

ML = os.path.join(SRC, 'materiallaws')

SPECS = {
    'GenHooke': (os.path.join(ML, 'hookeslaw.py'), [
        dict(cls='HookesLaw1d', prefix='h1_', methods=['stress', 'strain']),
        dict(cls='_Hookeslawcore', prefix='hc_', methods=['G', 'K']),
        dict(cls='HookesLaw2dPlaneStress', prefix='h2s_', methods=['strain', 'stress']),
        dict(cls='HookesLaw2dPlaneStrain', prefix='h2e_', methods=['super_strain', 'super_stress', 'strain', 'stress']),
        dict(cls='HookesLaw3d', prefix='h3_', methods=['strain', 'stress']),
    ]),
    'GenRambgood': (os.path.join(ML, 'rambgood.py'), [
        dict(cls='RambergOsgood', prefix='ro_', methods=['elastic_strain', 'plastic_strain', 'strain',
                                                         'tangential_compliance', 'tangential_modulus',
                                                         'delta_strain', 'lower_hysteresis']),
    ]),
    'GenTrueStressStrain': (os.path.join(ML, 'true_stress_strain.py'), [
        dict(cls=None, prefix='tss_', methods=['true_strain', 'true_stress', 'true_fracture_strain', 'true_fracture_stress']),
    ]),
}


def generate(names):
    """Regenerate the named generated modules from /repo's current source.  Raises py2coq.Unsupported."""
    sigs = {}
    for nm in names:
        path, items = SPECS[nm][0], SPECS[nm][1]
        req = SPECS[nm][2] if len(SPECS[nm]) > 2 else ()
        text, s = py2coq.translate_module(path, items, req)
        write_if_changed(os.path.join(COQ, 'gen', nm + '.v'), text)
        sigs.update(s)
    return sigs


if __name__ == '__main__':
    import sys
    print(generate(sys.argv[1:] or list(SPECS)))
