"""Which source functions are translated into which generated Coq module (the whitelist of DESIGN 2.1).

The whitelist is assembled from harness/specs/*.py; each defines SPECS = {module: (source path, items[, requires])}."""
import importlib
import os
import pkgutil

from common import SRC, COQ, write_if_changed
import py2coq
import specs as _specs_pkg

SPECS = {}
TRANSLATOR = {}     # generated module -> name of the translator module (default py2coq)
for _m in sorted(pkgutil.iter_modules(_specs_pkg.__path__), key=lambda m: m.name):
    _mod = importlib.import_module('specs.' + _m.name)
    SPECS.update(_mod.SPECS)
    for _k in _mod.SPECS:
        TRANSLATOR[_k] = getattr(_mod, 'TRANSLATOR', 'py2coq')


def generate(names):
    """Regenerate the named generated modules from /repo's current source.  Raises py2coq.Unsupported."""
    sigs = {}
    for nm in names:
        path, items = SPECS[nm][0], SPECS[nm][1]
        req = SPECS[nm][2] if len(SPECS[nm]) > 2 else ()
        text, s = importlib.import_module(TRANSLATOR.get(nm, 'py2coq')).translate_module(path, items, req)
        write_if_changed(os.path.join(COQ, 'gen', nm + '.v'), text)
        sigs.update(s)
    return sigs


if __name__ == '__main__':
    import sys
    print(generate(sys.argv[1:] or list(SPECS)))
