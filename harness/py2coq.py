"""py2coq: fail-closed translator from a small numeric subset of Python (pyLife's closed-form
code) to Coq definitions over R.  DESIGN.md section 2.1.

The translator is driven by *specs* (see gen_specs.py).  Anything outside the accepted
subset raises Unsupported: the obligation "the model regenerates from the source" is then
broken, which a check reports (it never silently keeps an old model).

Semantics of the translation
  * float literals become the exact decimal rational that is written in the source;
  * instance attributes assigned in __init__ (following super().__init__) are re-derived from the
    constructor parameters inside every generated definition (let-bound, in assignment order),
    so a subclass that overrides `_Et`/`_nut` changes the inherited methods exactly as in Python;
  * np.power / ** with a non-literal exponent become `npow` (numpy semantics on x >= 0), with an
    integral literal exponent become `pow`;
  * np.where(c, a, b) becomes `if Rlt_dec/Rle_dec ... then a else b`;
  * arrays are scalars: every function is the element-wise function.
"""
import ast
import fractions
import os


class Unsupported(Exception):
    pass


NP1 = {'log10': 'log10R', 'log': 'ln', 'exp': 'exp', 'sqrt': 'sqrt', 'abs': 'Rabs', 'fabs': 'Rabs',
       'sign': 'sgnR', 'cos': 'cos', 'sin': 'sin', 'arctan': 'atan', 'tan': 'tan'}
IDENT_CALLS = {'asarray', 'array', 'float64', 'asanyarray'}
COQ_RESERVED = {'at', 'in', 'as', 'by', 'end', 'fun', 'let', 'fix', 'if', 'then', 'else', 'match', 'with',
                'return', 'forall', 'exists', 'Type', 'Prop', 'Set', 'using', 'where', 'for', 'cofix', 'IF',
                'exp', 'ln', 'sqrt', 'cos', 'sin', 'tan', 'atan', 'PI', 'R', 'pow', 'npow', 'Rabs', 'sgnR', 'N', 'Z', 'e'}


def ident(s):
    s2 = s.lstrip('_') or 'x_'
    if s2 in COQ_RESERVED:
        s2 = s2 + '_'
    return s2


def lit(v):
    if isinstance(v, bool):
        raise Unsupported('bool literal')
    if isinstance(v, int):
        return '(%d)' % v if v < 0 else str(v)
    if isinstance(v, float):
        fr = fractions.Fraction(repr(v))       # the decimal as written, not the binary double
        n, d = fr.numerator, fr.denominator
        if d == 1:
            return '(%d)' % n if n < 0 else str(n)
        return '(%d / %d)' % (n, d)
    raise Unsupported('literal %r' % (v,))


def strip_doc(body):
    if body and isinstance(body[0], ast.Expr) and isinstance(body[0].value, ast.Constant) and isinstance(body[0].value.value, str):
        return body[1:]
    return body


class ClassTr:
    """Translates methods of one class (or module-level functions when cls is None)."""

    def __init__(self, tree, cls, prefix, ctor_params=None, methods=(), drop_args=('rtol', 'tol'),
                 known=None, skip_attrs=(), const_attrs=None, extra_np1=None, delegates=None, extra_sources=(), ndim=None,
                 none_args=(), allow_dead=False):
        self.tree = tree
        self.ndim = ndim                     # None | 'scalar' | 'array': which side of `if x.ndim == 0:` is translated
        self.cls = cls
        self.prefix = prefix
        self.methods = list(methods)
        self.drop_args = set(drop_args)
        self.known = dict(known or {})       # external callables: python name -> (coq name, n ctor params to pass?)
        self.skip_attrs = set(skip_attrs)
        self.const_attrs = dict(const_attrs or {})
        self.none_args = set(none_args)      # optional parameters fixed to None: `if p is None:` is resolved statically
        self.allow_dead = allow_dead         # untranslatable local assignments are tolerated iff the name is never read by translated code
        self.classes = {n.name: n for n in tree.body if isinstance(n, ast.ClassDef)}
        for p in extra_sources:               # base classes that live in another file (C06: NotchApproximationLawBase)
            for n in ast.parse(open(p).read()).body:
                if isinstance(n, ast.ClassDef):
                    self.classes.setdefault(n.name, n)
        # attributes holding another translated object: attr -> (class name, prefix, method whitelist);
        # the constructor arguments are read from the assignment in __init__ (C06: self._ramberg_osgood_relation)
        self.delegates = dict(delegates or {})
        self.delegate_args = {}
        self.modfuncs = {n.name: n for n in tree.body if isinstance(n, ast.FunctionDef)}
        self.modconsts = {}
        for n in tree.body:
            if isinstance(n, ast.Assign) and len(n.targets) == 1 and isinstance(n.targets[0], ast.Name) \
                    and isinstance(n.value, ast.Constant) and isinstance(n.value.value, (int, float)) \
                    and not isinstance(n.value.value, bool):
                self.modconsts[n.targets[0].id] = n.value.value
        if cls is not None:
            self.mro = self._mro(cls)
            self.ctor_params = list(ctor_params) if ctor_params is not None else self._ctor_params()
            self.attr_lets = self._attr_lets()
        else:
            self.mro = []
            self.ctor_params = list(ctor_params or [])
            self.attr_lets = []
        self.attrs = {a for a, _ in self.attr_lets}

    # ---- class structure
    def _mro(self, name):
        out = []
        while name is not None:
            c = self.classes.get(name)
            if c is None:
                break
            out.append(c)
            bases = [b.id for b in c.bases if isinstance(b, ast.Name) and b.id in self.classes]
            bases += [b.attr for b in c.bases if isinstance(b, ast.Attribute) and b.attr in self.classes]
            if len(bases) > 1:
                raise Unsupported('multiple inheritance in ' + name)
            name = bases[0] if bases else None
        return out

    def _find_method(self, name, start=0):
        for i, c in enumerate(self.mro[start:], start):
            for n in c.body:
                if isinstance(n, ast.FunctionDef) and n.name == name:
                    return i, n
        return None, None

    def _ctor_params(self):
        _, init = self._find_method('__init__')
        if init is None:
            return []
        return [a.arg for a in init.args.args if a.arg != 'self'] + [a.arg for a in init.args.kwonlyargs]

    def _attr_lets(self):
        """Symbolically run __init__ (and super().__init__ chains): list of (attr, coq expr)."""
        lets = []

        def run_init(level, argexprs):
            lvl, init = self._find_method('__init__', level)
            if init is None:
                return
            names = [a.arg for a in init.args.args if a.arg != 'self'] + [a.arg for a in init.args.kwonlyargs]
            if len(names) != len(argexprs):
                raise Unsupported('__init__ arity')
            env = dict(zip(names, argexprs))
            for st in strip_doc(init.body):
                if isinstance(st, ast.Expr) and isinstance(st.value, ast.Call):
                    f = st.value.func
                    if isinstance(f, ast.Attribute) and f.attr == '__init__' and isinstance(f.value, ast.Call) \
                            and isinstance(f.value.func, ast.Name) and f.value.func.id == 'super':
                        run_init(lvl + 1, [self.expr(a, env) for a in st.value.args])
                        continue
                    if isinstance(f, ast.Attribute) and isinstance(f.value, ast.Name) and f.value.id == 'self' \
                            and f.attr.startswith('_validate'):
                        continue   # raises on inadmissible parameters; theorems carry the guard
                    raise Unsupported('__init__ statement ' + ast.unparse(st)[:60])
                if isinstance(st, ast.Assign) and len(st.targets) == 1 and isinstance(st.targets[0], ast.Attribute) \
                        and isinstance(st.targets[0].value, ast.Name) and st.targets[0].value.id == 'self':
                    a = st.targets[0].attr
                    if a in self.delegates:
                        v = st.value
                        fname = v.func.attr if isinstance(v, ast.Call) and isinstance(v.func, ast.Attribute) else \
                            v.func.id if isinstance(v, ast.Call) and isinstance(v.func, ast.Name) else None
                        if fname != self.delegates[a][0] or v.keywords:
                            raise Unsupported('delegate %s is not constructed as %s(...)' % (a, self.delegates[a][0]))
                        self.attrs = {x for x, _ in lets}
                        self.delegate_args[a] = [self.expr(x, env) for x in v.args]
                        continue
                    if a in self.skip_attrs:
                        continue
                    self.attrs = {x for x, _ in lets}
                    lets.append((a, self.expr(st.value, env)))
                    continue
                if isinstance(st, ast.If):   # parameter validation that raises
                    if all(isinstance(s, ast.Raise) for s in st.body) and not st.orelse:
                        continue
                raise Unsupported('__init__ statement ' + ast.unparse(st)[:60])

        self.attrs = set()
        run_init(0, [ident(p) for p in self.ctor_params_early()])
        return lets

    def ctor_params_early(self):
        _, init = self._find_method('__init__')
        if init is None:
            return []
        return [a.arg for a in init.args.args if a.arg != 'self'] + [a.arg for a in init.args.kwonlyargs]

    # ---- expressions
    def attr_name(self, a):
        return 'self_' + a.lstrip('_')

    def expr(self, n, env):
        if isinstance(n, ast.Constant):
            return lit(n.value)
        if isinstance(n, ast.Name):
            if n.id in env:
                if env[n.id] in ('@none', '@dead'):
                    raise Unsupported('use of %s (%s)' % (n.id, {'@none': 'fixed to None', '@dead': 'untranslatable local'}[env[n.id]]))
                if env[n.id].startswith('@local:'):     # a local function passed as a value (e.g. to integrate.quad)
                    return env[n.id][7:]
                return env[n.id]
            if n.id in self.modconsts:
                return lit(self.modconsts[n.id])
            raise Unsupported('free name ' + n.id)
        if isinstance(n, ast.Attribute):
            if isinstance(n.value, ast.Name) and n.value.id == 'self':
                a = n.attr
                if a in self.const_attrs:
                    return self.const_attrs[a]
                if a in self.attrs:
                    return self.attr_name(a)
                if ('_' + a) in self.attrs:      # read-only property `self.nu` -> `self._nu`
                    return self.attr_name('_' + a)
                raise Unsupported('self.%s is not an attribute assigned in __init__' % a)
            if isinstance(n.value, ast.Name) and n.value.id == 'np' and n.attr == 'pi':
                return 'PI'
            if isinstance(n.value, ast.Name) and n.value.id == 'np' and n.attr == 'inf':
                raise Unsupported('np.inf')
            raise Unsupported('attribute ' + ast.unparse(n)[:60])
        if isinstance(n, ast.UnaryOp):
            if isinstance(n.op, ast.USub):
                return '(- %s)' % self.expr(n.operand, env)
            if isinstance(n.op, ast.UAdd):
                return self.expr(n.operand, env)
            raise Unsupported('unary ' + ast.dump(n.op))
        if isinstance(n, ast.BinOp):
            if isinstance(n.op, ast.Pow):
                return self.power(n.left, n.right, env)
            op = {ast.Add: '+', ast.Sub: '-', ast.Mult: '*', ast.Div: '/'}.get(type(n.op))
            if op is None:
                raise Unsupported('operator ' + ast.dump(n.op))
            return '(%s %s %s)' % (self.expr(n.left, env), op, self.expr(n.right, env))
        if isinstance(n, ast.Call):
            return self.call(n, env)
        if isinstance(n, ast.IfExp) and self._none_test(n.test, env) is not None:
            return self.expr(n.body if self._none_test(n.test, env) else n.orelse, env)
        if isinstance(n, ast.IfExp):
            return '(if %s then %s else %s)' % (self.cond(n.test, env), self.expr(n.body, env), self.expr(n.orelse, env))
        if isinstance(n, ast.Lambda):
            a = n.args
            if a.vararg or a.kwarg or a.kwonlyargs or a.defaults or a.posonlyargs or not a.args:
                raise Unsupported('lambda signature ' + ast.unparse(n)[:60])
            env2 = dict(env)
            for x in a.args:
                env2[x.arg] = ident(x.arg)
            return '(fun %s => %s)' % (' '.join(ident(x.arg) for x in a.args), self.expr(n.body, env2))
        raise Unsupported('expression ' + ast.unparse(n)[:80])

    def _none_test(self, t, env):
        """`p is None` / `p is not None` on a parameter: True/False when statically known, else None."""
        if isinstance(t, ast.Compare) and len(t.ops) == 1 and isinstance(t.ops[0], (ast.Is, ast.IsNot)) \
                and isinstance(t.left, ast.Name) and t.left.id in env \
                and isinstance(t.comparators[0], ast.Constant) and t.comparators[0].value is None:
            return (env[t.left.id] == '@none') == isinstance(t.ops[0], ast.Is)
        return None

    def cond(self, c, env):
        if isinstance(c, ast.Compare) and len(c.ops) == 1:
            a, b = self.expr(c.left, env), self.expr(c.comparators[0], env)
            t = type(c.ops[0])
            if t is ast.Lt:
                return '(Rlt_dec %s %s)' % (a, b)
            if t is ast.Gt:
                return '(Rlt_dec %s %s)' % (b, a)
            if t is ast.LtE:
                return '(Rle_dec %s %s)' % (a, b)
            if t is ast.GtE:
                return '(Rle_dec %s %s)' % (b, a)
            if t is ast.Eq:
                return '(Req_EM_T %s %s)' % (a, b)
            raise Unsupported('comparison ' + ast.dump(c.ops[0]))
        raise Unsupported('condition ' + ast.unparse(c)[:60])

    def power(self, b, x, env):
        if isinstance(x, ast.Constant) and isinstance(x.value, (int, float)) and not isinstance(x.value, bool) \
                and float(x.value) == int(x.value) and int(x.value) >= 0:
            return '(%s ^ %d)' % (self.expr(b, env), int(x.value))
        return '(npow %s %s)' % (self.expr(b, env), self.expr(x, env))

    def call(self, n, env):
        f = n.func
        kw = {k.arg: k.value for k in n.keywords}
        if isinstance(f, ast.Attribute) and isinstance(f.value, ast.Name) and f.value.id == 'np':
            if f.attr in IDENT_CALLS and len(n.args) == 1:
                return self.expr(n.args[0], env)
            if f.attr == 'power' and len(n.args) == 2 and not kw:
                return self.power(n.args[0], n.args[1], env)
            if f.attr == 'square' and len(n.args) == 1 and not kw:
                return '(%s ^ 2)' % self.expr(n.args[0], env)
            if f.attr in NP1 and len(n.args) == 1 and not kw:
                return '(%s %s)' % (NP1[f.attr], self.expr(n.args[0], env))
            if f.attr == 'where' and len(n.args) == 3 and not kw:
                return '(if %s then %s else %s)' % (self.cond(n.args[0], env), self.expr(n.args[1], env), self.expr(n.args[2], env))
            if f.attr in ('maximum', 'fmax') and len(n.args) == 2 and not kw:
                return '(Rmax %s %s)' % (self.expr(n.args[0], env), self.expr(n.args[1], env))
            if f.attr in ('minimum', 'fmin') and len(n.args) == 2 and not kw:
                return '(Rmin %s %s)' % (self.expr(n.args[0], env), self.expr(n.args[1], env))
            if f.attr == 'divide' and len(n.args) == 2 and set(kw) == {'out', 'where'}:
                # np.divide(a, b, out=np.ones_like(a), where=b != 0)
                w, o = kw['where'], kw['out']
                if isinstance(o, ast.Call) and ast.unparse(o.func) == 'np.ones_like' and isinstance(w, ast.Compare) \
                        and isinstance(w.ops[0], ast.NotEq) and ast.unparse(w.left) == ast.unparse(n.args[1]) \
                        and ast.unparse(w.comparators[0]) == '0':
                    a, b = self.expr(n.args[0], env), self.expr(n.args[1], env)
                    return '(if Req_EM_T %s 0 then 1 else %s / %s)' % (b, a, b)
                # np.divide(a, b, out=np.ones_like(x), where=c != 0)  /  where=c > 0   (any guard expression c)
                if isinstance(o, ast.Call) and ast.unparse(o.func) == 'np.ones_like' and isinstance(w, ast.Compare) \
                        and len(w.ops) == 1 and ast.unparse(w.comparators[0]) == '0':
                    a, b, c = self.expr(n.args[0], env), self.expr(n.args[1], env), self.expr(w.left, env)
                    if isinstance(w.ops[0], ast.NotEq):
                        return '(if Req_EM_T %s 0 then 1 else %s / %s)' % (c, a, b)
                    if isinstance(w.ops[0], ast.Gt):
                        return '(if Rlt_dec 0 %s then %s / %s else 1)' % (c, a, b)
            if f.attr == 'power' and len(n.args) == 2 and set(kw) == {'out', 'where'}:
                # np.power(x, -k, out=np.ones_like(x), where=x != 0)  with a literal negative integer exponent
                w, o, x = kw['where'], kw['out'], n.args[1]
                if isinstance(o, ast.Call) and ast.unparse(o.func) == 'np.ones_like' and isinstance(w, ast.Compare) \
                        and len(w.ops) == 1 and isinstance(w.ops[0], ast.NotEq) and ast.unparse(w.comparators[0]) == '0' \
                        and ast.unparse(w.left) == ast.unparse(n.args[0]) \
                        and isinstance(x, ast.UnaryOp) and isinstance(x.op, ast.USub) and isinstance(x.operand, ast.Constant) \
                        and isinstance(x.operand.value, int) and not isinstance(x.operand.value, bool) and x.operand.value > 0:
                    b = self.expr(n.args[0], env)
                    return '(if Req_EM_T %s 0 then 1 else / (%s ^ %d))' % (b, b, x.operand.value)
            raise Unsupported('np.%s call %s' % (f.attr, ast.unparse(n)[:60]))
        if isinstance(f, ast.Attribute) and isinstance(f.value, ast.Name) and f.value.id == 'norm' and f.attr in ('cdf', 'pdf'):
            # scipy.stats.norm.cdf/pdf(x, loc=0, scale=1)  (PL.Strength.Normal: norm_cdf, norm_pdf)
            if not 1 <= len(n.args) <= 3 or not set(kw) <= {'loc', 'scale'} or len(n.args) - 1 + len(kw) > 2:
                raise Unsupported('norm.%s call %s' % (f.attr, ast.unparse(n)[:60]))
            pos = [self.expr(a, env) for a in n.args]
            loc = pos[1] if len(pos) > 1 else (self.expr(kw['loc'], env) if 'loc' in kw else '0')
            if len(pos) > 1 and 'loc' in kw or len(pos) > 2 and 'scale' in kw:
                raise Unsupported('norm.%s argument given twice' % f.attr)
            scale = pos[2] if len(pos) > 2 else (self.expr(kw['scale'], env) if 'scale' in kw else '1')
            return '(norm_%s %s %s %s)' % (f.attr, pos[0], loc, scale)
        if isinstance(f, ast.Attribute) and isinstance(f.value, ast.Name) and f.value.id == 'integrate' and f.attr == 'quad':
            # scipy.integrate.quad(f, a, b) idealised as (RInt f a b, 0); accuracy/subdivision hints do not change the ideal value
            if len(n.args) != 3 or not set(kw) <= {'epsabs', 'epsrel', 'limit', 'points'}:
                raise Unsupported('integrate.quad call ' + ast.unparse(n)[:60])
            return '(quad_ideal %s %s %s)' % tuple(self.expr(a, env) for a in n.args)
        if isinstance(f, ast.Name) and f.id == 'abs' and len(n.args) == 1:
            return '(Rabs %s)' % self.expr(n.args[0], env)
        if isinstance(f, ast.Name) and f.id == 'float' and len(n.args) == 1:
            return self.expr(n.args[0], env)
        if isinstance(f, ast.Name) and f.id in env and env[f.id].startswith('@local:'):
            return '(%s %s)' % (env[f.id][7:], ' '.join(self.expr(a, env) for a in n.args))
        if isinstance(f, ast.Name) and f.id in self.known:
            return '(%s %s)' % (self.known[f.id], ' '.join(self.expr(a, env) for a in n.args))
        if isinstance(f, ast.Name) and f.id in self.modfuncs and self.cls is None and f.id in self.methods:
            return '(%s%s %s)' % (self.prefix, f.id, ' '.join(self.expr(a, env) for a in n.args))
        if isinstance(f, ast.Attribute) and isinstance(f.value, ast.Name) and f.value.id == 'self':
            args = [self.expr(a, env) for a in n.args] + [self.expr(v, env) for v in kw.values() if True]
            if f.attr in self.methods:
                return '(' + ' '.join([self.prefix + f.attr] + [ident(p) for p in self.ctor_params] + args) + ')'
            raise Unsupported('call of self.%s (not in the method whitelist)' % f.attr)
        if isinstance(f, ast.Attribute) and isinstance(f.value, ast.Attribute) and isinstance(f.value.value, ast.Name) \
                and f.value.value.id == 'self' and f.value.attr in self.delegate_args:
            cls, prefix, allowed = self.delegates[f.value.attr]
            if f.attr not in allowed:
                raise Unsupported('call of %s.%s (not in the delegate whitelist)' % (f.value.attr, f.attr))
            args = [self.expr(a, env) for a in n.args] + [self.expr(v, env) for v in kw.values()]
            return '(' + ' '.join([prefix + f.attr] + self.delegate_args[f.value.attr] + args) + ')'
        if isinstance(f, ast.Attribute) and isinstance(f.value, ast.Call) and isinstance(f.value.func, ast.Name) \
                and f.value.func.id == 'super' and ('super_' + f.attr) in self.methods:
            args = [self.expr(a, env) for a in n.args]
            return '(' + ' '.join([self.prefix + 'super_' + f.attr] + [ident(p) for p in self.ctor_params] + args) + ')'
        if isinstance(f, ast.Attribute) and f.attr == 'astype' and len(n.args) == 1:
            return self.expr(f.value, env)
        raise Unsupported('call ' + ast.unparse(n)[:80])

    # ---- statements
    def body(self, stmts, env, lets, need_return=True):
        """Translate a straight-line body; returns the Coq expression of the returned value."""
        for i, st in enumerate(stmts):
            if isinstance(st, ast.Assign) and len(st.targets) == 1 and isinstance(st.targets[0], ast.Subscript):
                # masked self-assignment  x[x == c] = e   (element-wise: x := if x = c then e else x)
                t = st.targets[0]
                if isinstance(t.value, ast.Name) and t.value.id in env and isinstance(t.slice, ast.Compare) \
                        and isinstance(t.slice.left, ast.Name) and t.slice.left.id == t.value.id:
                    nm = ident(t.value.id)
                    lets.append('let %s := if %s then %s else %s in' % (nm, self.cond(t.slice, env), self.expr(st.value, env), env[t.value.id]))
                    env[t.value.id] = nm
                    continue
                raise Unsupported('assignment ' + ast.unparse(st)[:70])
            if isinstance(st, ast.AugAssign) and isinstance(st.target, ast.Name):
                op = {ast.Add: '+', ast.Sub: '-', ast.Mult: '*', ast.Div: '/'}.get(type(st.op))
                if op is None:
                    raise Unsupported('augmented assignment ' + ast.unparse(st)[:60])
                v = '(%s %s %s)' % (self.expr(st.target, env), op, self.expr(st.value, env))
                nm = ident(st.target.id)
                lets.append('let %s := %s in' % (nm, v))
                env[st.target.id] = nm
                continue
            if isinstance(st, ast.If) and self._none_test(st.test, env) is not None:
                # `if p is None:` on an optional parameter: resolved statically (p fixed to None by the spec, or a real argument)
                taken = st.body if self._none_test(st.test, env) else st.orelse
                if self.body(taken, env, lets, need_return=False) is not None:
                    raise Unsupported('return inside `if ... is None` branch')
                continue
            if isinstance(st, ast.Assign) and len(st.targets) == 1:
                t = st.targets[0]
                if isinstance(t, ast.Name):
                    try:
                        v = self.expr(st.value, env)
                    except Unsupported:
                        if not self.allow_dead:
                            raise
                        env[t.id] = '@dead'      # any later read of the name by translated code raises Unsupported
                        continue
                    nm = ident(t.id)
                    lets.append('let %s := %s in' % (nm, v))
                    env[t.id] = nm
                    continue
                if isinstance(t, ast.Tuple) and all(isinstance(e, ast.Name) for e in t.elts) and isinstance(st.value, ast.Call):
                    fn = st.value.func
                    if isinstance(fn, ast.Attribute) and fn.attr == '_as_consistant_arrays':
                        if [ast.unparse(a) for a in st.value.args] != [e.id for e in t.elts]:
                            raise Unsupported('_as_consistant_arrays not used as identity')
                        continue
                    if isinstance(fn, ast.Attribute) and fn.attr == '_get_abs_sign' and len(t.elts) == 2:
                        x = self.expr(st.value.args[0], env)
                        a, s = ident(t.elts[0].id), ident(t.elts[1].id)
                        lets.append('let %s := Rabs %s in' % (a, x))
                        lets.append('let %s := sgnR %s in' % (s, x))
                        env[t.elts[0].id], env[t.elts[1].id] = a, s
                        continue
                    v = self.expr(st.value, env)
                    names = []
                    for e in t.elts:
                        if e.id == '_':
                            names.append('_')
                        else:
                            names.append(ident(e.id))
                            env[e.id] = ident(e.id)
                    lets.append("let '(%s) := %s in" % (', '.join(names), v))
                    continue
                raise Unsupported('assignment ' + ast.unparse(st)[:70])
            if isinstance(st, ast.FunctionDef):      # local helper: fun
                args = [a.arg for a in st.args.args]
                env2 = dict(env)
                for a in args:
                    env2[a] = ident(a)
                l2 = []
                r = self.body(strip_doc(st.body), env2, l2)
                nm = ident(st.name)
                lets.append('let %s := (fun %s => %s %s) in' % (nm, ' '.join(ident(a) for a in args), ' '.join(l2), r))
                env[st.name] = '@local:' + nm
                continue
            if isinstance(st, ast.Assert):
                # shape-consistency guard (`assert a.shape == b.shape and ...`): raises, never changes a value
                if all(isinstance(x, ast.Attribute) and x.attr == 'shape' for x in ast.walk(st.test)
                       if isinstance(x, ast.Attribute)) and not any(isinstance(x, ast.Call) for x in ast.walk(st.test)):
                    continue
                raise Unsupported('assert ' + ast.unparse(st.test)[:60])
            if isinstance(st, ast.If) and self.ndim is not None and isinstance(st.test, ast.Compare) \
                    and ast.unparse(st.test).endswith(('.ndim == 0', '.size == 1', '.shape == ()')) and isinstance(st.test.left, ast.Attribute) \
                    and isinstance(st.test.left.value, ast.Name) and st.test.left.value.id in env:
                # 0-d (scalar input) versus array input: the spec item says which side it models
                branch = st.body if self.ndim == 'scalar' else st.orelse
                if not branch:
                    continue
                for sub in branch:
                    if not isinstance(sub, (ast.Assign, ast.If)):
                        raise Unsupported('statement in ndim branch ' + ast.unparse(sub)[:60])
                self.body_nr(branch, env, lets)
                continue
            if isinstance(st, ast.If) and not st.orelse and len(st.body) == 1 and isinstance(st.body[0], ast.Assign) \
                    and len(st.body[0].targets) == 1 and isinstance(st.body[0].targets[0], ast.Name) \
                    and st.body[0].targets[0].id in env and isinstance(st.test, ast.Compare) and 'isinstance' not in ast.unparse(st.test):
                # conditional overwrite of an existing scalar:  if c: x = e   ->  x := if c then e else x
                tn = st.body[0].targets[0].id
                nm = ident(tn)
                lets.append('let %s := if %s then %s else %s in' % (nm, self.cond(st.test, env), self.expr(st.body[0].value, env), env[tn]))
                env[tn] = nm
                continue
            if isinstance(st, ast.If):
                # `if not isinstance(x, float): x = x.astype(float)` style identities
                src = ast.unparse(st)
                if 'isinstance' in ast.unparse(st.test) and all(
                        isinstance(s, ast.Assign) and isinstance(s.value, ast.Call) and isinstance(s.value.func, ast.Attribute)
                        and s.value.func.attr == 'astype' and ast.unparse(s.targets[0]) == ast.unparse(s.value.func.value)
                        for s in st.body) and not st.orelse:
                    continue
                # guard that raises
                if all(isinstance(s, ast.Raise) for s in st.body) and not st.orelse:
                    continue
                raise Unsupported('if statement ' + src[:70])
            if isinstance(st, ast.Return):
                v = st.value
                if isinstance(v, ast.Tuple):
                    return '(' + ', '.join(self.expr(x, env) for x in v.elts) + ')'
                return self.expr(v, env)
            raise Unsupported('statement ' + ast.unparse(st)[:70])
        if not need_return:
            return None
        raise Unsupported('no return statement')

    def body_nr(self, stmts, env, lets):
        """Translate a statement list that contains no `return` (a branch spliced into the enclosing body)."""
        sentinel = ast.Return(value=ast.Constant(value=0))
        for st in stmts:
            for x in ast.walk(st):
                if isinstance(x, ast.Return):
                    raise Unsupported('return inside a branch')
        self.body(list(stmts) + [sentinel], env, lets)

    def method(self, name):
        sup = name.startswith('super_')
        if self.cls is None:
            fn = self.modfuncs.get(name)
            if fn is None:
                raise Unsupported('function %s not found' % name)
        else:
            _, fn = self._find_method(name[6:], 1) if sup else self._find_method(name)
            if fn is None:
                raise Unsupported('method %s not found in %s' % (name, self.cls))
        args = [a.arg for a in fn.args.args if a.arg != 'self'] + \
               [a.arg for a in fn.args.kwonlyargs if a.arg not in self.drop_args]
        args = [a for a in args if a not in self.drop_args]
        env = {a: ident(a) for a in args}
        for a in args:
            if a in self.none_args:
                env[a] = '@none'
        args = [a for a in args if a not in self.none_args]
        lets = ['let %s := %s in' % (self.attr_name(a), e) for a, e in self.attr_lets]
        ret = self.body(strip_doc(fn.body), env, lets)
        params = [ident(p) for p in self.ctor_params] + [ident(a) for a in args]
        out = 'Definition %s%s %s :=\n' % (self.prefix, name, ' '.join('(%s : R)' % p for p in params))
        for l in lets:
            out += '  %s\n' % l
        return out + '  %s.\n\n' % ret, params


HEADER = ('(* GENERATED by /verif/harness/py2coq.py from %s -- do not edit; regenerated on every check run *)\n'
          'From Coq Require Import Reals.\nFrom PL Require Import Common.RPrelude.\nOpen Scope R_scope.\n\n')


def translate_module(src_path, items, requires=()):
    """items: list of dicts(cls, prefix, methods, ...).  Returns Coq text."""
    tree = ast.parse(open(src_path).read())
    out = HEADER % os.path.relpath(src_path, '/')
    for r in requires:
        out += ('From PL Require Import %s.\n' % r[3:]) if r.startswith('PL.') else ('From PLgen Require Import %s.\n' % r)
    sigs = {}
    for it in items:
        it = dict(it)
        if 'symbolic' in it:          # symbolic execution of imperative element kernels (py2coq_sym.py)
            import py2coq_sym
            text, sg = py2coq_sym.translate_item(tree, it)
            out += text
            sigs.update(sg)
            continue
        methods = it.pop('methods')
        tr = ClassTr(tree, it.pop('cls', None), it.pop('prefix'), methods=methods, **it)
        for m in methods:
            text, params = tr.method(m)
            out += text
            sigs[tr.prefix + m] = params
    return out, sigs
