#!/venv/bin/python
"""Confirm a seeded change produced by a seeder agent before it is kept under /verif/seeded/<id>/.

usage: seed_intake.py <dir with Cxx-k/ subdirectories> <id> [<id> ...]      (parallel: run several instances)

For every id: scratch worktree of /repo (outside /repo and /verif), patch applies, demo exits 0 on the unchanged tree and 1 on the
patched tree, the package imports, the full test suite gives exactly the baseline's failures.  Writes <dir>/<id>/intake.json and, if
everything is confirmed, copies patch.diff, demo.py (or demo.*), meta.json to /verif/seeded/<id>/.  The worktree is removed afterwards.
"""
import glob
import json
import os
import shutil
import subprocess
import sys
import xml.etree.ElementTree as ET

REPO = '/repo'
KNOWN_FAIL = {
    'tests.strength.test_parameter_calculations::test_compute_beta_fails[1]',
    'tests.stress.rainflow.test_recorders::test_fkm_nonlinear_recorder_empty_collective_default',
    'tests.stress.rainflow.test_recorders::test_fkm_nonlinear_recorder_two_non_zero_collective',
    'tests.stress.test_timesignal::test_ps_df',
    'src.pylife.mesh.meshsignal::pylife.mesh.meshsignal',
    'src.pylife.mesh.meshsignal::pylife.mesh.meshsignal.Mesh.vtk_data',
    'src.pylife.vmap.vmap_import::pylife.vmap.vmap_import.VMAPImport.join_coordinates',
    'src.pylife.vmap.vmap_import::pylife.vmap.vmap_import.VMAPImport.join_variable',
    'src.pylife.vmap.vmap_import::pylife.vmap.vmap_import.VMAPImport.make_mesh',
}


def sh(cmd, cwd=None, env=None, timeout=3600):
    p = subprocess.run(cmd, cwd=cwd, env=env, shell=isinstance(cmd, str), capture_output=True, text=True, timeout=timeout)
    return p.returncode, (p.stdout + p.stderr)


def run_demo(demo, tree):
    env = dict(os.environ, PYTHONPATH=tree + '/src', PYTHONHASHSEED='0')
    try:
        rc, out = sh(['/venv/bin/python', demo], cwd=os.path.dirname(demo), env=env, timeout=900)
    except subprocess.TimeoutExpired:
        return 'timeout', ''
    return rc, out[-1500:]


def failures(junit):
    bad, n = set(), 0
    for tc in ET.parse(junit).getroot().iter('testcase'):
        n += 1
        if tc.find('failure') is not None or tc.find('error') is not None:
            bad.add('%s::%s' % (tc.get('classname'), tc.get('name')))
    return bad, n


def intake(base, sid, full_tests=True):
    d = os.path.join(base, sid)
    res = {'id': sid, 'ok': False}
    patch = os.path.join(d, 'patch.diff')
    demos = sorted(glob.glob(os.path.join(d, 'demo*')))
    if not (os.path.isfile(patch) and demos and os.path.isfile(os.path.join(d, 'meta.json'))):
        res['error'] = 'missing patch.diff / demo / meta.json'
        return res
    demo = [x for x in demos if x.endswith('.py')][0]
    wt = '/tmp/sv/' + sid
    os.makedirs('/tmp/sv', exist_ok=True)
    sh(['git', '-C', REPO, 'worktree', 'remove', '--force', wt])
    rc, out = sh(['git', '-C', REPO, 'worktree', 'add', '--detach', wt, 'HEAD'])
    if rc:
        res['error'] = 'worktree: ' + out[-300:]
        return res
    try:
        for so in glob.glob(REPO + '/src/pylife/rainflow_ext*.so'):
            shutil.copy(so, wt + '/src/pylife/')
        res['demo_unchanged'] = run_demo(demo, wt)
        rc, out = sh(['git', '-C', wt, 'apply', '--check', patch])
        if rc:
            res['error'] = 'patch does not apply: ' + out[-300:]
            return res
        sh(['git', '-C', wt, 'apply', patch])
        rc, out = sh(['git', '-C', wt, 'diff', '--stat'])
        res['diffstat'] = out.strip().splitlines()[-1] if out.strip() else ''
        rc, names = sh(['git', '-C', wt, 'diff', '--name-only'])
        res['files'] = names.split()
        if any(not f.startswith('src/') for f in res['files']):
            res['error'] = 'patch touches files outside src/'
            return res
        res['demo_patched'] = run_demo(demo, wt)
        env = dict(os.environ, PYTHONPATH=wt + '/src', PYTHONHASHSEED='0')
        rc, out = sh(['/venv/bin/python', '-c', 'import pylife, pylife.stress.rainflow, pylife.strength, pylife.materiallaws, pylife.mesh, pylife.vmap'], cwd=wt, env=env)
        res['imports'] = rc == 0
        if full_tests:
            junit = '/tmp/sv/%s.junit.xml' % sid
            rc, out = sh(['/venv/bin/python', '-m', 'pytest', '-q', '-p', 'no:cacheprovider', '--no-cov', '--timeout=900',
                          '--continue-on-collection-errors', '--junitxml=' + junit], cwd=wt, env=env, timeout=5400)
            bad, n = failures(junit)
            res['tests'] = {'n': n, 'failed': len(bad), 'new_failures': sorted(bad - KNOWN_FAIL), 'fixed_known': sorted(KNOWN_FAIL - bad),
                            'tail': out.strip().splitlines()[-1] if out.strip() else ''}
            os.remove(junit)
            tests_ok = not (bad - KNOWN_FAIL) and n >= 1480
        else:
            tests_ok = None
        res['ok'] = bool(res['demo_unchanged'][0] == 0 and res['demo_patched'][0] == 1 and res['imports'] and tests_ok is not False)
        res['tests_confirmed'] = tests_ok
    finally:
        sh(['git', '-C', REPO, 'worktree', 'remove', '--force', wt])
        sh(['git', '-C', REPO, 'worktree', 'prune'])
    return res


def main():
    base, ids = sys.argv[1], sys.argv[2:]
    for sid in ids:
        r = intake(base, sid)
        json.dump(r, open(os.path.join(base, sid, 'intake.json'), 'w'), indent=1)
        if r['ok']:
            dst = '/verif/seeded/' + sid
            os.makedirs(dst, exist_ok=True)
            for f in glob.glob(os.path.join(base, sid, '*')):
                if os.path.basename(f) != 'intake.json' and os.path.isfile(f):
                    shutil.copy(f, dst)
            meta = json.load(open(dst + '/meta.json'))
            meta['confirmed'] = {'demo_unchanged_exit': r['demo_unchanged'][0], 'demo_patched_exit': r['demo_patched'][0],
                                 'tests': r.get('tests'), 'round': int(os.environ.get('SEED_ROUND', '2'))}
            json.dump(meta, open(dst + '/meta.json', 'w'), indent=1)
        print(sid, 'CONFIRMED' if r['ok'] else 'REJECTED', {k: v for k, v in r.items() if k in ('error', 'demo_unchanged', 'demo_patched', 'tests')} if not r['ok'] else r.get('tests', {}).get('tail'))


if __name__ == '__main__':
    main()
