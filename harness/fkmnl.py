"""Running pyLife's FKM-nonlinear assessment for the C10 check: one call -> a plain (picklable) summary.

A *spec* is a dict
    seq     list of floats        the load sequence of the reference point (ratio 1)
    ratios  None | list of floats None: single-point call with a plain Series; list: one batch call, point i carries ratio[i] * seq
    node_ids None | list          labels of the batch points in the ``node_id`` level, in the order of ``ratios`` (default 0..n-1); the
                                  labels are arbitrary: offset, with gaps or not ascending
    G       float | list          relative stress gradient (list: one value per point, passed as a Series)
    params  dict                  overrides of BASE_PARAMS (value None removes the key)
    want    None | list           which damage parameters the call computes: ['ram'], ['raj'] or both (default; calculate_P_RAM /
                                  calculate_P_RAJ of perform_fkm_nonlinear_assessment)
The summary holds, per point, the observables of the property (lifetimes, infinite-life verdicts, N_10/50/90) and the
stage outputs on which the contracts of coq/theories/Assess/Pipeline.v are checked (hysteresis table, damage parameters,
per-hysteresis damage, curve parameters, shared maxima, look-up tables).
"""
import contextlib
import io
import math
import multiprocessing
import os

import numpy as np
import pandas as pd

BASE_PARAMS = {'MatGroupFKM': 'Steel', 'FinishingFKM': 'none', 'R_m': 600, 'R_z': 250, 'P_A': 7.2e-5, 'P_L': 2.5, 'c': 1.4,
               'A_sigma': 339.4, 'A_ref': 500, 'G': 2 / 15, 's_L': 10, 'K_p': 3.5,
               'max_load_independently_for_nodes': True}

# the load sequences used by the library's own FKM-nonlinear tests (tests/strength/fkm_nonlinear)
SUITE = [
    [200, 600, 1000, 200, 60, 1200],
    [200, 600, 1000, 200, 60, 500, 1500, 700, 1200, -20],
    [200, 600, 1000, 60, 1500],
    [200, 600, 1000, 60, 1500, 200, 80, 400, 1500, 700, 200],
    [200, 600, 1000, 200, 60, 500, 100, 700, 1260, 1500, 800, 900, 500, 900, 700, 1200],
    [100, -200, 100, -250, 200, 0, 200, -200],
    [100, -100, 100, -200, -100, -200, 200, 0, 200, -200],
    [0.3, -0.3, 0.5, -0.5, 0.6, -0.6, 0.3, -0.3, 0.7, -0.7, 0.2, -0.2, 0.6, -0.6, 0.8, -0.8, 0.8, -0.8],
    [100, -200, 100, -250, 200, 0, 200, -200, 0],
    [100, 0, -200, 0, 0, 0, 100, -250, 200, 0, 200, 0, -200],
    [100, -100],
    [-100, 100],
    [440., -440.],
    [1, 2],
]


def make_params(over, G):
    p = dict(BASE_PARAMS)
    p.update(over or {})
    for k in [k for k, v in p.items() if v is None]:
        del p[k]
    if isinstance(G, (list, tuple)):
        p['G'] = pd.Series([float(g) for g in G], index=pd.Index(range(10, 10 + len(G)), name='node_id_anyname'))
    elif G is not None:
        p['G'] = float(G)
    return pd.Series(p)


def make_load(seq, ratios, node_ids=None):
    base = np.asarray(seq, dtype=float)
    if ratios is None:
        return pd.Series(base)
    n = len(ratios)
    ids = list(range(n)) if node_ids is None else [int(v) for v in node_ids]
    assert len(ids) == n and len(set(ids)) == n
    idx = pd.MultiIndex.from_product([range(len(base)), ids], names=['load_step', 'node_id'])
    # the same float products a caller gets who scales the sequence point by point
    cols = [base * float(r) for r in ratios]
    return pd.Series(np.stack(cols, axis=1).flatten(), index=idx)


def _f(x):
    x = float(x)
    return x


def _lst(a):
    return [float(v) for v in np.asarray(a, dtype=float).flatten()]


def _per_point(x, n):
    """result entries are scalars for one point and arrays for several"""
    a = np.atleast_1d(np.asarray(x))
    if a.size == 1 and n > 1:
        a = np.repeat(a, n)
    return a


def _tables(out, tag, r, n):
    b = r['extended_neuber_binned' if tag == 'RAM' else 'seeger_beste_binned']
    m = b._maximum_absolute_load
    out[tag + '_Lmax'] = _lst(_per_point(m, n)) if not np.isscalar(m) else [float(m)] * n
    lp, ls = b._lut_primary_branch, b._lut_secondary_branch
    nb = b._number_of_bins
    tabs = []
    for i in range(n):
        if isinstance(lp.index, pd.MultiIndex):
            sel = lp.index.get_level_values('node_id') == lp.index.get_level_values('node_id').unique()[i]
            sel2 = ls.index.get_level_values('node_id') == ls.index.get_level_values('node_id').unique()[i]
            a, c = lp[sel], ls[sel2]
        else:
            a, c = lp, ls
        tabs.append({'load': _lst(a['load']), 'stress': _lst(a['stress']), 'strain': _lst(a['strain']),
                     'dload': _lst(c['delta_load']), 'dstress': _lst(c['delta_stress']), 'dstrain': _lst(c['delta_strain'])})
    out[tag + '_lut'] = tabs
    out[tag + '_nbins'] = int(nb)


def assess(spec, want=None):
    """One call of perform_fkm_nonlinear_assessment.  Returns the summary dict or {'error': ...}."""
    import pylife.strength.fkm_nonlinear.assessment_nonlinear_standard as A
    want = tuple(want or spec.get('want') or ('ram', 'raj'))
    seq, ratios = spec['seq'], spec.get('ratios')
    n = 1 if ratios is None else len(ratios)
    p = make_params(spec.get('params'), spec.get('G', BASE_PARAMS['G']))
    load = make_load(seq, ratios, spec.get('node_ids'))
    out = {'n_points': n}
    try:
        with contextlib.redirect_stdout(io.StringIO()):
            r = A.perform_fkm_nonlinear_assessment(p, load, calculate_P_RAM='ram' in want, calculate_P_RAJ='raj' in want)
    except Exception as e:  # inputs the real code rejects
        return {'error': '%s: %s' % (type(e).__name__, str(e)[:200]), 'n_points': n}
    ap = r['assessment_parameters']
    out['K_RP'] = _f(ap['K_RP'])
    out['beta'] = _f(ap['beta']) if 'beta' in ap else None
    for k in ('gamma_M_RAM', 'gamma_M_RAJ', 'd_1', 'd_2', 'd_RAJ'):
        if k in ap:
            out[k] = _f(ap[k])
    for k in ('P_RAM_Z', 'P_RAM_D', 'P_RAJ_Z', 'P_RAJ_D_0', 'n_P'):
        if k in ap:
            out[k] = _lst(_per_point(ap[k], n))
    for tag in ('RAM', 'RAJ'):
        if tag.lower() not in want:
            continue
        out[tag + '_life'] = _lst(_per_point(r['P_%s_lifetime_n_cycles' % tag], n))
        out[tag + '_inf'] = [bool(v) for v in _per_point(r['P_%s_is_life_infinite' % tag], n)]
        out[tag + '_times'] = _lst(_per_point(r['P_%s_lifetime_n_times_load_sequence' % tag], n))
        for q in ('1ppm', '10', '50', '90'):
            k = 'P_%s_lifetime_N_%s' % (tag, q)
            if k in r:
                out['%s_N_%s' % (tag, q)] = _lst(_per_point(r[k], n))
        col = r['P_%s_collective' % tag]
        nh = len(col) // n if n else 0
        out[tag + '_n_hyst'] = nh

        def column(name, col=col, nh=nh):
            if name not in col:
                return None
            a = np.asarray(col[name], dtype=float).reshape(nh, n) if nh else np.zeros((0, n))
            return [[float(v) for v in a[:, i]] for i in range(n)]
        names = ['loads_min', 'loads_max', 'S_a', 'S_m', 'S_min', 'S_max', 'epsilon_a', 'epsilon_min', 'epsilon_max', 'epsilon_min_LF', 'epsilon_max_LF',
                 'is_closed_hysteresis', 'run_index', 'D', 'P_' + tag]
        if tag == 'RAM':
            names.append('N')
        else:
            names.append('P_RAJ_D')
        out[tag + '_col'] = {c: column(c) for c in names}
        # shared quantities and tables of the binned notch law (private attributes: optional, a rename must not break the check)
        try:
            _tables(out, tag, r, n)
        except Exception as e:
            out[tag + '_Lmax'] = out[tag + '_lut'] = out[tag + '_nbins'] = None
            out.setdefault('internals_unavailable', []).append('%s tables: %s' % (tag, type(e).__name__))
    if 'raj' in want:
        try:
            km = ap['P_RAJ_klass_max'] if 'P_RAJ_klass_max' in ap else getattr(ap, 'P_RAJ_klass_max', None)
            out['RAJ_klass_max'] = _lst(_per_point(km, n)) if km is not None else None
            dc = r['P_RAJ_damage_calculator']
            de = getattr(ap, 'P_RAJ_D_e', None)
            out['RAJ_D_e'] = _lst(_per_point(de, n)) if de is not None else None
            out['RAJ_q'] = [int(v) for v in np.atleast_1d(np.asarray(dc._q))]
            out['RAJ_H0'] = _lst(dc._H_0)
        except Exception as e:
            out.setdefault('internals_unavailable', []).append('RAJ internals: %s' % type(e).__name__)
    return out


# ------------------------------------------------------------------ stage-level probes (cheap; no assessment call)

def curve_probe(kind, pars, grid, P_RAJ_D=None):
    """N(P) of the component curve object the assessment builds, on a grid of P values"""
    import pylife.strength.woehler_fkm_nonlinear  # noqa: F401
    s = pd.Series(pars)
    if kind == 'RAM':
        return _lst(s.woehler_P_RAM.calc_N(np.asarray(grid, dtype=float)))
    c = s.woehler_P_RAJ
    if P_RAJ_D is not None:
        c.update_P_RAJ_D(P_RAJ_D)
    return _lst(c.calc_N(np.asarray(grid, dtype=float)))


def accumulate_probe(col_dict, pars, n_scale):
    """DamageCalculatorPRAM on a one-point hysteresis table whose P_RAM column is multiplied by the factors n_scale (list,
    one per hysteresis); returns (lifetime, infinite)"""
    import pylife.strength.fkm_nonlinear.damage_calculator as DC
    import pylife.strength.woehler_fkm_nonlinear  # noqa: F401
    nh = len(col_dict['P_RAM'])
    df = pd.DataFrame({'P_RAM': np.asarray(col_dict['P_RAM']) * np.asarray(n_scale, dtype=float),
                       'S_min': np.asarray(col_dict['S_min']),
                       'is_closed_hysteresis': np.asarray(col_dict['is_closed_hysteresis']) == 1.0,
                       'run_index': np.asarray(col_dict['run_index']).astype(np.int64)},
                      index=pd.MultiIndex.from_product([range(nh), [0]], names=['hysteresis_index', 'assessment_point_index']))
    c = pd.Series(pars).woehler_P_RAM
    dc = DC.DamageCalculatorPRAM(df, c)
    return float(dc.lifetime_n_cycles), bool(dc.is_life_infinite)


def prep_probe(spec):
    """the load sequence after the probability scaling and the c factor (the stage before HCM) and the shared maxima"""
    import pylife.strength.fkm_nonlinear.assessment_nonlinear_standard as A
    p = make_params(spec.get('params'), spec.get('G', BASE_PARAMS['G']))
    load = make_load(spec['seq'], spec.get('ratios'), spec.get('node_ids'))
    with contextlib.redirect_stdout(io.StringIO()):
        s = A._scale_load_sequence_according_to_probability(p, load)
        s = A._scale_load_sequence_by_c_factor(p, s)
        m = A._get_maximum_absolute_load(p, s)
    n = 1 if spec.get('ratios') is None else len(spec['ratios'])
    a = np.asarray(s, dtype=float).reshape(len(spec['seq']), n)
    return {'scaled': [[float(v) for v in a[:, i]] for i in range(n)],
            'Lmax': _lst(_per_point(m, n)) if not np.isscalar(m) else [float(m)] * n}


def _job(a):
    kind, payload = a
    try:
        if kind == 'assess':
            return assess(payload)
        if kind == 'prep':
            return prep_probe(payload)
        if kind == 'curve':
            return curve_probe(*payload)
        if kind == 'acc':
            return accumulate_probe(*payload)
    except Exception as e:  # machinery error inside a worker: reported, never swallowed as OK
        import traceback
        return {'error': 'worker: %s: %s' % (type(e).__name__, e), 'trace': traceback.format_exc()[-1500:], 'n_points': 0}
    raise ValueError(kind)


def run_jobs(jobs, procs=None):
    """jobs: list of (kind, payload).  Runs them in a fork pool (the rebuilt rainflow extension is inherited)."""
    import common
    procs = procs or common.NCPU
    if len(jobs) <= 1 or procs == 1:
        return [_job(j) for j in jobs]
    ctx = multiprocessing.get_context('fork')
    with ctx.Pool(min(procs, len(jobs))) as pool:
        return pool.map(_job, jobs, chunksize=1)


# ------------------------------------------------------------------ helpers on load sequences

def turning_points(seq):
    """reversals of a sequence (first and last sample kept)"""
    out = []
    for x in seq:
        if out and x == out[-1]:
            continue
        if len(out) >= 2 and (out[-1] - out[-2]) * (x - out[-1]) > 0:
            out[-1] = x
        else:
            out.append(x)
    return out


def edge_distance(seq, nbins=100):
    """Smallest distance (in units of one look-up class) of nbins*|x|/max|x| (loads) and nbins*|x-y|/max|x| (load ranges between any
    two samples) to an integer: the binned notch law looks values up by class, the class edges are the multiples of max/nbins; a
    load (range) on a class edge is where float rounding decides the class.  Ranges that are exactly max or 2*max are exempt:
    their edges nbins/nbins*max and 2*nbins/nbins*max are exact in floats."""
    xs = sorted(set(float(v) for v in seq) | {0.0})
    m = max(abs(v) for v in xs)
    if m == 0:
        return 0.0
    best = 1.0
    for i, a in enumerate(xs):
        for b in xs[i + 1:]:
            d = abs(a - b)
            if d == m or d == 2 * m or d == 0:
                continue
            t = nbins * d / m
            best = min(best, abs(t - round(t)))
    return best
