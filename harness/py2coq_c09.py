"""py2coq: fail-closed translator from a small numeric subset of Python (pyLife's closed-form
code) to Coq definitions over R.  DESIGN.md section 2.1.

The translator is driven by *specs* (see gen_specs.py).  Anything outside the accepted
subset raises Unsupported: the obligation "the model regenerates from the source" is then
broken, which a check reports (it never silently keeps an old model).

Semantics of the translation
  * float literals become the exact decimal rational that is written in the source;
  * instance attributes assigned in __init__ (following super().__init__) are re-derived from the
    constructor parameters inside every generated definition (let-bound, in assignment order),
    so a subclass that overrides `_Et`/`_nut` changes the inherited methods exactly as in Python;
  * np.power / ** with a non-literal exponent become `npow` (numpy semantics on x >= 0), with an
    integral literal exponent become `pow`;
  * np.where(c, a, b) becomes `if Rlt_dec/Rle_dec ... then a else b`;
  * arrays are scalars: every function is the element-wise function.
"""
import ast
import fractions
import os


class Unsupported(Exception):
    pass


NP1 = {'log10': 'log10R', 'log': 'ln', 'exp': 'exp', 'sqrt': 'sqrt', 'abs': 'Rabs', 'fabs': 'Rabs',
       'sign': 'sgnR', 'cos': 'cos', 'sin': 'sin', 'arctan': 'atan', 'tan': 'tan'}
IDENT_CALLS = {'asarray', 'array', 'float64', 'asanyarray'}
COQ_RESERVED = {'at', 'in', 'as', 'by', 'end', 'fun', 'let', 'fix', 'if', 'then', 'else', 'match', 'with',
                'return', 'forall', 'exists', 'Type', 'Prop', 'Set', 'using', 'where', 'for', 'cofix', 'IF',
                'exp', 'ln', 'sqrt', 'cos', 'sin', 'tan', 'atan', 'PI', 'R', 'pow', 'npow', 'Rabs', 'sgnR', 'N', 'Z', 'e'}


def ident(s):
    s2 = s.lstrip('_') or 'x_'
    if s2 in COQ_RESERVED:
        s2 = s2 + '_'
    return s2


def lit(v):
    if isinstance(v, bool):
        raise Unsupported('bool literal')
    if isinstance(v, int):
        return '(%d)' % v if v < 0 else str(v)
    if isinstance(v, float):
        fr = fractions.Fraction(repr(v))       # the decimal as written, not the binary double
        n, d = fr.numerator, fr.denominator
        if d == 1:
            return '(%d)' % n if n < 0 else str(n)
        return '(%d / %d)' % (n, d)
    raise Unsupported('literal %r' % (v,))


def strip_doc(body):
    if body and isinstance(body[0], ast.Expr) and isinstance(body[0].value, ast.Constant) and isinstance(body[0].value.value, str):
        return body[1:]
    return body


class ClassTr:
    """Translates methods of one class (or module-level functions when cls is None)."""

    def __init__(self, tree, cls, prefix, ctor_params=None, methods=(), drop_args=('rtol', 'tol'),
                 known=None, skip_attrs=(), const_attrs=None, extra_np1=None, obj_attr=None, none_args=(),
                 param_calls=None, arg_objs=(), skip_calls=()):
        self.tree = tree
        self.cls = cls
        self.prefix = prefix
        self.methods = list(methods)
        self.drop_args = set(drop_args)
        self.known = dict(known or {})       # external callables: python name -> (coq name, n ctor params to pass?)
        self.skip_attrs = set(skip_attrs)
        self.const_attrs = dict(const_attrs or {})
        self.obj_attr = obj_attr              # `self.<obj_attr>.X` reads constructor parameter X (pandas accessor classes)
        self.none_args = set(none_args)       # optional arguments modelled as "not given" (`if a is None: a = e` becomes a let)
        self.param_calls = dict(param_calls or {})   # `self.m(...)` calls that are free parameters of the model: method -> parameter
        self.arg_objs = set(arg_objs)         # arguments that are records: `arg.X` becomes the parameter X
        self.obj_fields = []                  # fields of arg_objs read by the current method, in order of first use
        self.skip_calls = set(skip_calls)     # `self.m(...)` expression statements without effect on the value (validation)
        self.list_consts = {}                 # local names bound to a literal list of tuples of numbers (look-up tables)
        self._used_param_calls = set()
        self._rbar = set()                    # let-bound names of type Rbar (values built with np.inf)
        self._inlining = []
        self.classes = {n.name: n for n in tree.body if isinstance(n, ast.ClassDef)}
        self.modfuncs = {n.name: n for n in tree.body if isinstance(n, ast.FunctionDef)}
        self.modconsts = {}
        for n in tree.body:
            if isinstance(n, ast.Assign) and len(n.targets) == 1 and isinstance(n.targets[0], ast.Name) \
                    and isinstance(n.value, ast.Constant) and isinstance(n.value.value, (int, float)) \
                    and not isinstance(n.value.value, bool):
                self.modconsts[n.targets[0].id] = n.value.value
        if cls is not None:
            self.mro = self._mro(cls)
            self.ctor_params = list(ctor_params) if ctor_params is not None else self._ctor_params()
            self.attr_lets = self._attr_lets()
        else:
            self.mro = []
            self.ctor_params = list(ctor_params or [])
            self.attr_lets = []
        self.attrs = {a for a, _ in self.attr_lets}

    # ---- class structure
    def _mro(self, name):
        out = []
        while name is not None:
            c = self.classes.get(name)
            if c is None:
                break
            out.append(c)
            bases = [b.id for b in c.bases if isinstance(b, ast.Name) and b.id in self.classes]
            if len(bases) > 1:
                raise Unsupported('multiple inheritance in ' + name)
            name = bases[0] if bases else None
        return out

    def _find_method(self, name, start=0):
        for i, c in enumerate(self.mro[start:], start):
            for n in c.body:
                if isinstance(n, ast.FunctionDef) and n.name == name:
                    return i, n
        return None, None

    def _ctor_params(self):
        _, init = self._find_method('__init__')
        if init is None:
            return []
        return [a.arg for a in init.args.args if a.arg != 'self'] + [a.arg for a in init.args.kwonlyargs]

    def _attr_lets(self):
        """Symbolically run __init__ (and super().__init__ chains): list of (attr, coq expr)."""
        lets = []

        def run_init(level, argexprs):
            lvl, init = self._find_method('__init__', level)
            if init is None:
                return
            names = [a.arg for a in init.args.args if a.arg != 'self'] + [a.arg for a in init.args.kwonlyargs]
            if len(names) != len(argexprs):
                raise Unsupported('__init__ arity')
            env = dict(zip(names, argexprs))
            for st in strip_doc(init.body):
                if isinstance(st, ast.Expr) and isinstance(st.value, ast.Call):
                    f = st.value.func
                    if isinstance(f, ast.Attribute) and f.attr == '__init__' and isinstance(f.value, ast.Call) \
                            and isinstance(f.value.func, ast.Name) and f.value.func.id == 'super':
                        run_init(lvl + 1, [self.expr(a, env) for a in st.value.args])
                        continue
                    if isinstance(f, ast.Attribute) and isinstance(f.value, ast.Name) and f.value.id == 'self' \
                            and f.attr.startswith('_validate'):
                        continue   # raises on inadmissible parameters; theorems carry the guard
                    raise Unsupported('__init__ statement ' + ast.unparse(st)[:60])
                if isinstance(st, ast.Assign) and len(st.targets) == 1 and isinstance(st.targets[0], ast.Attribute) \
                        and isinstance(st.targets[0].value, ast.Name) and st.targets[0].value.id == 'self':
                    a = st.targets[0].attr
                    if a in self.skip_attrs:
                        continue
                    self.attrs = {x for x, _ in lets}
                    lets.append((a, self.expr(st.value, env)))
                    continue
                if isinstance(st, ast.If):   # parameter validation that raises
                    if all(isinstance(s, ast.Raise) for s in st.body) and not st.orelse:
                        continue
                raise Unsupported('__init__ statement ' + ast.unparse(st)[:60])

        self.attrs = set()
        run_init(0, [ident(p) for p in self.ctor_params_early()])
        return lets

    def ctor_params_early(self):
        _, init = self._find_method('__init__')
        if init is None:
            return []
        return [a.arg for a in init.args.args if a.arg != 'self'] + [a.arg for a in init.args.kwonlyargs]

    # ---- properties (read-only computed attributes), inlined at their use
    def _property(self, name):
        if self.cls is None:
            return None
        _, fn = self._find_method(name)
        if fn is None:
            return None
        for d in fn.decorator_list:
            if isinstance(d, ast.Name) and d.id == 'property':
                return fn
        return None

    def _inline_property(self, name, fn):
        if name in self._inlining or len(self._inlining) > 8:
            raise Unsupported('recursive property ' + name)
        self._inlining.append(name)
        try:
            lets = []
            r = self.body(strip_doc(fn.body), {}, lets)
        finally:
            self._inlining.pop()
        return '(%s %s)' % (' '.join(lets), r) if lets else r

    # ---- values that may be infinite: np.where(..., np.inf) becomes a Coquelicot Rbar
    @staticmethod
    def _is_inf(n):
        return isinstance(n, ast.Attribute) and isinstance(n.value, ast.Name) and n.value.id == 'np' and n.attr == 'inf'

    def has_inf(self, n, env):
        for x in ast.walk(n):
            if self._is_inf(x):
                return True
            if isinstance(x, ast.Name) and env.get(x.id) in self._rbar:
                return True
        return False

    def expr_rbar(self, n, env):
        if self._is_inf(n):
            return 'p_infty'
        if isinstance(n, ast.UnaryOp) and isinstance(n.op, ast.USub) and self._is_inf(n.operand):
            return 'm_infty'
        if isinstance(n, ast.Name) and env.get(n.id) in self._rbar:
            return env[n.id]
        if isinstance(n, ast.Call) and isinstance(n.func, ast.Attribute) and isinstance(n.func.value, ast.Name) \
                and n.func.value.id == 'np' and n.func.attr == 'where' and len(n.args) == 3 and not n.keywords:
            return '(if %s then %s else %s)' % (self.cond(n.args[0], env), self.expr_rbar(n.args[1], env), self.expr_rbar(n.args[2], env))
        return '(Finite %s)' % self.expr(n, env)

    # ---- expressions
    def attr_name(self, a):
        return 'self_' + a.lstrip('_')

    def expr(self, n, env):
        if isinstance(n, ast.Constant):
            return lit(n.value)
        if isinstance(n, ast.Name):
            if n.id in env:
                if env[n.id] in self._rbar:
                    raise Unsupported('possibly infinite value %s used in arithmetic' % n.id)
                return env[n.id]
            if n.id in self.modconsts:
                return lit(self.modconsts[n.id])
            raise Unsupported('free name ' + n.id)
        if isinstance(n, ast.Attribute):
            if isinstance(n.value, ast.Name) and n.value.id == 'self':
                a = n.attr
                if a in self.const_attrs:
                    return self.const_attrs[a]
                if a in self.attrs:
                    return self.attr_name(a)
                if ('_' + a) in self.attrs:      # read-only property `self.nu` -> `self._nu`
                    return self.attr_name('_' + a)
                prop = self._property(a)
                if prop is not None:
                    return self._inline_property(a, prop)
                raise Unsupported('self.%s is not an attribute assigned in __init__' % a)
            if self.obj_attr and isinstance(n.value, ast.Attribute) and isinstance(n.value.value, ast.Name) \
                    and n.value.value.id == 'self' and n.value.attr == self.obj_attr:
                if n.attr in self.ctor_params:
                    return ident(n.attr)
                raise Unsupported('self.%s.%s is not a declared parameter' % (self.obj_attr, n.attr))
            if isinstance(n.value, ast.Name) and n.value.id in self.arg_objs:
                if n.attr not in self.obj_fields:
                    self.obj_fields.append(n.attr)
                return ident(n.attr)
            if isinstance(n.value, ast.Name) and n.value.id == 'np' and n.attr == 'pi':
                return 'PI'
            if isinstance(n.value, ast.Name) and n.value.id == 'np' and n.attr == 'inf':
                raise Unsupported('np.inf')
            raise Unsupported('attribute ' + ast.unparse(n)[:60])
        if isinstance(n, ast.UnaryOp):
            if isinstance(n.op, ast.USub):
                return '(- %s)' % self.expr(n.operand, env)
            if isinstance(n.op, ast.UAdd):
                return self.expr(n.operand, env)
            raise Unsupported('unary ' + ast.dump(n.op))
        if isinstance(n, ast.BinOp):
            if isinstance(n.op, ast.Pow):
                return self.power(n.left, n.right, env)
            op = {ast.Add: '+', ast.Sub: '-', ast.Mult: '*', ast.Div: '/'}.get(type(n.op))
            if op is None:
                raise Unsupported('operator ' + ast.dump(n.op))
            return '(%s %s %s)' % (self.expr(n.left, env), op, self.expr(n.right, env))
        if isinstance(n, ast.Call):
            return self.call(n, env)
        if isinstance(n, ast.IfExp):
            return '(if %s then %s else %s)' % (self.cond(n.test, env), self.expr(n.body, env), self.expr(n.orelse, env))
        raise Unsupported('expression ' + ast.unparse(n)[:80])

    def cond(self, c, env):
        if isinstance(c, ast.Compare) and len(c.ops) == 1:
            a, b = self.expr(c.left, env), self.expr(c.comparators[0], env)
            t = type(c.ops[0])
            if t is ast.Lt:
                return '(Rlt_dec %s %s)' % (a, b)
            if t is ast.Gt:
                return '(Rlt_dec %s %s)' % (b, a)
            if t is ast.LtE:
                return '(Rle_dec %s %s)' % (a, b)
            if t is ast.GtE:
                return '(Rle_dec %s %s)' % (b, a)
            if t is ast.Eq:
                return '(Req_EM_T %s %s)' % (a, b)
            raise Unsupported('comparison ' + ast.dump(c.ops[0]))
        if isinstance(c, ast.Call) and ast.unparse(c.func) == 'np.isclose' and len(c.args) == 2 and not c.keywords:
            # numpy default tolerances:  |a - b| <= atol + rtol * |b|,  atol = 1e-8, rtol = 1e-5
            a, b = self.expr(c.args[0], env), self.expr(c.args[1], env)
            return '(Rle_dec (Rabs (%s - %s)) (1 / 100000000 + 1 / 100000 * Rabs %s))' % (a, b, b)
        raise Unsupported('condition ' + ast.unparse(c)[:60])

    def power(self, b, x, env):
        if isinstance(x, ast.Constant) and isinstance(x.value, (int, float)) and not isinstance(x.value, bool) \
                and float(x.value) == int(x.value) and int(x.value) >= 0:
            return '(%s ^ %d)' % (self.expr(b, env), int(x.value))
        return '(npow %s %s)' % (self.expr(b, env), self.expr(x, env))

    def call(self, n, env):
        f = n.func
        kw = {k.arg: k.value for k in n.keywords}
        if isinstance(f, ast.Attribute) and isinstance(f.value, ast.Name) and f.value.id == 'np':
            if f.attr in IDENT_CALLS and len(n.args) == 1:
                return self.expr(n.args[0], env)
            if f.attr == 'power' and len(n.args) == 2 and not kw:
                return self.power(n.args[0], n.args[1], env)
            if f.attr in NP1 and len(n.args) == 1 and not kw:
                return '(%s %s)' % (NP1[f.attr], self.expr(n.args[0], env))
            if f.attr == 'where' and len(n.args) == 3 and not kw:
                return '(if %s then %s else %s)' % (self.cond(n.args[0], env), self.expr(n.args[1], env), self.expr(n.args[2], env))
            if f.attr in ('maximum', 'fmax') and len(n.args) == 2 and not kw:
                return '(Rmax %s %s)' % (self.expr(n.args[0], env), self.expr(n.args[1], env))
            if f.attr in ('minimum', 'fmin') and len(n.args) == 2 and not kw:
                return '(Rmin %s %s)' % (self.expr(n.args[0], env), self.expr(n.args[1], env))
            if f.attr == 'divide' and len(n.args) == 2 and set(kw) == {'out', 'where'}:
                # np.divide(a, b, out=np.ones_like(a), where=b != 0)
                w, o = kw['where'], kw['out']
                if isinstance(o, ast.Call) and ast.unparse(o.func) == 'np.ones_like' and isinstance(w, ast.Compare) \
                        and isinstance(w.ops[0], ast.NotEq) and ast.unparse(w.left) == ast.unparse(n.args[1]) \
                        and ast.unparse(w.comparators[0]) == '0':
                    a, b = self.expr(n.args[0], env), self.expr(n.args[1], env)
                    return '(if Req_EM_T %s 0 then 1 else %s / %s)' % (b, a, b)
            raise Unsupported('np.%s call %s' % (f.attr, ast.unparse(n)[:60]))
        if isinstance(f, ast.Name) and f.id == 'abs' and len(n.args) == 1:
            return '(Rabs %s)' % self.expr(n.args[0], env)
        if isinstance(f, ast.Name) and f.id == 'float' and len(n.args) == 1:
            return self.expr(n.args[0], env)
        if isinstance(f, ast.Name) and f.id in ('max', 'min') and len(n.args) == 2 and not kw and f.id not in env:
            return '(%s %s %s)' % ('Rmax' if f.id == 'max' else 'Rmin', self.expr(n.args[0], env), self.expr(n.args[1], env))
        if isinstance(f, ast.Attribute) and isinstance(f.value, ast.Name) and f.value.id == 'self' and f.attr in self.param_calls:
            self._used_param_calls.add(self.param_calls[f.attr])      # a library / pandas computation: free parameter of the model
            return self.param_calls[f.attr]
        if isinstance(f, ast.Name) and f.id in env and env[f.id].startswith('@local:'):
            return '(%s %s)' % (env[f.id][7:], ' '.join(self.expr(a, env) for a in n.args))
        if isinstance(f, ast.Name) and f.id in self.known:
            return '(%s %s)' % (self.known[f.id], ' '.join(self.expr(a, env) for a in n.args))
        if isinstance(f, ast.Name) and f.id in self.modfuncs and self.cls is None and f.id in self.methods:
            return '(%s%s %s)' % (self.prefix, f.id, ' '.join(self.expr(a, env) for a in n.args))
        if isinstance(f, ast.Attribute) and isinstance(f.value, ast.Name) and f.value.id == 'self':
            args = [self.expr(a, env) for a in n.args] + [self.expr(v, env) for v in kw.values() if True]
            if f.attr in self.methods:
                return '(' + ' '.join([self.prefix + f.attr] + [ident(p) for p in self.ctor_params] + args) + ')'
            raise Unsupported('call of self.%s (not in the method whitelist)' % f.attr)
        if isinstance(f, ast.Attribute) and isinstance(f.value, ast.Call) and isinstance(f.value.func, ast.Name) \
                and f.value.func.id == 'super' and ('super_' + f.attr) in self.methods:
            args = [self.expr(a, env) for a in n.args]
            return '(' + ' '.join([self.prefix + 'super_' + f.attr] + [ident(p) for p in self.ctor_params] + args) + ')'
        if isinstance(f, ast.Attribute) and f.attr == 'astype' and len(n.args) == 1:
            return self.expr(f.value, env)
        raise Unsupported('call ' + ast.unparse(n)[:80])

    # ---- statements
    def body(self, stmts, env, lets):
        """Translate a straight-line body; returns the Coq expression of the returned value."""
        stmts = self.flatten(stmts)
        for i, st in enumerate(stmts):
            if isinstance(st, ast.Assign) and len(st.targets) == 1 and isinstance(st.targets[0], ast.Name) \
                    and self._table_literal(st.value) is not None:
                self.list_consts[st.targets[0].id] = self._table_literal(st.value)
                continue
            if isinstance(st, ast.If) and self._is_none_test(st.test) is not None and not st.orelse and len(st.body) == 1 \
                    and isinstance(st.body[0], ast.Assign) and len(st.body[0].targets) == 1 \
                    and isinstance(st.body[0].targets[0], ast.Name) and st.body[0].targets[0].id == self._is_none_test(st.test):
                a = self._is_none_test(st.test)      # `if a is None: a = e`
                if a in self.none_args:
                    nm = ident(a)
                    lets.append('let %s := %s in' % (nm, self.expr(st.body[0].value, env)))
                    env[a] = nm
                    continue
                if a in env:                         # the argument is given explicitly in this model
                    continue
                raise Unsupported('optional argument ' + a)
            if isinstance(st, ast.Assign) and len(st.targets) == 1:
                t = st.targets[0]
                if isinstance(t, ast.Name):
                    if self.has_inf(st.value, env):
                        nm = ident(t.id)
                        lets.append('let %s := %s in' % (nm, self.expr_rbar(st.value, env)))
                        env[t.id] = nm
                        self._rbar.add(nm)
                        continue
                    self._rbar.discard(ident(t.id))
                    v = self.expr(st.value, env)
                    nm = ident(t.id)
                    lets.append('let %s := %s in' % (nm, v))
                    env[t.id] = nm
                    continue
                if isinstance(t, ast.Tuple) and all(isinstance(e, ast.Name) for e in t.elts) and isinstance(st.value, ast.Call):
                    fn = st.value.func
                    if isinstance(fn, ast.Attribute) and fn.attr == '_as_consistant_arrays':
                        if [ast.unparse(a) for a in st.value.args] != [e.id for e in t.elts]:
                            raise Unsupported('_as_consistant_arrays not used as identity')
                        continue
                    if isinstance(fn, ast.Attribute) and fn.attr == '_get_abs_sign' and len(t.elts) == 2:
                        x = self.expr(st.value.args[0], env)
                        a, s = ident(t.elts[0].id), ident(t.elts[1].id)
                        lets.append('let %s := Rabs %s in' % (a, x))
                        lets.append('let %s := sgnR %s in' % (s, x))
                        env[t.elts[0].id], env[t.elts[1].id] = a, s
                        continue
                    v = self.expr(st.value, env)
                    names = []
                    for e in t.elts:
                        if e.id == '_':
                            names.append('_')
                        else:
                            names.append(ident(e.id))
                            env[e.id] = ident(e.id)
                    lets.append("let '(%s) := %s in" % (', '.join(names), v))
                    continue
                raise Unsupported('assignment ' + ast.unparse(st)[:70])
            if isinstance(st, ast.FunctionDef):      # local helper: fun
                args = [a.arg for a in st.args.args]
                env2 = dict(env)
                for a in args:
                    env2[a] = ident(a)
                l2 = []
                r = self.body(strip_doc(st.body), env2, l2)
                nm = ident(st.name)
                lets.append('let %s := (fun %s => %s %s) in' % (nm, ' '.join(ident(a) for a in args), ' '.join(l2), r))
                env[st.name] = '@local:' + nm
                continue
            if isinstance(st, ast.Expr) and isinstance(st.value, ast.Call) and isinstance(st.value.func, ast.Attribute) \
                    and isinstance(st.value.func.value, ast.Name) and st.value.func.value.id == 'self' \
                    and st.value.func.attr in self.skip_calls:
                continue
            if isinstance(st, ast.Raise):
                return '0'        # the call raises: outside the model (theorems carry the guard); value irrelevant
            if isinstance(st, ast.If) and self._optional_key_default(st):
                continue
            if isinstance(st, ast.If) and len(st.body) == 1 and isinstance(st.body[0], ast.Return) and not st.orelse \
                    and not isinstance(st.body[0].value, ast.Tuple):
                # early return:  if c: return e ; rest
                c = self.cond(st.test, env)
                v = self.expr(st.body[0].value, env)
                return '(if %s then %s else %s)' % (c, v, self.rest(stmts[i + 1:], env))
            if isinstance(st, ast.If) and self._branch_assign(st) is not None:
                # if/elif/else that assigns one and the same name in every branch (a branch may raise instead)
                name = self._branch_assign(st)
                v = self._branch_value(st, name, env)
                nm = ident(name)
                lets.append('let %s := %s in' % (nm, v))
                env[name] = nm
                continue
            if isinstance(st, ast.For) and isinstance(st.iter, ast.Name) and st.iter.id in self.list_consts and not st.orelse \
                    and isinstance(st.target, ast.Tuple) and all(isinstance(e, ast.Name) for e in st.target.elts):
                # look-up loop over a literal table: unrolled
                rows = self.list_consts[st.iter.id]
                names = [e.id for e in st.target.elts]
                if any(len(r) != len(names) for r in rows) or len(st.body) != 1 or not isinstance(st.body[0], ast.If) \
                        or len(st.body[0].body) != 1 or not isinstance(st.body[0].body[0], ast.Return) or st.body[0].orelse:
                    raise Unsupported('for loop ' + ast.unparse(st)[:60])
                out = self.rest(stmts[i + 1:], env)
                for r in reversed(rows):
                    env2 = dict(env)
                    env2.update({nm: lit(v) for nm, v in zip(names, r)})
                    out = '(if %s then %s else %s)' % (self.cond(st.body[0].test, env2), self.expr(st.body[0].body[0].value, env2), out)
                return out
            if isinstance(st, ast.If):
                # `if not isinstance(x, float): x = x.astype(float)` style identities
                src = ast.unparse(st)
                if 'isinstance' in ast.unparse(st.test) and all(
                        isinstance(s, ast.Assign) and isinstance(s.value, ast.Call) and isinstance(s.value.func, ast.Attribute)
                        and s.value.func.attr == 'astype' and ast.unparse(s.targets[0]) == ast.unparse(s.value.func.value)
                        for s in st.body) and not st.orelse:
                    continue
                # guard that raises
                if all(isinstance(s, ast.Raise) for s in st.body) and not st.orelse:
                    continue
                raise Unsupported('if statement ' + src[:70])
            if isinstance(st, ast.Return):
                v = st.value
                if isinstance(v, ast.Tuple):
                    return '(' + ', '.join(self.expr(x, env) for x in v.elts) + ')'
                if self.has_inf(v, env):
                    return self.expr_rbar(v, env)
                return self.expr(v, env)
            raise Unsupported('statement ' + ast.unparse(st)[:70])
        raise Unsupported('no return statement')

    def rest(self, stmts, env):
        """The remaining statements as one expression.  Statements that only prepare an error message in front of an
        unconditional raise are not translated."""
        k = next((j for j, x in enumerate(stmts) if isinstance(x, ast.Raise)), None)
        if k is not None and all(isinstance(x, (ast.Assign, ast.Expr)) for x in stmts[:k]):
            return '0'
        l2 = []
        r = self.body(stmts, dict(env), l2)
        return '(%s %s)' % (' '.join(l2), r) if l2 else r

    @staticmethod
    def _table_literal(v):
        if not isinstance(v, ast.List) or not v.elts:
            return None
        rows = []
        for e in v.elts:
            if not isinstance(e, ast.Tuple):
                return None
            row = []
            for c in e.elts:
                if isinstance(c, ast.Constant) and isinstance(c.value, (int, float)) and not isinstance(c.value, bool):
                    row.append(c.value)
                else:
                    return None
            rows.append(row)
        return rows

    def _optional_key_default(self, st):
        """`if "key" not in params: params["key"] = <constant>` for a key the model never reads."""
        t = st.test
        if not (isinstance(t, ast.Compare) and len(t.ops) == 1 and isinstance(t.ops[0], ast.NotIn) and isinstance(t.left, ast.Constant)
                and isinstance(t.left.value, str) and isinstance(t.comparators[0], ast.Name) and t.comparators[0].id in self.arg_objs):
            return False
        if st.orelse or len(st.body) != 1 or not isinstance(st.body[0], ast.Assign):
            return False
        tg = st.body[0].targets[0]
        ok = isinstance(tg, ast.Subscript) and isinstance(tg.value, ast.Name) and tg.value.id == t.comparators[0].id \
            and isinstance(tg.slice, ast.Constant) and tg.slice.value == t.left.value and isinstance(st.body[0].value, ast.Constant)
        if ok and t.left.value in self.obj_fields:
            raise Unsupported('defaulted key %s is read by the model' % t.left.value)
        if ok:
            self._defaulted = getattr(self, '_defaulted', set()) | {t.left.value}
        return ok

    def _branches(self, st):
        """[(test or None, body)] of an if/elif/else chain."""
        out = []
        while True:
            out.append((st.test, st.body))
            if len(st.orelse) == 1 and isinstance(st.orelse[0], ast.If):
                st = st.orelse[0]
                continue
            if st.orelse:
                out.append((None, st.orelse))
            return out

    def _branch_assign(self, st):
        names = set()
        br = self._branches(st)
        for _, body in br:
            if len(body) == 1 and isinstance(body[0], ast.Raise):
                continue
            if len(body) == 1 and isinstance(body[0], ast.Assign) and len(body[0].targets) == 1 and isinstance(body[0].targets[0], ast.Name):
                names.add(body[0].targets[0].id)
            else:
                return None
        if len(names) != 1 or br[-1][0] is not None:      # needs a final else: every path defines the name or raises
            return None
        return names.pop()

    def _branch_value(self, st, name, env):
        out = None
        for test, body in reversed(self._branches(st)):
            v = '0' if isinstance(body[0], ast.Raise) else self.expr(body[0].value, env)
            out = v if test is None else '(if %s then %s else %s)' % (self.cond(test, env), v, out)
        return out

    @staticmethod
    def _is_none_test(t):
        if isinstance(t, ast.Compare) and len(t.ops) == 1 and isinstance(t.ops[0], ast.Is) and isinstance(t.left, ast.Name) \
                and isinstance(t.comparators[0], ast.Constant) and t.comparators[0].value is None:
            return t.left.id
        return None

    def flatten(self, stmts):
        """`with np.errstate(...):` only silences warnings: its body is spliced in."""
        out = []
        for st in stmts:
            if isinstance(st, ast.With) and all(ast.unparse(it.context_expr).startswith('np.errstate(') and it.optional_vars is None
                                                for it in st.items):
                out.extend(self.flatten(st.body))
            else:
                out.append(st)
        return out

    def method(self, name):
        sup = name.startswith('super_')
        if self.cls is None:
            fn = self.modfuncs.get(name)
            if fn is None:
                raise Unsupported('function %s not found' % name)
        else:
            _, fn = self._find_method(name[6:], 1) if sup else self._find_method(name)
            if fn is None:
                raise Unsupported('method %s not found in %s' % (name, self.cls))
        args = [a.arg for a in fn.args.args if a.arg != 'self'] + \
               [a.arg for a in fn.args.kwonlyargs if a.arg not in self.drop_args]
        args = [a for a in args if a not in self.drop_args and a not in self.none_args and a not in self.arg_objs]
        env = {a: ident(a) for a in args}
        self._rbar = set()
        self.obj_fields = []
        self._used_param_calls = set()
        lets = ['let %s := %s in' % (self.attr_name(a), e) for a, e in self.attr_lets]
        ret = self.body(strip_doc(fn.body), env, lets)
        params = [ident(p) for p in self.ctor_params] + [ident(a) for a in args] + [ident(a) for a in sorted(self.obj_fields)] \
            + [p for p in dict.fromkeys(self.param_calls.values()) if p in self._used_param_calls]
        out = 'Definition %s%s %s :=\n' % (self.prefix, name, ' '.join('(%s : R)' % p for p in params))
        for l in lets:
            out += '  %s\n' % l
        return out + '  %s.\n\n' % ret, params


HEADER = ('(* GENERATED by /verif/harness/py2coq.py from %s -- do not edit; regenerated on every check run *)\n'
          'From Coq Require Import Reals.\nFrom PL Require Import Common.RPrelude.\nOpen Scope R_scope.\n\n')


def translate_module(src_path, items, requires=()):
    """items: list of dicts(cls, prefix, methods, ...).  Returns Coq text."""
    tree = ast.parse(open(src_path).read())
    out = HEADER % os.path.relpath(src_path, '/')
    for r in requires:
        out += 'From PLgen Require Import %s.\n' % r
    sigs = {}
    for it in items:
        it = dict(it)
        methods = it.pop('methods')
        tr = ClassTr(tree, it.pop('cls', None), it.pop('prefix'), methods=methods, **it)
        for m in methods:
            text, params = tr.method(m)
            out += text
            sigs[tr.prefix + m] = params
    if 'p_infty' in out or 'Finite' in out:
        out = out.replace('From PL Require Import Common.RPrelude.\n', 'From Coquelicot Require Import Rbar.\nFrom PL Require Import Common.RPrelude.\n', 1)
    return out, sigs
