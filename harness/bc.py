"""Harness code of C13 (signal broadcasting): configuration generator, running the real Broadcaster,
the property's own oracle on the implementation, Coq literals of the observations."""
import copy
import itertools
import math

import numpy as np
import pandas as pd

REQ = ['From PL Require Import Core.Broadcast Core.BroadcastOpts.']

NAMES = ['a', 'b', 'c', 'd', 'e', '', 0, 1]  # level-name pool; model name = position in this list
ODD_NAMES = ['', 0, 1]                     # valid pandas level names that are falsy / not strings (e.g. after set_index(0))
POOLS = {                                  # key pool per level name (homogeneous per level, mixed across levels)
    'a': [1, 2, 3, 4],
    'b': ['p', 'q', 'r', 's'],
    'c': [10, 20, 30],
    'd': ['x', 'y', 'z'],
    'e': [7, 8, 9],
    '': [1, 2, 3],
    0: ['p', 'q', 'r'],
    1: [10, 20, 30, 40],
    None: [0, 1, 2, 3, 5],
}


# ----------------------------------------------------------------------------------------- operands

class Operand:
    """Abstract description of one pandas operand: kind 'S' (Series) / 'F' (DataFrame), level names
    (None = unnamed), unique key tuples, column names (for 'F').  Payload of row i, column j is
    base + 8 i + j (all distinct, integer valued: exact in floats)."""

    def __init__(self, kind, levels, keys, cols=None, base=1000, name=None, mi1=False, rng_index=False, ties=None):
        self.kind, self.levels, self.keys = kind, list(levels), [tuple(k) for k in keys]
        self.cols = list(cols) if cols else (['v'] if kind == 'S' else ['u', 'w'])
        self.base, self.name = base, name
        self.mi1 = bool(mi1) and len(self.levels) == 1   # index layout: the single level is held by a MultiIndex (from_arrays / from_frame)
        # index layout: the single level is held by a pandas RangeIndex (the default index, possibly named; start / step read off
        # the keys).  Only possible while the keys are an integer progression: an operand whose keys are not falls back to Index.
        self.rng_index = bool(rng_index) and not self.mi1 and range_of(self.levels, self.keys) is not None
        # value ties: ties[i] = number of the first row holding the same values as row i (None: all rows distinct)
        self.ties = list(ties) if ties and len(ties) == len(self.keys) and any(t != i for i, t in enumerate(ties)) else None

    def clone(self, keys=None, cols=None):
        ties = self.ties
        if keys is not None and ties is not None:
            # rows were dropped: keep the tie classes among the remaining rows
            pos = {k: i for i, k in enumerate(self.keys)}
            cls = [ties[pos[k]] for k in keys]
            ties = [cls.index(c) for c in cls]
        return Operand(self.kind, self.levels, self.keys if keys is None else keys, self.cols if cols is None else cols,
                       self.base, self.name, self.mi1, self.rng_index, ties)

    def rep(self, i):
        """representative of the value class of row i (i itself without ties)"""
        return i if (i is None or i < 0 or self.ties is None) else self.ties[i]

    def value(self, i, j):
        return float(self.base + 8 * self.rep(i) + j)

    def build(self):
        if len(self.levels) == 1 and self.mi1:
            idx = pd.MultiIndex.from_arrays([[k[0] for k in self.keys]], names=self.levels)
        elif len(self.levels) == 1 and self.rng_index:
            start, step = range_of(self.levels, self.keys)
            idx = pd.RangeIndex(start, start + step * len(self.keys), step, name=self.levels[0])
            assert isinstance(idx, pd.RangeIndex) and [(int(v),) for v in idx] == self.keys
        elif len(self.levels) == 1:
            idx = pd.Index([k[0] for k in self.keys], name=self.levels[0])
        else:
            idx = pd.MultiIndex.from_tuples(self.keys, names=self.levels) if self.keys else \
                pd.MultiIndex.from_arrays([[] for _ in self.levels], names=self.levels)
        n = len(self.keys)
        if self.kind == 'S':
            return pd.Series([self.value(i, 0) for i in range(n)], index=idx, name=self.name, dtype=float)
        return pd.DataFrame({c: [self.value(i, j) for i in range(n)] for j, c in enumerate(self.cols)}, index=idx, dtype=float)

    def row_of(self, vals):
        """Which original row do these values belong to (with value ties: the first row of that value class)?
        None = all NaN; -1 = neither (garbage)."""
        vals = [float(v) for v in vals]
        if all(math.isnan(v) for v in vals):
            return None
        if any(math.isnan(v) for v in vals) or len(vals) != (1 if self.kind == 'S' else len(self.cols)):
            return -1
        i = (vals[0] - self.base) / 8.0
        if i != int(i) or not (0 <= int(i) < len(self.keys)):
            return -1
        i = int(i)
        if self.rep(i) != i:
            return -1
        return i if all(vals[j] == self.value(i, j) for j in range(len(vals))) else -1

    def describe(self):
        d = {'kind': self.kind, 'levels': self.levels, 'keys': [list(k) for k in self.keys],
             'cols': self.cols if self.kind == 'F' else None, 'base': self.base}
        if self.mi1:
            d['mi1'] = True
        if self.rng_index:
            d['range_index'] = True
        if self.ties:
            d['ties'] = list(self.ties)
        return d

    @staticmethod
    def from_description(d):
        return Operand(d['kind'], d['levels'], [tuple(k) for k in d['keys']], d.get('cols'), d.get('base', 1000), mi1=d.get('mi1', False),
                       rng_index=d.get('range_index', False), ties=d.get('ties'))


def range_of(levels, keys):
    """(start, step) if the keys of a one-level operand are the values of a RangeIndex (integer progression), else None"""
    if len(levels) != 1 or not keys or any(type(k[0]) is not int for k in keys):
        return None
    v = [k[0] for k in keys]
    step = (v[1] - v[0]) if len(v) > 1 else 1
    if step == 0 or any(v[i] != v[0] + i * step for i in range(len(v))):
        return None
    return v[0], step


def total_levels(lo, lp):
    """obj levels ++ new prm levels; an unnamed level is never shared."""
    return list(lo) + [n for n in lp if n is None or n not in lo]


def shared_levels(lo, lp):
    return [n for n in lp if n is not None and n in lo]


def layout(lo, lp):
    so, sp = set(n for n in lo if n is not None), set(n for n in lp if n is not None)
    anon_o, anon_p = lo.count(None), lp.count(None)
    if not (so & sp):
        return 'disjoint'
    if so == sp and not anon_o and not anon_p:
        return 'equal'
    if sp <= so and not anon_p:
        return 'prm_in_obj'
    if so <= sp and not anon_o:
        return 'obj_in_prm'
    return 'overlap'


# ----------------------------------------------------------------------------------------- running the implementation

def snapshot(x):
    return copy.deepcopy(x)


def same_operand(x, x0):
    """values, index (values, names, dtype, type), columns / name unchanged"""
    try:
        if type(x) is not type(x0) or not x.equals(x0):
            return False
        if list(x.index.names) != list(x0.index.names) or not x.index.identical(x0.index):
            return False
        if isinstance(x, pd.DataFrame):
            return x.columns.identical(x0.columns) and list(x.dtypes) == list(x0.dtypes)
        return x.name == x0.name and x.dtype == x0.dtype
    except Exception:
        return False


def run_impl(obj, prm, **kw):
    """-> ('ok', prm_result, obj_result) | ('exc', exception, None)"""
    from pylife.core.broadcaster import Broadcaster
    try:
        p, o = Broadcaster(obj).broadcast(prm, **kw)
        return 'ok', p, o
    except Exception as e:      # noqa: the error kind is part of the observation
        return 'exc', e, None


def _rowvals(x, i):
    if isinstance(x, pd.DataFrame):
        return [x.iloc[i, j] for j in range(x.shape[1])]
    return [x.iloc[i]]


def _keys_of(index):
    return [k if isinstance(k, tuple) else (k,) for k in index]


def _isnan(v):
    return isinstance(v, float) and math.isnan(v)


def level_positions(res_names, lo, lp):
    """For each level of obj and of prm: its position in the result index.  None if the result level names are not
    a rearrangement of obj levels ++ new prm levels that can be identified."""
    tot = total_levels(lo, lp)
    res_names = list(res_names)
    if res_names == tot:
        order = list(range(len(tot)))
    else:
        if sorted(map(repr, res_names)) != sorted(map(repr, tot)) or res_names.count(None) > 1:
            return None
        order = [res_names.index(n) for n in tot]           # position in the result of each total level
    pos_o = order[:len(lo)]
    pos_p = []
    new = iter(order[len(lo):])
    for n in lp:
        pos_p.append(order[lo.index(n)] if (n is not None and n in lo) else next(new))
    return order, pos_o, pos_p


class Obs:
    """Canonical observation of one frame-to-frame broadcast: rows = [(key over total, obj row | None, prm row | None)]"""
    def __init__(self):
        self.raised = None
        self.unaligned = False  # the call returned the operands themselves, not aligned
        self.rows = None
        self.levels = None
        self.prm_levels = None  # droplevel: level names of the returned parameter
        self.prm_rows = None    # droplevel: [(key over the result levels without the dropped ones, prm row | None)]
        self.problems = []     # property-level problems (what, detail)


W_DROP_INDEX = 'broadcast parameter (droplevel) does not have one row per key of the broadcast object without the dropped levels'


def observe(O, P, obj, prm, status, p, o, droplevel=()):
    """Evaluates the property on what the implementation returned for operands O, P (descriptions) /
    obj, prm (the pandas objects that were passed, after the call).

    droplevel (names of index levels that only the object has): the returned parameter is indexed by the result levels
    without the dropped ones -- the two results then have the same index up to the dropped levels: the keys of the
    parameter are exactly the keys of the object with the dropped components removed, each once, and each row carries the
    value the original parameter held for that key restricted to the parameter's levels (NaN if none)."""
    ob = Obs()
    if status == 'exc':
        ob.raised = p
        return ob
    bad = ob.problems.append
    zero_level_obj = O.kind == 'S' and O.levels == [None]       # parameter-set Series: its keys become columns
    lo = [] if zero_level_obj else O.levels
    lp = P.levels
    D = [] if zero_level_obj else [n for n in droplevel if n in lo]
    # ---- result types
    if zero_level_obj:
        if not isinstance(o, pd.DataFrame) or [k[0] for k in O.keys] != list(o.columns):
            bad(('broadcast object has the wrong type or columns', repr(type(o))))
            return ob
    elif type(o) is not type(obj) or (O.kind == 'F' and list(o.columns) != O.cols):
        bad(('broadcast object has the wrong type or columns', repr(type(o))))
        return ob
    if type(p) is not type(prm) or (P.kind == 'F' and list(p.columns) != P.cols):
        bad(('broadcast parameter has the wrong type or columns', repr(type(p))))
        return ob
    def themselves():
        """the results are the operands as they were passed (same rows in the same order): nothing was aligned"""
        try:
            return (len(o) == len(O.keys) and len(p) == len(P.keys) and o.index.nlevels == len(lo) and p.index.nlevels == len(lp)
                    and [O.row_of(_rowvals(o, i)) for i in range(len(o))] == [O.rep(i) for i in range(len(o))]
                    and [P.row_of(_rowvals(p, i)) for i in range(len(p))] == [P.rep(i) for i in range(len(p))])
        except Exception:
            return False
    # ---- identical index
    if not D and not (o.index.equals(p.index) and list(o.index.names) == list(p.index.names)):
        bad(('the two results do not have the same index', '%r %r / %r %r' % (list(o.index.names), list(o.index)[:6], list(p.index.names), list(p.index)[:6])))
        ob.unaligned = themselves()
        return ob
    lvl = level_positions(o.index.names, lo, lp)
    if lvl is None:
        bad(('result level names are not obj levels + new parameter levels', repr(list(o.index.names))))
        ob.unaligned = themselves() and len(lo) + len(lp) > len(list(o.index.names)) and not zero_level_obj
        return ob
    order, pos_o, pos_p = lvl
    tot = total_levels(lo, lp)
    ob.levels = list(o.index.names)      # as returned (the keys below are canonicalised to obj levels ++ new prm levels)
    ko = {k: i for i, k in enumerate(O.keys)} if not zero_level_obj else {(): 0}
    kp = {k: i for i, k in enumerate(P.keys)}
    have_o, have_p = set(), set()
    # ---- with droplevel: the parameter result on its own index (result levels without the dropped ones)
    pdrop = None
    if D:
        keep = [j for j, n in enumerate(tot) if not (n is not None and n in D)]      # positions in total
        exp_names = [tot[j] for j in keep]
        got_names = list(p.index.names)
        if got_names == exp_names:
            perm = list(range(len(exp_names)))
        elif sorted(map(repr, got_names)) == sorted(map(repr, exp_names)) and got_names.count(None) <= 1:
            perm = [got_names.index(n) for n in exp_names]
        else:
            bad(('result level names are not obj levels + new parameter levels', 'parameter (droplevel=%r): %r' % (D, got_names)))
            return ob
        ob.prm_levels = got_names
        # positions of the parameter's own levels inside a key over exp_names
        pp = []
        new = iter([keep.index(j) for j in range(len(lo), len(tot))])       # levels of the parameter are never dropped
        for n in lp:
            pp.append(keep.index(lo.index(n)) if (n is not None and n in lo) else next(new))
        pdrop, prm_rows = {}, []
        for i, k in enumerate(_keys_of(p.index)):
            kc = tuple(k[j] for j in perm)
            rp = tuple(kc[j] for j in pp)
            exp_p = None if any(_isnan(c) for c in rp) else kp.get(rp)
            got_p = P.row_of(_rowvals(p, i))
            if got_p != P.rep(exp_p):
                bad(('broadcast parameter row does not carry the original value of its key', 'droplevel=%r row %r: carries original row %r, expected %r' % (D, k, got_p, exp_p)))
            else:
                got_p = exp_p
                if exp_p is not None:
                    have_p.add(exp_p)
            if kc in pdrop:
                bad(('result index has duplicate keys', 'parameter (droplevel=%r): %r' % (D, kc)))
            pdrop[kc] = got_p
            prm_rows.append((kc, got_p))
        ob.prm_rows = prm_rows
    rows = []
    for i, k in enumerate(_keys_of(o.index)):
        ro = tuple(k[j] for j in pos_o)
        rp = tuple(k[j] for j in pos_p)
        exp_o = None if any(_isnan(c) for c in ro) else ko.get(ro)
        exp_p = None if any(_isnan(c) for c in rp) else kp.get(rp)
        if zero_level_obj:
            vals = [float(v) for v in _rowvals(o, i)]
            got_o = 0 if vals == [O.value(r, 0) for r in range(len(O.keys))] else (None if all(math.isnan(v) for v in vals) else -1)
        else:
            got_o = O.row_of(_rowvals(o, i))
        if got_o != (exp_o if zero_level_obj else O.rep(exp_o)):
            bad(('broadcast object row does not carry the original value of its key', 'row %r: carries original row %r, expected %r' % (k, got_o, exp_o)))
        else:
            got_o = exp_o                # with value ties: the row of that key (it holds these values)
            if exp_o is not None:
                have_o.add(exp_o)
        kt = tuple(k[j] for j in order)
        if D:
            # the parameter row of this key is the one at the key without the dropped components
            got_p = pdrop.get(tuple(kt[j] for j in keep), -1)
        else:
            got_p = P.row_of(_rowvals(p, i))
            if got_p != P.rep(exp_p):
                bad(('broadcast parameter row does not carry the original value of its key', 'row %r: carries original row %r, expected %r' % (k, got_p, exp_p)))
            else:
                got_p = exp_p
                if exp_p is not None:
                    have_p.add(exp_p)
        rows.append((kt, got_o, got_p))
    ob.rows = rows
    if D:
        want = {tuple(r[0][j] for j in keep) for r in rows}
        if want != set(pdrop):
            bad((W_DROP_INDEX, 'droplevel=%r: keys only in the object %r, only in the parameter %r'
                 % (D, sorted(want - set(pdrop), key=repr)[:6], sorted(set(pdrop) - want, key=repr)[:6])))
    # ---- no row may appear twice, no data row with a partner (or a complete key) may be lost
    if len(set(r[0] for r in rows if not any(_isnan(c) for c in r[0]))) != len([r for r in rows if not any(_isnan(c) for c in r[0])]):
        bad(('result index has duplicate keys', repr([r[0] for r in rows][:8])))
    sh = shared_levels(lo, lp)
    okeys = O.keys if not zero_level_obj else [()]
    sub_o = {tuple(k[lo.index(n)] for n in sh) for k in okeys}
    sub_p = {tuple(k[lp.index(n)] for n in sh) for k in P.keys}
    new_p = len(total_levels(lo, lp)) > len(lo)
    only_o = [n for n in lo if n is None or n not in lp]
    # have_*: original rows found in the result under their own (restricted) key, carrying their values
    if sh:
        need_o = [i for i, k in enumerate(okeys) if (not new_p) or tuple(k[lo.index(n)] for n in sh) in sub_p]
        need_p = [i for i, k in enumerate(P.keys) if (not only_o) or tuple(k[lp.index(n)] for n in sh) in sub_o]
    else:
        need_o = list(range(len(okeys))) if P.keys else []
        need_p = list(range(len(P.keys))) if okeys else []
    if [i for i in need_o if i not in have_o]:
        bad(('result misses rows of the object', 'original rows %r' % [i for i in need_o if i not in have_o][:8]))
    if [i for i in need_p if i not in have_p]:
        bad(('result misses rows of the parameter', 'original rows %r' % [i for i in need_p if i not in have_p][:8]))
    return ob


# ----------------------------------------------------------------------------------------- Coq literals

class Enc:
    """injective map key value -> Z (small non-negative integers stand for themselves, so that the values of a RangeIndex
    are the model's range values), level name -> nat"""
    def __init__(self):
        self.d = {}

    def z(self, v):
        if type(v) is int and 0 <= v < 100000:
            return v
        k = (type(v).__name__, v)
        if k not in self.d:
            self.d[k] = 1000000 + len(self.d)
        return self.d[k]


def ikind_lit(X):
    """index kind of an operand: Index / MultiIndex / RangeIndex start step"""
    if X.rng_index:
        start, step = range_of(X.levels, X.keys)
        return '(IRange (%d) (%d))' % (start, step)
    return 'IIndex' if (len(X.levels) == 1 and not X.mi1) else 'IMulti'


def name_lit(n):
    return 'None' if n is None else 'Some %d%%nat' % NAMES.index(n)


def names_lit(l):
    return '[' + '; '.join(name_lit(n) for n in l) + ']'


def key_lit(enc, k):
    return '[' + '; '.join(str(enc.z(c)) for c in k) + ']'


def keys_lit(enc, ks):
    return '[' + '; '.join(key_lit(enc, k) for k in ks) + ']'


def opt_lit(v):
    return 'None' if v is None else 'Some %d' % v


def rows_lit(enc, rows):
    return '[' + '; '.join('(%s, %s, %s)' % (key_lit(enc, k), opt_lit(a), opt_lit(b)) for k, a, b in rows) + ']'


def case_term(O, P, ob, D=None):
    """check_case_opts term for a frame-to-frame case (None if the observation cannot be expressed, e.g. NaN key components)."""
    enc = Enc()
    # the object is passed as it is (kind, index kind, level names, keys): which path it takes is decided by the model's dispatch
    # [is_paramset] (check_case_top); the observation `ob` was canonicalised with the oracle's reading of the documented rule
    D = [n for n in (D or []) if n in O.levels and not (O.kind == 'S' and O.levels == [None])]
    plv, prows = '[]', '[]'
    if ob.raised is not None:
        exp, lv = 'Raise', '[]'
    elif ob.unaligned:
        exp, lv = 'Unaligned', '[]'
    elif ob.rows is None:
        return None
    else:
        if any(_isnan(c) for r in ob.rows for c in r[0]) or any(r[1] == -1 or r[2] == -1 for r in ob.rows):
            return None
        exp, lv = 'Rows ' + rows_lit(enc, ob.rows), names_lit(ob.levels)
        if D:
            if ob.prm_rows is None or any(_isnan(c) for r in ob.prm_rows for c in r[0]) or any(r[1] == -1 for r in ob.prm_rows):
                return None
            plv = names_lit(ob.prm_levels)
            prows = '[' + '; '.join('(%s, %s)' % (key_lit(enc, k), opt_lit(v)) for k, v in ob.prm_rows) + ']'
    dl = '[' + '; '.join('%d%%nat' % NAMES.index(n) for n in D) + ']'
    return 'check_case_opts %s %s %s %s %s %s %s %s %s (%s) %s %s' % (
        'KSeries' if O.kind == 'S' else 'KFrame', ikind_lit(O), ikind_lit(P), names_lit(O.levels), keys_lit(enc, O.keys),
        names_lit(P.levels), keys_lit(enc, P.keys), dl, lv, exp, plv, prows)


# ----------------------------------------------------------------------------------------- generators

def rand_keys(rng, levels, n, pools=POOLS):
    """n distinct key tuples over the levels (fewer if the product is smaller), in random order"""
    prod = list(itertools.product(*[pools[l] for l in levels]))
    rng.shuffle(prod)
    return prod[:max(1, min(n, len(prod)))]


def gen_pair(rng, maxrows=6):
    """One (obj, prm) pair of pandas-typed operands with a random level layout."""
    kind = rng.choice(['equal', 'equal', 'disjoint', 'prm_in_obj', 'obj_in_prm', 'overlap', 'overlap', 'anon', 'paramset'])
    names = NAMES[:5]
    rng.shuffle(names)
    if rng.random() < 0.15:
        # odd but valid level names ('' / 0 / 1: falsy, not strings) in any role: shared, private to obj, private to prm
        odd = ODD_NAMES[:]
        rng.shuffle(odd)
        for n in odd[:rng.randint(1, 3)]:
            names.insert(rng.randint(0, 3), n)
    ko = kp = None
    if kind == 'equal':
        k = rng.choice([1, 1, 2, 2, 3])
        lo = names[:k]
        lp = lo[:]
        rng.shuffle(lp)
    elif kind == 'disjoint':
        a, b = rng.choice([1, 1, 2]), rng.choice([1, 1, 2])
        lo, lp = names[:a], names[a:a + b]
    elif kind in ('prm_in_obj', 'obj_in_prm'):
        k = rng.choice([2, 2, 3])
        big = names[:k]
        small = rng.sample(big, rng.randint(1, k - 1))
        lo, lp = (big, small) if kind == 'prm_in_obj' else (small, big)
    elif kind == 'overlap':
        s, a, b = rng.choice([1, 1, 2]), rng.choice([1, 1, 2]), rng.choice([1, 2])
        sh = names[:s]
        lo = sh + names[s:s + a]
        lp = sh + names[s + a:s + a + b]
        rng.shuffle(lo)
        rng.shuffle(lp)
    elif kind == 'anon':
        # unnamed levels on either side (never shared), possibly besides named ones
        # ... including operands ALL of whose (several) levels are unnamed (MultiIndex.from_product / stack() without names)
        lo = rng.choice([[None], [None, names[0]], [names[0]], [names[0], None], [names[0], names[1]],
                         [None, None], [None, None], [None, None, None], [None, names[0], None]])
        lp = rng.choice([[None], [None, names[0]], [names[1]], [names[0], None], [None, names[2]],
                         [None, None], [None, None, names[0]]])
        if None not in lo and None not in lp:
            lp = [None] + lp[:1]
    else:   # parameter-set Series (single unnamed level) as object
        lo = [None]
        lp = rng.choice([[names[0]], [None], [names[0], names[1]]])
    okind = 'S' if kind == 'paramset' else rng.choice(['S', 'F'])
    if lo == [None] and kind != 'paramset':
        okind = 'F'
    pkind = rng.choice(['S', 'F'])
    sh = shared_levels(lo, lp)
    no, np_ = rng.randint(1, maxrows), rng.randint(1, maxrows)
    if kind == 'paramset':
        ko = [(c,) for c in rng.sample(['k_1', 'ND', 'SD', 'TN', 7, 8], rng.randint(1, 4))]
        if any(isinstance(k[0], int) for k in ko) and any(isinstance(k[0], str) for k in ko):
            ko = [k for k in ko if isinstance(k[0], str)]
        kp = rand_keys(rng, lp, np_)
    elif kind == 'overlap' or (sh and rng.random() < 0.5):
        # every shared-level key tuple present in both operands
        stuples = rand_keys(rng, sh, rng.randint(1, 4))

        def expand(levels, n):
            rest = [l for l in levels if l not in sh]
            out = []
            for s in stuples:
                for r in (rand_keys(rng, rest, rng.randint(1, 2)) if rest else [()]):
                    d = dict(zip(sh, s))
                    d.update(zip(rest, r))
                    out.append(tuple(d[l] for l in levels))
            rng.shuffle(out)
            return out
        # unnamed levels: values drawn positionally
        def expand_anon(levels, n):
            named = [l for l in levels if l is not None]
            ks = expand(named, n)
            if None not in levels:
                return ks
            out = []
            for i, k in enumerate(ks):
                it = iter(k)
                out.append(tuple(POOLS[None][(i + 2 * j) % 5] if l is None else next(it) for j, l in enumerate(levels)))
            return out
        ko, kp = expand_anon(lo, no), expand_anon(lp, np_)
    else:
        ko, kp = rand_keys(rng, lo, no), rand_keys(rng, lp, np_)
    ncol = rng.randint(1, 3)
    O = Operand(okind, lo, ko, cols=['u', 'w', 'x'][:ncol], base=1000)
    P = Operand(pkind, lp, kp, cols=['f', 'g', 'h'][:rng.randint(1, 2)], base=5000, name='prm')
    # index layout: a single level held by a one-level MultiIndex (not for the parameter-set Series, whose keys are columns)
    for X in (O, P):
        if len(X.levels) == 1 and not (X is O and kind == 'paramset') and rng.random() < 0.08:
            X.mi1 = True
    # index layout: a single level held by a RangeIndex (pandas' default index, named or not; mostly start 0 / step 1).  The other
    # operand keeps the ORDER in which it lists the keys of that level (random), its values are renamed to the range's values.
    on_prm = rng.random() < 0.6
    X = P if on_prm else O
    if len(X.levels) == 1 and not X.mi1 and kind != 'paramset' and rng.random() < 0.14:
        O, P = with_range_index(rng, O, P, on_prm)
    # value ties: rows of an operand holding equal values in all columns (two cycles with the same range and mean)
    for X, pr in ((P, 0.3), (O, 0.12)):
        if len(X.keys) >= 2 and not (X is O and kind == 'paramset') and rng.random() < pr:
            ties = []
            for i in range(len(X.keys)):
                ties.append(rng.choice(sorted(set(ties))) if ties and rng.random() < 0.55 else i)
            X.ties = ties if any(t != i for i, t in enumerate(ties)) else None
    return O, P


def with_range_index(rng, O, P, on_prm):
    """The single index level of P (on_prm) / O is held by a RangeIndex: its keys become start, start+step, ...; the values of
    the same-named level of the other operand are renamed consistently (its row order is kept)."""
    X, Y = (P, O) if on_prm else (O, P)
    n = len(X.keys)
    start, step = rng.choice([0, 0, 0, 0, 1]), rng.choice([1, 1, 1, 1, 2])
    new = {k[0]: start + i * step for i, k in enumerate(X.keys)}
    name = X.levels[0]
    X2 = Operand(X.kind, X.levels, [(new[k[0]],) for k in X.keys], X.cols, X.base, X.name, False, True, X.ties)
    Y2 = Y
    if name is not None and name in Y.levels:
        j = Y.levels.index(name)
        for k in Y.keys:
            if k[j] not in new:
                new[k[j]] = start + len(new) * step if rng.random() < 0.7 else 100 + len(new)
        Y2 = Operand(Y.kind, Y.levels, [k[:j] + (new[k[j]],) + k[j + 1:] for k in Y.keys], Y.cols, Y.base, Y.name, Y.mi1, False, Y.ties)
    return (Y2, X2) if on_prm else (X2, Y2)


def gen_case(rng, maxrows=6):
    """(obj, prm, droplevel): a pair of operands and the `droplevel` option of Broadcaster.broadcast -- None (not passed) or a
    non-empty list of named index levels that only the object has (the way HaighDiagram.transform drops 'R')."""
    O, P = gen_pair(rng, maxrows)
    D = None
    # not combined with integer level names: that layout is an open known finding of its own (pandas takes the name for a level
    # number, also in groupby([...]) of the droplevel step; fixes/C13-integer-level-name.patch maps the droplevel names as well)
    if not (O.kind == 'S' and O.levels == [None]) and not int_level_name(O, P):
        cand = [n for n in O.levels if n is not None and n not in P.levels]
        if cand and rng.random() < 0.4:
            D = rng.sample(cand, rng.randint(1, len(cand)))
    return O, P, D


def in_quantifier(O, P):
    """The layouts C13 quantifies over: unique keys; equal / disjoint / contained level-name sets, or overlapping ones
    whose shared-level key tuples are present in both operands."""
    if len(set(O.keys)) != len(O.keys) or len(set(P.keys)) != len(P.keys):
        return False
    lo = [] if (O.kind == 'S' and O.levels == [None]) else O.levels
    lay = layout(lo, P.levels)
    if lay != 'overlap':
        return True
    sh = shared_levels(lo, P.levels)
    so = {tuple(k[lo.index(n)] for n in sh) for k in O.keys}
    sp = {tuple(k[P.levels.index(n)] for n in sh) for k in P.keys}
    return so == sp


def extra_key_of_contained(O, P):
    """Class of the known finding C13/contained-multilevel-extra-key: the level names of one operand are strictly
    contained in the other's, the contained operand has >= 2 levels, and it has a key that no row of the other operand
    matches (pandas then aligns it to NaN key components, on which restore_real_index raises)."""
    lo, lp = O.levels, P.levels
    if None in lo or None in lp:
        # an unnamed level is private to its operand: 'contained' only if the other operand has none
        pass
    so, sp = set(lo), set(lp)
    if so == sp or not (so < sp or sp < so) or None in (so & sp):
        return False
    small, big = (O, P) if so < sp else (P, O)
    if len(small.levels) < 2 or None in small.levels:
        return False
    proj = {tuple(k[big.levels.index(n)] for n in small.levels) for k in big.keys}
    return any(k not in proj for k in small.keys)


def coded(O, P):
    """The positional codes _IndexLevelCache assigns (per level name one table: obj values, then prm values, first occurrences)."""
    lo, lp = O.levels, P.levels
    tables = {}
    for X in (O, P):
        for j, n in enumerate(X.levels):
            key = n if n is not None else ('anon', id(X), j)
            t = tables.setdefault(key, [])
            for k in X.keys:
                if k[j] not in t:
                    t.append(k[j])

    def code(X):
        return [tuple(tables[n if n is not None else ('anon', id(X), j)].index(k[j]) for j, n in enumerate(X.levels)) for k in X.keys]
    return code(O), code(P)


def coincident_codes(O, P):
    """Class of the known finding C13/coincident-codes: both operands have the same number (>= 2) of index levels, share
    a level name, their level-name lists differ, and their re-coded indices are the same list of tuples."""
    lo, lp = O.levels, P.levels
    if O.kind == 'S' and lo == [None]:
        return False
    if len(lo) != len(lp) or len(lo) < 2 or lo == lp and None not in lo or not shared_levels(lo, lp):
        return False
    co, cp = coded(O, P)
    return co == cp


def one_level_multiindex(O, P):
    """Class of the known finding C13/one-level-multiindex: the single index level of an operand is held by a MultiIndex."""
    return bool(O.mi1 or P.mi1)


def int_level_name(O, P):
    """Class of the known finding C13/integer-level-name: some index level of an operand is named by an integer (e.g. 0 after
    set_index(0) on a header-less table).  pandas addresses levels 'by number or by name' and takes an integer for a number
    in several places (get_level_values on a one-level Index, join of a MultiIndex with a level named 0)."""
    return any(isinstance(n, int) and not isinstance(n, bool) for n in list(O.levels) + list(P.levels))
