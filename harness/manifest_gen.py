"""Writes /verif/MANIFEST.json from the table below (so that it is always schema-valid)."""
import json
import os

VERIF = os.path.dirname(os.path.dirname(os.path.abspath(__file__)))
TB = ('Trusted: Coq 8.16.1 kernel (vm_compute used, native_compute not); no axiom declared by the development, no Admitted; '
      'axioms under Print Assumptions are only those of Coq Reals / Coquelicot (ClassicalDedekindReals.sig_forall_dec, sig_not_dec, '
      'FunctionalExtensionality.functional_extensionality_dep, Classical_Prop.classic) for R-valued theorems and none for Z/list theorems; ')

CHECKS = {
    'C16': dict(
        text='Theorems (props/C16.v, 25) about Coq definitions over R that py2coq regenerates from rambgood.py, hookeslaw.py and '
             'true_stress_strain.py on every run: Ramberg-Osgood strain odd / strictly increasing / bijective (exact inverse exists and is unique), '
             'residual-to-root bound, compliance = derivative (Coquelicot is_derive), modulus reciprocal, Masing doubling, lower branch meets curve; '
             'Hooke 1D/2D/3D round trips, plane strain/stress = 3D at zero out-of-plane strain/stress, G and K; true stress/strain inverses. '
             'A changed formula breaks a proof; per-run interval certificates (kernel-checked, CoqInterval) tie the generated model to the '
             'implementation\'s float outputs, Newton inversion by residual certificate.',
        note=TB + 'py2coq translator and its whitelist; CoqInterval; float rounding and scipy.optimize.newton are outside the theorems '
                  '(solver output certified per sample).',
        technique='Coq proof over py2coq-generated real-valued model + CoqInterval certificates',
        design='6/C16'),
}

ALL = ['C%02d' % i for i in range(1, 21)]


def main():
    checks = []
    for pid in ALL:
        if pid not in CHECKS:
            continue
        c = CHECKS[pid]
        checks.append({
            'property_id': pid,
            'quick_cmd': './check %s --tier quick' % pid,
            'thorough_cmd': './check %s --tier thorough' % pid,
            'evidence_file': '/verif/evidence/%s.json' % pid,
            'replay_cmd_template': './check %s --replay {path}' % pid,
            'engine': 'coq',
            'level_claimed': {'category': 'proof', 'text': c['text'], 'design_ref': 'DESIGN.md section ' + c['design']},
            'level_note': c['note'],
            'technique': c['technique'],
        })
    na = [{'property_id': p, 'reason': 'check not built yet (work in progress); not a claim that the technique cannot apply'}
          for p in ALL if p not in CHECKS]
    m = {
        'version': 1,
        'setup_cmd': './setup.sh',
        'hooks': {'guard': 'PYLIFE_VERIF', 'enable': 'no source hooks are needed: every observable is public API; the compiled rainflow kernel is rebuilt from extension.pyx by the harness',
                  'baseline_off_cmd': 'cd /repo && /venv/bin/python -m pytest -ra -q -p no:cacheprovider --timeout=900 --continue-on-collection-errors',
                  'source_commits': [], 'add_only': True},
        'engines': [{'name': 'coq', 'path': '/verif/coq', 'serves_properties': sorted(CHECKS),
                     'kind_free_text': 'Coq 8.16.1 development (theories/, props/, generated gen/) + Python harness (/verif/harness) for translation, correspondence and certificates'}],
        'checks': checks,
        'not_applicable': na,
        'notes': 'See DESIGN.md. Each check: regenerate model from /repo, full .vo build, audit + Print Assumptions, correspondence/certificates against the implementation, known findings.',
    }
    json.dump(m, open(os.path.join(VERIF, 'MANIFEST.json'), 'w'), indent=1)
    try:
        import jsonschema
        jsonschema.validate(m, json.load(open('/root/.vp/MANIFEST.schema.json')))
        print('MANIFEST valid,', len(checks), 'checks')
    except ImportError:
        print('jsonschema not available')


if __name__ == '__main__':
    main()
