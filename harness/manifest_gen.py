"""Writes /verif/MANIFEST.json from the table below (so that it is always schema-valid)."""
import json
import os

VERIF = os.path.dirname(os.path.dirname(os.path.abspath(__file__)))
import importlib
import sys
sys.path.insert(0, os.path.join(VERIF, 'harness'))
os.environ.setdefault('PYTHONPATH', '')

ALL = ['C%02d' % i for i in range(1, 21)]
CHECKS = {}
NA_REASON = {}
for _pid in ALL:
    try:
        _m = importlib.import_module('props.' + _pid.lower())
    except ImportError:
        continue
    if getattr(_m, 'MANIFEST', None):
        CHECKS[_pid] = _m.MANIFEST
    if getattr(_m, 'NOT_APPLICABLE', None):
        NA_REASON[_pid] = _m.NOT_APPLICABLE



def main():
    checks = []
    for pid in ALL:
        if pid not in CHECKS:
            continue
        c = CHECKS[pid]
        checks.append({
            'property_id': pid,
            'quick_cmd': './check %s --tier quick' % pid,
            'thorough_cmd': './check %s --tier thorough' % pid,
            'evidence_file': '/verif/evidence/%s.json' % pid,
            'replay_cmd_template': './check %s --replay {path}' % pid,
            'engine': 'coq',
            'level_claimed': {'category': 'proof', 'text': c['text'], 'design_ref': 'DESIGN.md section ' + c['design']},
            'level_note': c['note'],
            'technique': c['technique'],
        })
    na = [{'property_id': p, 'reason': NA_REASON.get(p, 'check not built yet (work in progress); not a claim that the technique cannot apply')}
          for p in ALL if p not in CHECKS]
    m = {
        'version': 1,
        'setup_cmd': './setup.sh',
        'hooks': {'guard': 'PYLIFE_VERIF', 'enable': 'no source hooks are needed: every observable is public API; the compiled rainflow kernel is rebuilt from extension.pyx by the harness',
                  'baseline_off_cmd': 'cd /repo && /venv/bin/python -m pytest -ra -q -p no:cacheprovider --timeout=900 --continue-on-collection-errors',
                  'source_commits': [], 'add_only': True},
        'engines': [{'name': 'coq', 'path': '/verif/coq', 'serves_properties': sorted(CHECKS),
                     'kind_free_text': 'Coq 8.16.1 development (theories/, props/, generated gen/) + Python harness (/verif/harness) for translation, correspondence and certificates'}],
        'checks': checks,
        'not_applicable': na,
        'notes': 'See DESIGN.md. Each check: regenerate model from /repo, full .vo build, audit + Print Assumptions, correspondence/certificates against the implementation, known findings.',
    }
    json.dump(m, open(os.path.join(VERIF, 'MANIFEST.json'), 'w'), indent=1)
    try:
        import jsonschema
        jsonschema.validate(m, json.load(open('/root/.vp/MANIFEST.schema.json')))
        print('MANIFEST valid,', len(checks), 'checks')
    except ImportError:
        print('jsonschema not available')


if __name__ == '__main__':
    main()
