"""setup_cmd: regenerate the translated models, build the whole Coq development (.vo, no -vos),
build the OCaml drivers of the extracted models and the rainflow extension."""
import os
import sys

import common
import gen_specs


def main():
    common.mkdirs(common.BUILD, common.EVIDENCE, common.REPLAYS)
    try:
        gen_specs.generate(list(gen_specs.SPECS))
    except Exception as e:      # a check will report this properly; setup must not hide the other builds
        print('py2coq failed during setup:', e)
    common.coq_configure()
    rc, out = common.sh(['make', '-j%d' % common.NCPU, '-k', '--no-print-directory'], cwd=common.COQ, timeout=3000)
    print(out[-3000:])
    try:
        import extract_build
        extract_build.build_all()
    except ImportError:
        pass
    try:
        print('extension:', common.build_extension())
    except Exception as e:
        print('extension build failed:', e)
    return 0 if rc == 0 else 1


if __name__ == '__main__':
    sys.exit(main())
