"""Run the registered checks against the seeded changes kept under /verif/seeded/<id>/.

usage: python harness/seeded_run.py [id ...]        (default: all)
For each seeded change: apply patch.diff to /repo, run the quick check of the property it breaks, undo the
patch (git checkout), restore the evidence file of the clean run.  Prints one line per change and writes
/verif/seeded/RESULTS.json.  /repo is left unmodified."""
import json
import os
import shutil
import subprocess
import sys
import time

VERIF = os.path.dirname(os.path.dirname(os.path.abspath(__file__)))
REPO = '/repo'


def sh(cmd, **kw):
    return subprocess.run(cmd, stdout=subprocess.PIPE, stderr=subprocess.STDOUT, text=True, **kw)


def main():
    base = os.path.join(VERIF, 'seeded')
    ids = sys.argv[1:] or sorted(d for d in os.listdir(base) if os.path.isdir(os.path.join(base, d)))
    dirty = sh(['git', '-C', REPO, 'status', '--porcelain', '--untracked-files=no']).stdout.strip()
    if dirty:
        print('refusing to run: /repo has local modifications:\n' + dirty)
        return 2
    results = {}
    res_path = os.path.join(base, 'RESULTS.json')
    if os.path.exists(res_path):
        results = json.load(open(res_path))
    for sid in ids:
        d = os.path.join(base, sid)
        meta = json.load(open(os.path.join(d, 'meta.json')))
        prop = meta['property']
        ev = os.path.join(VERIF, 'evidence', prop + '.json')
        bak = ev + '.bak'
        if os.path.exists(ev):
            shutil.copy(ev, bak)
        ap = sh(['git', '-C', REPO, 'apply', os.path.join(d, 'patch.diff')])
        if ap.returncode != 0:
            print('%s: patch does not apply: %s' % (sid, ap.stdout.strip()[:300]))
            results[sid] = {'property': prop, 'detected': None, 'note': 'patch does not apply'}
            continue
        t0 = time.time()
        try:
            r = sh([os.path.join(VERIF, 'check'), prop, '--tier', 'quick'], cwd=VERIF, timeout=3600)
            out, rc = r.stdout, r.returncode
        except subprocess.TimeoutExpired:
            out, rc = 'timeout', 124
        finally:
            sh(['git', '-C', REPO, 'checkout', '--', '.'])
            if os.path.exists(bak):
                shutil.move(bak, ev)
        lines = [l for l in out.splitlines() if l.startswith('VIOLATION')]
        detected = rc == 1 and bool(lines)
        with_input = detected and not all(l.endswith('no-failing-input-found') for l in lines)
        results[sid] = {'property': prop, 'detected': detected, 'concrete_failing_input': with_input, 'exit': rc,
                        'violation_lines': lines[:3], 'wall_s': round(time.time() - t0, 1),
                        'summary': meta.get('summary', '')}
        print('%s (%s): %s%s  [%.0fs]' % (sid, prop, 'DETECTED' if detected else 'MISSED (exit %d)' % rc,
                                          ' with failing input' if with_input else (' no-failing-input-found' if detected else ''),
                                          time.time() - t0))
        if not detected:
            print(out[-1500:])
        json.dump(results, open(res_path, 'w'), indent=1)
    return 0


if __name__ == '__main__':
    sys.exit(main())
