"""Shared harness code of the rainflow family (C01, C02, C03): running the real detectors,
Coq literals of their observations, generators."""
import itertools

import numpy as np

from common import zlit, nlit, coq_list

REQ = ['From PL Require Import Rainflow.Model Rainflow.Eqb.', 'Open Scope Z_scope.']
KINDS = ('4', '3', 'F')


def detectors():
    import pylife.stress.rainflow as RF
    return {'4': RF.FourPointDetector, '3': RF.ThreePointDetector, 'F': RF.FKMDetector}


DENOM = 2 ** 30


def near_tie(rng, s):
    """Integer image K of a float signal K / 2^30 whose samples are those of the integer signal s perturbed by
    0 or +-2^-30: ranges differ by ~1e-9 (near ties), yet every float subtraction the kernels make is exact."""
    return [x * DENOM + rng.choice([0, 0, 0, 1, -1, 2]) for x in s]


def impl_run(kind, chunks, as_int=True, denom=1):
    """Run the real detector over the chunks; returns the observation tuple
    (cycles, residuals, residual_index, recorder chunks).
    denom > 1: the chunks hold integers K and the detector is fed the exact floats K / denom."""
    import pylife.stress.rainflow as RF
    rec = RF.FullRecorder()
    det = detectors()[kind](recorder=rec)
    for c in chunks:
        det.process(np.asarray(c, dtype=float) / denom if denom != 1 else np.asarray(c, dtype=float))
    if denom != 1:
        def conv(v):
            k = float(v) * denom
            if k != int(k):
                raise ValueError('reported value %r is not on the signal grid' % (v,))
            return int(k)
    else:
        conv = (lambda v: int(v)) if as_int else (lambda v: float(v))
    vf, vt = [conv(v) for v in rec.values_from], [conv(v) for v in rec.values_to]
    if kind == 'F':
        cyc = list(zip(vf, vt))
    else:
        cyc = list(zip(vf, vt, [int(i) for i in rec.index_from], [int(i) for i in rec.index_to]))
    res = [conv(v) for v in det.residuals]
    ridx = [int(i) for i in det.residual_index]
    return cyc, res, ridx, [int(c) for c in rec.chunks], rec


def obs_lit(kind, o):
    cyc, res, ridx, chunks = o[:4]
    if kind == 'F':
        c = '[' + '; '.join('(%s, %s)' % (zlit(a), zlit(b)) for a, b in cyc) + ']'
        return '(%s, %s, %s)' % (c, coq_list(res), coq_list(ridx, nlit))
    c = '[' + '; '.join('(%s, %s, %s, %s)' % (zlit(a), zlit(b), nlit(i), nlit(j)) for a, b, i, j in cyc) + ']'
    return '(%s, %s, %s, %s)' % (c, coq_list(res), coq_list(ridx, nlit), coq_list(chunks, nlit))


def chunks_lit(chunks):
    return '[' + '; '.join(coq_list(c) for c in chunks) + ']'


def case_term(kind, chunks, o):
    if kind == 'F':
        return 'eqobsF (runF %s) %s' % (chunks_lit(chunks), obs_lit(kind, o))
    return 'eqobs (run%s %s) %s' % (kind, chunks_lit(chunks), obs_lit(kind, o))


def all_partitions(s):
    n = len(s)
    for mask in range(1 << max(0, n - 1)):
        out, cur = [], [s[0]]
        for i in range(1, n):
            if mask >> (i - 1) & 1:
                out.append(cur)
                cur = [s[i]]
            else:
                cur.append(s[i])
        out.append(cur)
        yield out


def random_partition(rng, s, small_bias=0.5):
    n = len(s)
    if n <= 1:
        return [list(s)]
    cuts = set()
    if rng.random() < small_bias:
        i = 0
        while i < n:
            i += rng.choice([1, 1, 2, 3, 5, 17])
            if i < n:
                cuts.add(i)
    else:
        for _ in range(rng.randint(0, 6)):
            cuts.add(rng.randint(1, n - 1))
    b = [0] + sorted(cuts) + [n]
    return [list(s[b[i]:b[i + 1]]) for i in range(len(b) - 1)]


def random_signal(rng, maxlen=120):
    n = rng.randint(1, maxlen)
    k = rng.choice([1, 2, 2, 3, 4, 9, 1000])
    s = [rng.randint(-k, k) for _ in range(n)]
    r = rng.random()
    if r < 0.35:        # plateaus
        t = []
        for x in s:
            t += [x] * rng.choice([1, 1, 2, 3])
        s = t
    elif r < 0.5:       # monotone runs between reversals
        t = [s[0]]
        for x in s[1:]:
            a = t[-1]
            steps = rng.randint(0, 3)
            for j in range(1, steps + 1):
                t.append(a + (x - a) * j // (steps + 1))
            t.append(x)
        s = t
    elif r < 0.6:       # repeated extremes
        m = max(s)
        for _ in range(3):
            s.insert(rng.randint(0, len(s)), m)
    elif r < 0.72:      # long plateaus (longer than any fixed look-back a tail cache might keep), also at the very end
        t = []
        for x in s[:max(2, min(len(s), 12))]:
            t += [x] * rng.choice([1, 1, 1, 2, 9, 14, 33])
        if rng.random() < 0.5:
            t += [t[-1]] * rng.choice([8, 12, 40])
        s = t
    return s


def n_turns(s):
    d = [b - a for a, b in zip(s, s[1:]) if b != a]
    return sum(1 for a, b in zip(d, d[1:]) if (a > 0) != (b > 0))
