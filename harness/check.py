"""Entry point: ./check Cxx [--tier quick|thorough] [--replay file]   (DESIGN.md section 3)."""
import argparse
import importlib
import json
import os
import sys
import traceback
import warnings

import common


def main():
    ap = argparse.ArgumentParser()
    ap.add_argument('prop')
    ap.add_argument('--tier', default=os.environ.get('VERIF_TIER', 'quick'), choices=['quick', 'thorough'])
    ap.add_argument('--replay', default=None)
    a = ap.parse_args()
    seed = int(os.environ.get('VERIF_SEED', '0') or 0)
    prop = a.prop.upper()
    warnings.filterwarnings('ignore')
    rp = json.load(open(a.replay)) if a.replay else None     # read before Result() clears stale replays
    res = common.Result(prop, a.tier, seed)
    if a.replay and not os.path.exists(a.replay):
        json.dump(rp, open(a.replay, 'w'), indent=1, default=str)
    res.trusted = list(common.GLOBAL_TRUSTED)
    try:
        mod = importlib.import_module('props.' + prop.lower())
    except ImportError as e:
        print('no check for %s: %s' % (prop, e))
        return 2
    try:
        common.inject_extension()      # compiled rainflow kernel rebuilt from the current extension.pyx
    except Exception as e:
        res.oblige('rainflow extension builds from extension.pyx', False, repr(e))
    try:
        if a.replay:
            return mod.replay(res, rp)
        mod.run(res)
    except Exception as e:   # the machinery itself broke: never report OK
        traceback.print_exc()
        res.oblige('check machinery ran to completion', False, '%s: %s\n%s' % (type(e).__name__, e, traceback.format_exc()[-2500:]))
    return res.finish()


if __name__ == '__main__':
    sys.exit(main())
