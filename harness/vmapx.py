"""C20 harness core: scenarios (exporter calls + importer chains), running them on the real
pylife.vmap through real HDF5 files with fault injection, the raw file dump, Coq literals of the
observations, the property's own oracle (independent of the Coq model) and the generators."""
import math
import os
import struct

import numpy as np
import pandas as pd

I32MIN, I32MAX = -2 ** 31, 2 ** 31 - 1
REQ = ['From Coq Require Import String.', 'From PL Require Import Vmap.Model Vmap.Run.',
       'Open Scope Z_scope.', 'Open Scope string_scope.']

# element sizes the exporter knows (VMAPExport._element_types)
SIZES2D = (3, 6, 4, 8)
SIZES3D = (4, 10, 6, 15, 8, 20)


class InjectedFault(Exception):
    pass


# --------------------------------------------------------------------------- floats <-> bits

def bits(x):
    return struct.unpack('<q', struct.pack('<d', float(x)))[0]


def isnan(x):
    return isinstance(x, float) and math.isnan(x)


def same_float(a, b):
    """same stored double; any NaN equals any NaN (pandas does not preserve payloads)"""
    a, b = float(a), float(b)
    if math.isnan(a) or math.isnan(b):
        return math.isnan(a) and math.isnan(b)
    return bits(a) == bits(b)


# --------------------------------------------------------------------------- frames

def frame_of(mesh):
    """mesh = {'rows': [[e, n], ...], 'coords': [[x, y(, z)], ...] per row, 'data': {col: [v per row]}}"""
    rows = mesh['rows']
    idx = pd.MultiIndex.from_arrays([np.array([r[0] for r in rows], dtype=np.int64),
                                     np.array([r[1] for r in rows], dtype=np.int64)],
                                    names=['element_id', 'node_id'])
    cols = {}
    nc = len(mesh['coords'][0])
    for j, c in enumerate(('x', 'y', 'z')[:nc]):
        cols[c] = np.array([p[j] for p in mesh['coords']], dtype=np.float64)
    for c, v in mesh['data'].items():
        cols[c] = np.array(v, dtype=np.float64)
    return pd.DataFrame(cols, index=idx)


def is_grouped(rows):
    seen, last = set(), None
    for e, _ in rows:
        if e != last:
            if e in seen:
                return False
            seen.add(e)
            last = e
    return True


def elem_sizes(rows):
    d = {}
    for e, _ in rows:
        d[e] = d.get(e, 0) + 1
    return d


def mesh_features(mesh):
    rows = mesh['rows']
    sizes = set(elem_sizes(rows).values())
    nc = len(mesh['coords'][0])
    zs = [p[2] for p in mesh['coords']] if nc == 3 else []
    flat = nc == 2 or all(z == zs[0] for z in zs)
    return {
        'interleaved': not is_grouped(rows),
        'ids_outside_int32': any(not (I32MIN <= v <= I32MAX) for r in rows for v in r),
        'element_ids_outside_int32': any(not (I32MIN <= r[0] <= I32MAX) for r in rows),
        'mixed_sizes': len(sizes) > 1,
        'no_z_column': nc == 2,
        'flat': flat,
        'sizes': sorted(sizes),
        'duplicate_pairs': len({(r[0], r[1]) for r in rows}) != len(rows),
    }


def supported(mesh):
    """every element size is one the exporter has a type for, in the dimension the frame has"""
    f = mesh_features(mesh)
    return all(s in (SIZES2D if f['flat'] else SIZES3D) for s in f['sizes'])


# --------------------------------------------------------------------------- running the implementation

def dump_file(fn):
    """Raw content of the parts of the VMAP file the property talks about (read with h5py only)."""
    import h5py
    out = {'geoms': {}, 'states': [], 'sgroups': [], 'vars': {}}
    with h5py.File(fn, 'r') as f:
        for gname, g in f['/VMAP/GEOMETRY'].items():
            d = {'ids': None, 'coords': None, 'elems': None, 'sets': []}
            if 'POINTS' in g and 'MYIDENTIFIERS' in g['POINTS']:
                d['ids'] = [int(v) for v in g['POINTS/MYIDENTIFIERS'][:, 0]]
            if 'POINTS' in g and 'MYCOORDINATES' in g['POINTS']:
                d['coords'] = [[float(v) for v in r] for r in g['POINTS/MYCOORDINATES'][()]]
            if 'ELEMENTS' in g and 'MYELEMENTS' in g['ELEMENTS']:
                d['elems'] = [[int(r['myIdentifier']), int(r['myElementType']), [int(v) for v in r['myConnectivity']]]
                              for r in g['ELEMENTS/MYELEMENTS'][:, 0]]
            if 'GEOMETRYSETS' in g:
                for _, s in sorted(g['GEOMETRYSETS'].items()):
                    nm = s.attrs['MYSETNAME']
                    nm = nm.decode('UTF-8') if isinstance(nm, bytes) else str(nm)
                    data = [int(v) for v in s['MYGEOMETRYSETDATA'][()].flatten()] if 'MYGEOMETRYSETDATA' in s else None
                    d['sets'].append([nm, int(s.attrs['MYSETTYPE']), data])
            out['geoms'][gname] = d
        for st, sg in f['/VMAP/VARIABLES'].items():
            out['states'].append(st)
            for gname, gg in sg.items():
                out['sgroups'].append([st, gname])
                for vn, v in gg.items():
                    out['vars'][(st, gname, vn)] = {
                        'loc': int(v.attrs['MYLOCATION']), 'dim': int(v.attrs['MYDIMENSION']),
                        'ids': [int(x) for x in v['MYGEOMETRYIDS'][:, 0]] if 'MYGEOMETRYIDS' in v else None,
                        'vals': [[float(x) for x in r] for r in v['MYVALUES'][()]] if 'MYVALUES' in v else None}
    return out


def payload_part(dump):
    """geometry and variable content (what 'no partial geometry or variable' is about)"""
    return {'geoms': dump['geoms'], 'vars': {repr(k): v for k, v in dump['vars'].items()}}


def dumps_equal(a, b):
    return _canon(a) == _canon(b)


def _canon(o):
    if isinstance(o, dict):
        return tuple(sorted((repr(k), _canon(v)) for k, v in o.items()))
    if isinstance(o, (list, tuple)):
        return tuple(_canon(v) for v in o)
    if isinstance(o, float):
        return 'nan' if math.isnan(o) else bits(o)
    return o


class Injector:
    """Makes the k-th h5py create_group / create_dataset call inside the with-block raise."""

    def __init__(self, k):
        self.k = k
        self.count = 0

    def __enter__(self):
        import h5py
        self.h5py = h5py
        self.orig_g, self.orig_d = h5py.Group.create_group, h5py.Group.create_dataset
        inj = self

        def cg(grp, *a, **kw):
            i = inj.count
            inj.count += 1
            if inj.k is not None and i == inj.k:
                raise InjectedFault('injected failure at h5py call %d (create_group)' % i)
            return inj.orig_g(grp, *a, **kw)

        def cd(grp, *a, **kw):
            i = inj.count
            inj.count += 1
            if inj.k is not None and i == inj.k:
                raise InjectedFault('injected failure at h5py call %d (create_dataset)' % i)
            return inj.orig_d(grp, *a, **kw)

        h5py.Group.create_group, h5py.Group.create_dataset = cg, cd
        return self

    def __exit__(self, *a):
        self.h5py.Group.create_group, self.h5py.Group.create_dataset = self.orig_g, self.orig_d


def status_of(exc):
    from pylife.vmap.vmap_export import VMAPExportError
    if exc is None:
        return 0
    return 1 if isinstance(exc, VMAPExportError) else 2


def frame_rows(df, widths):
    """to_frame() result -> [[e, n, [[cells of block 1], ...]]]"""
    vals = df.to_numpy(dtype=float) if df.shape[1] else np.zeros((len(df), 0))
    if sum(widths) != vals.shape[1]:
        raise ValueError('unexpected number of columns %d (blocks %s)' % (vals.shape[1], widths))
    out = []
    for i, (e, n) in enumerate(df.index):
        blocks, j = [], 0
        for w in widths:
            blocks.append([float(v) for v in vals[i, j:j + w]])
            j += w
        out.append([int(e), int(n), blocks])
    return out


def run_chain(imp, chain, dump):
    """One importer chain on a VMAPImport; returns ('frame', rows) or ('error', repr)."""
    widths = []
    obj = imp
    geom = None
    k = None
    try:
        for op in chain:
            k = op[0]
            if k == 'make':
                obj = obj.make_mesh(op[1], op[2]) if op[2] is not None else obj.make_mesh(op[1])
                geom = op[1]
            elif k == 'fnode':
                obj = obj.filter_node_set(op[1])
            elif k == 'felem':
                obj = obj.filter_element_set(op[1])
            elif k == 'coords':
                obj = obj.join_coordinates()
                c = dump['geoms'].get(geom, {}).get('coords')
                widths.append(len(c[0]) if c else 3)
            elif k == 'var':
                obj = obj.join_variable(op[1], op[2], column_names=list(op[3])) if op[2] is not None \
                    else obj.join_variable(op[1], column_names=list(op[3]))
                widths.append(len(op[3]))
            elif k == 'frame':
                return ('frame', frame_rows(obj.to_frame(), widths))
    except Exception as e:    # noqa: any exception of the importer is an observation
        return ('error', '%s: %s' % (type(e).__name__, str(e)[:200]), k)
    return ('error', 'chain does not end in to_frame', None)


def run_scenario(scn, workdir, tag='s'):
    """Execute the exporter calls of a scenario on a fresh real file, then the importer chains.

    Returns an observation dict (JSON-like)."""
    import pylife.vmap as vmap
    from pylife.vmap.vmap_structures import VariableLocations as VL
    fn = os.path.join(workdir, '%s.vmap' % tag)
    if os.path.exists(fn):
        os.remove(fn)
    obs = {'statuses': [], 'errors': [], 'rollback_ok': [], 'dump': None, 'chains': [], 'listings': [], 'repeat_ok': True,
           'repeat_detail': None}
    frames = [frame_of(m) for m in scn['meshes']]
    try:
        ex = vmap.VMAPExport(fn)
        for op in scn['ops']:
            before = dump_file(fn)
            exc = None
            try:
                with Injector(op.get('fp')):
                    if op['op'] == 'geom':
                        ex.add_geometry(op['name'], frames[op['mesh']])
                    elif op['op'] == 'var':
                        cols = list(op['cols']) if op.get('colsok', True) else list(op['cols'][:-1]) + ['no_such_column']
                        ex.add_variable(op['state'], op['geom'], op['var'], frames[op['mesh']], column_names=cols,
                                        location=VL(op['loc']))
                    elif op['op'] == 'set':
                        fnc = ex.add_node_set if op['stype'] == 0 else ex.add_element_set
                        fnc(op['geom'], pd.Index(op['ids'], dtype=np.int64), frames[op['mesh']], op['name'])
            except Exception as e:   # noqa
                exc = e
            obs['statuses'].append(status_of(exc))
            obs['errors'].append(None if exc is None else '%s: %s' % (type(exc).__name__, str(exc)[:300]))
            if exc is not None:
                after = dump_file(fn)
                if before is None:
                    obs['rollback_ok'].append(None)
                else:
                    obs['rollback_ok'].append(dumps_equal(payload_part(before), payload_part(after)))
            else:
                obs['rollback_ok'].append(None)
        obs['dump'] = dump_file(fn)
        imp = vmap.VMAPImport(fn)
        try:
            for ch in scn['chains']:
                r = run_chain(imp, ch, obs['dump'])
                obs['chains'].append(r)
                # repeatability: the same chain again on the same importer and on a fresh one
                r2 = run_chain(imp, ch, obs['dump'])
                imp2 = vmap.VMAPImport(fn)
                try:
                    r3 = run_chain(imp2, ch, obs['dump'])
                finally:
                    imp2._file.close()
                if r[0] == 'frame' and not (_canon(r) == _canon(r2) == _canon(r3)):
                    obs['repeat_ok'] = False
                    obs['repeat_detail'] = {'chain': ch, 'first': r, 'second': r2, 'fresh': r3}
            for (g, st) in scn.get('listings', []):
                try:
                    names = list(imp.node_sets(g) if st == 0 else imp.element_sets(g))
                    obs['listings'].append(('names', names))
                except Exception as e:   # noqa
                    obs['listings'].append(('error', '%s: %s' % (type(e).__name__, str(e)[:200])))
        finally:
            imp._file.close()
    finally:
        if os.path.exists(fn):
            os.remove(fn)
    return obs


# --------------------------------------------------------------------------- Coq literals

def z(n):
    n = int(n)
    return '(%d)' % n if n < 0 else str(n)


def zl(xs):
    return '[' + '; '.join(z(x) for x in xs) + ']'


def fl(xs):
    return '[' + '; '.join(z(bits(x)) for x in xs) + ']'


def s(x):
    return '"%s"' % x


def onat(k):
    return 'None' if k is None else '(Some %d%%nat)' % k


def opt(x, f):
    return 'None' if x is None else '(Some %s)' % f(x)


def rows_lit(mesh, cols):
    """rows with payload = the given columns ('@coords' = the coordinate columns)"""
    out = []
    for i, (e, n) in enumerate(mesh['rows']):
        if cols == '@coords':
            p = mesh['coords'][i]
        else:
            p = [mesh['data'][c][i] for c in cols]
        out.append('mkrow %s %s %s' % (z(e), z(n), fl(p)))
    return '[' + '; '.join(out) + ']'


def op_lit(scn, op):
    m = scn['meshes'][op['mesh']]
    if op['op'] == 'geom':
        return 'XGeom %s %s %s' % (s(op['name']), rows_lit(m, '@coords'), onat(op.get('fp')))
    if op['op'] == 'var':
        return 'XVar %s %s %s %s %d%%nat %s %s %s' % (s(op['state']), s(op['geom']), s(op['var']), z(op['loc']), len(op['cols']),
                                                     rows_lit(m, op['cols']), 'true' if op.get('colsok', True) else 'false',
                                                     onat(op.get('fp')))
    return 'XSet %s %s %s %s %s %s' % (s(op['geom']), z(op['stype']), zl(op['ids']), rows_lit(m, []), s(op['name'] or ''),
                                       onat(op.get('fp')))


def dump_lit(d):
    gs = []
    for name, g in d['geoms'].items():
        sets = '[' + '; '.join('mkgset %s %s %s' % (s(nm), z(t), opt(data, zl)) for nm, t, data in g['sets']) + ']'
        el = opt(g['elems'], lambda es: '[' + '; '.join('(%s, %s, %s)' % (z(a), z(b), zl(c)) for a, b, c in es) + ']')
        co = opt(g['coords'], lambda cs: '[' + '; '.join(fl(r) for r in cs) + ']')
        gs.append('(%s, mkgeom Z %s %s %s %s)' % (s(name), opt(g['ids'], zl), co, el, sets))
    vs = []
    for (st, g, v), d2 in d['vars'].items():
        va = opt(d2['vals'], lambda cs: '[' + '; '.join(fl(r) for r in cs) + ']')
        vs.append('((%s, %s, %s), mkvar Z %s %d%%nat %s %s)' % (s(st), s(g), s(v), z(d2['loc']), d2['dim'], opt(d2['ids'], zl), va))
    return '(mkfile Z [%s] [%s] [%s] [%s])' % ('; '.join(gs), '; '.join(s(x) for x in d['states']),
                                               '; '.join('(%s, %s)' % (s(a), s(b)) for a, b in d['sgroups']), '; '.join(vs))


def iop_lit(op):
    k = op[0]
    if k == 'make':
        return 'MakeMesh %s %s' % (s(op[1]), opt(op[2], s))
    if k == 'fnode':
        return 'FilterNodeSet %s' % s(op[1])
    if k == 'felem':
        return 'FilterElementSet %s' % s(op[1])
    if k == 'coords':
        return 'JoinCoordinates'
    if k == 'var':
        return 'JoinVariable %s %s %d%%nat' % (s(op[1]), opt(op[2], s), len(op[3]))
    return 'ToFrame'


def chain_lit(ch, r):
    ops = '[' + '; '.join(iop_lit(o) for o in ch) + ']'
    if r[0] == 'error':
        return '(%s, None)' % ops
    rows = '[' + '; '.join('(%s, %s, [%s])' % (z(e), z(n), '; '.join(fl(b) for b in blocks)) for e, n, blocks in r[1]) + ']'
    return '(%s, Some %s)' % (ops, rows)


def cfg_lit(c):
    b = lambda v: 'true' if v else 'false'
    return '(mkcfg %s %s %s %s %s)' % (b(c['ragged_ok']), b(c['regroup']), b(c['dim_reset']), b(c['coords2d_ok']), b(c['sets_ok']))


def scenario_term(cfg, scn, obs, fn='scenario_ok'):
    ops = '[' + ';\n  '.join(op_lit(scn, o) for o in scn['ops']) + ']'
    chains = '[' + ';\n  '.join(chain_lit(c, r) for c, r in zip(scn['chains'], obs['chains'])) + ']'
    lst = '[' + '; '.join('(%s, %s, %s)' % (s(g), z(t), 'None' if r[0] == 'error' else '(Some [%s])' % '; '.join(s(x) for x in r[1]))
                          for (g, t), r in zip(scn.get('listings', []), obs['listings'])) + ']'
    return '%s %s %s %s %s %s %s' % (fn, cfg_lit(cfg), ops, zl(obs['statuses']), dump_lit(obs['dump']), chains, lst)


# --------------------------------------------------------------------------- the property's own oracle

def expected_frame(scn, chain):
    """What the property demands of make_mesh(g[, st]).[filter].join_coordinates().join_variable(..)...to_frame():
    the rows of the exported frame, elements ascending by id, each element's rows in their original order, with the
    coordinates and variable values of exactly those rows.  Returns None when the chain is not a plain read of data
    the scenario exported successfully (then the property says nothing)."""
    geom_mesh, var_mesh, sets = {}, {}, {}
    for op, st in zip(scn['ops'], scn['_statuses']):
        if st != 0:
            continue
        if op['op'] == 'geom':
            geom_mesh[op['name']] = op['mesh']
        elif op['op'] == 'var':
            var_mesh[(op['state'], op['geom'], op['var'])] = op
        elif op['op'] == 'set':
            sets[(op['geom'], op['stype'], op['name'] or '')] = op['ids']     # later sets of the same name win
    g, state, rows, blocks = None, None, None, []
    for op in chain:
        k = op[0]
        if k == 'make':
            g, state = op[1], op[2]
            if g not in geom_mesh:
                return None
            m = scn['meshes'][geom_mesh[g]]
            order = sorted(range(len(m['rows'])), key=lambda i: m['rows'][i][0])     # stable
            rows = [(m['rows'][i][0], m['rows'][i][1], i) for i in order]
        elif k in ('fnode', 'felem'):
            t = 0 if k == 'fnode' else 1
            if rows is None or (g, t, op[1]) not in sets:
                return None
            ids = set(sets[(g, t, op[1])])
            rows = [r for r in rows if (r[1] if t == 0 else r[0]) in ids]
        elif k == 'coords':
            if rows is None:
                return None
            m = scn['meshes'][geom_mesh[g]]
            blocks.append(('coords', m, None))
        elif k == 'var':
            st = op[2] if op[2] is not None else state
            if rows is None or (st, g, op[1]) not in var_mesh:
                return None
            state = st
            vop = var_mesh[(st, g, op[1])]
            if vop['mesh'] != geom_mesh[g] or list(vop['cols']) != list(op[3]):
                return None
            blocks.append(('var', scn['meshes'][vop['mesh']], vop))
        elif k == 'frame':
            if rows is None:
                return None
            out = []
            for e, n, i in rows:
                bl = []
                for kind, m, vop in blocks:
                    if kind == 'coords':
                        bl.append(list(m['coords'][i]))
                    else:
                        bl.append([m['data'][c][i] for c in vop['cols']])
                out.append([e, n, bl])
            return out
    return None


def frames_equal(a, b):
    if len(a) != len(b):
        return False
    for (e1, n1, b1), (e2, n2, b2) in zip(a, b):
        if e1 != e2 or n1 != n2 or len(b1) != len(b2):
            return False
        for x, y in zip(b1, b2):
            if len(x) != len(y) or not all(same_float(u, v) for u, v in zip(x, y)):
                return False
    return True


def frame_diff(exp, got):
    if len(exp) != len(got):
        return 'row count %d instead of %d' % (len(got), len(exp))
    if [(r[0], r[1]) for r in exp] != [(r[0], r[1]) for r in got]:
        return 'element/node rows differ'
    for (e, n, b1), (_, _, b2) in zip(exp, got):
        for j, (x, y) in enumerate(zip(b1, b2)):
            if len(x) != len(y) or not all(same_float(u, v) for u, v in zip(x, y)):
                return 'values of joined block %d differ at (element %d, node %d)' % (j, e, n)
    return 'different number of blocks'


def scenario_features(scn):
    """Input-only classification used by the known-finding classes."""
    f = {'interleaved_variable_rows': False, 'ids_outside_int32': False, 'element_ids_outside_int32': False, 'mixed_element_sizes': False,
         'frame_without_z': False, 'flat_geometry_after_3d_geometry': False, 'duplicate_pairs': False}
    seen3d = False
    for op in scn['ops']:
        mf = mesh_features(scn['meshes'][op['mesh']])
        f['ids_outside_int32'] |= mf['ids_outside_int32']
        f['element_ids_outside_int32'] |= mf['element_ids_outside_int32']
        f['duplicate_pairs'] |= mf['duplicate_pairs']
        if op['op'] == 'set':
            f['ids_outside_int32'] |= any(not (I32MIN <= v <= I32MAX) for v in op['ids'])
        if op['op'] == 'geom':
            f['mixed_element_sizes'] |= mf['mixed_sizes']
            f['frame_without_z'] |= mf['no_z_column']
            if mf['flat'] and seen3d:
                f['flat_geometry_after_3d_geometry'] = True
            if not mf['flat']:
                seen3d = True
        if op['op'] == 'var' and op['loc'] == 6:
            f['interleaved_variable_rows'] |= mf['interleaved']
    return f


def call_validity(scn, statuses):
    """For each exporter call: is it a call the property expects to succeed (valid input, no name clash)?
    Computed from the scenario and the outcome of the EARLIER calls only."""
    geoms, vars_, out = set(), set(), []
    for op, st in zip(scn['ops'], statuses):
        m = scn['meshes'][op['mesh']]
        if op['op'] == 'geom':
            ok = op['name'] not in geoms and supported(m) and not mesh_features(m)['duplicate_pairs']
            if st == 0:
                geoms.add(op['name'])
        elif op['op'] == 'var':
            k = (op['state'], op['geom'], op['var'])
            ok = op['geom'] in geoms and k not in vars_ and op.get('colsok', True)
            if st == 0:
                vars_.add(k)
        else:
            pool = {r[1] for r in m['rows']} if op['stype'] == 0 else {r[0] for r in m['rows']}
            ok = op['geom'] in geoms and set(op['ids']) <= pool
        out.append(ok)
    return out


def check_property(scn, obs):
    """The property's relations on the implementation's observations.  Returns [(what, detail)]."""
    scn = dict(scn)
    scn['_statuses'] = obs['statuses']
    out = []
    valid = call_validity(scn, obs['statuses'])
    for i, op in enumerate(scn['ops']):
        st, err = obs['statuses'][i], obs['errors'][i]
        if st != 0 and valid[i] and not (err or '').startswith('InjectedFault') and 'injected failure' not in (err or '') \
                and op.get('fp') is None:
            out.append(('export call on valid input raises', {'call': i, 'error': err}))
        if st == 0 and not valid[i] and op['op'] == 'geom':
            pass    # an unsupported frame that happens to be accepted: nothing the property forbids
        if st != 0 and obs['rollback_ok'][i] is False:
            out.append(('failed add_* call leaves partial geometry or variable data in the file', {'call': i, 'error': err}))
    if not obs['repeat_ok']:
        out.append(('reading is not repeatable', {'detail': obs['repeat_detail']}))
    for ch, r in zip(scn['chains'], obs['chains']):
        exp = expected_frame(scn, ch)
        if exp is None:
            continue
        filt = any(o[0] in ('fnode', 'felem') for o in ch)
        if r[0] == 'error':
            # the call of the chain that raised decides what failed: the set filter or the reading of exported data
            at = r[2] if len(r) > 2 else None
            out.append(('filtering by a stored set raises' if at in ('fnode', 'felem') else 'import of exported data raises',
                        {'chain': ch, 'error': r[1], 'raised_in': at}))
        elif not frames_equal(exp, r[1]):
            same_rows = [(a[0], a[1]) for a in exp] == [(b[0], b[1]) for b in r[1]]
            out.append(('filtering by a stored set returns other rows' if (filt and not same_rows) else 'round trip returns a different frame',
                        {'chain': ch, 'difference': frame_diff(exp, r[1]), 'expected_head': exp[:6], 'got_head': r[1][:6]}))
    exported = {op['name'] for op, st in zip(scn['ops'], obs['statuses']) if st == 0 and op['op'] == 'geom'}
    names = {}
    for op, st in zip(scn['ops'], obs['statuses']):
        if st == 0 and op['op'] == 'set':
            names.setdefault((op['geom'], op['stype']), set()).add(op['name'] or '')
    for (g, t), r in zip(scn.get('listings', []), obs['listings']):
        if g not in exported:
            continue
        want = names.get((g, t), set())
        if r[0] == 'error':
            out.append(('listing the stored sets raises', {'geometry': g, 'set_type': t, 'error': r[1]}))
        elif set(r[1]) != want:
            out.append(('listing the stored sets returns other names', {'geometry': g, 'set_type': t, 'got': sorted(r[1]), 'expected': sorted(want)}))
    return out


# --------------------------------------------------------------------------- generators

SPECIAL = [0.0, -0.0, 1.0, -1.5, 0.1, 1e-310, 1e300, float('inf'), float('-inf'), 123456.789, 2.0 ** -1074, 1 / 3]


def rfloat(rng, allow_nan=False):
    r = rng.random()
    if r < 0.2:
        return rng.choice(SPECIAL)
    if allow_nan and r < 0.25:
        return float('nan')
    if r < 0.6:
        return float(rng.randint(-1000, 1000))
    return rng.uniform(-1e3, 1e3)


def gen_mesh(rng, kind=None, order=None, ids=None, nan_ok=True):
    """kind: '2d' | '2d_noz' | '3d' | 'mixed2d' | 'mixed3d' | 'bad_size'; order: 'asc' | 'desc' | 'blocks' | 'interleaved';
    ids: 'small' | 'gaps' | 'large' | 'negative' | 'outside'"""
    kind = kind or rng.choice(['2d', '3d', '3d', '3d'])
    order = order or rng.choice(['asc', 'desc', 'blocks', 'blocks'])
    ids = ids or rng.choice(['small', 'gaps', 'gaps', 'large', 'negative'])
    nel = rng.choice([1, 2, 2, 3, 4]) if order != 'interleaved' else rng.randint(2, 3)
    if kind in ('2d', '2d_noz'):
        sizes = [rng.choice(SIZES2D)] * nel
    elif kind == '3d':
        sizes = [rng.choice(SIZES3D if rng.random() < 0.3 else (4, 4, 6, 8, 10))] * nel
    elif kind == 'mixed2d':
        nel = max(nel, 2)
        sizes = [rng.choice(SIZES2D) for _ in range(nel)]
        if len(set(sizes)) == 1:
            sizes[0] = [x for x in SIZES2D if x != sizes[0]][0]
    elif kind == 'mixed3d':
        nel = max(nel, 2)
        sizes = [rng.choice(SIZES3D) for _ in range(nel)]
        if len(set(sizes)) == 1:
            sizes[0] = [x for x in SIZES3D if x != sizes[0]][0]
    else:
        sizes = [rng.choice([1, 2, 5, 7, 9, 11])] * nel
    npool = max(max(sizes) + 1, int(sum(sizes) * rng.choice([0.5, 0.8, 1.0])))

    def idmap(k, what):
        if ids == 'small':
            return k + 1
        if ids == 'gaps':
            return (k + 1) * (7 if what == 'n' else 13) + (3 if what == 'n' else 0)
        if ids == 'large':
            return I32MAX - 3 * k - (1 if what == 'n' else 0)
        if ids == 'negative':
            return (k - 2) * 5
        if ids == 'outside':        # node ids outside int32
            return (I32MAX + 1 + 11 * k) if (what == 'n' and k % 2 == 0) else (k + 1)
        if ids == 'outside_e':      # an element id outside int32 (the export raises OverflowError)
            return (I32MAX + 5 + k) if (what == 'e' and k == 0) else (k + 1)
        raise ValueError(ids)
    perm_n = list(range(npool))
    rng.shuffle(perm_n)
    perm_e = list(range(nel))
    rng.shuffle(perm_e)
    elems = []
    for j in range(nel):
        ns = rng.sample(range(npool), sizes[j])
        elems.append((idmap(perm_e[j], 'e'), [idmap(perm_n[k], 'n') for k in ns]))
    if order == 'asc':
        elems.sort(key=lambda t: t[0])
    elif order == 'desc':
        elems.sort(key=lambda t: -t[0])
    rows = [[e, n] for e, ns in elems for n in ns]
    if order == 'interleaved':
        # keep each element's own node order, interleave the elements
        pos = [0] * nel
        rows = []
        live = list(range(nel))
        while live:
            j = rng.choice(live)
            rows.append([elems[j][0], elems[j][1][pos[j]]])
            pos[j] += 1
            if pos[j] == len(elems[j][1]):
                live.remove(j)
        if is_grouped(rows):       # force at least one interleaving
            rows[0], rows[-1] = rows[-1], rows[0]
            if is_grouped(rows):
                rows = [[e, n] for e, ns in elems for n in ns]
                rows.insert(len(rows), rows.pop(0))
    nodes = sorted({n for _, n in rows})
    flatz = rfloat(rng) if rng.random() < 0.3 else 0.0
    if not math.isfinite(flatz):
        flatz = 0.0
    co = {}
    for n in nodes:
        p = [rfloat(rng), rfloat(rng)]
        if kind in ('2d', 'mixed2d'):
            p.append(flatz)
        elif kind != '2d_noz':
            p.append(rfloat(rng))
        co[n] = p
    if kind in ('3d', 'mixed3d', 'bad_size') and len(nodes) > 1 and all(co[n][2] == co[nodes[0]][2] for n in nodes):
        z0 = co[nodes[0]][2]
        co[nodes[-1]][2] = z0 + 1.0 if (math.isfinite(z0) and z0 + 1.0 != z0) else 0.5
    nodal = {n: [rfloat(rng, nan_ok) for _ in range(3)] for n in nodes}
    data = {}
    nodal = {n: [rfloat(rng, nan_ok) for _ in range(4)] for n in nodes}
    for j, c in enumerate(('dx', 'dy', 'dz', 't0')):
        data[c] = [nodal[n][j] for _, n in rows]
    for c in ('S11', 'S22', 'S33', 'S12', 'S13', 'S23', 'T', 'Q1', 'Q2'):
        data[c] = [rfloat(rng, nan_ok) for _ in rows]
    return {'rows': rows, 'coords': [list(co[n]) for _, n in rows], 'data': data, 'kind': kind, 'order': order, 'ids': ids}


VARS = [('DISPLACEMENT', 2, ['dx', 'dy', 'dz']), ('STRESS_CAUCHY', 6, ['S11', 'S22', 'S33', 'S12', 'S13', 'S23']),
        ('TEMP', 2, ['t0']), ('T_EN', 6, ['T']), ('S2', 6, ['Q1', 'Q2'])]


def read_chains(rng, gname, state, vars_, sets):
    """importer chains reading back what was exported for one geometry"""
    chains = []
    full = [['make', gname, state], ['coords']] + [['var', v, None, cols] for v, _, cols in vars_] + [['frame']]
    chains.append(full)
    if vars_:
        v, _, cols = rng.choice(vars_)
        chains.append([['make', gname, None], ['var', v, state, cols], ['coords'], ['frame']])
    else:
        chains.append([['make', gname, None], ['frame']])
    for (t, nm) in sets:
        ch = [['make', gname, state], ['fnode' if t == 0 else 'felem', nm], ['coords']]
        if vars_ and rng.random() < 0.7:
            v, _, cols = rng.choice(vars_)
            ch.append(['var', v, None, cols])
        chains.append(ch + [['frame']])
    return chains


def gen_scenario(rng, flavour=None):
    """A scenario: 1-3 geometries with variables, sets, optionally faults / invalid calls.
    flavour selects at most one defect-prone feature so that a violation has one cause."""
    flavour = flavour or rng.choice(['plain'] * 6 + ['fault'] * 4 + ['invalid'] * 2 +
                                    ['interleaved', 'outside', 'mixed', 'noz', 'dimleak'])
    meshes, ops, chains, listings = [], [], [], []
    ng = rng.choice([1, 1, 2, 3])
    kinds = None
    if flavour == 'dimleak':
        ng = 2
        kinds = ['3d', '2d']
    seen3d = False
    for gi in range(ng):
        gname = 'G%d' % (gi + 1)
        kind = kinds[gi] if kinds else None
        order = ids = None
        if flavour == 'interleaved':
            order = 'interleaved'
        elif flavour == 'outside':
            ids = rng.choice(['outside', 'outside', 'outside_e'])
        elif flavour == 'mixed':
            kind = rng.choice(['mixed2d', 'mixed3d'])
        elif flavour == 'noz':
            kind = '2d_noz'
        if kind is None:
            # without the dimleak flavour a flat geometry never follows a 3D one in the same exporter
            kind = '3d' if seen3d else rng.choice(['2d', '3d', '3d'])
        if kind in ('3d', 'mixed3d'):
            seen3d = True
        m = gen_mesh(rng, kind, order, ids)
        meshes.append(m)
        mi = len(meshes) - 1
        fp_geom = None
        if flavour == 'fault' and rng.random() < 0.4:
            fp_geom = rng.randint(0, 6)
            ops.append({'op': 'geom', 'name': gname, 'mesh': mi, 'fp': fp_geom})
        if flavour == 'invalid' and rng.random() < 0.4:
            bad = gen_mesh(rng, 'bad_size')
            meshes.append(bad)
            ops.append({'op': 'geom', 'name': gname, 'mesh': len(meshes) - 1, 'fp': None, 'expect_fail': True})
        ops.append({'op': 'geom', 'name': gname, 'mesh': mi, 'fp': None})
        if flavour == 'invalid' and rng.random() < 0.4:
            ops.append({'op': 'geom', 'name': gname, 'mesh': mi, 'fp': None, 'expect_fail': True})   # exists already
        states = ['ST1'] if rng.random() < 0.75 else ['ST1', 'ST2']
        vars_ = rng.sample(VARS, rng.choice([1, 1, 2, 2, 3]))
        for st in states:
            for (v, loc, cols) in vars_:
                if flavour == 'fault' and rng.random() < 0.5:
                    ops.append({'op': 'var', 'state': st, 'geom': gname, 'var': v, 'loc': loc, 'cols': cols, 'mesh': mi,
                                'fp': rng.randint(0, 4)})
                if flavour == 'invalid' and rng.random() < 0.3:
                    ops.append({'op': 'var', 'state': st, 'geom': gname, 'var': v, 'loc': loc, 'cols': cols, 'mesh': mi,
                                'colsok': False, 'fp': None, 'expect_fail': True})
                ops.append({'op': 'var', 'state': st, 'geom': gname, 'var': v, 'loc': loc, 'cols': cols, 'mesh': mi, 'fp': None})
                if flavour == 'invalid' and rng.random() < 0.3:
                    ops.append({'op': 'var', 'state': st, 'geom': gname, 'var': v, 'loc': loc, 'cols': cols, 'mesh': mi,
                                'fp': None, 'expect_fail': True})     # variable exists already
        if flavour == 'invalid' and rng.random() < 0.5:
            ops.append({'op': 'var', 'state': 'ST1', 'geom': 'NOGEOM', 'var': 'TEMP', 'loc': 2, 'cols': ['t0'], 'mesh': mi,
                        'fp': None, 'expect_fail': True})
        sets = []
        nodes = sorted({r[1] for r in m['rows']})
        elems_ = sorted({r[0] for r in m['rows']})
        for k in range(rng.choice([0, 1, 2, 3])):
            t = rng.choice([0, 1])
            pool = nodes if t == 0 else elems_
            ids_ = rng.sample(pool, rng.randint(1, len(pool)))
            nm = rng.choice(['A', 'B', 'N%d' % k])
            if flavour == 'fault' and rng.random() < 0.5:
                ops.append({'op': 'set', 'geom': gname, 'stype': t, 'ids': ids_, 'mesh': mi, 'name': nm, 'fp': rng.randint(0, 1)})
            if flavour == 'invalid' and rng.random() < 0.4:
                ops.append({'op': 'set', 'geom': gname, 'stype': t, 'ids': ids_ + [max(pool) + 1], 'mesh': mi, 'name': nm,
                            'fp': None, 'expect_fail': True})
            ops.append({'op': 'set', 'geom': gname, 'stype': t, 'ids': ids_, 'mesh': mi, 'name': nm, 'fp': None})
            sets.append((t, nm))
        chains += read_chains(rng, gname, states[-1], vars_, sorted(set(sets)))
        listings += [(gname, 0), (gname, 1)]
    if flavour == 'invalid':
        chains.append([['make', 'NOGEOM', None], ['frame']])
        chains.append([['make', 'G1', None], ['var', 'NOVAR', 'ST1', ['a']], ['frame']])
        chains.append([['make', 'G1', None], ['fnode', 'NOSET'], ['frame']])
        chains.append([['make', 'G1', None], ['var', 'TEMP', None, ['t0']], ['frame']])       # no state given
    return {'meshes': meshes, 'ops': ops, 'chains': chains, 'listings': listings, 'flavour': flavour}
