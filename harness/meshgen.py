"""Mesh generators and the property-level oracles of C19 (mesh operators).

A *mesh* here is (coords, elements): coords = list of (x, y, z) per internal node number 0..N-1,
elements = list of tuples of internal node numbers in pyLife's element-local node order
(hexahedron: (0,0,0),(1,0,0),(1,1,0),(0,1,0),(0,0,1),(1,0,1),(1,1,1),(0,1,1); tetrahedron: any 4 nodes).
`frame(...)` turns it into the DataFrame pyLife's accessors expect, under a node-id map, an element-id map
and a row order; the internal numbering never reaches pyLife."""
import itertools

import numpy as np
import pandas as pd

HEX_XI = [(0, 0, 0), (1, 0, 0), (1, 1, 0), (0, 1, 0), (0, 0, 1), (1, 0, 1), (1, 1, 1), (0, 1, 1)]
# the five-tetrahedra split of a hexahedron in the local numbering above (alternating parity keeps faces conforming)
TET5_EVEN = [(0, 1, 3, 4), (1, 2, 3, 6), (1, 4, 5, 6), (3, 4, 6, 7), (1, 3, 4, 6)]
TET5_ODD = [(1, 0, 5, 2), (0, 3, 2, 7), (0, 5, 4, 7), (2, 5, 7, 6), (0, 2, 5, 7)]


def hex_block(nx, ny, nz, rng, jitter=0.2, scale=(1.0, 1.0, 1.0), origin=(0.0, 0.0, 0.0), shear=(0.0, 0.0, 0.0)):
    """Perturbed hexahedral block; jitter is relative to the cell size (< 0.25 keeps every corner Jacobian regular);
    shear (a, b, c): x += a*y + b*z, y += c*z applied to the perturbed lattice (oblique cells, obtuse corner angles)."""
    nid = lambda i, j, k: i + (nx + 1) * (j + (ny + 1) * k)
    coords = [None] * ((nx + 1) * (ny + 1) * (nz + 1))
    grid = {}
    for k in range(nz + 1):
        for j in range(ny + 1):
            for i in range(nx + 1):
                p = [scale[d] * (c + jitter * rng.uniform(-1, 1)) for d, c in enumerate((i, j, k))]
                p = [p[0] + shear[0] * p[1] + shear[1] * p[2], p[1] + shear[2] * p[2], p[2]]
                coords[nid(i, j, k)] = tuple(origin[d] + p[d] for d in range(3))
                grid[nid(i, j, k)] = (i, j, k)
    elements = []
    for k in range(nz):
        for j in range(ny):
            for i in range(nx):
                elements.append(tuple(nid(i + a, j + b, k + c) for a, b, c in HEX_XI))
    boundary = {n for n, (i, j, k) in grid.items() if i in (0, nx) or j in (0, ny) or k in (0, nz)}
    return coords, elements, boundary


def tet_block(nx, ny, nz, rng, jitter=0.2, **kw):
    coords, hexes, boundary = hex_block(nx, ny, nz, rng, jitter, **kw)
    elements = []
    e = 0
    for k in range(nz):
        for j in range(ny):
            for i in range(nx):
                h = hexes[e]
                e += 1
                for t in (TET5_EVEN if (i + j + k) % 2 == 0 else TET5_ODD):
                    elements.append(tuple(h[a] for a in t))
    return coords, elements, boundary


ID_MAPS = ['contiguous', 'offset', 'gaps', 'reversed', 'shuffled', 'zero_based', 'sparse_shuffled']


def id_map(kind, n, rng):
    """Injective map internal number -> id.  'contiguous' is 1..n in order (what pyLife's fixtures use)."""
    if kind == 'contiguous':
        return [i + 1 for i in range(n)]
    if kind == 'offset':
        o = rng.choice([2, 3, 100, 1000001])
        return [i + o for i in range(n)]
    if kind == 'gaps':
        a, b = rng.choice([(10, 5), (2, 1), (3, 7), (7, 100)])
        return [a * i + b for i in range(n)]
    if kind == 'reversed':
        return [n - i for i in range(n)]
    if kind == 'shuffled':
        p = list(range(1, n + 1))
        rng.shuffle(p)
        return p
    if kind == 'zero_based':
        return list(range(n))
    if kind == 'sparse_shuffled':
        return rng.sample(range(1, 20 * n + 50), n)
    raise ValueError(kind)


def frame(coords, elements, node_ids=None, elem_ids=None, values=None, value_key='f', row_order='blocks',
          flip_levels=False, rng=None):
    """DataFrame with MultiIndex (element_id, node_id), columns x, y, z (+ value_key).

    row_order: 'blocks' (elements in list order), 'shuffled_blocks' (element blocks permuted, node order inside
    an element kept: the element-local node order carries the element's geometry)."""
    node_ids = node_ids or [i + 1 for i in range(len(coords))]
    elem_ids = elem_ids or [e + 1 for e in range(len(elements))]
    order = list(range(len(elements)))
    if row_order == 'shuffled_blocks':
        rng.shuffle(order)
    rows = []
    for e in order:
        for n in elements[e]:
            r = [elem_ids[e], node_ids[n], coords[n][0], coords[n][1], coords[n][2]]
            if values is not None:
                r.append(values[n])
            rows.append(r)
    cols = ['element_id', 'node_id', 'x', 'y', 'z'] + ([value_key] if values is not None else [])
    df = pd.DataFrame(rows, columns=cols)
    df = df.set_index(['node_id', 'element_id'] if flip_levels else ['element_id', 'node_id'])
    return df


def linear_values(coords, g, c):
    return [g[0] * p[0] + g[1] * p[1] + g[2] * p[2] + c for p in coords]


def mesh_json(coords, elements, node_ids, elem_ids, **kw):
    d = dict(coords=[list(map(float, p)) for p in coords], elements=[list(map(int, e)) for e in elements],
             node_ids=[int(i) for i in node_ids], elem_ids=[int(i) for i in elem_ids])
    d.update(kw)
    return d


# ------------------------------------------------------------------------------------------------ hot spots

def hotspot_spec(rows, values, limit_frac, artefact_threshold=None):
    """Reference semantics of the property (independent of the implementation and of the Coq model's algorithm):
    entries at or above limit_frac*max, connected components under shared node / shared element, numbered by
    descending peak (ties: the component whose peak entry comes first in row order).  With an artefact threshold the
    maximum is taken over the values below it (the hot spots themselves still contain every row >= the limit).
    rows = [(element_id, node_id)], values = list of numbers.  Returns the list of labels."""
    n = len(rows)
    if n == 0:
        return []
    considered = values if artefact_threshold is None else [v for v in values if v < artefact_threshold]
    if not considered:          # the documented maximum does not exist: nothing is at or above it
        return [0] * n
    thr = limit_frac * max(considered)
    above = [v >= thr for v in values]
    parent = list(range(n))

    def find(i):
        while parent[i] != i:
            parent[i] = parent[parent[i]]
            i = parent[i]
        return i

    by_el, by_nd = {}, {}
    for i, (e, nd) in enumerate(rows):
        if above[i]:
            for d, key in ((by_el, e), (by_nd, nd)):
                if key in d:
                    parent[find(i)] = find(d[key])
                else:
                    d[key] = i
    comps = {}
    for i in range(n):
        if above[i]:
            comps.setdefault(find(i), []).append(i)
    peaks = []
    for r, members in comps.items():
        m = max(values[i] for i in members)
        first = min(i for i in members if values[i] == m)
        peaks.append((-m, first, r))
    peaks.sort()
    label = {r: k + 1 for k, (_, _, r) in enumerate(peaks)}
    return [label[find(i)] if above[i] else 0 for i in range(n)]


def random_entries(rng, max_el=6, max_nd=8, max_rows=24, vmax=9):
    """Arbitrary 'mesh' for the hot-spot operator: unique (element_id, node_id) pairs with small integer values
    (ties and plateaus on purpose); ids are arbitrary integers."""
    n_el, n_nd = rng.randint(1, max_el), rng.randint(1, max_nd)
    el_ids = rng.sample(range(1, 60), n_el)
    nd_ids = rng.sample(range(1, 90), n_nd)
    pairs = list(itertools.product(el_ids, nd_ids))
    rng.shuffle(pairs)
    pairs = pairs[:rng.randint(1, min(max_rows, len(pairs)))]
    lo = rng.choice([0, 0, 1, -3])
    vals = [rng.randint(lo, vmax) for _ in pairs]
    return pairs, vals
