import os
from common import SRC
ST = os.path.join(SRC, 'strength')

# fp_  : the default call (integration limits left at None)
# fpl_ : pf_norm_load with both integration limits given explicitly
SPECS = {
    'GenFailureProbability': (os.path.join(ST, 'failure_probability.py'), [
        dict(cls='FailureProbability', prefix='fp_', methods=['pf_simple_load', 'pf_norm_load'],
             none_args=('lower_limit', 'upper_limit'), allow_dead=True),
        dict(cls='FailureProbability', prefix='fpl_', methods=['pf_norm_load'], allow_dead=True),
    ], ['PL.Strength.Normal']),
}
