import os
from common import SRC
GRAD = os.path.join(SRC, 'mesh', 'gradient.py')

# Gradient3D's element kernels are imperative (loops over literal tuples, nested helper functions, a DataFrame
# as element table): they are translated by symbolic execution (py2coq_sym), see its docstring.
SPECS = {
    'GenGradient': (GRAD, [
        dict(symbolic='element', cls='Gradient3D', method='_compute_gradient_hexahedral', prefix='g3h_', nnodes=8, nrows=8),
        dict(symbolic='element', cls='Gradient3D', method='_compute_gradient_simplex', prefix='g3s_', nnodes=4, nrows=4),
        dict(symbolic='dispatch', cls='Gradient3D', method='_compute_gradient', prefix='g3k_',
             stubs=['_compute_gradient_hexahedral', '_compute_gradient_simplex'], upto=24),
    ]),
}
