import os
from common import SRC

SPECS = {
    # utils/functions.py: the two scatter-range <-> standard-deviation conversions used by the Woehler curve
    'GenWoehlerFunctions': (os.path.join(SRC, 'utils', 'functions.py'), [
        dict(cls=None, prefix='fn_', methods=['scattering_range_to_std', 'std_to_scattering_range']),
    ]),
}
