import os
from common import SRC
EQ = os.path.join(SRC, 'stress', 'equistress.py')

# eqs_ = what the code does for scalar (0-d) input, eqa_ = element-wise meaning for array / DataFrame-column input
# (`_sign_trace` branches on `sgn.ndim == 0`).  Both are proved to satisfy the same theorems.
_M = ['_sign_trace', 'mises', 'signed_mises_trace']
SPECS = {
    'GenEquistress': (EQ, [
        dict(cls=None, prefix='eqs_', methods=_M, ndim='scalar'),
        dict(cls=None, prefix='eqa_', methods=_M, ndim='array'),
    ]),
}
