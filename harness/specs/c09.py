import os
from common import SRC
ST = os.path.join(SRC, 'strength')

PRAM = ['P_RAM_Z', 'P_RAM_D', 'd_1', 'd_2']
PRAJ = ['P_RAJ_Z', 'P_RAJ_D_0', 'd_RAJ']

SPECS = {
    'GenWoehlerFKMNonlinear': (os.path.join(ST, 'woehler_fkm_nonlinear.py'), [
        dict(cls='WoehlerCurvePRAM', prefix='pram_', ctor_params=PRAM, obj_attr='_obj', skip_attrs=['_obj'],
             methods=['fatigue_strength_limit', 'fatigue_life_limit', 'calc_N', 'calc_P_RAM']),
        # calc_N(P_RAJ) with the stored endurance value (P_RAJ_D argument not given) ...
        dict(cls='WoehlerCurvePRAJ', prefix='praj_', ctor_params=PRAJ, obj_attr='_obj', skip_attrs=['_obj'], none_args=['P_RAJ_D'],
             methods=['fatigue_strength_limit', 'fatigue_life_limit', 'calc_N', 'calc_P_RAJ']),
        # ... and with an explicitly given endurance value
        dict(cls='WoehlerCurvePRAJ', prefix='prajx_', ctor_params=PRAJ, obj_attr='_obj', skip_attrs=['_obj'],
             methods=['calc_N']),
    ]),
    'GenFKMLoadDistribution': (os.path.join(ST, 'fkm_load_distribution.py'), [
        dict(cls='FKMLoadSequence', prefix='fkmload', ctor_params=[], arg_objs=['input_parameters'], methods=['_get_beta']),
        dict(cls='FKMLoadDistributionNormal', prefix='fkmnormal_', ctor_params=[], arg_objs=['input_parameters'],
             skip_calls=['_validate_parameters'], param_calls={'_get_beta': 'beta', 'maximum_absolute_load': 'L_max'},
             methods=['gamma_L']),
        dict(cls='FKMLoadDistributionLognormal', prefix='fkmlognormal_', ctor_params=[], arg_objs=['input_parameters'],
             skip_calls=['_validate_parameters'], param_calls={'_get_beta': 'beta'}, methods=['gamma_L']),
        dict(cls='FKMLoadDistributionBlanket', prefix='fkmblanket_', ctor_params=[], arg_objs=['input_parameters'],
             skip_calls=['_validate_parameters'], methods=['gamma_L']),
    ]),
}

# The C09 whitelist is translated by the translator version it was built and validated with
# (harness/py2coq_c09.py: py2coq + Rbar/np.inf, record arguments, parameter calls, look-up loops, ...);
# its `none_args` option has a different meaning from the one in py2coq.py (C15), so the two were not merged.
TRANSLATOR = 'py2coq_c09'
