import os
from common import SRC
ML = os.path.join(SRC, 'materiallaws')

SPECS = {
    'GenHooke': (os.path.join(ML, 'hookeslaw.py'), [
        dict(cls='HookesLaw1d', prefix='h1_', methods=['stress', 'strain']),
        dict(cls='_Hookeslawcore', prefix='hc_', methods=['G', 'K']),
        dict(cls='HookesLaw2dPlaneStress', prefix='h2s_', methods=['strain', 'stress']),
        dict(cls='HookesLaw2dPlaneStrain', prefix='h2e_', methods=['super_strain', 'super_stress', 'strain', 'stress']),
        dict(cls='HookesLaw3d', prefix='h3_', methods=['strain', 'stress']),
    ]),
    'GenRambgood': (os.path.join(ML, 'rambgood.py'), [
        dict(cls='RambergOsgood', prefix='ro_', methods=['elastic_strain', 'plastic_strain', 'strain',
                                                         'tangential_compliance', 'tangential_modulus',
                                                         'delta_strain', 'lower_hysteresis']),
    ]),
    'GenTrueStressStrain': (os.path.join(ML, 'true_stress_strain.py'), [
        dict(cls=None, prefix='tss_', methods=['true_strain', 'true_stress', 'true_fracture_strain', 'true_fracture_stress']),
    ]),
}
