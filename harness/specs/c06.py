"""C06 whitelist: the implicit functions of the two notch approximation laws (and their analytic derivatives).

The solver calls (scipy.optimize.newton in stress/load/...) are NOT translated; their output is certified per sample
against the generated implicit functions.  `self._ramberg_osgood_relation.m(x)` becomes `ro_m E K n x` of GenRambgood,
with the constructor arguments read from NotchApproximationLawBase.__init__."""
import os
from common import SRC
ML = os.path.join(SRC, 'materiallaws')

RO = {'_ramberg_osgood_relation': ('RambergOsgood', 'ro_', ['strain', 'delta_strain', 'tangential_compliance'])}

SPECS = {
    'GenNeuber': (os.path.join(ML, 'notch_approximation_law.py'), [
        dict(cls='ExtendedNeuber', prefix='en_', delegates=RO, methods=['strain', 'strain_secondary_branch']),
        dict(cls='ExtendedNeuber', prefix='en', delegates=RO,       # private methods: `_e_star` -> `en_e_star`
             methods=['_e_star', '_d_e_star', '_neuber_strain', '_stress_implicit', '_d_stress_implicit',
                      '_delta_e_star', '_d_delta_e_star', '_neuber_strain_secondary',
                      '_stress_secondary_implicit', '_d_stress_secondary_implicit',
                      '_load_implicit', '_d_load_implicit', '_load_secondary_implicit', '_d_load_secondary_implicit']),
    ], ['GenRambgood']),
    'GenSeegerBeste': (os.path.join(ML, 'notch_approximation_law_seegerbeste.py'), [
        dict(cls='SeegerBeste', prefix='sb_', delegates=RO, extra_sources=[os.path.join(ML, 'notch_approximation_law.py')],
             methods=['strain', 'strain_secondary_branch']),
        dict(cls='SeegerBeste', prefix='sb', delegates=RO, extra_sources=[os.path.join(ML, 'notch_approximation_law.py')],
             methods=['_e_star', '_neuber_strain', '_u_term', '_middle_term', '_stress_implicit',
                      '_delta_e_star', '_neuber_strain_secondary', '_u_term_secondary', '_middle_term_secondary',
                      '_stress_secondary_implicit', '_load_implicit', '_load_secondary_implicit']),
    ], ['GenRambgood']),
}
