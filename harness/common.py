"""Shared machinery of the pyLife verification checks (see DESIGN.md sections 2, 3).

Everything here runs under /venv/bin/python with PYTHONPATH=/repo/src so that the
implementation under test is always /repo's *current working tree*.
"""
import fcntl
import hashlib
import json
import os
import random
import re
import shutil
import subprocess
import sys
import time
import traceback

VERIF = os.path.dirname(os.path.dirname(os.path.abspath(__file__)))
REPO = os.environ.get('PYLIFE_REPO', '/repo')
SRC = os.path.join(REPO, 'src', 'pylife')
COQ = os.path.join(VERIF, 'coq')
BUILD = os.path.join(VERIF, '_build')
EVIDENCE = os.path.join(VERIF, 'evidence')
REPLAYS = os.path.join(VERIF, 'replays')
CORPUS = os.path.join(VERIF, 'corpus')
KNOWN = os.path.join(VERIF, 'known_findings.jsonl')
NCPU = int(os.environ.get('VERIF_NCPU', '3'))

COQ_FLAGS = ['-R', os.path.join(COQ, 'theories'), 'PL',
             '-R', os.path.join(COQ, 'gen'), 'PLgen',
             '-R', os.path.join(COQ, 'props'), 'PLprops']

# Axioms that may appear under Print Assumptions (DESIGN.md section 5); all are
# declared by the Coq standard library / shipped libraries, none by this development.
ALLOWED_AXIOMS = {
    'ClassicalDedekindReals.sig_forall_dec',
    'ClassicalDedekindReals.sig_not_dec',
    'FunctionalExtensionality.functional_extensionality_dep',
    'Classical_Prop.classic',
}
FORBIDDEN = re.compile(r'\b(Admitted|admit|Axiom|Axioms|Parameter|Parameters|Conjecture|Conjectures|'
                       r'Admit Obligations|bypass_check|native_compute)\b|Unset\s+Guard|Unset\s+Positivity|'
                       r'Unset\s+Universe\s+Checking|type-in-type|impredicative-set')


def mkdirs(*ps):
    for p in ps:
        os.makedirs(p, exist_ok=True)


class Lock:
    """Serialises Coq builds between checks that run concurrently."""

    def __init__(self, name='coq'):
        mkdirs(BUILD)
        self.path = os.path.join(BUILD, name + '.lock')

    def __enter__(self):
        self.f = open(self.path, 'w')
        fcntl.flock(self.f, fcntl.LOCK_EX)
        return self

    def __exit__(self, *a):
        fcntl.flock(self.f, fcntl.LOCK_UN)
        self.f.close()


def sh(cmd, timeout=600, cwd=None, env=None, input=None):
    """Run a command under a hard timeout; returns (returncode, stdout+stderr)."""
    try:
        p = subprocess.run(cmd, cwd=cwd, env=env, input=input, timeout=timeout,
                           stdout=subprocess.PIPE, stderr=subprocess.STDOUT, text=True)
        return p.returncode, p.stdout
    except subprocess.TimeoutExpired as e:
        out = e.stdout.decode() if isinstance(e.stdout, bytes) else (e.stdout or '')
        return 124, out + '\n[timeout after %ss]' % timeout


def write_if_changed(path, text):
    mkdirs(os.path.dirname(path))
    try:
        if open(path).read() == text:
            return False
    except OSError:
        pass
    with open(path, 'w') as f:
        f.write(text)
    return True


# --------------------------------------------------------------------------- Coq

def coq_project_files():
    fs = []
    for sub in ('theories', 'gen', 'props'):
        for root, _, names in os.walk(os.path.join(COQ, sub)):
            for n in sorted(names):
                if n.endswith('.v'):
                    fs.append(os.path.relpath(os.path.join(root, n), COQ))
    return sorted(fs)


def coq_configure():
    """(Re)write _CoqProject and the coq_makefile Makefile when the file list changed."""
    mkdirs(os.path.join(COQ, 'gen'))
    text = '-R theories PL\n-R gen PLgen\n-R props PLprops\n-arg -w -arg -all\n' + '\n'.join(coq_project_files()) + '\n'
    changed = write_if_changed(os.path.join(COQ, '_CoqProject'), text)
    if changed or not os.path.exists(os.path.join(COQ, 'Makefile')):
        rc, out = sh(['coq_makefile', '-f', '_CoqProject', '-o', 'Makefile'], cwd=COQ, timeout=60)
        if rc != 0:
            raise RuntimeError('coq_makefile failed: ' + out)


def coq_make(targets, timeout=900):
    """Full .vo build of the given targets (paths relative to coq/, '.vo'); never -vos."""
    with Lock():
        coq_configure()
        rc, out = sh(['make', '-j%d' % NCPU, '--no-print-directory'] + list(targets), cwd=COQ, timeout=timeout)
    return rc == 0, out


def coq_audit():
    """Stage C: the development declares no axiom, admits nothing, disables no checker."""
    bad = []
    for rel in coq_project_files():
        txt = open(os.path.join(COQ, rel)).read()
        txt = re.sub(r'\(\*.*?\*\)', '', txt, flags=re.S)
        for m in FORBIDDEN.finditer(txt):
            bad.append('%s: %s' % (rel, m.group(0)))
        # Variable/Hypothesis outside a section
        depth = 0
        for line in txt.splitlines():
            s = line.strip()
            if re.match(r'Section\s', s):
                depth += 1
            elif re.match(r'End\s', s) and depth > 0:
                depth -= 1
            elif depth == 0 and re.match(r'(Variable|Variables|Hypothesis|Hypotheses|Context)\b', s):
                bad.append('%s: %s outside a section' % (rel, s.split()[0]))
    return bad


def print_assumptions(prop_file):
    """Compile props/<file>.v afresh and return [(theorem, [axioms])] in file order."""
    path = os.path.join(COQ, 'props', prop_file + '.v')
    src = open(path).read()
    names = re.findall(r'Print\s+Assumptions\s+([A-Za-z0-9_\.\']+)\s*\.', src)
    with Lock():
        rc, out = sh(['coqc', '-w', '-all'] + COQ_FLAGS + [path], cwd=COQ, timeout=900)
    if rc != 0:
        return None, out
    blocks, cur = [], None
    for line in out.splitlines():
        if line.startswith('Closed under the global context'):
            blocks.append([])
            cur = None
        elif line.startswith('Axioms:'):
            cur = []
            blocks.append(cur)
        elif cur is not None:
            m = re.match(r'^([A-Za-z_][A-Za-z0-9_\.\']*)(\s*:.*)?$', line)
            if m:
                cur.append(m.group(1))
    if len(blocks) != len(names):
        return None, 'Print Assumptions blocks (%d) do not match statements (%d)\n%s' % (len(blocks), len(names), out)
    return list(zip(names, blocks)), out


def theorem_names(prop_file):
    src = open(os.path.join(COQ, 'props', prop_file + '.v')).read()
    return re.findall(r'^\s*(?:Theorem|Lemma|Corollary)\s+([A-Za-z0-9_\']+)', src, flags=re.M)


def coq_scratch(name, text, timeout=600, extra_flags=()):
    """Compile a generated .v file (cases / certificates) outside the project tree."""
    d = os.path.join(BUILD, 'scratch')
    mkdirs(d)
    path = os.path.join(d, name + '.v')
    with open(path, 'w') as f:
        f.write(text)
    rc, out = sh(['coqc', '-w', '-all'] + COQ_FLAGS + list(extra_flags) + ['-Q', d, 'Scratch', path], cwd=d, timeout=timeout)
    return rc == 0, out


def coq_scratch_many(items, timeout=600):
    """items: list of (name, text). Compiled in parallel. Returns list of (ok, out)."""
    from concurrent.futures import ThreadPoolExecutor
    with ThreadPoolExecutor(max_workers=NCPU) as ex:
        return list(ex.map(lambda it: coq_scratch(it[0], it[1], timeout), items))


def coq_compare(name, requires, cases, shard=300, timeout=900, prelude=''):
    """Correspondence by evaluation inside Coq (vm_compute).

    cases: list of Coq terms of type bool, each typically `eqb (model input) (what the implementation returned)`.
    They are evaluated by vm_compute in parallel shards; only the indices evaluating to false are printed and
    parsed (no parsing of wrapped Coq output).  Returns (bad_indices, failed_shards_log):
    a shard that does not compile counts all its cases as bad."""
    shards = [list(range(k, min(k + shard, len(cases)))) for k in range(0, len(cases), shard)]
    items = []
    for j, idx in enumerate(shards):
        t = 'From Coq Require Import ZArith QArith List Bool.\nImport ListNotations.\n' + '\n'.join(requires) + '\n' + prelude + '\n'
        t += 'Definition cases : list (nat * bool) := [\n' + ';\n'.join('(%d%%nat, %s)' % (i, cases[i]) for i in idx) + '].\n'
        t += 'Definition bad := map fst (filter (fun p => negb (snd p)) cases).\n'
        t += 'Eval vm_compute in (length cases, bad).\n'
        items.append(('%s_cases_%d' % (name, j), t))
    res = coq_scratch_many(items, timeout)
    bad, logs = [], []
    for idx, (ok, out) in zip(shards, res):
        m = re.search(r'=\s*\((\d+)%?n?a?t?,\s*\[(.*?)\]\)', out.replace('\n', ' '), flags=re.S)
        if not ok or not m or int(m.group(1)) != len(idx):
            bad.extend(idx)
            logs.append(out[-2000:])
            continue
        bad.extend(int(x) for x in re.findall(r'\d+', m.group(2)))
    return sorted(bad), '\n'.join(logs)


# --------------------------------------------------------------------------- numbers -> Coq

def zlit(n):
    n = int(n)
    return '(%d)' % n if n < 0 else str(n)


def rlit(x):
    """Exact rational image of a Python float / int / Fraction as a Coq R term."""
    from fractions import Fraction
    fr = Fraction(x)
    n, d = fr.numerator, fr.denominator
    if d == 1:
        return '(%d)' % n if n < 0 else str(n)
    return '(%d / %d)' % (n, d)


def qlit(x):
    """Exact rational image of a float / int / Fraction as a Coq Q term (n # d)."""
    from fractions import Fraction
    fr = Fraction(x)
    n, d = fr.numerator, fr.denominator
    return '(%s # %d)' % (('(%d)' % n) if n < 0 else str(n), d)


def nlit(n):
    return '%d%%nat' % int(n)


def coq_list(xs, f=zlit):
    return '[' + '; '.join(f(x) for x in xs) + ']'


# --------------------------------------------------------------------------- extension rebuild

def build_extension():
    """Rebuild pylife.rainflow_ext from the current extension.pyx (the repo ships a stale .so).

    Returns the path of the built shared object; cached by the sha256 of the .pyx."""
    pyx = os.path.join(SRC, 'stress', 'rainflow', 'extension.pyx')
    h = hashlib.sha256(open(pyx, 'rb').read()).hexdigest()[:20]
    d = os.path.join(BUILD, 'ext', h)
    so = os.path.join(d, 'rainflow_ext.so')
    if os.path.exists(so):
        return so
    with Lock('ext'):
        if os.path.exists(so):
            return so
        tmp = d + '.tmp%d' % os.getpid()
        shutil.rmtree(tmp, ignore_errors=True)
        mkdirs(tmp)
        shutil.copy(pyx, os.path.join(tmp, 'rainflow_ext.pyx'))
        setup = ("from setuptools import setup, Extension\nfrom Cython.Build import cythonize\nimport numpy\n"
                 "setup(ext_modules=cythonize([Extension('rainflow_ext', ['rainflow_ext.pyx'], "
                 "include_dirs=[numpy.get_include()], extra_compile_args=['-O1'])], language_level=3))\n")
        open(os.path.join(tmp, 'setup.py'), 'w').write(setup)
        rc, out = sh([sys.executable, 'setup.py', 'build_ext', '--inplace', '-q'], cwd=tmp, timeout=300)
        built = [f for f in os.listdir(tmp) if f.startswith('rainflow_ext') and f.endswith('.so')]
        if rc != 0 or not built:
            shutil.rmtree(tmp, ignore_errors=True)
            raise RuntimeError('extension build failed:\n' + out[-3000:])
        mkdirs(d)
        shutil.copy(os.path.join(tmp, built[0]), so)
        shutil.rmtree(tmp, ignore_errors=True)
    return so


def inject_extension():
    """Make `import pylife.rainflow_ext` resolve to the freshly built kernel."""
    import importlib.machinery
    import importlib.util
    so = build_extension()
    import pylife  # noqa: F401  (from PYTHONPATH=/repo/src)
    loader = importlib.machinery.ExtensionFileLoader('rainflow_ext', so)
    spec = importlib.util.spec_from_file_location('rainflow_ext', so, loader=loader)
    mod = importlib.util.module_from_spec(spec)
    loader.exec_module(mod)
    sys.modules['pylife.rainflow_ext'] = mod
    import pylife as _p
    _p.rainflow_ext = mod
    return so


# --------------------------------------------------------------------------- known findings / results

def known_findings(prop):
    out = []
    if os.path.exists(KNOWN):
        for line in open(KNOWN):
            line = line.strip()
            if line:
                e = json.loads(line)
                if e.get('property') == prop:
                    out.append(e)
    return out


class Result:
    """Collects what one run of one check covered and decides the exit status."""

    def __init__(self, prop, tier, seed):
        self.prop, self.tier, self.seed = prop, tier, seed
        self.t0 = time.time()
        self.obligations = 0
        self.discharged = 0
        self.broken = []          # names of obligations / correspondences that no longer check
        self.violations = []      # dicts: concrete failing inputs of the property (not known)
        self.known = []           # messages of reproduced known findings
        self.cov = {'evaluations': 0, 'distinct_nontrivial': 0, 'rule': '', 'samples': [],
                    'traces_validated_against_impl': 0}
        self.assumptions = []
        self.trusted = []
        self.checker_cmd = ''
        self.notes = []
        self.rng = random.Random(seed)
        self.classes = {}         # class name -> predicate(input dict) for known_findings.jsonl entries
        self.known_hits = {}
        mkdirs(REPLAYS)
        for f in os.listdir(REPLAYS):          # replays of earlier runs of this property are stale
            if f.startswith(prop + '-'):
                os.remove(os.path.join(REPLAYS, f))

    def oblige(self, name, ok, detail=''):
        self.obligations += 1
        if ok:
            self.discharged += 1
        else:
            self.broken.append({'obligation': name, 'detail': str(detail)[-4000:]})
        return ok

    def add_cases(self, n, nontrivial=0, validated=None):
        self.cov['evaluations'] += n
        self.cov['distinct_nontrivial'] += nontrivial
        self.cov['traces_validated_against_impl'] += n if validated is None else validated

    def sample(self, s):
        if len(self.cov['samples']) < 12:
            self.cov['samples'].append(s)

    def violation(self, what, **kw):
        """Record a concrete failing input of the property found on the implementation.

        It is a KNOWN-FINDING (exit 0) only if an *open* entry of known_findings.jsonl for this property names
        the same failure kind and the entry's class predicate (self.classes[entry['class']], a decidable predicate
        on the input registered by the property module) accepts this input; anything else is a VIOLATION."""
        d = {'what': what}
        d.update(kw)
        for e in known_findings(self.prop):
            if e.get('status') == 'open' and e.get('what') == what:
                pred = self.classes.get(e.get('class'))
                try:
                    if pred is not None and pred(d):
                        self.known_hits[e['id']] = self.known_hits.get(e['id'], 0) + 1
                        return False
                except Exception:
                    pass
        if len(self.violations) < 50:
            self.violations.append(d)
        return True

    def replay_known(self, still_fails):
        """Stage E: replay the witness of every open known finding on the implementation.
        still_fails(entry) -> bool."""
        for e in known_findings(self.prop):
            if e.get('status') != 'open':
                continue
            try:
                rep = bool(still_fails(e))
            except Exception as ex:
                rep = True
                self.notes.append('known finding %s: witness raised %r' % (e['id'], ex))
            if rep:
                self.known.append('%s: %s' % (e['id'], e.get('description', e.get('what'))))
            else:
                sys.stderr.write('note: known finding %s of %s no longer reproduces (replace by a fixed: entry)\n' % (e['id'], self.prop))

    def finish(self):
        wall = time.time() - self.t0
        mkdirs(EVIDENCE, REPLAYS)
        status = 0
        lines = []
        for k in self.known:
            lines.append('KNOWN-FINDING: property=%s %s' % (self.prop, k))
        if self.violations:
            status = 1
            for i, v in enumerate(self.violations[:5]):
                path = os.path.join(REPLAYS, '%s-%d.json' % (self.prop, i))
                json.dump({'property': self.prop, 'seed': self.seed, 'tier': self.tier, 'violation': v,
                           'broken_obligations': self.broken}, open(path, 'w'), indent=1, default=str)
                lines.append('VIOLATION property=%s replay=%s' % (self.prop, path))
        elif self.broken:
            status = 1
            path = os.path.join(REPLAYS, '%s-obligation.json' % self.prop)
            json.dump({'property': self.prop, 'seed': self.seed, 'tier': self.tier,
                       'no_longer_checks': self.broken,
                       'note': 'a proof obligation / correspondence of the model no longer checks against /repo; '
                               'the failing-input search on the implementation found nothing'},
                      open(path, 'w'), indent=1, default=str)
            lines.append('VIOLATION property=%s replay=%s no-failing-input-found' % (self.prop, path))
        cov = dict(self.cov)
        cov.update({'obligations': self.obligations, 'discharged': self.discharged,
                    'checker_cmd': self.checker_cmd or 'make -C /verif/coq (coqc 8.16.1, full .vo build) + coqc on props/%s.v with Print Assumptions' % self.prop,
                    'trusted_base': self.trusted, 'notes': self.notes,
                    'broken_obligations': [b['obligation'] for b in self.broken],
                    'known_findings_reproduced': self.known, 'known_finding_class_hits': self.known_hits})
        ev = {'property_id': self.prop, 'tier': self.tier, 'seed': self.seed, 'level': 'proof',
              'coverage': cov, 'assumptions': self.assumptions, 'wall_s': round(wall, 2),
              'violations': len(self.violations) + (1 if (self.broken and not self.violations) else 0)}
        json.dump(ev, open(os.path.join(EVIDENCE, self.prop + '.json'), 'w'), indent=1, default=str)
        for l in lines:
            print(l)
        print('%s %s: obligations %d/%d, cases %d (non-trivial %d), %s, %.1fs' % (
            self.prop, self.tier, self.discharged, self.obligations, self.cov['evaluations'],
            self.cov['distinct_nontrivial'], 'OK' if status == 0 else 'FAILED', wall))
        sys.stdout.flush()
        return status


TB_NOTE = ('Trusted: Coq 8.16.1 kernel (vm_compute used, native_compute not); no axiom declared by the development, no Admitted; '
           'axioms under Print Assumptions are only those of Coq Reals / Coquelicot (ClassicalDedekindReals.sig_forall_dec, sig_not_dec, '
           'FunctionalExtensionality.functional_extensionality_dep, Classical_Prop.classic) for R-valued theorems and none for Z/Q/list theorems; ')

GLOBAL_TRUSTED = [
    'Coq 8.16.1 kernel (coqc); vm_compute is used for bounded lemmas / correspondence evaluation; native_compute is not used',
    'this development declares no Axiom/Parameter/Conjecture, has no Admitted/admit, switches off no kernel check (audited on every run)',
    'the correspondence harness / generators / canonicalisation in /verif/harness',
]


def standard_proof_stage(res, prop, extra_targets=(), allowed=None, gen_fn=None):
    """Stages A (regenerate), B (make), C (audit + Print Assumptions) for one property.

    Returns True iff every proof obligation of the property checks against the current tree."""
    allowed = ALLOWED_AXIOMS if allowed is None else allowed
    ok_all = True
    if gen_fn is not None:
        try:
            gen_fn()
            res.oblige('A:model regenerates from /repo source (py2coq)', True)
        except Exception as e:  # translator is fail-closed
            res.oblige('A:model regenerates from /repo source (py2coq)', False, '%s: %s' % (type(e).__name__, e))
            return False
    ok, out = coq_make(['props/%s.vo' % prop] + list(extra_targets))
    if not ok:
        # find which file failed
        m = re.findall(r'File "([^"]+)", line (\d+)[^\n]*\n(?:.*\n){0,12}?Error:[^\n]*(?:\n[^\n]*){0,6}', out)
        res.oblige('B:coq build of props/%s.vo' % prop, False, out[-3000:])
        return False
    res.oblige('B:coq build of props/%s.vo' % prop, True)
    bad = coq_audit()
    if not res.oblige('C:audit (no Admitted/Axiom/Parameter/unchecked)', not bad, bad):
        ok_all = False
    pa, out = print_assumptions(prop)
    if pa is None:
        res.oblige('C:Print Assumptions of props/%s.v' % prop, False, out[-3000:])
        return False
    thms = theorem_names(prop)
    printed = {n for n, _ in pa}
    for t in thms:
        axs = dict(pa).get(t)
        if axs is None:
            res.oblige('theorem %s has Print Assumptions' % t, False)
            ok_all = False
            continue
        extra = [a for a in axs if a not in allowed]
        if not res.oblige('theorem %s (axioms: %s)' % (t, ', '.join(axs) or 'none'), not extra, extra):
            ok_all = False
    res.cov['theorems'] = [{'name': n, 'axioms': a} for n, a in pa]
    return ok_all
