"""Shared harness code of C12 (mean stress transformation): running the real implementation through its three
interfaces, an independent exact (Fraction) iso-damage oracle, generators and Coq literals of the cases."""
import math
from fractions import Fraction as F

import numpy as np
import pandas as pd

from common import qlit

REQ = ['From PL Require Import Strength.MeanStress.']
INF = float('inf')


# --------------------------------------------------------------------------- Coq literals

def elit(x):
    """ExtQ literal of a float (exact rational image)."""
    if x == INF:
        return 'PosInf'
    if x == -INF:
        return 'NegInf'
    return '(Fin %s)' % qlit(x)


def natural_segments(d):
    """[(lo, hi, slope)] of the diagram in the natural order of R: (-inf, 0), (0, ..), ..., (.., 1), (1, inf)"""
    if d['kind'] == 'fkm':
        M2 = d['M2'] if d.get('M2') is not None else d['M'] / 3.0
        return [(-INF, 0.0, d['M']), (0.0, 1.0, M2), (1.0, INF, 0.0)]
    return [(-INF, 0.0, d['M0']), (0.0, d['R12'], d['M1']), (d['R12'], d['R23'], d['M2']), (d['R23'], 1.0, d['M3']),
            (1.0, INF, d['M4'])]


def listed_segments(d):
    """d['listing'] = k: the diagram is built by HaighDiagram.from_dict with the segments listed in the k-th cyclic
    rotation of the natural order (the only listings the gap check of HaighDiagram accepts; k = 0: natural order,
    k = n - 1: the order the constructors fkm_goodman / five_segment use)"""
    segs = natural_segments(d)
    k = d['listing'] % len(segs)
    return segs[k:] + segs[:k]


def listed_otherwise_than_constructor(d):
    """from_dict diagram whose listing is not the one the constructors use ((1, inf), (-inf, 0), then ascending R)"""
    if d.get('listing') is None:
        return False
    n = len(natural_segments(d))
    return d['listing'] % n != n - 1


def diagram_lit(d):
    if d.get('listing') is not None:
        return '[' + '; '.join('mkSeg %s %s %s' % (elit(lo), elit(hi), qlit(M)) for lo, hi, M in listed_segments(d)) + ']'
    if d['kind'] == 'fkm':
        if d.get('M2') is None:
            return '(fkm_goodman_diagram_default %s)' % qlit(d['M'])
        return '(fkm_goodman_diagram %s %s)' % (qlit(d['M']), qlit(d['M2']))
    return '(five_segment_diagram %s)' % ' '.join(qlit(d[k]) for k in ('M0', 'M1', 'M2', 'M3', 'M4', 'R12', 'R23'))


def qlist(xs):
    return '[' + '; '.join(qlit(x) for x in xs) + ']'


# --------------------------------------------------------------------------- exact oracle (independent of the code's algorithm)

def fr(x):
    return x if isinstance(x, F) else F(x)


def fms(R):
    return (1 + R) / (1 - R)


def cycle_R(a, m):
    """exact stress ratio of a cycle (amplitude a >= 0, mean m): '-inf' / Fraction."""
    lo, up = m - a, m + a
    if up == 0:
        return -INF if lo < 0 else F(0)
    return lo / up


def goodman_equiv(a, m, M, M2):
    """FKM-Goodman: amplitude at R = -1 on the iso-damage line through (m, a); three mean stress regions
    (compression m <= -a: slope 0 towards R = +-inf, then slope M; -a <= m <= a: slope M; m >= a: slope M2 to R = 0, then M)."""
    if m <= -a:
        return a * (1 - M)
    if m <= a:
        return a + M * m
    return (1 + M) * (a + M2 * m) / (1 + M2)


def goodman_at(e, Rg, M, M2):
    """amplitude at stress ratio Rg of the iso-damage line whose amplitude at R = -1 is e (4 target regions)."""
    if Rg == -INF or Rg > 1:
        return e / (1 - M)
    if Rg <= 0:
        return e * (1 - Rg) / (1 - Rg + M * (1 + Rg))
    return e * (1 + M2) * (1 - Rg) / ((1 + M) * (1 - Rg + M2 * (1 + Rg)))


def goodman_closed(a, m, M, M2, Rg):
    a, m, M, M2 = fr(a), fr(m), fr(M), fr(M2)
    Rg = Rg if Rg == -INF else fr(Rg)
    return goodman_at(goodman_equiv(a, m, M, M2), Rg, M, M2)


def five_potential(d):
    """H(R): equivalent amplitude at R = -1 of a unit amplitude at stress ratio R, for the continuous five-segment
    Haigh diagram; returns a function on '-inf' / Fraction (R != 1).  Written from the diagram's geometry:
    within a segment of slope M the quantity a * (1 + M * u), u = mean/amplitude = (1+R)/(1-R), is constant."""
    M0, M1, M2, M3, M4, R12, R23 = [fr(d[k]) for k in ('M0', 'M1', 'M2', 'M3', 'M4', 'R12', 'R23')]
    k0 = F(1)
    k4 = (1 - M0) / (1 - M4)                                   # continuity at R = +-inf (u = -1)
    k1 = k0 * (1 + M0) / (1 + M1)                              # continuity at R = 0 (u = 1)
    u12, u23 = fms(R12), fms(R23)
    k2 = k1 * (1 + M1 * u12) / (1 + M2 * u12)
    k3 = k2 * (1 + M2 * u23) / (1 + M3 * u23)

    def H(R):
        if R == -INF or R == INF:
            return k0 * (1 - M0)
        u = fms(R)
        if R > 1:
            return k4 * (1 + M4 * u)
        if R <= 0:
            return k0 * (1 + M0 * u)
        if R <= R12:
            return k1 * (1 + M1 * u)
        if R <= R23:
            return k2 * (1 + M2 * u)
        return k3 * (1 + M3 * u)
    return H


def oracle(d, a, m, Rg):
    """exact iso-damage amplitude at Rg of the cycle (a, m); None if a denominator vanishes."""
    a, m = fr(a), fr(m)
    Rg = Rg if Rg == -INF else fr(Rg)
    try:
        if d['kind'] == 'fkm':
            M = fr(d['M'])
            M2 = fr(d['M2']) if d.get('M2') is not None else fr(d['M']) / 3
            return goodman_closed(a, m, M, M2, Rg)
        if a == 0:
            return F(0)
        H = five_potential(d)
        return a * H(cycle_R(a, m)) / H(Rg)
    except ZeroDivisionError:
        return None


def denominators_ok(d, Rg, bound=F(1, 8)):
    """every divisor the segment algorithm can meet for this diagram / goal stays away from zero"""
    if d['kind'] == 'fkm':
        return True        # 0 <= M2 <= M < 1: all divisors >= 1 - M > 0 resp. positive
    M0, M1, M2, M3, M4, R12, R23 = [fr(d[k]) for k in ('M0', 'M1', 'M2', 'M3', 'M4', 'R12', 'R23')]
    if abs(1 - M0) < bound or abs(1 - M4) < bound:
        return False
    segs = [(None, F(0), M0), (F(0), R12, M1), (R12, R23, M2), (R23, F(1), M3), (F(1), None, M4)]
    for lo, hi, M in segs:
        pts = [p for p in (lo, hi) if p is not None and p != 1]
        if Rg != -INF and (lo is None or lo <= fr(Rg)) and (hi is None or fr(Rg) <= hi):
            pts.append(fr(Rg))
        for b in pts:
            if abs(1 - b + M * (1 + b)) < bound * max(1, abs(1 - b)):
                return False
    return True


# --------------------------------------------------------------------------- the implementation

def haigh_obj(d):
    if d['kind'] == 'fkm':
        h = {'M': d['M']}
        if d.get('M2') is not None:
            h['M2'] = d['M2']
        return pd.Series(h)
    return pd.Series({k: d[k] for k in ('M0', 'M1', 'M2', 'M3', 'M4', 'R12', 'R23')})


def haigh_diagram(d):
    """the HaighDiagram object: through the constructors, or (d['listing']) through from_dict in the given listing order"""
    import pylife.strength.meanstress as MS
    if d.get('listing') is not None:
        return MS.HaighDiagram.from_dict({(lo, hi): M for lo, hi, M in listed_segments(d)})
    return MS.HaighDiagram.fkm_goodman(haigh_obj(d)) if d['kind'] == 'fkm' else MS.HaighDiagram.five_segment(haigh_obj(d))


def impl_plain(d, amps, means, Rg):
    import pylife.strength.meanstress as MS
    a, m = np.asarray(amps, float), np.asarray(means, float)
    if d.get('listing') is not None:     # what the plain functions do, with the from_dict diagram
        res = haigh_diagram(d).transform(pd.DataFrame({'range': 2. * a, 'mean': m}), Rg)
        return [float(x) for x in res.load_collective.amplitude.to_numpy()]
    if d['kind'] == 'fkm':
        M2 = d['M2'] if d.get('M2') is not None else d['M'] / 3.0
        return [float(x) for x in MS.fkm_goodman(a, m, d['M'], M2, Rg)]
    return [float(x) for x in MS.five_segment_correction(a, m, d['M0'], d['M1'], d['M2'], d['M3'], d['M4'], d['R12'], d['R23'], Rg)]


def make_index(n, layout, rng=None):
    """index layouts of a collective: default RangeIndex, named index with gaps, two-level MultiIndex"""
    if layout == 'range':
        return None
    if layout == 'named':
        return pd.Index([3 + 2 * i for i in range(n)], name='element_id')
    if layout == 'multi':
        return pd.MultiIndex.from_tuples([(1 + i // 3, 10 + i % 3) for i in range(n)], names=['element_id', 'node_id'])
    if layout == 'strings':
        return pd.Index(['c%d' % (n - i) for i in range(n)], name='cycle')
    raise ValueError(layout)


def impl_collective(d, cols, Rg, layout='range'):
    """DataFrame accessor.  cols = ('range_mean', ranges, means) or ('from_to', froms, tos).
    Returns (amplitudes, means) of the resulting collective, in input order."""
    import pylife.strength.meanstress  # noqa: F401  (registers the accessor)
    kind, x, y = cols
    n = len(x)
    idx = make_index(n, layout)
    if kind == 'range_mean':
        df = pd.DataFrame({'range': np.asarray(x, float), 'mean': np.asarray(y, float)}, index=idx)
    else:
        df = pd.DataFrame({'from': np.asarray(x, float), 'to': np.asarray(y, float)}, index=idx)
    if d.get('listing') is not None:
        lc = haigh_diagram(d).transform(df, Rg).load_collective
    else:
        acc = df.meanstress_transform
        lc = acc.fkm_goodman(haigh_obj(d), Rg) if d['kind'] == 'fkm' else acc.five_segment(haigh_obj(d), Rg)
    amp, mean = lc.amplitude, lc.meanstress
    if idx is not None:
        amp, mean = amp.reindex(idx), mean.reindex(idx)
    return [float(v) for v in amp.to_numpy()], [float(v) for v in mean.to_numpy()]


def impl_collective_multi(ds, cols, Rg, frame=None):
    """DataFrame accessor with one Haigh diagram per element (DataFrame of parameters, broadcast over
    the cycles of each element).  ds: list of diagrams of the same kind; the collective has a two-level
    index (element_id, cycle) with the same cycles for every element.  Returns {element position: (amps, means)}.
    frame = {'ids': [...], 'coll': [...]}: ids[k] = element id of ds[k] (the parameter frame lists its rows in the order
    of ds, so ids that are not ascending give a parameter frame whose index is not sorted -- node ids in mesh order);
    coll = the order in which the collective lists the elements (default: as the parameter frame)."""
    import pylife.strength.meanstress  # noqa: F401
    kind, x, y = cols
    n = len(x)
    eids = list(frame['ids']) if frame else [7 + 3 * i for i in range(len(ds))]
    coll = list(frame['coll']) if frame and frame.get('coll') else eids
    idx = pd.MultiIndex.from_product([coll, list(range(n))], names=['element_id', 'cycle'])
    a, b = np.tile(np.asarray(x, float), len(ds)), np.tile(np.asarray(y, float), len(ds))
    if kind == 'range_mean':
        df = pd.DataFrame({'range': a, 'mean': b}, index=idx)
    else:
        df = pd.DataFrame({'from': a, 'to': b}, index=idx)
    keys = list(haigh_obj(ds[0]).index)
    haigh = pd.DataFrame({k: [float(haigh_obj(dd)[k]) for dd in ds] for k in keys}, index=pd.Index(eids, name='element_id'))
    acc = df.meanstress_transform
    lc = acc.fkm_goodman(haigh, Rg) if ds[0]['kind'] == 'fkm' else acc.five_segment(haigh, Rg)
    amp, mean = lc.amplitude, lc.meanstress
    out = {}
    for k, e in enumerate(eids):
        aa = amp.xs(e, level='element_id').reindex(range(n))
        mm = mean.xs(e, level='element_id').reindex(range(n))
        out[k] = ([float(v) for v in aa.to_numpy()], [float(v) for v in mm.to_numpy()])
    return out


def hist_series(kind, xb, yb, counts, extra=None, order=None):
    """A load histogram: kind 'range_mean' / 'from_to'; xb, yb = class breaks of the two levels; counts[i][j]
    (optionally one matrix per value of an extra index level).  order = {'levels': [names in another order],
    'perm': [row positions]}: the same matrix with the index levels reordered and / or the rows listed in another order
    than the lexicographic product order (as after .sample(frac=1), a sort by cycles, a concat of partial matrices);
    'keep': [row positions]: a SPARSE matrix that lists only these rows (mat[mat > 0], a matrix without its diagonal)."""
    xi = pd.IntervalIndex.from_breaks(np.asarray(xb, float))
    yi = pd.IntervalIndex.from_breaks(np.asarray(yb, float))
    names = ['range', 'mean'] if kind == 'range_mean' else ['from', 'to']
    if extra is None:
        idx = pd.MultiIndex.from_product([xi, yi], names=names)
        vals = np.asarray(counts, float).ravel()
    else:
        idx = pd.MultiIndex.from_product([xi, yi, pd.Index(extra, name='node_id')], names=names + ['node_id'])
        vals = np.stack([np.asarray(c, float) for c in counts], axis=-1).ravel()
    ser = pd.Series(vals, index=idx, name='cycles')
    if order:
        if order.get('levels'):
            ser = ser.reorder_levels(order['levels'])
        if order.get('perm') is not None:
            ser = ser.iloc[list(order['perm'])]
        if order.get('keep') is not None:      # sparse matrix: only these rows (positions after perm) are listed
            ser = ser.iloc[list(order['keep'])]
    return ser


def impl_hist_transform(d, series, Rg):
    """HaighDiagram.transform on a histogram: per class the transformed range (before re-binning)"""
    res = haigh_diagram(d).transform(series, Rg)
    return res['range'], res['mean']


def impl_hist_fkm(d, series, Rg):
    """Series accessor (matrix interface) -> re-binned histogram as a pandas Series"""
    import pylife.strength.meanstress  # noqa: F401
    return series.meanstress_transform.fkm_goodman(haigh_obj(d), Rg).to_pandas()


# --------------------------------------------------------------------------- generators

def dyadic(rng, lo, hi, den):
    """random multiple of 1/den in [lo, hi]"""
    return rng.randint(int(math.ceil(lo * den)), int(math.floor(hi * den))) / float(den)


def gen_fkm(rng):
    r = rng.random()
    M = dyadic(rng, 0, 15. / 16, 16) if r < 0.8 else rng.choice([0.0, 0.3, 0.1, 0.45, 0.7])
    q = rng.random()
    if q < 0.15:
        M2 = None                               # default M / 3
    elif q < 0.3:
        M2 = M
    elif q < 0.4:
        M2 = 0.0
    else:
        M2 = dyadic(rng, 0, M, 32) if r < 0.8 else M * rng.choice([0.25, 0.5, 1.0 / 3.0])
    return {'kind': 'fkm', 'M': M, 'M2': M2}


def gen_five(rng, wild=False):
    den = rng.choice([8, 16, 16, 32])
    R12 = dyadic(rng, 1. / den, 1 - 2. / den, den)
    R23 = dyadic(rng, R12 + 1. / den, 1 - 1. / den, den)
    if rng.random() < 0.2:                      # non-dyadic borders
        R12, R23 = rng.choice([(0.2, 0.6), (0.1, 0.3), (0.4, 0.8), (1. / 3, 2. / 3)])
    if wild:
        Ms = [dyadic(rng, -2, 2, 8) for _ in range(5)]
    else:
        Ms = [dyadic(rng, 0, 15. / 16, 16) for _ in range(5)]
        if rng.random() < 0.3:                  # the usual decreasing sensitivities, M4 = 0
            Ms = sorted(Ms[:4], reverse=True) + [0.0]
        if rng.random() < 0.15:
            Ms[rng.randrange(5)] = 0.0
    return {'kind': 'five', 'M0': Ms[0], 'M1': Ms[1], 'M2': Ms[2], 'M3': Ms[3], 'M4': Ms[4], 'R12': R12, 'R23': R23}


def special_Rs(d):
    s = [0.0, -1.0, 0.5, -INF, 0.25, 0.75, 2.0, -3.0]
    if d['kind'] == 'five':
        s += [d['R12'], d['R23'], d['R12'] / 2, (d['R12'] + d['R23']) / 2, (d['R23'] + 1) / 2]
    return s


def gen_goal(rng, d, matrix=False):
    """target R: special values (borders, segment mids, -inf), dyadic values on both sides of 1"""
    r = rng.random()
    if matrix:
        if r < 0.4:
            return rng.choice([-1.0, 0.0, 0.5, -0.5, 0.25])
        return dyadic(rng, -1, 15. / 16, 16)
    if r < 0.06:
        g = -INF
    elif r < 0.35:
        g = rng.choice(special_Rs(d))
    elif r < 0.5:
        g = dyadic(rng, 1 + 1. / 8, 6, 8)
    elif r < 0.9:
        g = dyadic(rng, -4, 15. / 16, 16)
    else:
        g = rng.choice([0.1, -0.3, 0.7, 1.5, 0.9, -10.0])
    return g


def cycle_from_R(rng, R):
    """(from, to) of a cycle whose stress ratio is exactly R (lower = R * upper in exact dyadic arithmetic when R is dyadic)"""
    u = dyadic(rng, 1. / 4, 8, 4)
    if R == -INF:
        return (-u, 0.0)
    if R < 1:
        return (R * u, u)
    return (-R * u, -u)


def gen_cycles(rng, d, Rg, n):
    """cycles as (from, to) with from <= to, amplitude > 0: random dyadic, exactly on segment borders / on the target,
    near borders, strongly compressive"""
    out = []
    spec = special_Rs(d) + [Rg]
    for _ in range(n):
        r = rng.random()
        if r < 0.35:
            R = rng.choice(spec)
            out.append(cycle_from_R(rng, R))
        elif r < 0.5:
            R = rng.choice([x for x in spec if abs(x) != INF]) + rng.choice([-1, 1]) * 2.0 ** -rng.choice([6, 10, 20])
            if R == 1.0:
                R = 0.5
            out.append(cycle_from_R(rng, R))
        else:
            a = dyadic(rng, 1. / 8, 8, 8)
            m = dyadic(rng, -16, 16, 8) if rng.random() < 0.8 else rng.choice([0.1, -0.3, 2.7, -5.1]) * a
            out.append((m - a, m + a))
    return out


def am_of(ft):
    f, t = ft
    return (abs(F(t) - F(f)) / 2, (F(t) + F(f)) / 2)
