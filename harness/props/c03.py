"""C03 -- the rainflow result depends only on the reversal sequence: symmetries.

Theorems are about the Gallina model of the detectors (same model as C01/C02, re-tied here by a one-piece
correspondence run); the relations themselves (negation, positive affine map, FKM scaling, refinement by
non-reversal samples with index tracking, NaN dropping with original indices, pandas Series with any index
type) are evaluated on the implementation on every run -- a failure there is a failing input of the property."""
import math
import warnings

import numpy as np

import common
import rf

MANIFEST = dict(
    text='Theorems (props/C03.v, closed under the global context): for the four-point detector negation and every positive affine map '
         'a x + b (a > 0) map all reported values and leave all indices unchanged (unbounded, via a class of value maps that preserve signs of '
         'differences and comparisons of absolute differences, applied to turning-point extraction and the item-level stack machine); the FKM '
         'detector is negation- and positive-scale-equivariant (unbounded); inserting non-reversal samples changes no reported value of the '
         'four-point and FKM detectors and no reversal value (unbounded); three-point detector: negation and every positive affine map (unbounded, '
         'position-level proof with range and front-order invariants), insertion of non-reversal samples changes no reported value (unbounded: the '
         'reported values are a function of the turning-point sequence); NaN dropping: a literal model of clean_nans + the index-correction loop reports the '
         'values of the NaN-free signal and indices that address, in the original signal, non-NaN samples holding the value (nan_drop_index, '
         'unbounded); a NaN-containing signal fed in any chunking (chunks cleaned one by one, all-NaN chunks are no-ops) yields the cycles, residual and residual '
         'indices of the NaN-free signal in one piece for all three detectors (nan_chunked_4pt/_3pt/_fkm, unbounded corollaries of the C01 theorems).  '
         'Index tracking under refinement, NaN handling inside the detectors and Series handling are decided by '
         'relations on the implementation on every run.',
    note=common.TB_NOTE + 'no axioms under any C03 theorem. Hand-written model tied by correspondence; integer-valued signals in the model; '
         'NaN handling is modelled for find_turns (tied by its own correspondence run), not for the detectors\' tail bookkeeping; pandas Series glue is not modelled (implementation relations only).',
    technique='Coq proof (equivariance by induction over scanner, stack machine and the three-point kernel; all unbounded, bounded sweeps kept as independent evaluation) + implementation relations',
    design='6/C03')


def run_impl(kind, s, chunks=None):
    return rf.impl_run(kind, chunks if chunks else [s], as_int=False)[:3]


def mapvals(o, g, kind):
    cyc = [tuple([g(c[0]), g(c[1])] + list(c[2:])) for c in o[0]]
    return cyc, [g(v) for v in o[1]], o[2]


def refine(rng, s):
    """Insert non-reversal samples strictly inside s; returns (s', phi) with phi old position -> new position."""
    out, phi = [s[0]], [0]
    for i in range(1, len(s)):
        u, v = s[i - 1], s[i]
        k = rng.choice([0, 0, 1, 2, 3])
        ins = []
        for _ in range(k):
            lo, hi = (u, v) if u <= v else (v, u)
            ins.append(rng.randint(lo, hi) if isinstance(u, int) and isinstance(v, int) else rng.choice([u, v, (u + v) / 2.0]))
        ins.sort(reverse=(u > v))
        out += ins
        phi.append(len(out))
        out.append(v)
    return out, phi


def check_refinement(kind, s, s2, phi):
    a, b = run_impl(kind, s), run_impl(kind, s2)
    va = [c[:2] for c in a[0]], a[1]
    vb = [c[:2] for c in b[0]], b[1]
    if va != vb:
        return 'reported values change when non-reversal samples are inserted'
    if kind == 'F':
        return None
    ia = [i for c in a[0] for i in c[2:]] + list(a[2])
    ib = [i for c in b[0] for i in c[2:]] + list(b[2])
    vals = [v for c in a[0] for v in c[:2]] + list(a[1])
    for j, j2, v in zip(ia, ib, vals):
        if not (0 <= j2 <= phi[j]) or any(s2[t] != v for t in range(j2, phi[j] + 1)):
            return 'reported index does not move with the samples (old %d -> new %d, expected <= %d on a run of %r)' % (j, j2, phi[j], v)
    return None


def check_nan(kind, s, rng):
    """insert NaNs away from both ends; values as for the NaN-free signal, indices address the original positions"""
    if len(s) < 3:
        return None, None
    pos = sorted(set(rng.randint(1, len(s) - 1) for _ in range(rng.randint(1, 4))))
    s2, phi = [], []
    for i, x in enumerate(s):
        while pos and pos[0] == i and i > 0:
            s2.append(float('nan'))
            pos.pop(0)
        phi.append(len(s2))
        s2.append(float(x))
    a = run_impl(kind, [float(x) for x in s])
    with warnings.catch_warnings(record=True) as w:
        warnings.simplefilter('always')
        # chunked or not
        if rng.random() < 0.6 and len(s2) > 3:
            # any partition: borders next to / between NaNs, chunks that hold only NaNs (NaN directly before the last sample of a chunk
            # whose last sample becomes a reversal in the next chunk: seeded change C03-6)
            cuts = sorted(set(rng.randint(1, len(s2) - 1) for _ in range(rng.randint(1, 3))))
            chunks = [s2[i:j] for i, j in zip([0] + cuts, cuts + [len(s2)])]
        else:
            chunks = [s2]
        if any(len(c) == 0 or math.isnan(c[0]) and False for c in chunks):
            return None, None
        b = rf.impl_run(kind, chunks, as_int=False)[:3]
    if not any(issubclass(x.category, UserWarning) for x in w):
        return 'no warning when NaN samples are dropped', s2
    va = [c[:2] for c in a[0]], a[1]
    vb = [c[:2] for c in b[0]], b[1]
    if va != vb:
        return 'values differ from those of the NaN-free signal%s' % (' (fed in chunks of %s samples)' % [len(c) for c in chunks] if len(chunks) > 1 else ''), s2
    if kind != 'F':
        idx = [i for c in b[0] for i in c[2:]] + list(b[2])
        vals = [v for c in b[0] for v in c[:2]] + list(b[1])
        for j2, v in zip(idx, vals):
            if not (0 <= j2 < len(s2)) or not (s2[j2] == v):
                return 'reported index %d does not address a sample holding %r in the original (NaN-containing) signal' % (j2, v), s2
    return None, s2


def check_series(kind, s):
    import pandas as pd
    base = run_impl(kind, [float(x) for x in s])
    n = len(s)
    idxs = {'int': pd.Index(range(100, 100 + n)), 'float': pd.Index([0.5 * i for i in range(n)]),
            'datetime': pd.date_range('2020-01-01', periods=n, freq='s'), 'string': pd.Index(['k%d' % i for i in range(n)])}
    import pylife.stress.rainflow as RF
    for name, ix in idxs.items():
        ser = pd.Series([float(x) for x in s], index=ix)
        rec = RF.FullRecorder()
        det = rf.detectors()[kind](recorder=rec)
        try:
            det.process(ser)
        except Exception as ex:
            return 'Series with %s index raises %s instead of being treated like its value array' % (name, type(ex).__name__)
        vf, vt = [float(v) for v in rec.values_from], [float(v) for v in rec.values_to]
        if kind == 'F':
            cyc = list(zip(vf, vt))
        else:
            cyc = list(zip(vf, vt, [int(i) for i in rec.index_from], [int(i) for i in rec.index_to]))
        o = (cyc, [float(v) for v in det.residuals], [int(i) for i in det.residual_index])
        if o != base:
            return 'Series with %s index is not treated like its value array' % name
    return None


def run(res):
    quick = res.tier == 'quick'
    rng = res.rng
    res.trusted += ['hand-written Gallina model coq/theories/Rainflow/Model.v tied by correspondence; relation harness']
    res.assumptions += ['model signals are integers; NaN handling and Series glue are decided on the implementation only']
    res.cov['rule'] = ('random integer signals (alphabets 3..19 values or wide, plateaus, monotone runs, repeated extremes), length 1..120; per signal: negation, '
                       'affine map a in {1,2,3,7} b in [-50,50], FKM scale, random refinement by non-reversal samples, NaN placement away from the ends (also chunked), '
                       '4 Series index types; non-trivial = signal with >= 3 reversals and >= 1 closed cycle (distinct signals counted)')
    common.standard_proof_stage(res, 'C03', extra_targets=['theories/Rainflow/NaN.vo'])

    # ---- tie: one-piece correspondence of the model
    n_corr = 400 if quick else 4000
    terms, meta = [], []
    for _ in range(n_corr):
        s = rf.random_signal(rng, 60)
        k = rng.choice(rf.KINDS)
        o = rf.impl_run(k, [s])
        terms.append(rf.case_term(k, [s], o))
        meta.append((k, s))
    bad, log = common.coq_compare('C03', rf.REQ, terms)
    res.oblige('correspondence model = implementation on %d one-piece runs' % len(terms), not bad,
               'disagreeing: %s\n%s' % ([meta[i] for i in bad[:5]], log[-1200:]))
    res.add_cases(len(terms), 0)

    # ---- tie of the NaN model: general.find_turns on signals with NaN samples vs find_turns_nan
    from pylife.stress.rainflow.general import find_turns
    nterms, nmeta = [], []
    for _ in range(300 if quick else 3000):
        s = rf.random_signal(rng, 40)
        o = [None if rng.random() < 0.15 else x for x in s]
        if all(x is None for x in o):
            continue
        with warnings.catch_warnings():
            warnings.simplefilter('ignore')
            idx, vals = find_turns(np.array([float('nan') if x is None else float(x) for x in o]))
        lit = '[' + '; '.join('None' if x is None else 'Some %s' % common.zlit(x) for x in o) + ']'
        exp = '[' + '; '.join('(%s, %s)' % (common.nlit(i), common.zlit(int(v))) for i, v in zip(idx, vals)) + ']'
        nterms.append('leqb (fun a b => Nat.eqb (fst a) (fst b) && Z.eqb (snd a) (snd b)) (find_turns_nan %s) %s' % (lit, exp))
        nmeta.append(o)
    nbad, nlog = common.coq_compare('C03nan', rf.REQ + ['From PL Require Import Rainflow.NaN.'], nterms)
    res.oblige('correspondence find_turns_nan model = general.find_turns on %d signals with NaNs' % len(nterms), not nbad,
               'disagreeing: %s\n%s' % ([nmeta[i] for i in nbad[:3]], nlog[-1200:]))
    res.add_cases(len(nterms), 0)

    # ---- the relations on the implementation
    n_rel = 2000 if quick else 15000
    nontriv = set()
    counts = {'negate': 0, 'affine': 0, 'fkm_scale': 0, 'refine': 0, 'nan': 0, 'series': 0}
    reported = set()

    def viol(what, **kw):
        if what not in reported:
            reported.add(what)
            res.violation(what, **kw)

    for j in range(n_rel):
        s = rf.random_signal(rng, 120 if j % 7 == 0 else 40)
        fl = [float(x) for x in s]
        for kind in rf.KINDS:
            base = run_impl(kind, fl)
            if rf.n_turns(s) >= 3 and len(base[0]) >= 1:
                nontriv.add(tuple(s))
            # negation
            neg = run_impl(kind, [-x for x in fl])
            counts['negate'] += 1
            if neg != mapvals(base, lambda v: -v, kind):
                viol('negating the signal does not negate all reported values / keep the indices', detector=kind, signal=s)
            if kind in '34':
                a, b = rng.choice([1, 2, 3, 7]), rng.randint(-50, 50)
                aff = run_impl(kind, [a * x + b for x in fl])
                counts['affine'] += 1
                if aff != mapvals(base, lambda v: a * v + b, kind):
                    viol('a positive affine map of the signal does not map all reported values the same way / keep the indices',
                         detector=kind, signal=s, a=a, b=b)
            else:
                a = rng.choice([2, 3, 7, 0.5])
                sc = run_impl(kind, [a * x for x in fl])
                counts['fkm_scale'] += 1
                if sc != mapvals(base, lambda v: a * v, kind):
                    viol('scaling the signal by a > 0 does not scale what the FKM detector reports', detector=kind, signal=s, a=a)
            # extreme positive scales (powers of two: exact): the result must scale with them too
            if j % 4 == 0:
                ax = rng.choice([2.0 ** -560, 2.0 ** 400])
                ext = run_impl(kind, [ax * x for x in fl])
                counts['extreme_scale'] = counts.get('extreme_scale', 0) + 1
                if ext != mapvals(base, lambda v: ax * v, kind):
                    viol('scaling the signal by a positive factor (%.3g) does not scale all reported values / keep the indices' % ax,
                         detector=kind, signal=s, a=ax)
            if len(s) >= 2:
                s2, phi = refine(rng, s)
                counts['refine'] += 1
                w = check_refinement(kind, fl, [float(x) for x in s2], phi)
                if w:
                    viol(w, detector=kind, signal=s, refined=s2)
            if j % 2 == 0:
                w, s2 = check_nan(kind, s, rng)
                counts['nan'] += 1
                if w:
                    viol(w, detector=kind, signal=[None if isinstance(x, float) and math.isnan(x) else x for x in (s2 or [])])
            if j % 10 == 0 and len(s) >= 2:
                counts['series'] += 1
                w = check_series(kind, s)
                if w:
                    viol(w, detector=kind, signal=s)
    res.add_cases(sum(counts.values()), nontrivial=len(nontriv))
    res.cov['relation_evaluations'] = counts
    res.sample({'signal': s, 'refined': s2 if len(s) >= 2 else None})
    res.sample({'correspondence_case': meta[0]})


def replay(res, rp):
    run(res)
    return res.finish()
