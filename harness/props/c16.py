"""C16 -- closed-form material laws (Ramberg-Osgood, Hooke, true stress/strain).

Tie: translator (py2coq) + interval certificates; Newton inversion by residual certificate;
implementation-only relations (round trips in floats, scalar vs array) double as the failing-input search."""
import math

import numpy as np

import cert
import common
import gen_specs

MANIFEST = dict(
    text='Theorems (props/C16.v, 25) about Coq definitions over R that py2coq regenerates from rambgood.py, hookeslaw.py and '
         'true_stress_strain.py on every run: Ramberg-Osgood strain odd / strictly increasing / bijective (exact inverse exists and is unique), '
         'residual-to-root bound, compliance = derivative (Coquelicot is_derive), modulus reciprocal, Masing doubling, lower branch meets curve; '
         'Hooke 1D/2D/3D round trips, plane strain/stress = 3D at zero out-of-plane strain/stress, G and K; true stress/strain inverses. '
         'A changed formula breaks a proof; per-run interval certificates (kernel-checked, CoqInterval) tie the generated model to the '
         'implementation\'s float outputs, Newton inversion by residual certificate.',
    note=common.TB_NOTE + 'py2coq translator and its whitelist; CoqInterval; float rounding and scipy.optimize.newton are outside the theorems '
                          '(solver output certified per sample); strains restricted to <= 8 % (beyond, scipy Newton may not converge in 50 iterations).',
    technique='Coq proof over py2coq-generated real-valued model + CoqInterval certificates',
    design='6/C16')

GEN = ['GenHooke', 'GenRambgood', 'GenTrueStressStrain']
REQ = ['From PLgen Require Import GenHooke GenRambgood GenTrueStressStrain.']
UNFOLD = ['ro_lower_hysteresis', 'ro_delta_strain', 'ro_tangential_modulus', 'ro_tangential_compliance', 'ro_strain',
          'ro_elastic_strain', 'ro_plastic_strain', 'h1_stress', 'h1_strain', 'h2s_strain', 'h2s_stress',
          'h2e_strain', 'h2e_stress', 'h2e_super_strain', 'h2e_super_stress', 'h3_strain', 'h3_stress', 'hc_G', 'hc_K',
          'tss_true_strain', 'tss_true_stress', 'tss_true_fracture_strain', 'tss_true_fracture_stress']



def tech_strain_sample(rng):
    """technical strains over their practical magnitudes: half of the samples log-uniform in 1e-7 .. 1 (either sign, compression down to
    -0.5), half uniform in (-0.5, 2): small strains are the common case and a uniform draw would reach |e| < 1e-3 once in a thousand"""
    if rng.random() < 0.5:
        e = rng.choice([-1.0, 1.0]) * 10 ** rng.uniform(-7, 0)
        return max(e, -0.5)
    return rng.uniform(-0.5, 2.0)

def materials(rng, k):
    out = []
    for _ in range(k):
        E = rng.choice([70e3, 110e3, 200e3, 206e3, 210e3]) * rng.uniform(0.9, 1.1)
        K = rng.uniform(300., 3000.)
        n = rng.uniform(0.1, 0.45)
        out.append((E, K, n))
    return out


def smax_for(E, K, n, cap=0.08):
    """Largest stress whose total strain stays <= cap (the physically meaningful range; beyond it
    scipy's Newton iteration from x0 = E*strain may need more than its 50 iterations)."""
    lo, hi = 0.0, 10.0 * K
    for _ in range(80):
        mid = 0.5 * (lo + hi)
        if mid / E + (mid / K) ** (1.0 / n) <= cap:
            lo = mid
        else:
            hi = mid
    return lo


def close(a, b, rtol=1e-9, atol=1e-12):
    a, b = np.asarray(a, float), np.asarray(b, float)
    return bool(np.all(np.abs(a - b) <= atol + rtol * np.maximum(np.abs(a), np.abs(b))))


def impl_relations(res, rng, n_mat, n_pts):
    """The property's own relations, evaluated on the implementation in floats.
    Returns the number of evaluations; violations are recorded on res."""
    from pylife.materiallaws import RambergOsgood
    from pylife.materiallaws import hookeslaw as hl
    from pylife.materiallaws import true_stress_strain as tss
    cnt = 0

    def bad(what, **kw):
        res.violation(what, **kw)

    for (E, K, n) in materials(rng, n_mat):
        ro = RambergOsgood(E, K, n)
        smax = smax_for(E, K, n)
        s = np.array(sorted(rng.uniform(-smax, smax) for _ in range(n_pts)))
        s = s[np.abs(s) > 1e-3]
        eps = ro.strain(s)
        cnt += len(s)
        # oddness, strict monotonicity
        if not close(ro.strain(-s), -eps, 1e-13):
            bad('ro.strain not odd', E=E, K=K, n=n, stress=s.tolist())
        if not np.all(np.diff(eps) > 0):
            bad('ro.strain not strictly increasing', E=E, K=K, n=n, stress=s.tolist(), strain=eps.tolist())
        # stress(strain(s)) = s within the solver tolerance; strain(stress(e)) = e
        back = ro.stress(eps)
        tol = 2 * (1e-6 + 1e-5 * np.abs(s))
        if not np.all(np.abs(back - s) <= tol):
            i = int(np.argmax(np.abs(back - s) - tol))
            bad('ro.stress(ro.strain(s)) != s', E=E, K=K, n=n, stress=float(s[i]), returned=float(back[i]))
        e2 = ro.strain(back)
        if not np.all(np.abs(e2 - eps) <= ro.tangential_compliance(s) * tol):
            bad('ro.strain(ro.stress(e)) != e', E=E, K=K, n=n, strain=eps.tolist())
        # compliance = derivative (central difference), modulus = reciprocal
        h = 1e-4
        num = (ro.strain(s + h) - ro.strain(s - h)) / (2 * h)
        comp = ro.tangential_compliance(s)
        mask = np.abs(s) > 10 * h
        if not close(num[mask], comp[mask], 1e-5):
            i = int(np.argmax(np.abs(num - comp) * mask))
            bad('tangential_compliance is not d strain/d stress', E=E, K=K, n=n, stress=float(s[i]),
                finite_difference=float(num[i]), compliance=float(comp[i]))
        if not close(ro.tangential_modulus(s) * comp, np.ones_like(s), 1e-13):
            bad('tangential_modulus is not the reciprocal of the compliance', E=E, K=K, n=n, stress=s.tolist())
        # Masing doubling and its inverse
        ds = np.abs(s) * 1.7 + 1.0
        if not close(ro.delta_strain(ds), 2 * ro.strain(ds / 2.0), 1e-14):
            bad('delta_strain is not the doubled curve', E=E, K=K, n=n, delta_stress=ds.tolist())
        dback = ro.delta_stress(ro.delta_strain(ds))
        if not np.all(np.abs(dback - ds) <= 2 * tol + 1e-5 * ds):
            bad('delta_stress(delta_strain(d)) != d', E=E, K=K, n=n, delta_stress=ds.tolist(), returned=dback.tolist())
        # lower hysteresis meets the curve at the reversal point
        sm = float(abs(s[-1]) + 1.0)
        try:
            meets = close(ro.lower_hysteresis(sm, sm), ro.strain(sm), 1e-14) and \
                close(ro.lower_hysteresis(np.array([-sm, 0.5 * sm, sm]), sm)[-1], ro.strain(sm), 1e-14)
        except Exception as ex:
            meets = False
            bad('lower_hysteresis raises at the reversal point (stress == max_stress)', E=E, K=K, n=n, max_stress=sm, error=repr(ex))
        if not meets:
            bad('lower_hysteresis(max, max) != strain(max)', E=E, K=K, n=n, max_stress=sm)
        # scalar vs array
        for i in (0, len(s) // 2, len(s) - 1):
            if float(ro.strain(float(s[i]))) != float(eps[i]) or \
               float(ro.tangential_compliance(float(s[i]))) != float(comp[i]):
                bad('scalar and array evaluation differ', E=E, K=K, n=n, stress=float(s[i]))
            sc = float(ro.stress(float(eps[i])))
            if abs(sc - back[i]) > 1e-9 * max(1.0, abs(sc)):
                bad('scalar and array ro.stress differ', E=E, K=K, n=n, strain=float(eps[i]), scalar=sc, array=float(back[i]))
    # Hooke
    for _ in range(n_mat):
        E = rng.uniform(50e3, 250e3)
        nu = rng.uniform(-0.9, 0.49)
        v = [rng.uniform(-1e-2, 1e-2) for _ in range(6)]
        cnt += 1
        h1 = hl.HookesLaw1d(E)
        if not close(h1.strain(h1.stress(v[0])), v[0], 1e-13):
            bad('HookesLaw1d round trip', E=E, strain=v[0])
        h2 = hl.HookesLaw2dPlaneStress(E, nu)
        s11, s22, s12 = h2.stress(v[0], v[1], v[3])
        e11, e22, e33, g12 = h2.strain(s11, s22, s12)
        if not close([e11, e22, g12], [v[0], v[1], v[3]], 1e-10, 1e-16):
            bad('plane stress round trip', E=E, nu=nu, strain=v[:2] + [v[3]])
        h3 = hl.HookesLaw3d(E, nu)
        f = h3.strain(s11, s22, 0.0, s12, 0.0, 0.0)
        if not close(f[:4], [e11, e22, e33, g12], 1e-10, 1e-16):
            bad('plane stress != 3D law at zero out-of-plane stress', E=E, nu=nu, stress=[float(s11), float(s22), float(s12)])
        hp = hl.HookesLaw2dPlaneStrain(E, nu)
        t11, t22, t33, t12 = hp.stress(v[0], v[1], v[3])
        u = h3.stress(v[0], v[1], 0.0, v[3], 0.0, 0.0)
        if not close(u[:4], [t11, t22, t33, t12], 1e-9, 1e-12):
            bad('plane strain != 3D law at zero out-of-plane strain', E=E, nu=nu, strain=v[:2] + [v[3]])
        b = hp.strain(t11, t22, t12)
        if not close(b, [v[0], v[1], v[3]], 1e-9, 1e-16):
            bad('plane strain round trip', E=E, nu=nu, strain=v[:2] + [v[3]])
        s6 = h3.stress(*v)
        if not close(h3.strain(*s6), v, 1e-9, 1e-16):
            bad('3D round trip', E=E, nu=nu, strain=v)
        if not close(h3.G, E / (2 * (1 + nu)), 1e-14) or not close(h3.K, E / (3 * (1 - 2 * nu)), 1e-14):
            bad('G/K do not follow from E and nu', E=E, nu=nu, G=float(h3.G), K=float(h3.K))
        # true stress/strain
        e = tech_strain_sample(rng)
        sg = rng.uniform(-1e3, 1e3)
        if not close(math.expm1(tss.true_strain(e)), e, 1e-12, 1e-15):
            bad('true_strain is not ln(1+e)', tech_strain=e)
        if not close(tss.true_stress(sg, e) / (1 + e), sg, 1e-13):
            bad('true_stress is not s(1+e)', tech_stress=sg, tech_strain=e)
        Z = rng.uniform(0.01, 0.95)
        if not close(1 - math.exp(-tss.true_fracture_strain(Z)), Z, 1e-12):
            bad('true_fracture_strain is not ln(1/(1-Z))', Z=Z)
        if not close(tss.true_fracture_stress(sg, 3.0, Z) * 3.0 * (1 - Z), sg, 1e-13):
            bad('true_fracture_stress is not F/(A(1-Z))', F=sg, A=3.0, Z=Z)
    return cnt


def certificates(res, rng, n_mat, n_pts):
    """Certificate goals for the generated model against implementation outputs."""
    from pylife.materiallaws import RambergOsgood
    from pylife.materiallaws import hookeslaw as hl
    from pylife.materiallaws import true_stress_strain as tss
    goals, descr = [], []

    def add(g, d):
        goals.append(g)
        descr.append(d)

    A = cert.app
    for (E, K, n) in materials(rng, n_mat):
        ro = RambergOsgood(E, K, n)
        for _ in range(n_pts):
            s = rng.choice([-1, 1]) * rng.uniform(1.0, smax_for(E, K, n))
            add(cert.near(A('ro_strain', E, K, n, s), float(ro.strain(s))), ('ro.strain', E, K, n, s))
            add(cert.near(A('ro_tangential_compliance', E, K, n, s), float(ro.tangential_compliance(s))), ('ro.tangential_compliance', E, K, n, s))
            add(cert.near(A('ro_tangential_modulus', E, K, n, s), float(ro.tangential_modulus(s))), ('ro.tangential_modulus', E, K, n, s))
            d = rng.uniform(1.0, 2 * smax_for(E, K, n))
            add(cert.near(A('ro_delta_strain', E, K, n, d), float(ro.delta_strain(d))), ('ro.delta_strain', E, K, n, d))
            sm = abs(s) + rng.uniform(0.5, 100.)
            add(cert.near(A('ro_lower_hysteresis', E, K, n, s, sm), float(ro.lower_hysteresis(s, sm))), ('ro.lower_hysteresis', E, K, n, s, sm))
            # Newton inversion: residual certificate  |strain(stress_hat) - e| <= compliance * 2 (tol + rtol |s|)
            e = float(ro.strain(s))
            sh = float(ro.stress(e))
            delta = float(ro.tangential_compliance(s)) * 2 * (1e-6 + 1e-5 * abs(s))
            add('Rabs (%s - %s) <= %s' % (A('ro_strain', E, K, n, sh), common.rlit(e), cert.tol_lit(delta)),
                ('ro.stress residual', E, K, n, e, sh))
    for _ in range(n_mat):
        E = rng.uniform(50e3, 250e3)
        nu = rng.uniform(-0.9, 0.49)
        v = [rng.uniform(-1e-2, 1e-2) for _ in range(6)]
        w = [rng.uniform(-500, 500) for _ in range(6)]
        h1 = hl.HookesLaw1d(E)
        add(cert.near(A('h1_stress', E, v[0]), float(h1.stress(v[0]))), ('h1.stress', E, v[0]))
        add(cert.near(A('h1_strain', E, w[0]), float(h1.strain(w[0]))), ('h1.strain', E, w[0]))
        h2 = hl.HookesLaw2dPlaneStress(E, nu)
        add(cert.near_tuple(A('h2s_stress', E, nu, v[0], v[1], v[3]), [float(x) for x in h2.stress(v[0], v[1], v[3])]), ('h2s.stress', E, nu, v))
        add(cert.near_tuple(A('h2s_strain', E, nu, w[0], w[1], w[3]), [float(x) for x in h2.strain(w[0], w[1], w[3])], atol=1e-16), ('h2s.strain', E, nu, w))
        hp = hl.HookesLaw2dPlaneStrain(E, nu)
        add(cert.near_tuple(A('h2e_stress', E, nu, v[0], v[1], v[3]), [float(x) for x in hp.stress(v[0], v[1], v[3])]), ('h2e.stress', E, nu, v))
        add(cert.near_tuple(A('h2e_strain', E, nu, w[0], w[1], w[3]), [float(x) for x in hp.strain(w[0], w[1], w[3])], atol=1e-16), ('h2e.strain', E, nu, w))
        h3 = hl.HookesLaw3d(E, nu)
        add(cert.near_tuple(A('h3_stress', E, nu, *v), [float(x) for x in h3.stress(*v)]), ('h3.stress', E, nu, v))
        add(cert.near_tuple(A('h3_strain', E, nu, *w), [float(x) for x in h3.strain(*w)], atol=1e-16), ('h3.strain', E, nu, w))
        add(cert.near(A('hc_G', E, nu), float(h3.G)), ('G', E, nu))
        add(cert.near(A('hc_K', E, nu), float(h3.K)), ('K', E, nu))
        e = tech_strain_sample(rng)
        sg = rng.uniform(-1e3, 1e3)
        Z = rng.uniform(0.01, 0.95)
        add(cert.near(A('tss_true_strain', e), float(tss.true_strain(e))), ('true_strain', e))
        add(cert.near(A('tss_true_stress', sg, e), float(tss.true_stress(sg, e))), ('true_stress', sg, e))
        add(cert.near(A('tss_true_fracture_strain', Z), float(tss.true_fracture_strain(Z))), ('true_fracture_strain', Z))
        add(cert.near(A('tss_true_fracture_stress', sg, 3.0, Z), float(tss.true_fracture_stress(sg, 3.0, Z))), ('true_fracture_stress', sg, 3.0, Z))
    return goals, descr


def run(res):
    quick = res.tier == 'quick'
    res.trusted += ['py2coq translator + whitelist gen_specs.SPECS (GenHooke, GenRambgood, GenTrueStressStrain)',
                    'CoqInterval (interval tactic) for the per-run certificates; float->exact rational conversion',
                    'axioms: ClassicalDedekindReals.sig_forall_dec, sig_not_dec, functional_extensionality_dep (Coq Reals), Classical_Prop.classic (Coquelicot)']
    res.assumptions += ['floating-point rounding of numpy is outside the theorems: certificates compare at 1e-9 relative',
                        'scipy.optimize.newton is not modelled: its output is certified per sample by its residual']
    res.cov['rule'] = ('materials E in 63e3..231e3, K 300..3000, n 0.1..0.45, stresses of both signs with total strain up to 8 %; Hooke nu in (-0.9, 0.49); '
                       'non-trivial = certificate goal whose input has non-zero plastic strain or non-zero Poisson coupling (all generated ones), counted distinct by input tuple')
    proofs_ok = common.standard_proof_stage(res, 'C16', extra_targets=['theories/Common/Cert.vo'], gen_fn=lambda: gen_specs.generate(GEN))
    n_mat, n_pts = (6, 3) if quick else (60, 6)
    # D1: certificates (only meaningful if the generated model compiles)
    if proofs_ok or any('gen/' in str(b) for b in res.broken) is False:
        try:
            goals, descr = certificates(res, res.rng, n_mat, n_pts)
            ok, bad, log = cert.run_certs('C16', REQ, UNFOLD, goals)
            for i in range(len(goals)):
                res.oblige('certificate %s' % (descr[i],), i in set(ok), log if i in set(bad) else '')
            res.add_cases(len(goals), nontrivial=len({repr(d) for d in descr}))
            for d in descr[:4]:
                res.sample({'certificate': d})
            res.cov['certificate_goals'] = len(goals)
            res.cov['certificate_failed_inputs'] = [descr[i] for i in bad][:20]
        except Exception as e:
            res.oblige('certificates could be generated and run', False, repr(e))
    # D2 / search: the relations themselves on the implementation
    k = impl_relations(res, res.rng, 4 * n_mat, 40)
    res.add_cases(k, nontrivial=0)
    res.cov['impl_relation_evaluations'] = k


def replay(res, rp):
    print(rp)
    run(res)
    return res.finish()
