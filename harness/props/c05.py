"""C05 -- HCM stress/strain bookkeeping matches an independent implementation of the FKM-nonlinear HCM procedure.

The independent implementation is the Gallina model coq/theories/HCM/Model.v (generic in the value type and the law).
Tie = the property's main clause: every column of every recorded hysteresis, strain_values and the first-run count of the real
FKMNonlinearDetector/FKMNonlinearRecorder are compared with the model evaluated by vm_compute,
 (a) exactly, with an injected integer-valued odd law (single point),
 (c) exactly, for 2-4 assessment points with proportional integer loads,
 (b) to 1e-12, with the real Binned(ExtendedNeuber) / Binned(SeegerBeste): the law's outputs are recorded per load and the model
     runs with these tables ("evaluated with the same law").
Relations evaluated on the implementation alone on every run: mirror symmetry, multi-point = single point."""
import time

import common
import hcm

WHAT_ROWS = 'recorded hysteresis values differ from the independent HCM implementation'
WHAT_RAISE = 'detector / recorder raises on a valid input'
WHAT_MIRROR = 'negating the loads does not mirror the recorded stresses and strains'
WHAT_MULTI = 'a point assessed together with others gets values different from its single-point run'

MANIFEST = dict(
    text='Theorems (props/C05.v) about a hand-written Gallina model of the complete FKMNonlinearDetector + FKMNonlinearRecorder, generic in '
         'the value type and in the notch approximation law (primary branch, Masing secondary branches, Memory 1-3, running strain extremes, '
         'derived columns): trace_simulation (unbounded: a map of the values commuting with the law and a non-zero scaling of the loads maps the '
         'run to the run -- the control flow depends on loads only through scale-invariant comparisons); full_load_columns (loads/flags/pass '
         'numbers = the C04 load model, every law); mirror / mirror_noLF / mirror_strain_values (odd law: negated loads mirror every row, min/max '
         'swapped; the *_LF columns under the proviso that no processed load equals previous_load, mirror_lf_refuted shows the proviso is needed); '
         'multipoint_is_pointwise (every point of a proportional multi-point run gets the rows of its single-point run, under the stated hypothesis '
         'that the point orders the compared stresses/strains like point 0); derived_columns (S_a, S_m, eps_a, eps_m, R, Memory-3 overrides); '
         'lf_extremes_bracket_refuted (the running extremes do not bracket the hysteresis strains in general, even for the strictly monotone '
         'injected law). The universally quantified part proved is structural; that the model IS the code (all columns, point by point) is '
         'translation-validation style correspondence on every run, exact for an injected integer law (1-4 points) and to 1e-12 for the real '
         'binned laws through recorded look-up tables.',
    note=common.TB_NOTE + 'all C05 theorems are closed under the global context (no axioms). The model is hand-written: the correspondence harness, '
         'the injected law object, the recording proxy around the real laws are trusted; loads are integers in the model; the real laws enter '
         'only as the tables of the values they returned during the run (their correctness is C06/C07).',
    technique='Coq proof (simulation / homomorphism theorems by induction, refutations by vm_compute) over hand-written Gallina model '
              '+ vm_compute correspondence (exact / 1e-12) + mirror and batch relations on the implementation',
    design='6/C05')


def register_classes(res):
    res.classes['multi-point collective: flag broadcast fails when the first two rows share a load_step label'] = \
        lambda d: d.get('points', 1) >= 2 and 'could not be broadcast' in str(d.get('error', '')) and d.get('single_point_runs_ok') is True


def nested(rng):
    """Deep nesting / Memory-2 continuation after several inner loops: shrinking envelope, then a large closing load."""
    k = rng.randint(3, 9)
    top = rng.randint(k + 2, 30)
    s = [top, -top]
    a = top
    for _ in range(k):
        a = max(1, a - rng.randint(1, 3))
        s += [a, -a + rng.choice([0, 1])]
    s += [rng.choice([top, top - 1, -top, top + 2])]
    if rng.random() < 0.5:
        s = [-x for x in s]
    return s


def corpus_seqs():
    import json
    import os
    out, d = [], os.path.join(common.CORPUS, 'C05')
    if os.path.isdir(d):
        for f in sorted(os.listdir(d)):
            if f.endswith('.json'):
                try:
                    out.append([int(x) for x in json.load(open(os.path.join(d, f)))['sequence']])
                except Exception:
                    pass
    return out


def gen_single(rng, quick):
    seqs = corpus_seqs() + [[-2, 0, -1], [-1, 2, 2], [-16, -6, -10, -15, -1], [1, -3, 2, -1], [0, -2], [1, 0, 1], [3, -15, -15], [-1, -3, -3]]
    seqs += list(hcm.all_seqs(range(-2, 3), 3 if quick else (5 if common.NCPU >= 8 else 4)))
    for _ in range(450 if quick else (6000 if common.NCPU >= 8 else 2500)):
        s = hcm.random_seq(rng, 30 if rng.random() < 0.3 else 12)
        seqs.append(s)
        if rng.random() < 0.5:
            seqs.append(hcm.force_junction(rng, s))
        t = hcm.make_in_class(rng, s)
        if t is not None and rng.random() < 0.5:
            seqs.append(t)
    for _ in range(60 if quick else (800 if common.NCPU >= 8 else 300)):
        seqs.append(nested(rng))
    return seqs


def uniq(seqs):
    seen, out = set(), []
    for s in seqs:
        k = tuple(s)
        if k not in seen and len(set(s)) >= 2:
            seen.add(k)
            out.append(list(s))
    return out


def run(res):
    quick = res.tier == 'quick'
    rng = res.rng
    register_classes(res)
    res.trusted += ['hand-written Gallina model coq/theories/HCM/{Model,Full}.v = the independent implementation, evaluated by vm_compute',
                    'injected integer-valued odd law harness/hcm.py:IntLaw = HCM/Full.v isig/ieps/idsig/ideps (non-Masing on purpose)',
                    'recording proxy harness/hcm.py:RecordingLaw around Binned(ExtendedNeuber|SeegerBeste): the law is taken as the table of values it returned']
    res.assumptions += ['loads are integers (exact on doubles; the code\'s 1e-12 tolerances cannot matter on an integer grid)',
                        'multi-point load histories are proportional with positive ratios (the property\'s quantifier)',
                        'multi-point = single-point is claimed under the hypothesis of theorem multipoint_is_pointwise (every point orders the '
                        'compared stresses/strains like point 0); cases outside it are counted, not failed']
    res.cov['rule'] = ('single point: exhaustive {-2..2} up to a length bound + random (length 2..30, alphabets {-k..k}, plateaus, intermediate points, '
                       'forced junction configurations, in and outside the C04 class) + nested envelopes of depth 3..9 with a closing load (Memory 2 after '
                       'several inner loops); multi point: 2-4 points, integer ratios c_j/c_0 with c_0 in {1,2,3}; real laws: integer loads up to 600 MPa; '
                       'non-trivial = at least one closed hysteresis in pass 2 and at least one secondary-branch point (counted distinct by input)')
    common.standard_proof_stage(res, 'C05')

    res.cov.setdefault('timing_s', []).append(round(time.time() - res.t0, 1))
    # ---------------- (a) single point, injected integer law: every column exactly
    seqs = uniq(gen_single(rng, quick))
    # multi-point cases and the single-point runs of their points
    multi = []
    for _ in range(140 if quick else (1500 if common.NCPU >= 8 else 500)):
        base = hcm.random_seq(rng, 12) if rng.random() < 0.8 else nested(rng)
        c0 = rng.choice([1, 1, 2, 3])
        cs = [c0] + [rng.randint(1, 4) for _ in range(rng.randint(1, 3))]
        multi.append(([c0 * x for x in base], c0, cs, base))
    multi.append(([3, -15, -15], 3, [3, 1], [1, -5, -5]))
    pts = uniq([[c * x for x in base] for _, _, cs, base in multi for c in cs])
    known_single = {tuple(s) for s in seqs}
    seqs += [s for s in pts if tuple(s) not in known_single]

    outs = hcm.pmap(hcm._w_single, seqs)
    where = {tuple(s): i for i, s in enumerate(seqs)}
    terms, owner = [], []
    single_ok = {}
    nontriv = set()
    for i, (s, o) in enumerate(zip(seqs, outs)):
        if o[0] != 'ok':
            res.oblige('implementation runs on %s' % s, False, o[1])
            res.violation(WHAT_RAISE, sequence=s, points=1, error=o[1])
            continue
        rows, sv, nf, _ = o[1]
        try:
            terms.append(hcm.c05_term(s, rows, sv, nf))
        except ValueError:
            terms.append('false')
        owner.append(i)
        if any(r['run_index'] == 2 and r['is_closed_hysteresis'] for r in rows) and len(sv) > len(rows):
            nontriv.add(tuple(s))
    bad, log = common.coq_compare('C05a', hcm.REQ, terms, shard=200)
    badset = {owner[j] for j in bad}
    for i in range(len(seqs)):
        single_ok[tuple(seqs[i])] = outs[i][0] == 'ok' and i not in badset
    res.oblige('correspondence (a): model = implementation, single point, injected law, all columns + strain_values on %d sequences' % len(terms),
               not bad, 'disagreeing: %s\n%s' % ([seqs[owner[j]] for j in bad[:6]], log[-1000:]))
    for j in bad[:8]:
        s = shrink_single(seqs[owner[j]])
        res.violation(WHAT_ROWS, sequence=s, points=1, law='injected integer law', observed=hcm.impl_run(s)[0][:4])
    res.add_cases(len(seqs), nontrivial=len(nontriv))
    for s in seqs[8:11] + seqs[-2:]:
        res.sample({'sequence': s, 'points': 1})

    res.cov.setdefault('timing_s', []).append(round(time.time() - res.t0, 1))
    # ---------------- (c) several points: exact
    mouts = hcm.pmap(hcm._w_multi, [(s, [c / c0 for c in cs]) for s, c0, cs, _ in multi])
    mterms, mowner, n_order = [], [], 0
    for k, ((s, c0, cs, base), o) in enumerate(zip(multi, mouts)):
        singles_fine = all(single_ok.get(tuple(c * x for x in base), False) for c in cs)
        if o[0] != 'ok':
            res.violation(WHAT_RAISE, sequence=s, points=len(cs), ratios=[c / c0 for c in cs], error=o[1], single_point_runs_ok=singles_fine)
            continue
        per, sv, nf = o[1]
        try:
            mterms.append(hcm.c05_multi_term(s, c0, cs, per, sv, nf))
        except ValueError:
            mterms.append('false')
        mowner.append(k)
    mbad, mlog = common.coq_compare('C05c', hcm.REQ, mterms, shard=60)
    mbadset = {mowner[j] for j in mbad}
    res.oblige('correspondence (c): model = implementation, 2-4 assessment points, all columns of every point on %d runs' % len(mterms),
               not mbad, 'disagreeing: %s\n%s' % ([multi[mowner[j]][:3] for j in mbad[:4]], mlog[-1000:]))
    for j in mbad[:5]:
        s, c0, cs, _ = multi[mowner[j]]
        res.violation(WHAT_ROWS, sequence=s, points=len(cs), ratios=[c / c0 for c in cs], law='injected integer law')
    # relation on the implementation alone: point j of the batch = its single-point run
    for k, ((s, c0, cs, base), o) in enumerate(zip(multi, mouts)):
        if o[0] != 'ok':
            continue
        per = o[1][0]
        for j, c in enumerate(cs):
            sj = [c * x for x in base]
            oj = outs[where[tuple(sj)]] if tuple(sj) in where else None
            if oj is None or oj[0] != 'ok':
                continue
            if per[j] != oj[1][0]:
                if k not in mbadset and single_ok.get(tuple(sj)):
                    n_order += 1      # predicted by the model: the point orders compared values differently from point 0
                else:
                    res.violation(WHAT_MULTI, sequence=s, points=len(cs), ratios=[c / c0 for c in cs], point=j)
    res.add_cases(len(multi), nontrivial=sum(1 for k in range(len(multi)) if mouts[k][0] == 'ok'))
    res.cov['multi_point_runs'] = len(multi)
    res.cov['multi_vs_single_differences_predicted_by_model (order hypothesis of multipoint_is_pointwise not met)'] = n_order
    res.sample({'sequence': multi[0][0], 'ratios': [c / multi[0][1] for c in multi[0][2]]})

    res.cov.setdefault('timing_s', []).append(round(time.time() - res.t0, 1))
    # ---------------- mirror relation on the implementation alone (injected law)
    pick = [s for s in seqs if len(s) <= 25]
    rng.shuffle(pick)
    pick = pick[:250 if quick else (3000 if common.NCPU >= 8 else 1000)]
    for s, o in zip(pick, hcm.pmap(hcm._w_pair, pick)):
        if o[0] != 'ok':
            continue
        why = hcm.mirror_relation(s, o[1][0], o[1][1], exact=True)
        if why:
            res.violation(WHAT_MIRROR, sequence=s, points=1, law='injected integer law', detail=why)
    res.add_cases(len(pick), 0)
    res.cov['mirror_pairs'] = len(pick)

    res.cov.setdefault('timing_s', []).append(round(time.time() - res.t0, 1))
    # ---------------- (b) real binned laws: model with the recorded tables, 1e-12; mirror relation
    real = []
    for _ in range(90 if quick else (900 if common.NCPU >= 8 else 300)):
        s = hcm.random_seq(rng, 12) if rng.random() < 0.8 else nested(rng)
        m = max(abs(x) for x in s)
        f = rng.choice([1, 5, 20]) if m * 20 <= 600 else (5 if m * 5 <= 600 else 1)
        s = [x * f for x in s]
        if max(abs(x) for x in s) <= 600:
            real.append((s, rng.choice(['neuber', 'seegerbeste'])))
    routs = hcm.pmap(hcm._w_real, real, chunksize=2)
    rterms, rowner, n_exc = [], [], 0
    for k, ((s, kind), o) in enumerate(zip(real, routs)):
        if o[0] != 'ok':
            n_exc += 1
            res.notes.append('real law run raised on %s (%s): %s' % (s, kind, o[1][:200])) if n_exc <= 3 else None
            continue
        rows, sv, nf, tables = o[1]
        rterms.append(hcm.c05_real_term(s, rows, sv, nf, tables))
        rowner.append(k)
    rbad, rlog = common.coq_compare('C05b', hcm.REQ, rterms, shard=12)
    res.oblige('correspondence (b): model with the recorded law tables = implementation with Binned(ExtendedNeuber|SeegerBeste) to 1e-12 on %d runs' % len(rterms),
               not rbad, 'disagreeing: %s\n%s' % ([real[rowner[j]] for j in rbad[:4]], rlog[-1000:]))
    for j in rbad[:5]:
        s, kind = real[rowner[j]]
        res.violation(WHAT_ROWS, sequence=s, points=1, law='Binned(%s)' % kind)
    res.cov['real_law_runs'] = len(rterms)
    res.cov['real_law_runs_rejected_by_the_law'] = n_exc
    rp = real[:40 if quick else (400 if common.NCPU >= 8 else 120)]
    for (s, kind), o in zip(rp, hcm.pmap(hcm._w_real_pair, rp, chunksize=2)):
        if o[0] != 'ok':
            continue
        why = hcm.mirror_relation(s, o[1][0], o[1][1], exact=False)
        if why:
            res.violation(WHAT_MIRROR, sequence=s, points=1, law='Binned(%s)' % kind, detail=why)
    res.add_cases(len(real) + len(rp), nontrivial=len(rterms))
    if real:
        res.sample({'sequence': real[0][0], 'law': real[0][1]})

    res.cov.setdefault('timing_s', []).append(round(time.time() - res.t0, 1))
    # ---------------- E: known findings
    res.replay_known(still_fails)


def still_fails(e):
    w = e['witness']
    try:
        hcm.impl_run_multi(w['sequence'], w['ratios'])
    except Exception as ex:
        return 'could not be broadcast' in str(ex)
    return False


def shrink_single(s):
    def fails(t):
        if len(set(t)) < 2:
            return False
        try:
            rows, sv, nf, _ = hcm.impl_run(t)
            bad, _ = common.coq_compare('C05shrink', hcm.REQ, [hcm.c05_term(t, rows, sv, nf)])
            return bool(bad)
        except Exception:
            return True
    cur = list(s)
    for _ in range(8):
        if len(cur) <= 2:
            break
        for i in range(len(cur)):
            t = cur[:i] + cur[i + 1:]
            if fails(t):
                cur = t
                break
        else:
            break
    return cur


def replay(res, rp):
    register_classes(res)
    v = rp.get('violation', {})
    if 'sequence' not in v:
        run(res)
        return res.finish()
    s = [int(x) for x in v['sequence']]
    what, why = v.get('what'), None
    try:
        if v.get('points', 1) >= 2:
            ratios = v['ratios']
            per, sv, nf = hcm.impl_run_multi(s, ratios)
            c0 = 1
            while any(abs(r * c0 - round(r * c0)) > 1e-9 for r in ratios):
                c0 += 1
            cs = [int(round(r * c0)) for r in ratios]
            bad, _ = common.coq_compare('C05replay', hcm.REQ, [hcm.c05_multi_term(s, c0, cs, per, sv, nf)])
            why = 'multi-point rows differ from the model' if bad else None
        elif what == WHAT_MIRROR:
            if str(v.get('law', '')).startswith('Binned'):
                kind = 'neuber' if 'neuber' in v['law'] else 'seegerbeste'
                why = hcm.mirror_relation(s, hcm.impl_run_real(s, kind)[:3], hcm.impl_run_real([-x for x in s], kind)[:3], exact=False)
            else:
                why = hcm.mirror_relation(s, hcm.impl_run(s)[:3], hcm.impl_run([-x for x in s])[:3], exact=True)
        elif str(v.get('law', '')).startswith('Binned'):
            kind = 'neuber' if 'neuber' in v['law'] else 'seegerbeste'
            rows, sv, nf, tables = hcm.impl_run_real(s, kind)
            bad, _ = common.coq_compare('C05replay', hcm.REQ, [hcm.c05_real_term(s, rows, sv, nf, tables)])
            why = 'rows differ from the model run with the same law tables' if bad else None
        else:
            rows, sv, nf, _ = hcm.impl_run(s)
            bad, _ = common.coq_compare('C05replay', hcm.REQ, [hcm.c05_term(s, rows, sv, nf)])
            why = 'rows differ from the model' if bad else None
    except Exception as ex:
        why = 'raises %s: %s' % (type(ex).__name__, str(ex)[:200])
        v = dict(v, error=str(ex))
        what = WHAT_RAISE
    print('replay:', s, '->', why)
    new = True
    if why:
        new = res.violation(what or WHAT_ROWS, **{k: v[k] for k in v if k != 'what'})
        if not new:
            res.known.append('replayed input reproduces a known finding (%s)' % why)
    res.add_cases(1, 0)
    res.oblige('replayed input satisfies the property', not why or not new)
    return res.finish()
