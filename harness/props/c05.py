"""C05 -- HCM stress/strain bookkeeping matches an independent implementation of the FKM-nonlinear HCM procedure.

The independent implementation is the Gallina model coq/theories/HCM/Model.v (generic in the value type and the law).
Tie = the property's main clause: every column of every recorded hysteresis, strain_values and the first-run count of the real
FKMNonlinearDetector/FKMNonlinearRecorder are compared with the model evaluated by vm_compute,
 (a) exactly, with an injected integer-valued odd law (single point),
 (c) exactly, for 2-4 assessment points with proportional integer loads,
 (b) to 1e-12, with the real Binned(ExtendedNeuber) / Binned(SeegerBeste): the law's outputs are recorded per load and the model
     runs with these tables ("evaluated with the same law").
Relations evaluated on the implementation alone on every run: mirror symmetry, multi-point = single point.

Strengthening after the seeded changes (see notes/build/C05.md):
 (c) runs with load_step label layouts that are unique but not ascending (the row order defines the sequence);
 (e) the history fed in chunks through process(chunk, flush): model HCM/Chunks.v (zcobs / mcobs), single and multi point;
 (f) batch = single with the real Binned(ExtendedNeuber) law, power-of-two ratios (identical class look-up), loads up to the plastic range;
 the recorder variant of the tree (first-node / per-point min-max selection, HCM/Select.v) is decided per run by replaying the
 witnesses of the two findings C05-hcm-minmax-strain-first-node / C05-hysteresis-minmax-first-node."""
import time

import common
import hcm

WHAT_ROWS = 'recorded hysteresis values differ from the independent HCM implementation'
WHAT_RAISE = 'detector / recorder raises on a valid input'
WHAT_MIRROR = 'negating the loads does not mirror the recorded stresses and strains'
WHAT_MULTI = 'a point assessed together with others gets values different from its single-point run'
CLS_FLAGS = 'multi-point collective: flag broadcast fails when the first two rows share a load_step label'
CLS_LF = 'multi-point: running strain extremes of all points follow the strain ordering of the first point'
CLS_SWAP = 'multi-point: min/max stress and strain of a closed hysteresis are ordered by the first point'
KF_LF = {'sequence': [1100, -800], 'ratios': [4, 1], 'law': 'Binned(neuber)', 'relation': 'real-batch', 'point': 1}
KF_SWAP = {'sequence': [260, -220, 110], 'ratios': [1, 4], 'law': 'Binned(neuber)', 'relation': 'real-batch', 'point': 1}
RTOL_REAL = 1e-9

MANIFEST = dict(
    text='Theorems (props/C05.v) about a hand-written Gallina model of the complete FKMNonlinearDetector + FKMNonlinearRecorder, generic in '
         'the value type and in the notch approximation law (primary branch, Masing secondary branches, Memory 1-3, running strain extremes, '
         'derived columns): trace_simulation (unbounded: a map of the values commuting with the law and a non-zero scaling of the loads maps the '
         'run to the run -- the control flow depends on loads only through scale-invariant comparisons); full_load_columns (loads/flags/pass '
         'numbers = the C04 load model, every law); mirror / mirror_noLF / mirror_strain_values (odd law: negated loads mirror every row, min/max '
         'swapped; the *_LF columns under the proviso that no processed load equals previous_load, mirror_lf_refuted shows the proviso is needed); '
         'multipoint_is_pointwise (every point of a proportional multi-point run gets the rows of its single-point run, under the stated hypothesis '
         'that the point orders the compared stresses/strains like point 0; multipoint_first_node_refuted: the hypothesis is needed for the code as it is); '
         'recorder variants HCM/Select.v (min/max of a closed hysteresis and running strain extremes selected at the first point = the code as it is, '
         'variant_ff_is_the_code, or for every point separately = the proposed repairs): multipoint_is_pointwise_variants (only what a variant still '
         'compares at point 0 has to be ordered alike) and multipoint_is_pointwise_repaired (both selections per point: NO hypothesis, the property\'s '
         'second sentence at full strength); chunked_multipoint_is_pointwise_variants / _repaired: the same for a history fed in chunks through '
         'process(chunk, flush) (HCM/Chunks.v, simulation theorem chunk-wise); derived_columns (S_a, S_m, eps_a, eps_m, R, Memory-3 overrides); '
         'lf_extremes_bracket_refuted (the running extremes do not bracket the hysteresis strains in general, even for the strictly monotone '
         'injected law). The universally quantified part proved is structural; that the model IS the code (all columns, point by point) is '
         'translation-validation style correspondence on every run, exact for an injected integer law (1-4 points) and to 1e-12 for the real '
         'binned laws through recorded look-up tables.',
    note=common.TB_NOTE + 'all C05 theorems are closed under the global context (no axioms). The model is hand-written: the correspondence harness, '
         'the injected law object, the recording proxy around the real laws are trusted; loads are integers in the model; the real laws enter '
         'only as the tables of the values they returned during the run (their correctness is C06/C07).',
    technique='Coq proof (simulation / homomorphism theorems by induction, refutations by vm_compute) over hand-written Gallina model '
              '+ vm_compute correspondence (exact / 1e-12) + mirror and batch relations on the implementation',
    design='6/C05')


def register_classes(res):
    res.classes[CLS_FLAGS] = \
        lambda d: d.get('points', 1) >= 2 and 'could not be broadcast' in str(d.get('error', '')) and d.get('single_point_runs_ok') is True
    # the two first-node findings: ONLY the running extremes differ, each batch value is 0 or one of the point's own visited strains and
    # less extreme than the single-point value / ONLY min and max of stress and/or strain of closed rows are exchanged (hcm.explain_batch_diff)
    res.classes[CLS_LF] = lambda d: d.get('points', 1) >= 2 and d.get('explained') == 'lf' and \
        set(d.get('differing_columns', ['?'])) <= {'epsilon_min_LF', 'epsilon_max_LF'} and d.get('variant_first_node_lf') is True
    res.classes[CLS_SWAP] = lambda d: d.get('points', 1) >= 2 and d.get('explained') == 'swap' and \
        set(d.get('differing_columns', ['?'])) <= hcm.SWAP_GROUP and d.get('variant_first_node_hysteresis') is True


def real_batch_check(s, ratios, kind='neuber', out=None):
    """batch = single for every point, real binned law.  Returns a list of (point, kind or None, columns) for every point whose rows differ:
    kind in {'lf', 'swap'} when the difference is fully accounted for by that first-node selection (one entry per kind), None otherwise;
    plus ('strain_values', None, []) when detector.strain_values (point 0) differ."""
    (per, sv, nf), alone = out if out is not None else (hcm.impl_run_real_batch(s, ratios, kind), [hcm.impl_run_real_alone(s, r, kind) for r in ratios])
    bad = []
    for j in range(len(ratios)):
        d = hcm.rows_diff(per[j], alone[j][0], RTOL_REAL)
        if d is None:
            bad.append((j, None, ['number of rows']))
        elif d:
            kinds = hcm.explain_batch_diff(per[j], alone[j][0], alone[j][1], d, RTOL_REAL)
            if not kinds:
                bad.append((j, None, sorted({k for _, k in d})))
            for kd in sorted(kinds):
                grp = hcm.LF_GROUP if kd == 'lf' else hcm.SWAP_GROUP
                bad.append((j, kd, sorted({k for _, k in d if k in grp})))
    sE = max([abs(x) for x in alone[0][1]] + [1e-300])
    if len(sv) != len(alone[0][1]) or nf != alone[0][2] or any(abs(a - b) > RTOL_REAL * sE for a, b in zip(sv, alone[0][1])):
        bad.append((0, None, ['strain_values']))
    return bad


def detect_variant(res):
    """Which recorder variant does the tree implement?  Decided by replaying the witnesses of the two findings (entries of
    known_findings.jsonl if present, else the built-in ones): (pwc, pwl) = (hysteresis corners per point, running extremes per point)."""
    wl, ws = dict(KF_LF), dict(KF_SWAP)
    for e in common.known_findings('C05'):
        if e.get('id') == 'C05-hcm-minmax-strain-first-node':
            wl = e['witness']
        if e.get('id') == 'C05-hysteresis-minmax-first-node':
            ws = e['witness']
    lf = any(k == 'lf' for _, k, _ in real_batch_check(wl['sequence'], wl['ratios']))
    sw = any(k == 'swap' for _, k, _ in real_batch_check(ws['sequence'], ws['ratios']))
    res.cov['recorder_variant'] = 'running extremes: %s; corners of a closed hysteresis: %s' % (
        'first point decides (finding reproduces)' if lf else 'per point (repaired)', 'first point decides (finding reproduces)' if sw else 'per point (repaired)')
    return (not sw), (not lf)


def gen_chunks(rng):
    """A load history cut into 2-4 chunks for process(chunk, flush); intermediate flushes are rare, the last chunk is mostly flushed."""
    while True:
        s = hcm.random_seq(rng, 16) if rng.random() < 0.8 else hcm.random_seq(rng, 30)
        if len(s) >= 4:
            break
    cuts = sorted(rng.sample(range(1, len(s)), min(rng.randint(1, 3), len(s) - 1)))
    chunks = [s[a:b] for a, b in zip([0] + cuts, cuts + [len(s)])]
    flushes = [rng.random() < 0.15 for _ in chunks[:-1]] + [rng.random() < 0.85]
    return chunks, flushes


def gen_real_batch(rng):
    r = rng.random()
    if r < 0.35:
        s = hcm.random_seq(rng, 12)
    elif r < 0.5:
        s = nested(rng)
    else:       # short sequences with a junction between the passes (C04 classes): degenerate / tiny pass-2 hystereses
        s = hcm.force_junction(rng, hcm.random_seq(rng, 6))
    m = max(abs(x) for x in s)
    # ratios are powers of two: c * x and the class limits (k / bins) * (c * max) are exact multiples, the class look-up of every point
    # alone equals the look-up at the reference point of the batch (class-edge rounding is C07 / C10, not this property)
    ratios = [rng.choice([0.25, 0.5, 1, 1, 2, 4, 8]) for _ in range(rng.randint(2, 4))]
    # the most loaded point reaches 300 .. 2500 MPa (elastic up to fully plastic), the others a fraction of it
    f = max(1, int(rng.uniform(300, 2500) / (m * max(ratios))))
    return [x * f for x in s], ratios


def nested(rng):
    """Deep nesting / Memory-2 continuation after several inner loops: shrinking envelope, then a large closing load."""
    k = rng.randint(3, 9)
    top = rng.randint(k + 2, 30)
    s = [top, -top]
    a = top
    for _ in range(k):
        a = max(1, a - rng.randint(1, 3))
        s += [a, -a + rng.choice([0, 1])]
    s += [rng.choice([top, top - 1, -top, top + 2])]
    if rng.random() < 0.5:
        s = [-x for x in s]
    return s


def corpus_seqs():
    import json
    import os
    out, d = [], os.path.join(common.CORPUS, 'C05')
    if os.path.isdir(d):
        for f in sorted(os.listdir(d)):
            if f.endswith('.json'):
                try:
                    out.append([int(x) for x in json.load(open(os.path.join(d, f)))['sequence']])
                except Exception:
                    pass
    return out


def gen_single(rng, quick):
    seqs = corpus_seqs() + [[-2, 0, -1], [-1, 2, 2], [-16, -6, -10, -15, -1], [1, -3, 2, -1], [0, -2], [1, 0, 1], [3, -15, -15], [-1, -3, -3]]
    seqs += list(hcm.all_seqs(range(-2, 3), 3 if quick else (5 if common.NCPU >= 8 else 4)))
    for _ in range(450 if quick else (6000 if common.NCPU >= 8 else 2500)):
        s = hcm.random_seq(rng, 30 if rng.random() < 0.3 else 12)
        seqs.append(s)
        if rng.random() < 0.5:
            seqs.append(hcm.force_junction(rng, s))
        t = hcm.make_in_class(rng, s)
        if t is not None and rng.random() < 0.5:
            seqs.append(t)
    for _ in range(60 if quick else (800 if common.NCPU >= 8 else 300)):
        seqs.append(nested(rng))
    return seqs


def uniq(seqs):
    seen, out = set(), []
    for s in seqs:
        k = tuple(s)
        if k not in seen and len(set(s)) >= 2:
            seen.add(k)
            out.append(list(s))
    return out


def run(res):
    quick = res.tier == 'quick'
    rng = res.rng
    register_classes(res)
    res.trusted += ['hand-written Gallina model coq/theories/HCM/{Model,Full}.v = the independent implementation, evaluated by vm_compute',
                    'injected integer-valued odd law harness/hcm.py:IntLaw = HCM/Full.v isig/ieps/idsig/ideps (non-Masing on purpose)',
                    'recording proxy harness/hcm.py:RecordingLaw around Binned(ExtendedNeuber|SeegerBeste): the law is taken as the table of values it returned']
    res.assumptions += ['loads are integers (exact on doubles; the code\'s 1e-12 tolerances cannot matter on an integer grid)',
                        'multi-point load histories are proportional with positive ratios (the property\'s quantifier)',
                        'multi-point = single-point with the injected (non-physical) law is claimed under the hypothesis of theorem multipoint_is_pointwise_variants '
                        'for the recorder variant the tree implements (no hypothesis for the repaired recorder); differences the model variant predicts are counted, '
                        'not failed; with the real binned law (f) every difference is reported (known findings: first-node selection of the running extremes / of the '
                        'corners of a closed hysteresis)',
                        'chunked feeding (e): chunkings inside hcm.chunk_domain (the turning point carried over from the previous call is its last sample and is not '
                        'directly followed by the flushed last sample of the chunk); outside it the multi-point path of the unchanged detector is not meaningful '
                        '(notes/build/C05.md, Observations) -- chunking is not part of the property\'s quantifier',
                        '(f): ratios are powers of two (identical class look-up of the binned law alone and in the batch; class-edge rounding is C07/C10); '
                        'float noise 1e-9 relative to the largest stress / strain of the run']
    res.cov['rule'] = ('single point: exhaustive {-2..2} up to a length bound + random (length 2..30, alphabets {-k..k}, plateaus, intermediate points, '
                       'forced junction configurations, in and outside the C04 class) + nested envelopes of depth 3..9 with a closing load (Memory 2 after '
                       'several inner loops); multi point: 2-4 points, integer ratios c_j/c_0 with c_0 in {1,2,3}, load_step labels ascending / with gaps / offset / '
                       'shuffled / descending; chunked: random sequences cut into 2-4 chunks, rare intermediate flushes, 1-4 points; real laws: integer loads up to 600 MPa; '
                       'real-law batches: 2-4 points, ratios 2^k (k = -2..3), most loaded point 300..2500 MPa, half of the sequences with a junction between the passes; '
                       'non-trivial = at least one closed hysteresis in pass 2 and at least one secondary-branch point (counted distinct by input)')
    common.standard_proof_stage(res, 'C05')

    res.cov.setdefault('timing_s', []).append(round(time.time() - res.t0, 1))
    # ---------------- (a) single point, injected integer law: every column exactly
    seqs = uniq(gen_single(rng, quick))
    # multi-point cases and the single-point runs of their points
    multi = []
    for _ in range(140 if quick else (1500 if common.NCPU >= 8 else 500)):
        base = hcm.random_seq(rng, 12) if rng.random() < 0.8 else nested(rng)
        c0 = rng.choice([1, 1, 2, 3])
        cs = [c0] + [rng.randint(1, 4) for _ in range(rng.randint(1, 3))]
        multi.append(([c0 * x for x in base], c0, cs, base))
    multi.append(([3, -15, -15], 3, [3, 1], [1, -5, -5]))
    # load_step label layout of every multi-point input: the ROW order defines the sequence, the labels only identify the samples
    mlay = [hcm.label_layout(rng, len(m[0])) for m in multi]
    mlay[-1] = ('ascending', list(range(3)))
    pwc, pwl = detect_variant(res)
    pts = uniq([[c * x for x in base] for _, _, cs, base in multi for c in cs])
    known_single = {tuple(s) for s in seqs}
    seqs += [s for s in pts if tuple(s) not in known_single]

    outs = hcm.pmap(hcm._w_single, seqs)
    where = {tuple(s): i for i, s in enumerate(seqs)}
    terms, owner = [], []
    single_ok = {}
    nontriv = set()
    for i, (s, o) in enumerate(zip(seqs, outs)):
        if o[0] != 'ok':
            res.oblige('implementation runs on %s' % s, False, o[1])
            res.violation(WHAT_RAISE, sequence=s, points=1, error=o[1])
            continue
        rows, sv, nf, _ = o[1]
        try:
            terms.append(hcm.c05_term(s, rows, sv, nf))
        except ValueError:
            terms.append('false')
        owner.append(i)
        if any(r['run_index'] == 2 and r['is_closed_hysteresis'] for r in rows) and len(sv) > len(rows):
            nontriv.add(tuple(s))
    bad, log = common.coq_compare('C05a', hcm.REQ, terms, shard=200)
    badset = {owner[j] for j in bad}
    for i in range(len(seqs)):
        single_ok[tuple(seqs[i])] = outs[i][0] == 'ok' and i not in badset
    res.oblige('correspondence (a): model = implementation, single point, injected law, all columns + strain_values on %d sequences' % len(terms),
               not bad, 'disagreeing: %s\n%s' % ([seqs[owner[j]] for j in bad[:6]], log[-1000:]))
    for j in bad[:8]:
        s = shrink_single(seqs[owner[j]])
        res.violation(WHAT_ROWS, sequence=s, points=1, law='injected integer law', observed=hcm.impl_run(s)[0][:4])
    res.add_cases(len(seqs), nontrivial=len(nontriv))
    for s in seqs[8:11] + seqs[-2:]:
        res.sample({'sequence': s, 'points': 1})

    res.cov.setdefault('timing_s', []).append(round(time.time() - res.t0, 1))
    # ---------------- (c) several points: exact
    mouts = hcm.pmap(hcm._w_multi_labels, [(s, [c / c0 for c in cs], lay[1]) for (s, c0, cs, _), lay in zip(multi, mlay)])
    mterms, mowner, n_order = [], [], 0
    for k, ((s, c0, cs, base), o) in enumerate(zip(multi, mouts)):
        singles_fine = all(single_ok.get(tuple(c * x for x in base), False) for c in cs)
        if o[0] != 'ok':
            res.violation(WHAT_RAISE, sequence=s, points=len(cs), ratios=[c / c0 for c in cs], labels=mlay[k][1], error=o[1], single_point_runs_ok=singles_fine)
            continue
        per, sv, nf = o[1]
        try:
            mterms.append(hcm.c05_multi_term_v(pwc, pwl, s, c0, cs, per, sv, nf))
        except ValueError:
            mterms.append('false')
        mowner.append(k)
    mbad, mlog = common.coq_compare('C05c', hcm.REQ_C05, mterms, shard=60)
    mbadset = {mowner[j] for j in mbad}
    res.oblige('correspondence (c): model (variant pwc=%s pwl=%s) = implementation, 2-4 assessment points, every label layout, all columns of every point on %d runs'
               % (pwc, pwl, len(mterms)),
               not mbad, 'disagreeing: %s\n%s' % ([multi[mowner[j]][:3] + (mlay[mowner[j]],) for j in mbad[:4]], mlog[-1000:]))
    for j in mbad[:5]:
        s, c0, cs, _ = multi[mowner[j]]
        res.violation(WHAT_ROWS, sequence=s, points=len(cs), ratios=[c / c0 for c in cs], labels=mlay[mowner[j]][1], law='injected integer law')
    # relation on the implementation alone: point j of the batch = its single-point run
    for k, ((s, c0, cs, base), o) in enumerate(zip(multi, mouts)):
        if o[0] != 'ok':
            continue
        per = o[1][0]
        for j, c in enumerate(cs):
            sj = [c * x for x in base]
            oj = outs[where[tuple(sj)]] if tuple(sj) in where else None
            if oj is None or oj[0] != 'ok':
                continue
            if per[j] != oj[1][0]:
                if k not in mbadset and single_ok.get(tuple(sj)):
                    n_order += 1      # predicted by the model: the point orders compared values differently from point 0
                else:
                    res.violation(WHAT_MULTI, sequence=s, points=len(cs), ratios=[c / c0 for c in cs], labels=mlay[k][1], point=j)
    res.add_cases(len(multi), nontrivial=sum(1 for k in range(len(multi)) if mouts[k][0] == 'ok'))
    res.cov['multi_point_runs'] = len(multi)
    res.cov['multi_point_label_layouts'] = {kd: sum(1 for l in mlay if l[0] == kd) for kd in sorted({l[0] for l in mlay})}
    res.cov['multi_point_runs_with_labels_not_ascending_in_row_order'] = sum(1 for l in mlay if l[1] != sorted(l[1]))
    res.cov['multi_vs_single_differences_predicted_by_model (order hypothesis of multipoint_is_pointwise not met)'] = n_order
    res.sample({'sequence': multi[0][0], 'ratios': [c / multi[0][1] for c in multi[0][2]]})

    res.cov.setdefault('timing_s', []).append(round(time.time() - res.t0, 1))
    # ---------------- mirror relation on the implementation alone (injected law)
    pick = [s for s in seqs if len(s) <= 25]
    rng.shuffle(pick)
    pick = pick[:250 if quick else (3000 if common.NCPU >= 8 else 1000)]
    for s, o in zip(pick, hcm.pmap(hcm._w_pair, pick)):
        if o[0] != 'ok':
            continue
        why = hcm.mirror_relation(s, o[1][0], o[1][1], exact=True)
        if why:
            res.violation(WHAT_MIRROR, sequence=s, points=1, law='injected integer law', detail=why)
    res.add_cases(len(pick), 0)
    res.cov['mirror_pairs'] = len(pick)

    res.cov.setdefault('timing_s', []).append(round(time.time() - res.t0, 1))
    # ---------------- (b) real binned laws: model with the recorded tables, 1e-12; mirror relation
    real = []
    for _ in range(90 if quick else (900 if common.NCPU >= 8 else 300)):
        s = hcm.random_seq(rng, 12) if rng.random() < 0.8 else nested(rng)
        m = max(abs(x) for x in s)
        f = rng.choice([1, 5, 20]) if m * 20 <= 600 else (5 if m * 5 <= 600 else 1)
        s = [x * f for x in s]
        if max(abs(x) for x in s) <= 600:
            real.append((s, rng.choice(['neuber', 'seegerbeste'])))
    routs = hcm.pmap(hcm._w_real, real, chunksize=2)
    rterms, rowner, n_exc = [], [], 0
    for k, ((s, kind), o) in enumerate(zip(real, routs)):
        if o[0] != 'ok':
            n_exc += 1
            res.notes.append('real law run raised on %s (%s): %s' % (s, kind, o[1][:200])) if n_exc <= 3 else None
            continue
        rows, sv, nf, tables = o[1]
        rterms.append(hcm.c05_real_term(s, rows, sv, nf, tables))
        rowner.append(k)
    rbad, rlog = common.coq_compare('C05b', hcm.REQ, rterms, shard=12)
    res.oblige('correspondence (b): model with the recorded law tables = implementation with Binned(ExtendedNeuber|SeegerBeste) to 1e-12 on %d runs' % len(rterms),
               not rbad, 'disagreeing: %s\n%s' % ([real[rowner[j]] for j in rbad[:4]], rlog[-1000:]))
    for j in rbad[:5]:
        s, kind = real[rowner[j]]
        res.violation(WHAT_ROWS, sequence=s, points=1, law='Binned(%s)' % kind)
    res.cov['real_law_runs'] = len(rterms)
    res.cov['real_law_runs_rejected_by_the_law'] = n_exc
    rp = real[:40 if quick else (400 if common.NCPU >= 8 else 120)]
    for (s, kind), o in zip(rp, hcm.pmap(hcm._w_real_pair, rp, chunksize=2)):
        if o[0] != 'ok':
            continue
        why = hcm.mirror_relation(s, o[1][0], o[1][1], exact=False)
        if why:
            res.violation(WHAT_MIRROR, sequence=s, points=1, law='Binned(%s)' % kind, detail=why)
    res.add_cases(len(real) + len(rp), nontrivial=len(rterms))
    if real:
        res.sample({'sequence': real[0][0], 'law': real[0][1]})

    res.cov.setdefault('timing_s', []).append(round(time.time() - res.t0, 1))
    # ---------------- (e) the history fed in chunks: process(chunk_1, flush_1) ... process(chunk_k, flush_k); single and multi point, exact
    ccases, outside = [], {}
    want = 110 if quick else (1200 if common.NCPU >= 8 else 450)
    while len(ccases) < want:
        chunks, flushes = gen_chunks(rng)
        why = hcm.chunk_domain(chunks, flushes)
        if why is not None:
            outside[why] = outside.get(why, 0) + 1
            continue
        ccases.append((chunks, flushes, [1] + [rng.randint(1, 4) for _ in range(rng.randint(1, 3))]))
    cm = hcm.pmap(hcm._w_chunks, [(c, f, [float(r) for r in ra]) for c, f, ra in ccases])
    skeys = {}
    for c, f, ra in ccases:
        for r in set(ra):
            skeys.setdefault((repr(c), repr(f), r), ([[r * x for x in ch] for ch in c], f))
    klist = list(skeys)
    cs_out = dict(zip(klist, hcm.pmap(hcm._w_chunks, [(skeys[k][0], skeys[k][1], None) for k in klist])))
    sterms, sown = [], []
    for k in klist:
        o = cs_out[k]
        if o[0] != 'ok':
            res.violation(WHAT_RAISE, chunks=skeys[k][0], flushes=skeys[k][1], points=1, error=o[1])
            continue
        try:
            sterms.append(hcm.c05_chunk_term(skeys[k][0], skeys[k][1], *o[1]))
        except ValueError:
            sterms.append('false')
        sown.append(k)
    sbad, slog = common.coq_compare('C05e1', hcm.REQ_C05, sterms, shard=150)
    sbadkeys = {sown[j] for j in sbad}
    res.oblige('correspondence (e1): model = implementation, history fed in chunks, single point, all columns + strain_values on %d runs' % len(sterms),
               not sbad, 'disagreeing: %s\n%s' % ([skeys[sown[j]] for j in sbad[:4]], slog[-1000:]))
    for j in sbad[:5]:
        res.violation(WHAT_ROWS, chunks=skeys[sown[j]][0], flushes=skeys[sown[j]][1], points=1, law='injected integer law')
    cterms, cown = [], []
    for k, ((c, f, ra), o) in enumerate(zip(ccases, cm)):
        if o[0] != 'ok':
            res.violation(WHAT_RAISE, chunks=c, flushes=f, points=len(ra), ratios=ra, error=o[1],
                          single_point_runs_ok=all(cs_out[(repr(c), repr(f), r)][0] == 'ok' for r in ra))
            continue
        try:
            cterms.append(hcm.c05_chunk_multi_term(pwc, pwl, c, f, ra, *o[1]))
        except ValueError:
            cterms.append('false')
        cown.append(k)
    cbad, clog = common.coq_compare('C05e2', hcm.REQ_C05, cterms, shard=60)
    cbadset = {cown[j] for j in cbad}
    res.oblige('correspondence (e2): model (variant pwc=%s pwl=%s) = implementation, history fed in chunks, 2-4 assessment points on %d runs' % (pwc, pwl, len(cterms)),
               not cbad, 'disagreeing: %s\n%s' % ([ccases[cown[j]] for j in cbad[:4]], clog[-1000:]))
    for j in cbad[:5]:
        c, f, ra = ccases[cown[j]]
        res.violation(WHAT_ROWS, chunks=c, flushes=f, points=len(ra), ratios=ra, law='injected integer law')
    n_corder = 0
    for k, ((c, f, ra), o) in enumerate(zip(ccases, cm)):
        if o[0] != 'ok':
            continue
        for j, r in enumerate(ra):
            key = (repr(c), repr(f), r)
            oj = cs_out[key]
            if oj[0] != 'ok':
                continue
            if o[1][0][j] != oj[1][0] or (j == 0 and (o[1][1] != oj[1][1] or o[1][2] != oj[1][2])):
                if k not in cbadset and key not in sbadkeys and o[1][1] == cs_out[(repr(c), repr(f), ra[0])][1][1] and o[1][2] == cs_out[(repr(c), repr(f), ra[0])][1][2]:
                    n_corder += 1     # predicted by the model variant of the tree (first-node selection)
                else:
                    res.violation(WHAT_MULTI, chunks=c, flushes=f, points=len(ra), ratios=ra, point=j)
    res.add_cases(len(ccases) + len(klist), nontrivial=sum(1 for c, f, ra in ccases if len(c) >= 2))
    res.cov['chunked_runs'] = {'multi_point': len(ccases), 'single_point': len(klist),
                               'generated_outside_the_domain_of_the_chunk_relation': outside,
                               'multi_vs_single_differences_predicted_by_model': n_corder}
    res.sample({'chunks': ccases[0][0], 'flushes': ccases[0][1], 'ratios': ccases[0][2]})

    res.cov.setdefault('timing_s', []).append(round(time.time() - res.t0, 1))
    # ---------------- (f) batch = single with the real binned law (implementation alone): every column of every point, strain_values
    rb = []
    for _ in range(110 if quick else (1000 if common.NCPU >= 8 else 400)):
        s, ratios = gen_real_batch(rng)
        if max(abs(x) for x in s) * max(ratios) <= 3000 and len(set(s)) >= 2:
            rb.append((s, ratios, 'neuber'))
    n_rb_exc, n_rb_diff = 0, {'lf': 0, 'swap': 0, 'other': 0}
    vflags = dict(variant_first_node_lf=not pwl, variant_first_node_hysteresis=not pwc)
    for (s, ratios, kind), o in zip(rb, hcm.pmap(hcm._w_real_batch, rb, chunksize=2)):
        if o[0] != 'ok':
            n_rb_exc += 1
            res.notes.append('real law batch run raised on %s %s: %s' % (s, ratios, o[1][:200])) if n_rb_exc <= 3 else None
            continue
        for j, kd, cols in real_batch_check(s, ratios, kind, o[1]):
            n_rb_diff[kd or 'other'] += 1
            res.violation(WHAT_MULTI, sequence=s, points=len(ratios), ratios=ratios, point=j, law='Binned(%s)' % kind, relation='real-batch',
                          explained=kd, differing_columns=cols, **vflags)
    res.add_cases(len(rb), nontrivial=len(rb) - n_rb_exc)
    res.cov['real_law_batch_runs'] = {'runs': len(rb), 'rejected_by_the_law': n_rb_exc, 'points_differing_from_their_single_run': n_rb_diff}
    if rb:
        res.sample({'sequence': rb[0][0], 'ratios': rb[0][1], 'law': 'Binned(neuber)', 'relation': 'batch = single'})

    res.cov.setdefault('timing_s', []).append(round(time.time() - res.t0, 1))
    # ---------------- E: known findings
    res.replay_known(still_fails)


def still_fails(e):
    w = e['witness']
    if w.get('relation') == 'real-batch':
        kd = 'lf' if e.get('class') == CLS_LF else 'swap'
        return any(k == kd for _, k, _ in real_batch_check(w['sequence'], w['ratios']))
    try:
        hcm.impl_run_multi(w['sequence'], w['ratios'])
    except Exception as ex:
        return 'could not be broadcast' in str(ex)
    return False


def shrink_single(s):
    def fails(t):
        if len(set(t)) < 2:
            return False
        try:
            rows, sv, nf, _ = hcm.impl_run(t)
            bad, _ = common.coq_compare('C05shrink', hcm.REQ, [hcm.c05_term(t, rows, sv, nf)])
            return bool(bad)
        except Exception:
            return True
    cur = list(s)
    for _ in range(8):
        if len(cur) <= 2:
            break
        for i in range(len(cur)):
            t = cur[:i] + cur[i + 1:]
            if fails(t):
                cur = t
                break
        else:
            break
    return cur


def replay(res, rp):
    register_classes(res)
    v = rp.get('violation', {})
    if 'sequence' not in v and 'chunks' not in v:
        run(res)
        return res.finish()
    s = [int(x) for x in v['sequence']] if 'sequence' in v else v['chunks']
    what, why = v.get('what'), None
    try:
        if 'chunks' in v:
            chunks, flushes = [[int(x) for x in ch] for ch in v['chunks']], [bool(x) for x in v['flushes']]
            if v.get('points', 1) >= 2:
                pwc, pwl = detect_variant(res)
                ra = [int(r) for r in v['ratios']]
                per, sv, nf = hcm.impl_run_chunks(chunks, flushes, [float(r) for r in ra])
                bad, _ = common.coq_compare('C05replay', hcm.REQ_C05, [hcm.c05_chunk_multi_term(pwc, pwl, chunks, flushes, ra, per, sv, nf)])
                why = 'multi-point rows of the chunked run differ from the model' if bad else None
                for j, r in enumerate(ra):
                    rows, sv1, nf1 = hcm.impl_run_chunks([[r * x for x in ch] for ch in chunks], flushes)
                    b1, _ = common.coq_compare('C05replay', hcm.REQ_C05, [hcm.c05_chunk_term([[r * x for x in ch] for ch in chunks], flushes, rows, sv1, nf1)])
                    if b1:
                        why = 'rows of the chunked single-point run differ from the model'
                    elif bad and rows != per[j]:
                        why = 'point %d of the chunked multi-point run differs from its single-point run (and from the model)' % j
            else:
                rows, sv, nf = hcm.impl_run_chunks(chunks, flushes)
                bad, _ = common.coq_compare('C05replay', hcm.REQ_C05, [hcm.c05_chunk_term(chunks, flushes, rows, sv, nf)])
                why = 'rows of the chunked run differ from the model' if bad else None
        elif v.get('relation') == 'real-batch':
            pwc, pwl = detect_variant(res)
            bad = real_batch_check(s, v['ratios'])
            if bad:
                j, kd, cols = bad[0]
                why = 'point %d differs from its single-point run in %s' % (j, cols)
                v = dict(v, point=j, explained=kd, differing_columns=cols, variant_first_node_lf=not pwl, variant_first_node_hysteresis=not pwc)
                for j2, kd2, cols2 in bad[1:]:
                    res.violation(WHAT_MULTI, **dict({k: v[k] for k in v if k != 'what'}, point=j2, explained=kd2, differing_columns=cols2))
        elif v.get('points', 1) >= 2:
            ratios = v['ratios']
            pwc, pwl = detect_variant(res)
            per, sv, nf = hcm.impl_run_multi_labels(s, ratios, v.get('labels') or list(range(len(s))))
            c0 = 1
            while any(abs(r * c0 - round(r * c0)) > 1e-9 for r in ratios):
                c0 += 1
            cs = [int(round(r * c0)) for r in ratios]
            bad, _ = common.coq_compare('C05replay', hcm.REQ_C05, [hcm.c05_multi_term_v(pwc, pwl, s, c0, cs, per, sv, nf)])
            why = 'multi-point rows differ from the model' if bad else None
        elif what == WHAT_MIRROR:
            if str(v.get('law', '')).startswith('Binned'):
                kind = 'neuber' if 'neuber' in v['law'] else 'seegerbeste'
                why = hcm.mirror_relation(s, hcm.impl_run_real(s, kind)[:3], hcm.impl_run_real([-x for x in s], kind)[:3], exact=False)
            else:
                why = hcm.mirror_relation(s, hcm.impl_run(s)[:3], hcm.impl_run([-x for x in s])[:3], exact=True)
        elif str(v.get('law', '')).startswith('Binned'):
            kind = 'neuber' if 'neuber' in v['law'] else 'seegerbeste'
            rows, sv, nf, tables = hcm.impl_run_real(s, kind)
            bad, _ = common.coq_compare('C05replay', hcm.REQ, [hcm.c05_real_term(s, rows, sv, nf, tables)])
            why = 'rows differ from the model run with the same law tables' if bad else None
        else:
            rows, sv, nf, _ = hcm.impl_run(s)
            bad, _ = common.coq_compare('C05replay', hcm.REQ, [hcm.c05_term(s, rows, sv, nf)])
            why = 'rows differ from the model' if bad else None
    except Exception as ex:
        why = 'raises %s: %s' % (type(ex).__name__, str(ex)[:200])
        v = dict(v, error=str(ex))
        what = WHAT_RAISE
    print('replay:', s, '->', why)
    new = True
    if why:
        new = res.violation(what or WHAT_ROWS, **{k: v[k] for k in v if k != 'what'})
        if not new:
            res.known.append('replayed input reproduces a known finding (%s)' % why)
    res.add_cases(1, 0)
    res.oblige('replayed input satisfies the property', not why or not new)
    return res.finish()
