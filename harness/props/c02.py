"""C02 -- the detectors realise the four-point definition / the HCM rule and lose no turning point.

Tie: one-piece correspondence of the Gallina model with the implementation; on every run the
implementation's output is additionally compared, inside Coq, with the *specifications* the theorems are
about (fp_spec on the turning-point sequence, hcm_spec on the interior reversals): a disagreement there is a
failing input of the property itself.  Conservation and index->value are checked directly on the output."""
import itertools
from collections import Counter

import common
import rf
from common import zlit, coq_list

MANIFEST = dict(
    text='Theorems (props/C02.v, all closed under the global context): the one-piece four-point detector model reports exactly '
         'fp_spec (textbook four-point stack rule) on first sample + interior reversals + last sample (fourpoint_is_textbook, unbounded, via a '
         'refinement of the position/fuel kernel to an item-level stack machine); the FKM detector model equals the HCM case list on the '
         'interior reversals (fkm_is_hcm, unbounded); conservation of turning points for 4-point, 3-point and FKM (Permutation, unbounded); every '
         'index reported by the four-point AND the three-point detector addresses the reported value (unbounded, from a scanner invariant and position-range invariants); residual irreducible; three-point = four-point '
         'for EVERY signal (threepoint_same_as_fourpoint, unbounded: run3 [s] = run4 [s], i.e. the same cycles incl. indices even in the same '
         'order, the same residual and residual index -- on a stack of the shape maintained by the three-point machine the three-point and the '
         'four-point test decide alike, so the two item-level machines run in lock step); the bounded sweep ({0..3}, length <= 8, vm_compute, '
         'multiset comparison) is kept as an independent evaluation of the model.  Implementation output is compared with the verified specs inside Coq on every run.',
    note=common.TB_NOTE + 'no axioms under any C02 theorem. Hand-written model tied by correspondence; the HCM rule is taken in the form of '
         'the FKM non-linear guideline\'s case list (the form the detector documents), see DESIGN 6/C02; integer-valued signals '
         '(float rounding outside).',
    technique='Coq proof (refinement, invariants, induction, Permutation; every clause unbounded) + vm_compute oracle comparison',
    design='6/C02')

REQ = rf.REQ + ['From PL Require Import Rainflow.Spec Rainflow.SpecEqb.']


def tie_signal(rng, maxlen=40):
    """integer signals with many equal ranges, plateaus and constant stretches"""
    n = rng.randint(2, maxlen)
    k = rng.choice([1, 2, 2, 3, 4])
    s = [rng.randint(0, k) for _ in range(n)]
    if rng.random() < 0.4:
        t = []
        for x in s:
            t += [x] * rng.choice([1, 1, 1, 2, 4])
        s = t
    if rng.random() < 0.2:
        s = s + [s[-1]] * rng.randint(1, 3)
    if rng.random() < 0.2:
        s = [s[0]] * rng.randint(1, 3) + s
    return s


def pairs_lit(c):
    return '[' + '; '.join('(%s, %s)' % (zlit(a), zlit(b)) for a, b in c) + ']'


def spec_term(kind, s, o):
    vals = [(c[0], c[1]) for c in o[0]]
    return 'spec%s_ok %s %s %s' % (kind, coq_list(s), pairs_lit(vals), coq_list(o[1]))


def turning_points(s):
    """(index, value) of first sample, interior reversals (first sample of a plateau), last sample"""
    tp = [(0, s[0])]
    d, c = 0, 0
    for i in range(1, len(s)):
        if s[i] == s[i - 1]:
            continue
        e = 1 if s[i] > s[i - 1] else -1
        if d != 0 and e != d:
            tp.append((c, s[i - 1]))
        d, c = e, i
    tp.append((len(s) - 1, s[-1]))
    return tp


def direct_checks(kind, s, o):
    """conservation and index->value on the implementation's output; returns a failure description or None"""
    cyc, res, ridx = o[0], o[1], o[2]
    tp = turning_points(s)
    if kind == 'F':
        want = Counter(v for _, v in tp[1:-1])
        got = Counter([v for c in cyc for v in c[:2]] + list(res))
        return None if want == got else 'turning points not used exactly once (FKM): %s vs %s' % (dict(want), dict(got))
    want = Counter(v for _, v in tp)
    got = Counter([v for c in cyc for v in c[:2]] + list(res))
    if want != got:
        return 'turning points not used exactly once: %s vs %s' % (dict(want), dict(got))
    for f, t, i, j in cyc:
        if not (0 <= i < len(s) and 0 <= j < len(s)) or s[i] != f or s[j] != t:
            return 'cycle index does not address the reported value: %r' % ((f, t, i, j),)
    if len(ridx) != len(res):
        return 'residual_index and residuals differ in length'
    for i, v in zip(ridx, res):
        if not (0 <= i < len(s)) or s[i] != v:
            return 'residual index does not address the residual value: %r' % ((i, v),)
    # conservation with indices: every turning point (index) exactly once
    wanti = Counter(i for i, _ in tp)
    goti = Counter([i for c in cyc for i in c[2:]] + list(ridx))
    if len(s) >= 2 and wanti != goti:
        return 'turning point indices not used exactly once: %s vs %s' % (dict(wanti), dict(goti))
    return None


def run(res):
    quick = res.tier == 'quick'
    rng = res.rng
    res.trusted += ['hand-written Gallina model coq/theories/Rainflow/Model.v and specifications Spec.v; correspondence + oracle harness',
                    'Cython 3 + gcc -O1 build of extension.pyx assumed to behave like the shipped -O3 build']
    res.assumptions += ['integer-valued signals (exact on doubles); float rounding of |a-b| on non-dyadic inputs is outside the theorems',
                        'HCM rule = case list of the FKM non-linear guideline (differs from the 1986 flow chart only after a closed hysteresis that touches the largest load so far)']
    res.cov['rule'] = ('one-piece signals: exhaustive over {0..3} (quick: len<=6; thorough: {0..4} len<=7) + random integer signals over 2-5 values with plateaus / constant '
                       'stretches / leading-trailing plateaus, length 2..40; non-trivial = at least 2 closed cycles and at least one tie among consecutive ranges '
                       '(counted distinct by (detector, signal)); plus a near-tie float stream: samples k/2^30 with ranges 1e-9 apart (exact in doubles) fed as floats, compared as integers; plus an extreme-magnitude stream: integer signals fed as K*2^-600 and K*2^500')
    common.standard_proof_stage(res, 'C02', extra_targets=['theories/Rainflow/SpecEqb.vo'])

    sigs = []
    if quick:
        for n in range(2, 7):
            sigs += [list(s) for s in itertools.product(range(4), repeat=n)]
        nrand = 1500
    else:
        for n in range(2, 8):
            sigs += [list(s) for s in itertools.product(range(5), repeat=n)]
        nrand = 20000
    for _ in range(nrand):
        sigs.append(tie_signal(rng))
    if quick:       # keep the quick tier small: sample the exhaustive part
        ex = [s for s in sigs[:-nrand]]
        rng.shuffle(ex)
        sigs = ex[:2500] + sigs[-nrand:]
    # near-tie float stream: samples k / 2^30 (exact doubles, exact differences), ranges 1e-9 apart
    n_near = 700 if quick else 8000
    near = [rf.near_tie(rng, tie_signal(rng, 24)) for _ in range(n_near)]
    res.cov['near_tie_float_signals'] = len(near)
    # extreme-magnitude stream: the same integer signals fed as the exact doubles K * 2^-600 and K * 2^500 (every difference exact;
    # a product of two differences under- / overflows): "every finite real-valued signal"
    n_mag = 120 if quick else 1500
    mags = []
    for _ in range(n_mag):
        t = tie_signal(rng, 16)
        mags += [(t, 2 ** 600), (t, 2.0 ** -500)]
    res.cov['extreme_magnitude_float_signals'] = len(mags)
    model_terms, spec_terms, meta = [], [], []
    nontriv = set()
    for s, denom in [(s, None) for s in sigs + near] + mags:
        if denom is None:
            denom = rf.DENOM if any(abs(x) >= rf.DENOM // 2 for x in s) else 1
        for k in rf.KINDS:
            try:
                o = rf.impl_run(k, [s], denom=denom)
            except Exception as e:
                res.violation('detector raises on a valid signal', detector=k, signal=s, error=repr(e))
                continue
            model_terms.append(rf.case_term(k, [s], o))
            spec_terms.append(spec_term(k, s, o))
            meta.append((k, s, o, denom))
            bad = direct_checks(k, s, o)
            if bad:
                res.violation(bad, detector=k, signal=s, cycles=o[0], residuals=o[1], residual_index=o[2])
            rngs = [abs(b - a) for a, b in zip([v for _, v in turning_points(s)], [v for _, v in turning_points(s)][1:])]
            if len(o[0]) >= 2 and any(x == y for x, y in zip(rngs, rngs[1:])):
                nontriv.add((k, tuple(s)))
    badm, logm = common.coq_compare('C02m', rf.REQ, model_terms)
    res.oblige('correspondence model = implementation on %d one-piece runs' % len(model_terms), not badm,
               'disagreeing: %s\n%s' % ([meta[i][:2] + (float(meta[i][3]),) for i in badm[:5]], logm[-1200:]))
    bads, uneval, logs = common.coq_compare3('C02s', REQ, spec_terms)
    res.oblige('implementation output = verified specification (fp_spec / hcm_spec) on %d runs' % len(spec_terms), not bads and not uneval,
               'disagreeing: %s; not evaluated: %d\n%s' % ([meta[i][:2] for i in bads[:5]], len(uneval), logs[-1200:]))
    names = {'4': 'four-point detector differs from the textbook four-point rule',
             '3': 'three-point detector does not report the four-point cycles/residual',
             'F': 'FKM detector differs from the HCM rule on the interior reversals'}
    seen = set()
    for i in bads:
        k, s, o, dn0 = meta[i]
        if k in seen:
            continue
        seen.add(k)
        if dn0 not in (1, rf.DENOM):      # extreme-magnitude stream: report as it is (the shrinker re-derives the denominator from the values)
            res.violation(names[k], detector=k, signal=s, signal_is_integer_image_of_floats_divided_by=float(dn0), cycles=o[0], residuals=o[1])
            continue
        s2 = shrink_spec(k, s)
        dn = rf.DENOM if any(abs(x) >= rf.DENOM // 2 for x in s2) else 1
        o2 = rf.impl_run(k, [s2], denom=dn)
        res.violation(names[k], detector=k, signal=s2, signal_is_integer_image_of_floats_divided_by=dn, cycles=o2[0], residuals=o2[1])
    res.add_cases(len(model_terms), nontrivial=len(nontriv))
    res.cov['oracle_comparisons'] = len(spec_terms)
    res.cov['oracle_disagreements'] = len(bads)
    for k, s, o, _dn in meta[-3:]:
        res.sample({'detector': k, 'signal': s, 'cycles': o[0], 'residuals': o[1]})


def spec_fails(kind, s, denom=None):
    if len(s) < 2:
        return False
    try:
        if denom is None:
            denom = rf.DENOM if any(abs(x) >= rf.DENOM // 2 for x in s) else 1
        o = rf.impl_run(kind, [s], denom=denom)
    except Exception:
        return True
    if direct_checks(kind, s, o):
        return True
    bad, log = common.coq_compare('C02shrink', REQ, [spec_term(kind, s, o)])
    return bool(bad) and not log


def shrink_spec(kind, s, budget=25):
    cur = list(s)
    changed = True
    while changed and budget > 0:
        changed = False
        for i in range(len(cur)):
            cand = cur[:i] + cur[i + 1:]
            budget -= 1
            if budget <= 0:
                break
            if len(cand) >= 2 and spec_fails(kind, cand):
                cur, changed = cand, True
                break
    return cur


def replay(res, rp):
    v = rp.get('violation', {})
    if 'signal' in v and 'detector' in v:
        dn = v.get('signal_is_integer_image_of_floats_divided_by')
        if dn is not None and dn not in (1, rf.DENOM):
            dn = int(dn) if dn >= 1 else float(dn)
        else:
            dn = None
        bad = spec_fails(v['detector'], v['signal'], dn)
        print('replay: property fails on the input' if bad else 'replay: property holds on the input')
        res.add_cases(1, 0)
        res.oblige('replayed input satisfies the property', not bad)
        if bad:
            res.violation(v.get('what', 'replayed violation'), detector=v['detector'], signal=v['signal'])
    else:
        run(res)
    return res.finish()
