"""C19 -- mesh operators are exact on linear fields and respect mesh connectivity.

Gradient3D: the element kernels are translated from gradient.py on every run (py2coq_sym, symbolic execution);
exactness on linear fields is a ring identity on the generated tables (props/C19.v hex/tet_linear_exact) under
the contract of np.linalg.inv; the generated model is tied to the implementation by interval certificates
(model with the adjugate inverse vs. what gradient_3D.gradient_of returned).
Gradient (least squares): hand-written model (Mesh/Lstsq.v), lstsq as contract; positional id look-up proved
correct for ids 1..N and refuted otherwise (known finding gradient_noncontiguous_node_ids).
HotSpot.calc: executable Gallina model (Mesh/HotSpot.v) + component theorems, tied by vm_compute correspondence.
Mesh mapping and surface detection: relations on the implementation only.
The relations below run on EVERY invocation and double as the failing-input search."""
import json
import math
import os

import numpy as np
import pandas as pd

import cert
import common
import gen_specs
import meshgen as mg

MANIFEST = dict(
    text='Theorems (props/C19.v, 24). Gradient3D: hex_linear_exact / tet_linear_exact -- for every element geometry, every linear field and '
         'every output row the value the hexahedral / simplex kernel writes is the exact gradient, for ANY inversion routine meeting the contract '
         '"A * inv A = I for regular A" (np.linalg.inv as Section variable; satisfiable: adjugate inverse) -- stated about Coq definitions that '
         'py2coq_sym regenerates on every run by symbolic execution of Gradient3D._compute_gradient_hexahedral/_simplex incl. the shape-function '
         'closures and loops; plus the row-count dispatch table and the rows written. Gradient (least squares): lstsq_linear_exact under the '
         'normal-equation contract of lstsq (satisfiable), positional_lookup_correct_contiguous / gradient_linear_exact_contiguous_ids for node '
         'ids 1..N and positional_ids_refuted / gradient_noncontiguous_ids_refuted otherwise (hand-written model of _calc_lst_sqr as it was before '
         'fix abcd746, which replaced the positional look-up by an id look-up: gradient_spec is the repaired behaviour, and the renumbering '
         'relation on the implementation now holds for every id assignment). '
         'HotSpot.calc: executable Gallina model; hotspot_threshold_exact, hotspot_above_is_threshold, hotspot_labels_are_components '
         '(label equality <=> equivalence closure of shared-node/shared-element adjacency among rows above the threshold), '
         'hotspot_numbered_by_descending_peak (labels 1..K without gaps, smaller label = higher peak), unbounded, all fuel shown sufficient. '
         'Surface3D.is_at_surface on axis-parallel hexahedral blocks of any size (Mesh/Surface.v, hand-written, tied by correspondence with '
         '_determine_is_at_surface): surface_incident_closed_form (cells containing a grid node, counted over the literal cell list), '
         'surface_orthogonal_corner_excess (the code\'s half-angle solid-angle formula gives PI/2), surface_flags_exactly_boundary (Esum < 4 PI - 1e-5 <=> node on '
         'the block boundary). Mesh mapping (scipy griddata) and surface detection on oblique cells are decided by relations on the implementation only (partial).',
    note=common.TB_NOTE + 'py2coq_sym (symbolic executor, ~400 lines) and its spec harness/specs/c19.py are trusted and validated per run by CoqInterval '
         'certificates against gradient_3D.gradient_of; np.linalg.inv / np.linalg.lstsq only as contracts (checked on samples through the results); '
         'pandas plumbing (groupby, sort, de-duplication "keep first", Series alignment) is covered by correspondence/relations, not by theorems; '
         'the Lstsq and HotSpot models are hand-written (HotSpot tied by vm_compute correspondence on integer-valued fields with dyadic limit_frac, '
         'float fields only against an independent Python reference of the property); floating-point rounding outside the theorems. '
         'The theorems hold under "the Jacobian handed to inv is regular"; that the kernels do reach inv for every regular Jacobian (the only guard is '
         'the except LinAlgError handler, any other guard is rejected by the translator) is checked on the implementation by the linear-field relation on '
         'meshes expressed in length units 1e-9 .. 1e9 and with thin/long elements.',
    technique='Coq proof over symbolically translated element kernels (ring) + hand-written Gallina models; CoqInterval certificates; '
              'vm_compute correspondence (HotSpot, Surface block model); implementation-only relations for griddata / solid angles of oblique cells',
    design='6/C19')

GEN = ['GenGradient']
REQ = ['From PLgen Require Import GenGradient.', 'From PL Require Import Mesh.Mat3 Mesh.Gradient3D.']
UNFOLD = ['hex_gradient', 'tet_gradient', 'hexrow', 'tetrow', 'hexJ', 'tetJ', 'inv3', 'det3'] + \
         ['g3h_J_%d' % i for i in range(8)] + ['g3h_row_%d' % i for i in range(8)] + ['g3s_J_0'] + ['g3s_row_%d' % i for i in range(4)]
HS_REQ = ['From PL Require Import Mesh.HotSpot.']

WHAT_GRAD = 'Gradient.gradient_of (least squares) is wrong or raises for a linear field / under renumbering'
WHAT_G3 = 'Gradient3D.gradient_of is not exact on a linear field / depends on the numbering'
WHAT_HS = 'HotSpot.calc does not label the connected components above the threshold by descending peak'
WHAT_MAP = 'Meshmapper.process does not reproduce the field'
WHAT_SURF = 'Surface3D.is_at_surface does not flag exactly the boundary nodes of a hexahedral block'


def _imports():
    import pylife.mesh  # noqa: F401
    import pylife.mesh.gradient  # noqa: F401
    import pylife.mesh.hotspot  # noqa: F401
    import pylife.mesh.meshmapping  # noqa: F401
    import pylife.mesh.surface  # noqa: F401


class time_limit:
    """Bounds one call into the implementation (a mutated loop condition must not hang the check)."""

    def __init__(self, seconds=90):
        self.seconds = seconds

    def _raise(self, *a):
        raise TimeoutError('no result within %d s' % self.seconds)

    def __enter__(self):
        import signal
        self.old = signal.signal(signal.SIGALRM, self._raise)
        signal.alarm(self.seconds)

    def __exit__(self, *a):
        import signal
        signal.alarm(0)
        signal.signal(signal.SIGALRM, self.old)
        return False


def dy(x, k=1024):
    """Round to a dyadic rational (keeps the exact rational images in the certificates small)."""
    return round(x * k) / k


# ------------------------------------------------------------------------------------------------ gradients

def run_gradient(acc, coords, elements, node_ids, elem_ids, values, row_order='blocks', flip=False, rng=None):
    """Returns ('ok', {node_id: (gx, gy, gz)}) or (exception class name, message)."""
    df = mg.frame(coords, elements, node_ids, elem_ids, values, row_order=row_order, flip_levels=flip, rng=rng)
    try:
        with time_limit():
            r = getattr(df, acc).gradient_of('f')
    except Exception as e:   # noqa: BLE001
        return type(e).__name__, str(e)[:200]
    out = {}
    for nid, row in zip(r.index.to_numpy(), r.to_numpy()):
        out[int(nid)] = tuple(float(x) for x in row)
    return 'ok', out


def neighbours(elements, n):
    nb = [set() for _ in range(n)]
    for e in elements:
        for a in e:
            nb[a].update(e)
    return [sorted(s - {i}) for i, s in enumerate(nb)]


def positional_prediction(coords, elements, node_ids, values):
    """What the *unrepaired* Gradient._calc_lst_sqr computes (Mesh/Lstsq.v gradient_impl): neighbour rows taken at
    position id-1 of the id-sorted node table, numpy index semantics.  Returns 'IndexError' or {id: gradient}."""
    n = len(coords)
    order = sorted(range(n), key=lambda i: node_ids[i])
    table = np.array([[coords[i][0], coords[i][1], coords[i][2], values[i]] for i in order])
    nbs = neighbours(elements, n)
    out = {}
    for pos, i in enumerate(order):
        idx = np.array(sorted(node_ids[j] for j in nbs[i])) - 1
        if len(idx) and (idx.max() >= n or idx.min() < -n):
            return 'IndexError'
        diff = table[idx, :] - table[pos]
        out[node_ids[i]] = tuple(float(x) for x in np.linalg.lstsq(diff[:, :3], diff[:, 3], rcond=None)[0])
    return out


def known_gradient_defect(d):
    """Class of the known finding gradient_noncontiguous_node_ids: the node ids are not exactly 1..N AND the
    implementation shows exactly the behaviour of the positional look-up (IndexError or the rows at id-1)."""
    m = d.get('mesh') or {}
    ids = m.get('node_ids')
    if not ids or sorted(ids) == list(range(1, len(ids) + 1)):
        return False
    pred = positional_prediction(m['coords'], m['elements'], ids, m['values'])
    obs = d.get('observed')
    if pred == 'IndexError':
        return obs == 'IndexError'
    if not isinstance(obs, dict):
        return False
    obs = {int(k): v for k, v in obs.items()}
    return set(obs) == set(pred) and all(np.allclose(obs[k], pred[k], rtol=1e-7, atol=1e-9) for k in pred)


def grad_tol(g, coords, elements=None, values=None):
    """1e-8 relative to the gradient.  For the meshes in other length units (elements / values given) additionally the
    rounding of the nodal values themselves, which no exact algorithm can avoid: each value carries a relative error of
    2^-53 and the gradient divides value differences by the element size, so an error of eps*max|f|/h is inherent
    (it dominates for a constant field of size 5 on elements of 1e-8); allowed: 1e-12 * max|f| / (shortest node
    distance inside an element), i.e. ~4500 eps for the conditioning of perturbed, sheared, 1:100 thin elements (measured: <= 15 eps on 600 meshes + 600 single elements).  At unit
    scale (|f| < 100, h > 0.1) this term is < 1e-9 and is not used."""
    tol = 1e-8 * (1.0 + max(abs(x) for x in g))
    if elements is not None:
        h = min(math.dist(coords[a], coords[b]) for e in elements for i, a in enumerate(e) for b in e[i + 1:])
        tol += 1e-12 * max(abs(v) for v in values) / h
    return tol


def check_linear(res, acc, mesh, g, c, idkind, node_ids, elem_ids, row_order, flip, rng, stats, stat='linear_', value_rounding=False, **info):
    coords, elements = mesh
    values = mg.linear_values(coords, g, c)
    st, out = run_gradient(acc, coords, elements, node_ids, elem_ids, values, row_order, flip, rng)
    what = WHAT_GRAD if acc == 'gradient' else WHAT_G3
    mj = mg.mesh_json(coords, elements, node_ids, elem_ids, values=[float(v) for v in values], linear_field=dict(g=list(g), c=c),
                      accessor=acc, id_map=idkind, row_order=row_order, flip_levels=flip, **info)
    stats[stat + acc] = stats.get(stat + acc, 0) + 1
    if st != 'ok':
        res.violation(what, mesh=mj, observed=st, detail=out, expected='gradient %r at every node' % (list(g),))
        return False
    if sorted(out) != sorted(node_ids):
        res.violation(what, mesh=mj, observed={str(k): v for k, v in out.items()}, expected='one row per node id')
        return False
    tol = grad_tol(g, coords, elements, values) if value_rounding else grad_tol(g, coords)
    mj['tolerance'] = tol
    worst = max(max(abs(out[k][j] - g[j]) for j in range(3)) for k in out)
    if not worst <= tol:
        res.violation(what, mesh=mj, observed={str(k): v for k, v in out.items()}, max_error=worst,
                      expected='gradient %r at every node (tolerance %.1e)' % (list(g), tol))
        return False
    return True


def check_renumbering(res, acc, mesh, values, idkind, node_ids, rng, stats):
    """Numbering irrelevance on an arbitrary (non-linear) field: node ids mapped injectively, element ids by a
    monotone map with gaps, element blocks shuffled -- the nodal gradient must follow the node."""
    coords, elements = mesh
    n = len(coords)
    base_ids = list(range(1, n + 1))
    st0, base = run_gradient(acc, coords, elements, base_ids, None, values)
    eids = [5 * e + 2 for e in range(len(elements))]
    st1, var = run_gradient(acc, coords, elements, node_ids, eids, values, 'shuffled_blocks', rng.random() < 0.5, rng)
    what = WHAT_GRAD if acc == 'gradient' else WHAT_G3
    stats['renumber_' + acc] = stats.get('renumber_' + acc, 0) + 1
    if st0 != 'ok':
        res.violation(what, mesh=mg.mesh_json(coords, elements, base_ids, None or list(range(1, len(elements) + 1)),
                                              values=[float(v) for v in values], accessor=acc), observed=st0, detail=base)
        return False
    mj = mg.mesh_json(coords, elements, node_ids, eids, values=[float(v) for v in values], accessor=acc, id_map=idkind,
                      row_order='shuffled_blocks', relation='renumbering')
    if st1 != 'ok':
        res.violation(what, mesh=mj, observed=st1, detail=var, expected='the gradients of the mesh numbered 1..N, node by node')
        return False
    scale = 1.0 + max(abs(x) for v in base.values() for x in v)
    worst = max(max(abs(var[node_ids[i]][j] - base[i + 1][j]) for j in range(3)) for i in range(n))
    if not worst <= 1e-8 * scale:
        res.violation(what, mesh=mj, observed={str(k): v for k, v in var.items()}, max_error=worst,
                      expected={str(node_ids[i]): base[i + 1] for i in range(n)})
        return False
    return True


def check_quadratic_rows(res, rng, stats):
    """Elements given with 16/20 (hexahedral) or 10 (simplex) rows: corner rows exact, remaining rows zero."""
    g0, c0 = rand_field(rng)
    for nrows, maker in ((20, mg.hex_block), (16, mg.hex_block), (10, mg.tet_block)):
        coords, elements, _ = maker(1, 1, 1, rng)
        unit = rng.choice([1.0] + UNITS)
        coords = in_unit(coords, unit)
        g, c, _ = unit_field(rng, g0, c0, unit)
        el = elements[0]
        k = len(el)
        pts = [coords[a] for a in el]
        for _ in range(nrows - k):       # additional (mid-side) nodes: any points, their rows must stay zero
            a, b = rng.sample(range(k), 2)
            pts.append(tuple(0.5 * (pts[a][d] + pts[b][d]) for d in range(3)))
        ids = rng.sample(range(1, 500), nrows)
        vals = mg.linear_values(pts, g, c)
        st, out = run_gradient('gradient_3D', pts, [tuple(range(nrows))], ids, [rng.randint(1, 99)], vals)
        stats['quadratic_rows'] = stats.get('quadratic_rows', 0) + 1
        mj = mg.mesh_json(pts, [tuple(range(nrows))], ids, [1], values=vals, linear_field=dict(g=list(g), c=c), accessor='gradient_3D',
                          length_unit=unit, corner_rows=k)
        if st != 'ok':
            res.violation(WHAT_G3, mesh=mj, observed=st, detail=out)
            continue
        tol = grad_tol(g, pts) if unit == 1.0 else grad_tol(g, pts, [tuple(range(k))], vals)
        mj['tolerance'] = tol
        okc = all(abs(out[ids[a]][j] - g[j]) <= tol for a in range(k) for j in range(3))
        okz = all(out[ids[a]] == (0.0, 0.0, 0.0) for a in range(k, nrows))
        if not (okc and okz):
            res.violation(WHAT_G3, mesh=mj, observed={str(i): out[i] for i in ids},
                          expected='gradient %r on the first %d rows, zeros on the others' % (list(g), k))


# Length units: the same well-shaped mesh expressed in another unit (micrometres ... kilometres; one non-decimal factor).
# The property quantifies over every non-degenerate mesh, so nothing may depend on the absolute size of an element
# (absolute thresholds on determinants / distances / volumes show up only here).
UNITS = [1e-4, 1e3, 1e-6, 1e6, 2.54e-2, 1e-9, 1e-3, 1e9]


def in_unit(coords, unit):
    return [tuple(unit * v for v in p) for p in coords]


def unit_field(rng, g, c, unit):
    """A linear field on the mesh expressed in `unit`: either the same physical field (gradient g/unit, nodal values
    unchanged) or a field with the same O(1) gradient (nodal values scale with the unit)."""
    if rng.random() < 0.5:
        return tuple(x / unit for x in g), c, 'same nodal values (gradient / unit)'
    return g, c * unit, 'same gradient (nodal values * unit)'


def rand_field(rng):
    g = tuple(dy(rng.uniform(-5, 5), 64) for _ in range(3))
    if rng.random() < 0.15:
        g = (0.0, 0.0, 0.0)
    return g, dy(rng.uniform(-10, 10), 64)


def gradient_relations(res, rng, n_mesh, stats):
    unit0 = rng.randrange(len(UNITS))
    for m in range(n_mesh):
        dims = rng.choice([(1, 1, 1), (2, 1, 1), (2, 2, 1), (2, 2, 2), (3, 2, 1), (3, 2, 2)] if n_mesh < 20 else
                          [(1, 1, 1), (2, 1, 1), (2, 2, 1), (2, 2, 2), (3, 2, 1), (3, 2, 2), (3, 3, 3), (4, 4, 4), (4, 2, 1)])
        maker = mg.hex_block if m % 2 == 0 else mg.tet_block
        scale = tuple(rng.choice([0.5, 1.0, 3.0]) for _ in range(3))
        shear = tuple(rng.uniform(-0.7, 0.7) for _ in range(3)) if rng.random() < 0.5 else (0.0, 0.0, 0.0)
        coords, elements, _ = maker(*dims, rng, jitter=rng.choice([0.0, 0.1, 0.2]), scale=scale,
                                    origin=tuple(rng.uniform(-5, 5) for _ in range(3)), shear=shear)
        n = len(coords)
        g, c = rand_field(rng)
        nonlin = [math.sin(p[0]) + p[1] * p[2] + 0.3 * p[0] ** 2 - p[2] for p in coords]
        kinds = mg.ID_MAPS if n_mesh >= 20 else ['contiguous', 'shuffled'] + rng.sample(mg.ID_MAPS[1:], 2)
        for kind in kinds:
            node_ids = mg.id_map(kind, n, rng)
            elem_ids = mg.id_map(rng.choice(['contiguous', 'gaps', 'shuffled', 'sparse_shuffled']), len(elements), rng)
            order = rng.choice(['blocks', 'shuffled_blocks'])
            flip = rng.random() < 0.3
            for acc in ('gradient_3D', 'gradient'):
                check_linear(res, acc, (coords, elements), g, c, kind, node_ids, elem_ids, order, flip, rng, stats)
                if kind != 'contiguous':
                    check_renumbering(res, acc, (coords, elements), nonlin, kind, node_ids, rng, stats)
        # the same mesh in another length unit (cycling through UNITS separately for hexahedra and tetrahedra, so that
        # every tier sees small and large units for both kernels), linear field, one id map, both operators
        unit = UNITS[(unit0 + m // 2) % len(UNITS)]
        # ... and, half of the time, with one axis compressed / stretched by 100 (thin or long, still regular elements:
        # a size test relative to the element's own dimensions is as wrong as an absolute one)
        aspect, axis = rng.choice([1.0, 1.0, 1e-2, 1e2]), rng.randrange(3)
        ucoords = [tuple(unit * v * (aspect if d == axis else 1.0) for d, v in enumerate(p)) for p in coords]
        ug, uc, ufield = unit_field(rng, g, c, unit)
        kind = rng.choice(kinds)
        node_ids = mg.id_map(kind, n, rng)
        elem_ids = mg.id_map(rng.choice(['contiguous', 'gaps', 'shuffled', 'sparse_shuffled']), len(elements), rng)
        order = rng.choice(['blocks', 'shuffled_blocks'])
        for acc in ('gradient_3D', 'gradient'):
            check_linear(res, acc, (ucoords, elements), ug, uc, kind, node_ids, elem_ids, order, False, rng, stats,
                         stat='linear_other_length_unit_', value_rounding=True, length_unit=unit, field=ufield, axis_factor=[axis, aspect])
    check_quadratic_rows(res, rng, stats)


def _det(a):
    return (a[0][0] * (a[1][1] * a[2][2] - a[1][2] * a[2][1]) - a[0][1] * (a[1][0] * a[2][2] - a[1][2] * a[2][0])
            + a[0][2] * (a[1][0] * a[2][1] - a[1][1] * a[2][0]))


def _adj_inv(a):
    d = _det(a)
    return [[(a[1][1] * a[2][2] - a[1][2] * a[2][1]) / d, (a[0][2] * a[2][1] - a[0][1] * a[2][2]) / d, (a[0][1] * a[1][2] - a[0][2] * a[1][1]) / d],
            [(a[1][2] * a[2][0] - a[1][0] * a[2][2]) / d, (a[0][0] * a[2][2] - a[0][2] * a[2][0]) / d, (a[0][2] * a[1][0] - a[0][0] * a[1][2]) / d],
            [(a[1][0] * a[2][1] - a[1][1] * a[2][0]) / d, (a[0][1] * a[2][0] - a[0][0] * a[2][1]) / d, (a[0][0] * a[1][1] - a[0][1] * a[1][0]) / d]]


CERT_HEADER = ('From Coq Require Import Reals Lra.\nFrom PL Require Import Common.RPrelude.\n' + '\n'.join(REQ) + '\nOpen Scope R_scope.\n\n')


def gradient_certificates(res, rng, n_el, sigs):
    """Generated model (with the adjugate inverse) vs gradient_3D.gradient_of on single elements, arbitrary nodal
    values.  Goal i:  |model row k - implementation row k| <= 1e-9 (1 + |value|)  componentwise, closed under Qed.
    The proof script rewrites with the exact rational Jacobian / determinant / inverse (computed here with
    Fractions from the generated expressions, as *hints*: each is re-proved by lra inside the script)."""
    from fractions import Fraction
    import py2coq_sym
    r = common.rlit
    tup = lambda M: '(' + ', '.join('(' + ', '.join(r(x) for x in row) + ')' for row in M) + ')'
    items, descr = [], []
    for m in range(2 * n_el):
        hexa = m % 2 == 0
        coords, elements, _ = (mg.hex_block if hexa else mg.tet_block)(1, 1, 1, rng, jitter=0.2)
        el = elements[rng.randrange(len(elements))]
        pts = [tuple(dy(v) for v in coords[a]) for a in el]
        vals = [dy(rng.uniform(-4, 4), 256) for _ in el]          # arbitrary nodal values, not only linear ones
        ids = rng.sample(range(1, 10000), len(el))
        st, out = run_gradient('gradient_3D', pts, [tuple(range(len(el)))], ids, [rng.randint(1, 999)], vals)
        if st != 'ok':
            res.oblige('gradient_3D runs on a single regular element', False, (st, out))
            continue
        flat = [v for p in pts for v in p]
        X, Fv = ' '.join(r(x) for x in flat), ' '.join(r(x) for x in vals)
        pre, fn, jf, rowf = ('g3h_', 'hex_gradient', 'hexJ', 'hexrow') if hexa else ('g3s_', 'tet_gradient', 'tetJ', 'tetrow')
        for k in range(len(el)):
            jname = '%sJ_%d' % (pre, k if hexa else 0)
            J = sigs[jname]
            env = dict(zip(J['params'], [Fraction(x) for x in flat]))
            Jv = [[py2coq_sym.eval_exact(e, env) for e in row] for row in J['body']]
            d = _det(Jv)
            if d == 0:
                continue
            goal = cert.near_tuple('(%s %s inv3 %d%%nat %s)' % (fn, X, k, Fv), list(out[ids[k]]), rtol=1e-9, atol=1e-9)
            script = ('  unfold %s.\n'
                      '  assert (HJ : %s %s %d%%nat = %s) by (cbv beta iota delta [%s %s]; tuple_eq; lra).\n  rewrite HJ.\n'
                      '  assert (HD : det3 %s = %s) by (cbv beta iota delta [det3]; lra).\n'
                      '  assert (HV : inv3 %s = %s) by (unfold inv3; rewrite HD; cbv beta iota zeta; tuple_eq; lra).\n'
                      '  rewrite HV. cbv beta iota delta [%s %srow_%d].\n'
                      '  repeat split; apply Rabs_le; split; lra.\n') % (
                fn, jf, X, k, tup(Jv), jf, jname, tup(Jv), r(d), tup(Jv), tup(_adj_inv(Jv)), rowf, pre, k)
            items.append((goal, script))
            descr.append(('hex' if hexa else 'tet', k, pts, vals))
    return items, descr


def run_cert_scripts(name, items, chunk=6):
    """Compile `Goal g. Proof. script Qed.` items in parallel shards; a failing shard is re-run goal by goal.
    Returns (ok indices, bad indices, log)."""
    def text(idx):
        return CERT_HEADER + ''.join('Goal %s.\nProof.\n%sQed.\n' % items[i] for i in idx)
    shards = [list(range(k, min(k + chunk, len(items)))) for k in range(0, len(items), chunk)]
    res1 = common.coq_scratch_many([('%s_cert_%d' % (name, j), text(idx)) for j, idx in enumerate(shards)], 600)
    ok, bad, logs, redo = [], [], [], []
    for idx, (good, out) in zip(shards, res1):
        if good:
            ok.extend(idx)
        else:
            redo.extend(idx)
    if redo:
        for attempt in range(3):          # a killed coqc (no "Error" in its output) is retried, not taken as a result
            res2 = common.coq_scratch_many([('%s_cert1_%d' % (name, i), text([i])) for i in redo], 600)
            again = []
            for i, (good, out) in zip(redo, res2):
                if good:
                    ok.append(i)
                elif 'Error' not in out and attempt < 2:
                    again.append(i)
                else:
                    bad.append(i)
                    logs.append(out[-800:])
            redo = again
            if not redo:
                break
    return sorted(ok), sorted(bad), '\n'.join(logs[:3])


# ------------------------------------------------------------------------------------------------ hot spots

def run_hotspot(pairs, vals, frac, art=None, flip=False):
    """frac=None: the documented default limit_frac = 0.9."""
    df = pd.DataFrame({'element_id': [p[0] for p in pairs], 'node_id': [p[1] for p in pairs],
                       'v': [float(v) for v in vals], 'x': 0.0, 'y': 0.0})
    df = df.set_index(['node_id', 'element_id'] if flip else ['element_id', 'node_id'])
    kw = {} if art is None else {'artefact_threshold': art}
    with time_limit(20):
        r = df.hotspot.calc('v', **kw) if frac is None else df.hotspot.calc('v', frac, **kw)
    if not r.index.equals(df.index):
        raise AssertionError('hotspot result is not indexed like the mesh')
    return [int(x) for x in r.to_numpy()]


def hs_term(pairs, vals, p, q, art, out):
    E = '[' + '; '.join('(%s, %s, %s)' % (common.zlit(e), common.zlit(nd), common.zlit(v)) for (e, nd), v in zip(pairs, vals)) + ']%Z'
    a = 'None' if art is None else '(Some %s%%Z)' % common.zlit(art)
    return '(if list_eq_dec Nat.eq_dec (calc %s %s%%Z %s%%Z %s) %s then true else false)' % (
        E, common.zlit(p), common.zlit(q), a, common.coq_list(out, common.nlit))


def mesh_entries(rng):
    """(element, node) rows of a small hexahedral / tetrahedral block under arbitrary id maps, integer field with
    several separated peaks."""
    dims = rng.choice([(2, 1, 1), (3, 1, 1), (2, 2, 1), (4, 1, 1), (3, 2, 1)])
    coords, elements, _ = (mg.hex_block if rng.random() < 0.6 else mg.tet_block)(*dims, rng)
    nid = mg.id_map(rng.choice(mg.ID_MAPS), len(coords), rng)
    eid = mg.id_map(rng.choice(['contiguous', 'gaps', 'shuffled']), len(elements), rng)
    peaks = [coords[rng.randrange(len(coords))] for _ in range(rng.randint(1, 3))]
    heights = [rng.randint(5, 9) for _ in peaks]
    nodal = [max(0, max(h - int(3 * math.dist(p, pk)) for pk, h in zip(peaks, heights))) for p in coords]
    pairs, vals = [], []
    els = list(range(len(elements)))
    rng.shuffle(els)
    for e in els:
        for a in elements[e]:
            pairs.append((eid[e], nid[a]))
            # pyLife meshes may carry element-wise different values at a shared node
            vals.append(nodal[a] + (rng.randint(-1, 1) if rng.random() < 0.2 else 0))
    return pairs, vals


def hotspot_stage(res, rng, n_rand, n_mesh, n_float, stats):
    cases, terms = [], []
    nontriv = set()
    hist = {}
    corpus = []
    cdir = os.path.join(common.CORPUS, 'C19')
    for f in sorted(os.listdir(cdir)) if os.path.isdir(cdir) else []:
        d = json.load(open(os.path.join(cdir, f)))
        if d.get('kind') == 'hotspot':
            corpus.append(d)
    res.cov['corpus_cases'] = len(corpus)
    for c in range(-len(corpus), n_rand + n_mesh):
        if c < 0:
            d = corpus[c]
            pairs, vals = [tuple(x) for x in d['rows']], d['values']
        elif c < n_rand:
            pairs, vals = mg.random_entries(rng, max_el=rng.choice([3, 6, 10]), max_nd=rng.choice([4, 8, 12]),
                                            max_rows=rng.choice([8, 24, 40]))
        else:
            pairs, vals = mesh_entries(rng)
        q = rng.choice([1, 2, 4, 8, 16])
        p = rng.randint(0, q + 1) if rng.random() < 0.3 else rng.randint(q // 4, q)
        art = None if rng.random() < 0.8 else rng.randint(min(vals), max(vals) + 1)
        flip = rng.random() < 0.3
        if c < 0:
            p, q, art, flip = d['p'], d['q'], d['art'], False
        try:
            out = run_hotspot(pairs, vals, p / q, art, flip)
        except Exception as e:   # noqa: BLE001
            res.oblige('HotSpot.calc runs on %r' % ((pairs, vals, p, q, art),), False, repr(e))
            res.violation(WHAT_HS, rows=[list(x) for x in pairs], values=vals, limit_frac=p / q, artefact_threshold=art,
                          observed=repr(e), expected=mg.hotspot_spec(pairs, vals, p / q, art))
            if isinstance(e, TimeoutError) and sum(1 for b in res.broken if 'HotSpot.calc runs' in b['obligation']) >= 3:
                break
            continue
        cases.append((pairs, vals, p, q, art, flip, out))
        terms.append(hs_term(pairs, vals, p, q, art, out))
        k = max(out) if out else 0
        hist[k] = hist.get(k, 0) + 1
        if k >= 2:
            nontriv.add(repr((pairs, vals, p, q, art)))
        # the property's own oracle on the same input (independent Python reference)
        spec = mg.hotspot_spec(pairs, vals, p / q, art)
        if spec != out:
            res.violation(WHAT_HS, rows=[list(x) for x in pairs], values=vals, limit_frac=p / q, artefact_threshold=art,
                          observed=out, expected=spec)
    bad, log = common.coq_compare('C19hs', HS_REQ, terms, shard=150)
    res.oblige('correspondence HotSpot model = HotSpot.calc on %d meshes' % len(terms), not bad,
               'disagreeing cases: %s\n%s' % ([cases[i][:5] for i in bad[:3]], log[-1500:]))
    res.add_cases(len(terms), nontrivial=len(nontriv))
    res.cov['hotspot_count_histogram'] = {str(k): v for k, v in sorted(hist.items())}
    res.cov['hotspot_correspondence_disagreements'] = len(bad)
    for cse in cases[:2] + cases[n_rand:n_rand + 1]:
        res.sample({'hotspot_rows': cse[0][:12], 'values': cse[1][:12], 'limit_frac': '%d/%d' % (cse[2], cse[3]),
                    'artefact_threshold': cse[4], 'labels': cse[6][:12]})
    # float stream: arbitrary doubles and fractions, only against the reference semantics of the property
    for _ in range(n_float):
        pairs, vals = mesh_entries(rng) if rng.random() < 0.5 else mg.random_entries(rng, 8, 10, 40)
        vals = [v * rng.choice([0.1, 1.0 / 3.0, 1e-3, 7.7]) + rng.choice([0.0, 0.0, 1e-9 * rng.random()]) for v in vals]
        frac = rng.choice([None, 0.9, 0.5, 0.75, 0.3, rng.uniform(0.05, 1.0)])     # None = documented default 0.9
        art = None if rng.random() < 0.8 else rng.choice(vals) + rng.choice([0.0, 1e-12, -1e-12])
        spec = mg.hotspot_spec(pairs, vals, 0.9 if frac is None else frac, art)
        stats['hotspot_float'] = stats.get('hotspot_float', 0) + 1
        try:
            out = run_hotspot(pairs, vals, frac, art, rng.random() < 0.3)
        except Exception as e:   # noqa: BLE001
            out = repr(e)
            if isinstance(e, TimeoutError):
                nto = stats['hotspot_timeouts'] = stats.get('hotspot_timeouts', 0) + 1
                if nto >= 2:
                    res.violation(WHAT_HS, rows=[list(x) for x in pairs], values=vals, limit_frac=frac, artefact_threshold=art, observed=out, expected=spec)
                    break
        if spec != out:
            res.violation(WHAT_HS, rows=[list(x) for x in pairs], values=vals, limit_frac=frac, artefact_threshold=art, observed=out, expected=spec)


# ------------------------------------------------------------------------------------------------ mapping, surface

TARGET_SHAPES_3D = ['plane_z', 'single', 'plane_x', 'line_z', 'oblique_plane', 'plane_y', 'line_x', 'line_y', 'repeated_point']
TARGET_SHAPES_2D = ['line_y', 'single', 'line_x', 'repeated_point']


def target_points(shape, lo, hi, three_d, rng):
    """Interior target points (in lattice units, inside [lo, hi]) of a given arrangement.  The property speaks of
    interior points without any condition on how they lie relative to each other: a cloud, the points of a cutting
    plane / a line parallel to an axis (one or two coordinates shared by ALL points), an oblique plane, one single
    point, the same point several times."""
    k = rng.randint(3, 12)
    pts = [[rng.uniform(lo[d], hi[d]) for d in range(3)] for _ in range(k)]
    if shape.startswith('plane_') or shape.startswith('line_'):
        axis = 'xyz'.index(shape[-1])
        fixed = [axis] if shape.startswith('plane_') else [d for d in range(3) if d != axis]
        for d in fixed:
            v = rng.choice([rng.uniform(lo[d], hi[d]), float(rng.randint(1, int(hi[d])))])   # also a lattice plane
            for p in pts:
                p[d] = v
    elif shape == 'oblique_plane':
        for p in pts:
            p[2] = lo[2] + (hi[2] - lo[2]) * (0.2 + 0.3 * (p[0] - lo[0]) / (hi[0] - lo[0]) + 0.3 * (p[1] - lo[1]) / (hi[1] - lo[1]))
    elif shape == 'single':
        pts = pts[:1]
    elif shape == 'repeated_point':
        pts = [list(pts[0]) for _ in range(rng.randint(2, 4))]
    if not three_d:
        for p in pts:
            p[2] = 0.0
    return [tuple(p) for p in pts]


def flatten_layer(coords, dims, axis, k, exact=True):
    """Puts the nodes of lattice layer `k` along `axis` of an mg.hex_block(*dims) exactly onto the plane
    coordinate = k (the other coordinates keep their perturbation; the mesh stays non-degenerate and 3D).
    exact=False: only lists the nodes of the layer."""
    nx, ny, nz = dims
    out, layer = list(coords), []
    for kk in range(nz + 1):
        for j in range(ny + 1):
            for i in range(nx + 1):
                if (i, j, kk)[axis] == k:
                    nd = i + (nx + 1) * (j + (ny + 1) * kk)
                    if exact:
                        p = list(out[nd])
                        p[axis] = float(k)
                        out[nd] = tuple(p)
                    layer.append(nd)
    return out, layer


def map_linear_case(case):
    """Maps the linear field g.x + c given at the nodes of `case['mesh']` onto `case['points']` (both already in the
    case's length unit).  Returns (ok, observed, expected); everything is rebuilt from the JSON-able `case`."""
    m, g, c = case['mesh'], case['linear_field']['g'], case['linear_field']['c']
    three_d = m['dims'] == 3
    pts = [tuple(p) for p in case['points']]
    lin = mg.frame([tuple(p) for p in m['coords']], m['elements'], m['node_ids'], m['elem_ids'],
                   mg.linear_values(m['coords'], g, c), row_order='blocks')
    tgt = pd.DataFrame({'x': [p[0] for p in pts], 'y': [p[1] for p in pts], 'z': [p[2] for p in pts]},
                       index=pd.Index(case['target_ids'], name='node_id'))
    if not three_d:
        lin, tgt = lin.drop(columns=['z']), tgt.drop(columns=['z'])
    want = np.array(mg.linear_values(pts, g, c))
    try:
        with time_limit():
            got = tgt.meshmapper.process(lin, 'f')
    except Exception as e:   # noqa: BLE001
        return False, repr(e)[:200], [float(x) for x in want]
    val = got['f'].to_numpy()
    err = np.abs(val - want)
    # tolerance in terms of the nodal values (which do not depend on the length unit): g_phys = g * unit
    gmax = max(abs(x) for x in g) * case['length_unit']
    ok = bool(got.index.equals(tgt.index) and len(val) == len(want) and np.all(err <= 1e-9 * (1 + np.abs(want).max() + gmax * 5)))
    return ok, [float(x) for x in val], [float(x) for x in want]


def map_subset_case(case):
    """Maps the (non-linear) nodal field of `case['mesh']` onto a subset of the mesh's own rows."""
    m = case['mesh']
    three_d = m['dims'] == 3
    src = mg.frame([tuple(p) for p in m['coords']], m['elements'], m['node_ids'], m['elem_ids'], m['values'], row_order='blocks')
    if not three_d:
        src = src.drop(columns=['z'])
    keep = set(case['subset_node_ids'])
    sel = np.array([nd in keep for nd in src.index.get_level_values('node_id')])
    tgt = src[sel].drop(columns=['f'])
    want = src['f'].to_numpy()[sel]
    try:
        with time_limit():
            got = tgt.meshmapper.process(src, 'f')
    except Exception as e:   # noqa: BLE001
        return False, repr(e)[:200], [float(x) for x in want]
    val = got['f'].to_numpy()
    ok = bool(got.index.equals(tgt.index) and len(val) == len(want) and np.all(np.abs(val - want) <= 1e-9 * (1 + np.abs(want))))
    return ok, [float(x) for x in val], [float(x) for x in want]


def mapping_relations(res, rng, n, stats):
    shape3, shape2 = rng.randrange(len(TARGET_SHAPES_3D)), rng.randrange(len(TARGET_SHAPES_2D))
    for m in range(n):
        three_d = m % 3 != 0
        dims = rng.choice([(2, 2, 2), (3, 2, 2), (3, 3, 2)])
        coords, elements, _ = mg.hex_block(*dims, rng, jitter=0.2)
        # 60 %: one lattice layer of nodes exactly plane (targets taken from it share one coordinate); still a 3D mesh
        axis, layer_k = rng.randrange(3 if three_d else 2), rng.randint(0, 2)
        coords, layer = flatten_layer(coords, dims, axis, layer_k, exact=rng.random() < 0.6)
        g, c = rand_field(rng)
        if not three_d:
            coords = [(p[0], p[1], 0.0) for p in coords]
            g = (g[0], g[1], 0.0)
        nonlin = [math.sin(p[0]) + p[1] * p[2] + p[0] ** 2 for p in coords]
        # the mesh in another length unit (nodal values unchanged), half of the cases
        unit = 1.0 if rng.random() < 0.5 else rng.choice(UNITS)
        coords = in_unit(coords, unit)
        g = tuple(x / unit for x in g)
        ids = mg.id_map(rng.choice(mg.ID_MAPS), len(coords), rng)
        eids = mg.id_map(rng.choice(['contiguous', 'gaps', 'shuffled']), len(elements), rng)
        src = mg.frame(coords, elements, ids, eids, nonlin, row_order='shuffled_blocks', rng=rng)
        if not three_d:
            src = src.drop(columns=['z'])
        # (a) mapping a mesh's field onto the same points returns the field
        stats['map_identity'] = stats.get('map_identity', 0) + 1
        mja = mg.mesh_json(coords, elements, ids, eids, values=nonlin, dims=3 if three_d else 2, length_unit=unit)
        try:
            with time_limit():
                got = src.meshmapper.process(src, 'f')
        except Exception as e:   # noqa: BLE001
            res.violation(WHAT_MAP, relation='identity', mesh=mja, observed=repr(e)[:200])
            continue
        err = np.abs(got['f'].to_numpy() - src['f'].to_numpy())
        if not (got.index.equals(src.index) and np.all(err <= 1e-9 * (1 + np.abs(src['f'].to_numpy())))):
            res.violation(WHAT_MAP, relation='identity', mesh=mja,
                          max_error=float(np.nanmax(err)) if not np.all(np.isnan(err)) else 'nan',
                          observed=[float(x) for x in got['f'].to_numpy()], expected=[float(x) for x in src['f'].to_numpy()],
                          subset_node_ids=[int(x) for x in src.index.get_level_values('node_id')])
        # (a') ... and onto a part of the same points (one node, the nodes of one element, one plane layer of nodes)
        for sub in ('one_node', 'one_element', 'plane_layer'):
            nodes = {'one_node': [rng.randrange(len(coords))], 'one_element': list(elements[rng.randrange(len(elements))]),
                     'plane_layer': layer}[sub]
            case = dict(relation='identity on a subset of the points', subset=sub, mesh=mja, subset_node_ids=[ids[a] for a in nodes])
            stats['map_identity_subset'] = stats.get('map_identity_subset', 0) + 1
            ok, obs, want = map_subset_case(case)
            if not ok:
                res.violation(WHAT_MAP, observed=obs, expected=want, **case)
        # (b) a linear field mapped onto interior points returns the linear values; for every arrangement of the
        #     target points: a cloud and two special arrangements per mesh (cycling, so that every tier sees each)
        lo = [0.3, 0.3, 0.3]
        hi = [dims[0] - 0.3, dims[1] - 0.3, dims[2] - 0.3]
        if three_d:
            shapes = ['cloud'] + [TARGET_SHAPES_3D[(shape3 + i) % len(TARGET_SHAPES_3D)] for i in (0, 1)]
            shape3 += 2
        else:
            shapes = ['cloud', TARGET_SHAPES_2D[shape2 % len(TARGET_SHAPES_2D)]]
            shape2 += 1
        for shape in shapes:
            pts = in_unit(target_points(shape, lo, hi, three_d, rng), unit)
            case = dict(relation='linear field at interior points', target_arrangement=shape, linear_field=dict(g=list(g), c=c),
                        points=[list(p) for p in pts], target_ids=rng.sample(range(1, 1000), len(pts)), length_unit=unit,
                        mesh=mg.mesh_json(coords, elements, ids, eids, dims=3 if three_d else 2))
            stats['map_linear'] = stats.get('map_linear', 0) + 1
            hist = res.cov.setdefault('map_target_arrangements', {})
            hist[shape] = hist.get(shape, 0) + 1
            ok, obs, want = map_linear_case(case)
            if not ok:
                res.violation(WHAT_MAP, observed=obs, expected=want, **case)


def surface_relations(res, rng, n, stats):
    for m in range(n):
        dims = rng.choice([(1, 1, 1), (2, 1, 1), (2, 2, 1), (2, 2, 2), (3, 2, 2), (3, 3, 3)][:5 if n < 8 else 6])
        coords, elements, boundary = mg.hex_block(*dims, rng, jitter=rng.choice([0.0, 0.1, 0.15]),
                                                  scale=tuple(rng.choice([0.5, 1.0, 2.0]) for _ in range(3)),
                                                  origin=tuple(rng.uniform(-3, 3) for _ in range(3)),
                                                  shear=tuple(rng.uniform(-0.7, 0.7) for _ in range(3)) if m % 2 else (0.0, 0.0, 0.0))
        unit = 1.0 if m % 2 == 0 else UNITS[(m // 2) % len(UNITS)]      # the same block in another length unit
        coords = in_unit(coords, unit)
        kind = mg.ID_MAPS[m % len(mg.ID_MAPS)]
        ids = mg.id_map(kind, len(coords), rng)
        eids = mg.id_map(rng.choice(['contiguous', 'gaps', 'shuffled', 'zero_based']), len(elements), rng)
        df = mg.frame(coords, elements, ids, eids, None, row_order=rng.choice(['blocks', 'shuffled_blocks']),
                      flip_levels=rng.random() < 0.3, rng=rng)
        stats['surface'] = stats.get('surface', 0) + 1
        mj = mg.mesh_json(coords, elements, ids, eids, id_map=kind, boundary_node_ids=sorted(ids[b] for b in boundary), length_unit=unit)
        try:
            with time_limit():
                s = df.surface_3D.is_at_surface()
        except Exception as e:   # noqa: BLE001
            res.violation(WHAT_SURF, mesh=mj, observed=repr(e)[:200])
            continue
        want = {ids[b] for b in boundary}
        got_rows = {(int(e), int(nd)): bool(v) for (e, nd), v in zip(
            zip(s.index.get_level_values('element_id'), s.index.get_level_values('node_id')), s.to_numpy())}
        all_rows = {(eids[e], ids[a]) for e, el in enumerate(elements) for a in el}
        wrong = sorted(k for k in all_rows if got_rows.get(k) is not (k[1] in want))
        if wrong or set(got_rows) != all_rows:
            res.violation(WHAT_SURF, mesh=mj, wrong_rows=[list(k) for k in wrong[:20]],
                          observed_surface_node_ids=sorted({k[1] for k, v in got_rows.items() if v}))


def surface_model_stage(res, rng, n, stats):
    """Correspondence of Mesh/Surface.v with Surface3D._determine_is_at_surface on axis-parallel blocks (boxes, grid lines at
    random positions): per (element, node) row E = pi/2 (theorem surface_orthogonal_corner_excess), per node
    Esum = incident * pi/2 with `incident` evaluated by vm_compute, flag = `on_boundary` evaluated in Coq
    (theorem surface_flags_exactly_boundary)."""
    import math
    terms, info = [], []
    for m in range(n):
        dims = rng.choice([(1, 1, 1), (2, 1, 1), (1, 2, 2), (2, 2, 2), (3, 2, 2), (2, 3, 1), (3, 3, 2)][:5 if n < 10 else 7])
        nx, ny, nz = dims
        cubic = m % 2 == 0                   # cube cells: the model's E = pi/2 per row applies; boxes: flag and lower bound only
        h = rng.choice([0.25, 1.0, 1.5, rng.uniform(0.2, 3.0)])
        lines = []
        for d in range(3):
            x = rng.uniform(-3, 3)
            ln = [x]
            for _ in range(dims[d]):
                x += h if cubic else rng.choice([0.25, 1.0, 1.5, 8.0, rng.uniform(0.2, 3.0)])
                ln.append(x)
            if rng.random() < 0.3:
                ln = [-v for v in ln]                  # decreasing coordinates along this axis (cells mirrored)
            lines.append(ln)
        nid = lambda i, j, k: i + (nx + 1) * (j + (ny + 1) * k)
        coords = [None] * ((nx + 1) * (ny + 1) * (nz + 1))
        grid = {}
        for k in range(nz + 1):
            for j in range(ny + 1):
                for i in range(nx + 1):
                    coords[nid(i, j, k)] = (lines[0][i], lines[1][j], lines[2][k])
                    grid[nid(i, j, k)] = (i, j, k)
        elements = [tuple(nid(i + a, j + b, k + c) for a, b, c in mg.HEX_XI)
                    for k in range(nz) for j in range(ny) for i in range(nx)]
        unit = 1.0 if m % 3 else UNITS[(m // 3) % len(UNITS)]
        coords = in_unit(coords, unit)
        kind = mg.ID_MAPS[(m + 3) % len(mg.ID_MAPS)]
        ids = mg.id_map(kind, len(coords), rng)
        eids = mg.id_map(rng.choice(['contiguous', 'gaps', 'shuffled', 'zero_based']), len(elements), rng)
        df = mg.frame(coords, elements, ids, eids, None, row_order=rng.choice(['blocks', 'shuffled_blocks']),
                      flip_levels=rng.random() < 0.3, rng=rng)
        mj = mg.mesh_json(coords, elements, ids, eids, id_map=kind, dims=list(dims), length_unit=unit, cubic_cells=cubic)
        stats['surface_model'] = stats.get('surface_model', 0) + 1
        try:
            with time_limit():
                d3 = df.surface_3D._determine_is_at_surface()
            rows = list(zip(d3.index.get_level_values('element_id'), d3.index.get_level_values('node_id'),
                            d3['E'].to_numpy(), d3['Esum'].to_numpy(), d3['is_at_surface'].to_numpy()))
        except Exception as e:   # noqa: BLE001
            res.oblige('Surface3D._determine_is_at_surface runs and returns E / Esum / is_at_surface per (element_id, node_id)', False, repr(e)[:300])
            return
        back = {ids[a]: a for a in range(len(coords))}
        seen = {}
        for e, nd, E, Es, fl in rows:
            if (cubic and not abs(float(E) - math.pi / 2) <= 1e-9) or not float(E) >= math.pi / 2 - 1e-9:
                res.violation(WHAT_SURF, mesh=mj, row=[int(e), int(nd)], observed_solid_angle=float(E), expected_solid_angle=math.pi / 2)
                break
            seen.setdefault(int(nd), (float(Es), bool(fl)))
        if set(seen) != set(ids):
            res.violation(WHAT_SURF, mesh=mj, observed='rows for node ids %s' % sorted(seen)[:20], expected='one row set per node')
            continue
        for nd, (Es, fl) in sorted(seen.items()):
            i, j, k = grid[back[nd]]
            bterm = ('Bool.eqb (((%d =? 0) || (%d =? %d) || (%d =? 0) || (%d =? %d) || (%d =? 0) || (%d =? %d))%%Z) %s'
                     % (i, i, nx, j, j, ny, k, k, nz, 'true' if fl else 'false'))
            if cubic:
                c = int(round(Es / (math.pi / 2)))
                if not abs(Es - c * math.pi / 2) <= 1e-8:
                    res.violation(WHAT_SURF, mesh=mj, node_id=nd, observed_Esum=Es, expected='a multiple of pi/2')
                    continue
                terms.append('Nat.eqb (Surface.incident %d %d %d %d %d %d) %d && %s' % (nx, ny, nz, i, j, k, c, bterm))
            else:
                # boxes: the code's fallback branch for coplanar triples may report more than the orthogonal corner (see DESIGN 11.7);
                # the model gives the lower bound Esum >= incident * pi/2, which decides the interior nodes, and the flag
                c = int(math.floor((Es + 1e-8) / (math.pi / 2)))
                terms.append('Nat.leb (Surface.incident %d %d %d %d %d %d) %d && %s' % (nx, ny, nz, i, j, k, c, bterm))
            info.append((mj, nd, (i, j, k), c, fl))
    bad, log = common.coq_compare('C19surf', ['From PL Require Import Mesh.Surface.'], terms, shard=300)
    res.oblige('correspondence Surface model (incident count, boundary flag) = Surface3D on %d nodes of %d axis-parallel blocks' % (len(terms), n),
               not bad, 'disagreeing nodes: %s\n%s' % ([info[i][1:] for i in bad[:5]], log[-1500:]))
    for i in bad[:2]:
        if i < len(info) and 'shard without verdict' not in log:
            mj, nd, ijk, c, fl = info[i]
            res.violation(WHAT_SURF, mesh=mj, node_id=nd, grid_position=list(ijk), observed_incident_count=c, observed_flag=fl,
                          expected='incident count of the block model (cube cells: equal, box cells: lower bound) and flag = on the boundary')
    res.add_cases(len(terms), nontrivial=sum(1 for x in info if not x[4]))
    res.cov['surface_model_nodes'] = len(terms)
    res.cov['surface_model_interior_nodes'] = sum(1 for x in info if not x[4])


# ------------------------------------------------------------------------------------------------ run

def griddata_nan_on_hull(d):
    """Known finding `mapping-nan-on-hull`: mapping a mesh onto its own nodes gives NaN (never a wrong number) at nodes
    that lie on the boundary of the convex hull of the source nodes (within rounding): scipy's griddata finds no
    containing simplex for such a point when the hull face is (nearly) degenerate."""
    if not str(d.get('relation', '')).startswith('identity'):
        return False
    obs, want = d.get('observed'), d.get('expected')
    if not isinstance(obs, list) or not isinstance(want, list) or len(obs) != len(want):
        return False
    obs, want = np.asarray(obs, float), np.asarray(want, float)
    nan = np.isnan(obs)
    if not nan.any() or not np.all(np.abs(obs[~nan] - want[~nan]) <= 1e-9 * (1 + np.abs(want[~nan]))):
        return False
    m = d['mesh']
    pts = np.asarray(m['coords'], float)
    if m.get('dims', 3) != 3:
        pts = pts[:, :2]
    from scipy.spatial import ConvexHull
    try:
        hull = ConvexHull(pts, qhull_options='QJ')
    except Exception:
        return False
    diam = float(np.linalg.norm(pts.max(axis=0) - pts.min(axis=0)))
    pos = {nd: i for i, nd in enumerate(m['node_ids'])}
    sub = d.get('subset_node_ids')
    # rows of the result are (element, node) rows in block order: recover the node of every NaN row
    rows = [nd for el in m['elements'] for nd in [m['node_ids'][a] for a in el]]
    if sub is not None and len(sub) != len(obs):
        keep = set(sub)
        rows = [nd for nd in rows if nd in keep]
    elif sub is not None:
        rows = list(sub)
    if len(rows) != len(obs):
        return False
    for nd, isn in zip(rows, nan):
        if not isn:
            continue
        x = pts[pos[nd]]
        dist = np.min(np.abs(hull.equations[:, :-1] @ x + hull.equations[:, -1]))
        if dist > 1e-7 * diam:
            return False
    return True


def setup(res):
    _imports()
    res.classes['gradient_positional_ids'] = known_gradient_defect
    res.classes['griddata_nan_on_hull'] = griddata_nan_on_hull


def known_replay(res):
    def still(e):
        w = e['witness']
        if e.get('class') == 'griddata_nan_on_hull':
            ok, obs, want = map_subset_case(w)
            return (not ok) and griddata_nan_on_hull(dict(w, observed=obs, expected=want))
        st, out = run_gradient('gradient', w['coords'], w['elements'], w['node_ids'], w['elem_ids'], w['values'])
        g = w['linear_field']['g']
        if st != 'ok':
            return True
        return not all(abs(out[k][j] - g[j]) <= 1e-8 * (1 + max(abs(x) for x in g)) for k in out for j in range(3))
    res.replay_known(still)


def run(res):
    quick = res.tier == 'quick'
    rng = res.rng
    setup(res)
    res.trusted += ['py2coq_sym symbolic executor + whitelist harness/specs/c19.py (GenGradient), validated per run by interval certificates',
                    'CoqInterval for the certificates; float -> exact rational conversion',
                    'hand-written Gallina models Mesh/HotSpot.v (tied by vm_compute correspondence) and Mesh/Lstsq.v (tied by the relations on gradient.gradient_of)',
                    'harness/meshgen.py: mesh generators, the independent Python reference of the hot-spot property, the boundary oracle of block meshes',
                    'axioms: ClassicalDedekindReals.sig_forall_dec, sig_not_dec, functional_extensionality_dep (Coq Reals), Classical_Prop.classic (through Ratan.asin in the surface theorems); none for the HotSpot theorems and surface_incident_closed_form']
    res.assumptions += ['np.linalg.inv / np.linalg.lstsq enter the theorems only through their contracts (right inverse of regular matrices / normal equations at full column rank)',
                        'element Jacobians regular at the nodes (jitter <= 0.2 cell sizes); floating-point rounding outside the theorems (relations at 1e-8 relative)',
                        'HotSpot model values are integers and limit_frac dyadic in the correspondence (exact in doubles); arbitrary doubles only against the Python reference',
                        'scipy griddata is not modelled (relations only); surface detection is modelled for axis-parallel blocks only (Mesh/Surface.v: incident-cell count, orthogonal corner angle, decision; that the maximal excess over vertex triples is the orthogonal corner is checked per row, not proved); oblique / perturbed blocks by relations only',
                        'duplicate (element_id, node_id) rows and NaN values are outside the property']
    res.cov['rule'] = ('perturbed (jitter <= 0.2 cell), anisotropically scaled and sheared hexahedral blocks up to 3x2x2 (quick) / 4x4x4 (thorough) and their 5-tetrahedra splits, '
                       'each also expressed in another length unit (1e-9 .. 1e9, cycling per kernel; one axis x 0.01 / x 100 in half of them), mapping targets as cloud / axis-parallel plane / '
                       'line / oblique plane / single / repeated point and subsets of the source nodes (one node, one element, one exactly plane layer), node-id maps '
                       '{1..N, offset, gaps, reversed, shuffled, zero based, sparse shuffled}, element-id maps, element blocks shuffled, index levels flipped, '
                       'random linear fields (15 % constant) and one non-linear field for renumbering; hot spots: random (element,node) row sets with small integer '
                       'values (ties) and block meshes with 1-3 peaks, limit_frac k/q (q | 16) incl. 0 and > 1, 20 % artefact thresholds; non-trivial = '
                       'hot-spot case with >= 2 hot spots (distinct by input) + gradient/mapping/surface cases with a non-contiguous id map')
    sigs = {}
    proofs_ok = common.standard_proof_stage(res, 'C19', extra_targets=['theories/Common/Cert.vo'],
                                            gen_fn=lambda: sigs.update(gen_specs.generate(GEN)))
    stats = {}
    # D1 certificates: generated Gradient3D model vs implementation
    gen_ok = not any('A:model' in b['obligation'] or 'B:coq build' in b['obligation'] for b in res.broken)
    if gen_ok:
        try:
            items, descr = gradient_certificates(res, rng, 3 if quick else 12, sigs)
            ok, bad, log = run_cert_scripts('C19', items)
            oks = set(ok)
            for i in range(len(items)):
                res.oblige('certificate Gradient3D %s row %d' % (descr[i][0], descr[i][1]), i in oks, log if i not in oks else '')
            res.add_cases(len(items), nontrivial=len({repr(d) for d in descr}))
            res.cov['certificate_goals'] = len(items)
            res.cov['certificate_failed_inputs'] = [descr[i] for i in bad][:10]
            for d in descr[:2]:
                res.sample({'certificate_element': d[0], 'row': d[1], 'points': d[2], 'values': d[3]})
        except Exception as e:   # noqa: BLE001
            res.oblige('certificates could be generated and run', False, repr(e))
    # D2 hot spot correspondence (model = implementation) + reference semantics
    hotspot_stage(res, rng, 400 if quick else 2500, 80 if quick else 500, 300 if quick else 2500, stats)
    # D3 relations on the implementation (the property itself) -- always
    nv0 = len(res.violations)
    gradient_relations(res, rng, 12 if quick else 40, stats)
    mapping_relations(res, rng, 15 if quick else 80, stats)
    surface_relations(res, rng, 14 if quick else 28, stats)
    surface_model_stage(res, rng, 8 if quick else 30, stats)
    k = sum(stats.values())
    res.add_cases(k, nontrivial=0)
    res.cov['impl_relation_evaluations'] = dict(stats)
    res.cov['gradient_lookup_exhibited'] = ('positional (id - 1): known finding reproduces' if res.known_hits else 'by id')
    known_replay(res)


def replay(res, rp):
    setup(res)
    v = rp.get('violation', {})
    what = v.get('what')
    bad, new = None, True
    if what in (WHAT_GRAD, WHAT_G3) and 'mesh' in v:
        m = v['mesh']
        acc = m.get('accessor', 'gradient' if what == WHAT_GRAD else 'gradient_3D')
        st, out = run_gradient(acc, m['coords'], m['elements'], m['node_ids'], m['elem_ids'], m['values'],
                               'blocks', m.get('flip_levels', False))
        if m.get('relation') == 'renumbering':
            n = len(m['coords'])
            st0, base = run_gradient(acc, m['coords'], m['elements'], list(range(1, n + 1)), None, m['values'])
            bad = st != 'ok' or st0 != 'ok' or any(abs(out[m['node_ids'][i]][j] - base[i + 1][j]) > 1e-8 * (1 + abs(base[i + 1][j]))
                                                   for i in range(n) for j in range(3))
        else:
            g = m['linear_field']['g']
            tol = m.get('tolerance', 1e-8 * (1 + max(abs(x) for x in g)))
            nc = m.get('corner_rows', len(m['node_ids']))      # 16/20/10-row elements: the other rows stay zero
            want = {nid: (g if i < nc else [0.0, 0.0, 0.0]) for i, nid in enumerate(m['node_ids'])}
            bad = st != 'ok' or sorted(out) != sorted(want) or any(not abs(out[k][j] - want[k][j]) <= tol for k in out for j in range(3))
        print('replay:', acc, st, 'violates' if bad else 'holds')
        if bad:
            new = res.violation(what, mesh=m, observed=st if st != 'ok' else {str(k): x for k, x in out.items()})
    elif what == WHAT_HS:
        pairs = [tuple(x) for x in v['rows']]
        art = v.get('artefact_threshold')
        try:
            out = run_hotspot(pairs, v['values'], v['limit_frac'], art)
        except Exception as e:   # noqa: BLE001
            out = repr(e)
        spec = mg.hotspot_spec(pairs, v['values'], 0.9 if v['limit_frac'] is None else v['limit_frac'], art)
        bad = out != spec
        print('replay: hotspot', out, 'expected', spec)
        if bad:
            new = res.violation(what, rows=v['rows'], values=v['values'], limit_frac=v['limit_frac'], artefact_threshold=art,
                                observed=out, expected=spec)
    elif what == WHAT_MAP and v.get('relation') in ('linear field at interior points', 'identity on a subset of the points') \
            and 'dims' in v.get('mesh', {}):
        ok, obs, want = (map_linear_case if v['relation'].startswith('linear') else map_subset_case)(v)
        bad = not ok
        print('replay: meshmapper', v['relation'], obs, 'expected', want)
        if bad:
            new = res.violation(what, **{k: x for k, x in v.items() if k not in ('what', 'observed', 'expected')}, observed=obs, expected=want)
    if bad is None:
        run(res)
        return res.finish()
    res.add_cases(1, 0)
    if bad and not new:
        res.known.append('replayed input belongs to a listed known finding: %s' % ', '.join(res.known_hits))
    res.oblige('replayed input satisfies the property (or is a listed known finding)', not (bad and new))
    return res.finish()
