"""C08 -- Woehler curve: cycles/load are inverses with the stated scatter semantics.

Model: coq/theories/Woehler/Model.v (hand-written, element-wise over R; masked assignment is not translatable) +
the two conversions of utils/functions.py translated by py2coq on every run (PLgen.GenWoehlerFunctions).
Tie: kernel-checked interval certificates on `transform_to_failure_probability().to_pandas()`, `cycles`, `load`,
`miner_*().to_pandas()` outputs (branch decisions at the knee made exactly, by lra on the rational images of the floats);
`stats.norm.ppf` is a Section variable of the theorems, its contract is checked on the sampled probabilities and its
values are certified against the *defined* normal distribution function Phi by CoqInterval `integral`.
Search: the property's own relations evaluated on the implementation in floats (every run)."""
import copy
import json
import math
import os

import numpy as np
import pandas as pd

import cert
import common
import gen_specs

MANIFEST = dict(
    text='Theorems (props/C08.v, 31) about an element-wise Coq model over R of WoehlerCurve (_make_k, basquin_cycles, basquin_load, '
         'transform_to_failure_probability, miner_*) and the py2coq-generated scattering_range_to_std / std_to_scattering_range: '
         'cycles(load(N)) = N and load(cycles(L)) = L wherever the life is finite (both sides of the knee, after any probability shift), '
         'cycles non-increasing (strictly decreasing where finite), continuous at the knee (Coquelicot `continuous`), log-log slope k_1 at/above and '
         'k_2 below SD, infinite life exactly below SD for k_2 = inf, Miner variants change only k_2 (inf, k_1, 2 k_1 - 1) and are ordered, '
         'allowable cycles grow with P_f, transform(p1) then (p2) = transform(p2) (also SD = 0), transform(native) = identity (unconditionally), '
         'SD_90/SD_10 = TS^c and N_90/N_10 = TN^c on the k_1 branch of both shifted curves with c = 2 ppf(0.9) c_std, |c - 1| <= 2e-15, '
         'std<->T round trip T^c\' with |c\' - 1| <= 1e-15 for the two decimal literals, T = 10^(c_T s) with |c_T - 2 z9| <= 1e-15, and '
         '|Phi(z9) - 0.9| <= 1e-12 for the defined Phi (CoqInterval integral).  norm.ppf enters as a Section variable (strictly increasing, antisymmetric). '
         'Per run: interval certificates tie the model to the implementation outputs; the property relations are evaluated in floats on scalar, array, '
         'Series and DataFrame inputs.',
    note=common.TB_NOTE + 'the hand-written model Woehler/Model.v is tied to woehlercurve.py only by the per-run certificates (not by translation); '
                          'py2coq for utils/functions.py; CoqInterval (interval, integral) -- z9_is_the_90_percent_quantile additionally depends on the '
                          'Uint63/PrimInt63 primitive-integer axioms of the Coq standard library through CoqInterval\'s BigZ arithmetic; '
                          'scipy.stats.norm.ppf (contract + Phi certificates on samples); float rounding, pandas broadcasting plumbing '
                          '(checked by relations against scalar evaluation, not proved); loads/cycles > 0; N_90/N_10 = TN only on the k_1 branch of both curves.',
    technique='Coq proof over hand-written real-valued model + py2coq-generated conversions + CoqInterval certificates',
    design='6/C08')

GEN = ['GenWoehlerFunctions']
REQ = ['From Coquelicot Require Import Coquelicot.', 'From PL Require Import Woehler.Model Woehler.WCert.',
       'From PLgen Require Import GenWoehlerFunctions.']
KEYS = ['k_1', 'k_2', 'SD', 'ND', 'TN', 'TS', 'failure_probability']
Z9 = 1.2815515655446004
INF = math.inf


class _Allowed(object):
    """Allow-list for Print Assumptions: the four Reals/Coquelicot axioms, plus (checked afterwards to occur under
    z9_is_the_90_percent_quantile only) the primitive-integer axioms CoqInterval's `integral` computes with."""

    def __contains__(self, a):
        return a in common.ALLOWED_AXIOMS or a.startswith('Uint63.') or a.startswith('PrimInt63.')


# --------------------------------------------------------------------------- implementation access

def _imports():
    import pylife.materiallaws  # noqa: F401  (registers the accessor)
    import pylife.strength.fatigue  # noqa: F401
    from scipy import stats
    return stats


def ser(c):
    return pd.Series({k: float(c[k]) for k in KEYS if k in c})


def acc(c):
    return ser(c).woehler


INT_DTYPES = ('int64', 'int32', 'uint64', 'uint32')


def frame(curves, idx=None, int_cols=()):
    """DataFrame of curves; the columns named in `int_cols` are stored with an integer dtype (what pandas infers when the
    user writes `k_1=[3, 5]`) -- only allowed when every value of the column is integral and finite, so that the frame
    denotes exactly the same curves as the float Series the scalar evaluation uses."""
    df = pd.DataFrame([ser(c) for c in curves], index=idx)
    for col in int_cols:
        v = df[col].to_numpy()
        if not (np.all(np.isfinite(v)) and np.all(v == np.round(v))):
            raise ValueError('column %s is not integral: %r' % (col, v.tolist()))
        df[col] = df[col].astype('int64')
    return df


def with_variant(c, variant):
    """the curve a Miner variant must produce (only k_2 changes)"""
    k2 = {None: c['k_2'], 'miner_original': INF, 'miner_elementary': c['k_1'], 'miner_haibach': 2.0 * c['k_1'] - 1.0}[variant]
    return dict(c, k_2=k2)


def tr(c, p):
    """(SD, ND) of the curve transformed to failure probability p, as floats."""
    t = acc(c).transform_to_failure_probability(p).to_pandas()
    return float(t.SD), float(t.ND)


def close(a, b, rtol=1e-9, atol=0.0):
    a, b = float(a), float(b)
    if math.isnan(a) or math.isnan(b):
        return math.isnan(a) and math.isnan(b)
    if math.isinf(a) or math.isinf(b):
        return a == b
    return abs(a - b) <= atol + rtol * max(abs(a), abs(b))


def fails(lst, detail, **kw):
    d = {'detail': detail}
    d.update(kw)
    lst.append(d)


# --------------------------------------------------------------------------- the property's relations (floats, implementation only)

def rel_inverse(inp):
    """cycles and load are mutual inverses wherever the life is finite; infinite exactly below SD for k_2 = inf."""
    c, p, out = inp['curve'], inp['p'], []
    w = acc(c)
    SDp, NDp = tr(c, p)
    k2fin = math.isfinite(c['k_2'])
    for L in inp['loads']:
        N = float(w.cycles(L, p))
        if L >= SDp or k2fin:
            if not math.isfinite(N) or N <= 0:
                fails(out, 'cycles not finite/positive where the life must be finite', load=L, cycles=N, SD_p=SDp)
                continue
            L2 = float(w.load(N, p))
            if not close(L2, L):
                fails(out, 'load(cycles(L)) != L', load=L, cycles=N, load_back=L2, SD_p=SDp)
        elif N != INF:
            fails(out, 'k_2 = inf but finite life below the endurance limit', load=L, cycles=N, SD_p=SDp)
    for N in inp['cycles']:
        L = float(w.load(N, p))
        if N <= NDp or k2fin:
            N2 = float(w.cycles(L, p))
            if not close(N2, N):
                fails(out, 'cycles(load(N)) != N', cycles=N, load=L, cycles_back=N2, ND_p=NDp)
        elif not close(L, SDp, 1e-14):
            fails(out, 'k_2 = inf but load(N > ND) is not the endurance limit', cycles=N, load=L, SD_p=SDp)
    return out


def rel_antitone(inp):
    """cycles non-increasing in load, load non-increasing in cycles."""
    c, p, out = inp['curve'], inp['p'], []
    w = acc(c)
    loads = sorted(inp['loads'])
    N = np.asarray(w.cycles(loads, p), dtype=float)
    for i in range(len(loads) - 1):
        if not (N[i] >= N[i + 1] * (1 - 1e-12)):
            fails(out, 'cycles increase with load', load_lo=loads[i], load_hi=loads[i + 1], cycles_lo=float(N[i]), cycles_hi=float(N[i + 1]))
    cyc = sorted(inp['cycles'])
    L = np.asarray(w.load(cyc, p), dtype=float)
    for i in range(len(cyc) - 1):
        if not (L[i] >= L[i + 1] * (1 - 1e-12)):
            fails(out, 'load increases with cycles', cycles_lo=cyc[i], cycles_hi=cyc[i + 1], load_lo=float(L[i]), load_hi=float(L[i + 1]))
    return out


def rel_knee(inp):
    """continuous at the knee: cycles(SD) = ND from both sides, load(ND) = SD; k_2 = inf: finite at SD, inf just below."""
    c, p, out = inp['curve'], inp['p'], []
    w = acc(c)
    SDp, NDp = tr(c, p)
    if not close(float(w.cycles(SDp, p)), NDp, 1e-12):
        fails(out, 'cycles(SD) != ND', SD_p=SDp, ND_p=NDp, cycles=float(w.cycles(SDp, p)))
    if not close(float(w.load(NDp, p)), SDp, 1e-12):
        fails(out, 'load(ND) != SD', SD_p=SDp, ND_p=NDp, load=float(w.load(NDp, p)))
    up, dn = float(w.cycles(SDp * (1 + 1e-9), p)), float(w.cycles(SDp * (1 - 1e-9), p))
    if not close(up, NDp, 1e-6):
        fails(out, 'cycles jump just above the knee', SD_p=SDp, ND_p=NDp, cycles=up)
    if math.isfinite(c['k_2']):
        if not close(dn, NDp, 1e-6):
            fails(out, 'cycles jump just below the knee', SD_p=SDp, ND_p=NDp, cycles=dn)
        lup = float(w.load(NDp * (1 + 1e-9), p))
        if not close(lup, SDp, 1e-6):
            fails(out, 'load jumps just beyond ND', SD_p=SDp, ND_p=NDp, load=lup)
    elif dn != INF:
        fails(out, 'k_2 = inf but finite life just below the endurance limit', SD_p=SDp, cycles=dn)
    ldn = float(w.load(NDp * (1 - 1e-9), p))
    if not close(ldn, SDp, 1e-6):
        fails(out, 'load jumps just before ND', SD_p=SDp, ND_p=NDp, load=ldn)
    return out


def rel_slope(inp):
    """log-log slope k_1 at and above SD, k_2 below."""
    c, p, out = inp['curve'], inp['p'], []
    w = acc(c)
    SDp, NDp = tr(c, p)
    f1, f2 = inp['factors']          # both > 1
    for (a, b, k, where) in ((SDp, SDp * f1, c['k_1'], 'at/above'), (SDp * f1, SDp * f1 * f2, c['k_1'], 'above'),
                             (SDp / f1, SDp / (f1 * f2), c['k_2'], 'below')):
        if not math.isfinite(k):
            continue
        Na, Nb = float(w.cycles(a, p)), float(w.cycles(b, p))
        if not (math.isfinite(Na) and math.isfinite(Nb) and Na > 0 and Nb > 0):
            fails(out, 'cycles not finite on a finite-slope branch', where=where, loads=[a, b], cycles=[Na, Nb])
            continue
        slope = -(math.log(Na) - math.log(Nb)) / (math.log(a) - math.log(b))
        if not close(slope, k, 1e-7):
            fails(out, 'log-log slope differs from k', where=where, loads=[a, b], cycles=[Na, Nb], slope=slope, expected=k)
        # and the same slope through load()
        La, Lb = float(w.load(Na, p)), float(w.load(Nb, p))
        if not (close(La, a) and close(Lb, b)):
            fails(out, 'load() does not follow the same branch', where=where, loads=[a, b], back=[La, Lb])
    return out


def rel_miner(inp):
    """Miner variants only change k_2 (inf, k_1, 2 k_1 - 1), return a new object and leave the original alone."""
    c, out = inp['curve'], []
    src = ser(c)
    src0 = src.copy()
    w = src.woehler
    before = w.to_pandas().copy()
    exp = {'miner_original': INF, 'miner_elementary': c['k_1'], 'miner_haibach': 2.0 * c['k_1'] - 1.0}
    for name, k2 in exp.items():
        m = getattr(w, name)()
        mp = m.to_pandas()
        if m is w:
            fails(out, name + ' returned the original object')
        if not close(float(mp.k_2), k2, 1e-15) or not close(float(m.k_2), k2, 1e-15):
            fails(out, name + ' sets a wrong k_2', k_2=float(mp.k_2), expected=k2)
        for key in KEYS:
            if key != 'k_2' and not (float(mp[key]) == float(before[key])):
                fails(out, name + ' changed another parameter', key=key, value=float(mp[key]), expected=float(before[key]))
        if set(mp.index) != set(before.index):
            fails(out, name + ' changed the set of keys', keys=sorted(mp.index))
        after = w.to_pandas()
        if not (after.sort_index().equals(before.sort_index()) and src.equals(src0)):
            fails(out, name + ' altered the original object', after=after.to_dict())
        # above the endurance limit the life does not depend on the variant
        L = float(c['SD']) * 1.3
        if not close(float(m.cycles(L, c['failure_probability'])), float(w.cycles(L, c['failure_probability'])), 1e-12):
            fails(out, name + ' changes the life above the endurance limit', load=L)
    # the same on a two-row frame
    df = pd.DataFrame([ser(c), ser(dict(c, k_1=c['k_1'] + 1.0, k_2=INF))])
    df0 = df.copy()
    wf = df.woehler
    for name, k2 in (('miner_original', [INF, INF]), ('miner_elementary', [c['k_1'], c['k_1'] + 1.0]),
                     ('miner_haibach', [2.0 * c['k_1'] - 1.0, 2.0 * (c['k_1'] + 1.0) - 1.0])):
        mp = getattr(wf, name)().to_pandas()
        if not all(close(a, b, 1e-15) for a, b in zip(mp.k_2.tolist(), k2)):
            fails(out, name + ' sets a wrong k_2 on a frame', k_2=mp.k_2.tolist(), expected=k2)
        if not mp.drop(columns='k_2').equals(wf.to_pandas().drop(columns='k_2')) or not df.equals(df0):
            fails(out, name + ' changed another parameter / the original frame')
    return out


def rel_pf_monotone(inp):
    """allowable cycles grow with the failure probability."""
    c, out = inp['curve'], []
    w = acc(c)
    ps = sorted(inp['ps'])
    for L in inp['loads']:
        N = [float(w.cycles(L, p)) for p in ps]
        for i in range(len(ps) - 1):
            if not (N[i + 1] >= N[i] * (1 - 1e-9)):
                fails(out, 'cycles decrease with growing failure probability', load=L, p_lo=ps[i], p_hi=ps[i + 1], cycles_lo=N[i], cycles_hi=N[i + 1])
    return out


def rel_quantile(inp):
    """SD_90/SD_10 = TS; N_90/N_10 = TN for loads on the k_1 branch of both shifted curves; load_90/load_10 = TN^(1/k_1) there."""
    c, out = inp['curve'], []
    w = acc(c)
    SD9, ND9 = tr(c, 0.9)
    SD1, ND1 = tr(c, 0.1)
    if not close(SD9 / SD1, c['TS'], 1e-12):
        fails(out, 'SD_90/SD_10 != TS', SD_90=SD9, SD_10=SD1, ratio=SD9 / SD1, TS=c['TS'])
    for f in inp['factors']:
        L = max(SD9, SD1) * f
        r = float(w.cycles(L, 0.9)) / float(w.cycles(L, 0.1))
        if not close(r, c['TN'], 1e-11):
            fails(out, 'N_90/N_10 != TN', load=L, ratio=r, TN=c['TN'])
        N = min(ND9, ND1) / f
        rl = float(w.load(N, 0.9)) / float(w.load(N, 0.1))
        if not close(rl, c['TN'] ** (1.0 / c['k_1']), 1e-11):
            fails(out, 'load_90/load_10 != TN^(1/k_1)', cycles=N, ratio=rl, expected=c['TN'] ** (1.0 / c['k_1']))
    return out


def rel_transform(inp):
    """transform(p1) then (p2) = transform(p2); transform(native) = identity; nothing but SD, ND, failure_probability changes."""
    c, p1, p2, out = inp['curve'], inp['p1'], inp['p2'], []
    w = acc(c)
    a = w.transform_to_failure_probability(p1).to_pandas().woehler.transform_to_failure_probability(p2).to_pandas()
    b = w.transform_to_failure_probability(p2).to_pandas()
    for key in ('SD', 'ND'):
        if not close(a[key], b[key]):
            fails(out, 'transforming twice differs from transforming directly', key=key, via_p1=float(a[key]), direct=float(b[key]))
    for t, p in ((a, p2), (b, p2)):
        if float(t.failure_probability) != p:
            fails(out, 'failure_probability of the transformed curve is not the target', got=float(t.failure_probability), target=p)
        for key in ('k_1', 'k_2', 'TN', 'TS'):
            if float(t[key]) != float(c[key]):
                fails(out, 'transformation changed ' + key, got=float(t[key]))
    i = w.transform_to_failure_probability(c['failure_probability']).to_pandas()
    if not (close(i.SD, c['SD'], 1e-14) and close(i.ND, c['ND'], 1e-14)):
        fails(out, 'transforming to the native probability is not the identity', SD=float(i.SD), ND=float(i.ND))
    o = w.to_pandas()
    if not all(float(o[k]) == float(c[k]) for k in KEYS):
        fails(out, 'transformation altered the original object', after=o.to_dict())
    if c['SD'] > 0 and not (b.SD > 0 and b.ND > 0 and math.isfinite(b.SD) and math.isfinite(b.ND)):
        fails(out, 'transformed SD/ND not positive finite', SD=float(b.SD), ND=float(b.ND))
    return out


def rel_std(inp):
    """scatter range <-> standard deviation are mutual inverses, T = 10^(2 z_0.9 s)."""
    from pylife.utils.functions import scattering_range_to_std, std_to_scattering_range
    from scipy import stats
    T, s, out = inp['T'], inp['s'], []
    z9 = float(stats.norm.ppf(0.9))
    if not close(std_to_scattering_range(scattering_range_to_std(T)), T, 1e-13):
        fails(out, 'std_to_scattering_range(scattering_range_to_std(T)) != T', T=T, back=float(std_to_scattering_range(scattering_range_to_std(T))))
    if not close(scattering_range_to_std(std_to_scattering_range(s)), s, 1e-13):
        fails(out, 'scattering_range_to_std(std_to_scattering_range(s)) != s', s=s, back=float(scattering_range_to_std(std_to_scattering_range(s))))
    # the literals are 2 z9 and 1/(2 z9) to 1e-15 (theorem scatter_constants_are_z9): a few ulps of slack only
    if not close(std_to_scattering_range(s), 10 ** (2 * z9 * s), 4e-15):
        fails(out, 'std_to_scattering_range(s) != 10^(2 z_0.9 s)', s=s, got=float(std_to_scattering_range(s)), expected=10 ** (2 * z9 * s))
    if not close(scattering_range_to_std(T), math.log10(T) / (2 * z9), 4e-15, 1e-300):
        fails(out, 'scattering_range_to_std(T) != log10(T)/(2 z_0.9)', T=T, got=float(scattering_range_to_std(T)))
    return out


def _scalar_expect(c, op, x, p):
    w = acc(c)
    return float(w.cycles(x, p)) if op == 'cycles' else float(w.load(x, p))


def rel_broadcast(inp):
    """broadcast inputs give the same numbers as element-wise scalar evaluation.

    Input dimensions besides the layout: `int_columns` (columns of the frame of curves stored with an integer dtype),
    `operand_dtype` (dtype of an integer load / cycle array: int64, int32, uint64, uint32), `variant` (a Miner variant
    applied to the frame / Series accessor before the evaluation; the expectation is the scalar evaluation of the curve
    with that k_2).  The expectation is always the evaluation of one float Series curve with one float scalar."""
    curves, xs, ps, layout, op, out = inp['curves'], inp['operand'], inp['p'], inp['layout'], inp['op'], []
    n = len(curves)
    icols, variant = list(inp.get('int_columns') or []), inp.get('variant')
    odt = inp.get('operand_dtype') or 'int64'
    if odt not in INT_DTYPES:
        raise KeyError(odt)
    ecurves = [with_variant(c, variant) for c in curves]
    pairs = None

    def accessor(obj):
        w = obj.woehler
        return getattr(w, variant)() if variant else w

    try:
        if layout in ('frame_scalar', 'frame_array', 'frame_series_aligned', 'frame_series_cross', 'frame_int_array'):
            idx = pd.Index(inp.get('index') or list(range(n)), name=inp.get('index_name'))
            w = accessor(frame(curves, idx, icols))
            if layout == 'frame_scalar':
                got = np.asarray(getattr(w, op)(xs[0], ps), dtype=float)
                pairs = [(i, 0) for i in range(n)]
            elif layout in ('frame_array', 'frame_int_array'):
                arg = np.asarray([int(x) for x in xs], dtype=odt) if layout == 'frame_int_array' else list(xs)
                got = np.asarray(getattr(w, op)(arg, ps), dtype=float)
                pairs = [(i, i) for i in range(n)]
            elif layout == 'frame_series_aligned' and idx.name is not None:
                r = getattr(w, op)(pd.Series(xs, index=idx), ps)
                if not isinstance(r, pd.Series) or not r.index.equals(idx):
                    fails(out, 'result index is not the common index', index=list(map(str, getattr(r, 'index', []))))
                got = np.asarray(r, dtype=float)
                pairs = [(i, i) for i in range(n)]
            elif layout == 'frame_series_aligned':
                # two *unnamed* indices are different levels for the broadcaster (the library's own
                # test_broadcast_load_cycles_clashing_index pins this): the result is the cross product
                r = getattr(w, op)(pd.Series(xs, index=idx), ps)
                pairs = [(i, j) for i in range(n) for j in range(n)]
                got = np.asarray([r.loc[(idx[i], idx[j])] for i, j in pairs], dtype=float)
                if len(r) != len(pairs):
                    fails(out, 'cross broadcast has the wrong length', length=len(r), expected=len(pairs))
            else:
                lidx = pd.Index(list(range(100, 100 + len(xs))), name='load_case')
                r = getattr(w, op)(pd.Series(xs, index=lidx), ps)
                pairs = [(i, j) for i in range(n) for j in range(len(xs))]
                got = np.asarray([r.loc[(idx[i], lidx[j])] for i, j in pairs], dtype=float)
                if len(r) != len(pairs):
                    fails(out, 'cross broadcast has the wrong length', length=len(r), expected=len(pairs))
            exp = [_scalar_expect(ecurves[i], op, float(xs[j]), ps) for i, j in pairs]
        elif layout in ('series_array', 'series_series', 'series_int'):
            w = accessor(ser(curves[0]))
            if layout == 'series_array':
                got = np.asarray(getattr(w, op)(list(xs), ps), dtype=float)
            elif layout == 'series_int':
                got = np.asarray(getattr(w, op)(np.asarray([int(x) for x in xs], dtype=odt), ps), dtype=float)
            else:
                lidx = pd.Index(list(range(100, 100 + len(xs))), name='load_case')
                r = getattr(w, op)(pd.Series(xs, index=lidx), ps)
                if not isinstance(r, pd.Series) or not r.index.equals(lidx):
                    fails(out, 'result index is not the operand index', index=list(map(str, getattr(r, 'index', []))))
                got = np.asarray(r, dtype=float)
            pairs = [(0, j) for j in range(len(xs))]
            exp = [_scalar_expect(ecurves[0], op, float(x), ps) for x in xs]
        elif layout in ('series_prob_array', 'frame_prob_array', 'frame_prob_scalar'):
            # the transformation itself, with array-like target probabilities
            if layout == 'series_prob_array':
                t = accessor(ser(curves[0])).transform_to_failure_probability(list(ps)).to_pandas()
                rows = [(ecurves[0], p) for p in ps]
            elif layout == 'frame_prob_array':
                t = accessor(frame(curves, None, icols)).transform_to_failure_probability(list(ps)).to_pandas()
                rows = list(zip(ecurves, ps))
            else:
                t = accessor(frame(curves, None, icols)).transform_to_failure_probability(ps).to_pandas()
                rows = [(c, ps) for c in ecurves]
            got, exp = [], []
            for (c, p), (_, r) in zip(rows, t.iterrows()):
                s = acc(c).transform_to_failure_probability(p).to_pandas()
                got += [float(r.SD), float(r.ND), float(r.failure_probability), float(r.k_1), float(r.k_2)]
                exp += [float(s.SD), float(s.ND), float(p), float(c['k_1']), float(c['k_2'])]
            if len(t) != len(rows):
                fails(out, 'transformed frame has the wrong number of rows', rows=len(t), expected=len(rows))
        else:
            raise KeyError(layout)
    except Exception as e:       # the scalar evaluation works (it is what the other relations use), the broadcast one raised
        fails(out, 'broadcast evaluation raised', exception='%s: %s' % (type(e).__name__, str(e)[:200]))
        return out
    if len(got) != len(exp):
        fails(out, 'result has the wrong length', length=len(got), expected=len(exp))
        return out
    for k, (g, e) in enumerate(zip(got, exp)):
        if not close(g, e, 1e-12):
            where = {'curve': pairs[k][0], 'x': float(xs[pairs[k][1]])} if pairs else {}
            fails(out, 'broadcast value differs from scalar evaluation', position=k, broadcast=float(g), scalar=float(e), **where)
    return out


def rel_fatigue(inp):
    """strength/fatigue.py: the Fatigue accessor is the Woehler curve; damage and security factors are ratios of it."""
    c, p, out = inp['curve'], inp['p'], []
    amp, cyc = inp['amplitude'], inp['cycles']
    f, w = ser(c).fatigue, acc(c)
    lc = pd.DataFrame({'amplitude': amp, 'cycles': cyc})
    N50 = np.asarray(w.cycles(amp), dtype=float)
    Np = np.asarray(w.cycles(amp, p), dtype=float)
    Lp = np.asarray(w.load(cyc, p), dtype=float)
    for name, got, exp in (('cycles', f.cycles(amp, p), Np), ('load', f.load(cyc, p), Lp),
                           ('damage', f.damage(lc), np.asarray(cyc) / N50),
                           ('security_load', f.security_load(lc, p), Lp / np.asarray(amp)),
                           ('security_cycles', f.security_cycles(lc, p), Np / np.asarray(cyc))):
        got = np.asarray(got, dtype=float)
        if len(got) != len(exp) or not all(close(g, e, 1e-12) for g, e in zip(got, exp)):
            fails(out, 'fatigue.%s is not the Woehler-curve ratio' % name, got=got.tolist(), expected=np.asarray(exp).tolist())
    return out


def rel_defaults(inp):
    """missing keys: k_2 = inf, failure_probability = 0.5, TN/TS = 1 or derived from each other through k_1."""
    k1, SD, ND, out = inp['k_1'], inp['SD'], inp['ND'], []
    base = {'k_1': k1, 'SD': SD, 'ND': ND}
    t = pd.Series(base).woehler.to_pandas()
    if not (t.k_2 == INF and t.failure_probability == 0.5 and t.TN == 1.0 and t.TS == 1.0):
        fails(out, 'defaults are not k_2=inf, P_f=0.5, TN=TS=1', got=t.to_dict())
    T = inp['T']
    t = pd.Series(dict(base, TN=T)).woehler.to_pandas()
    if not (t.TN == T and close(t.TS, T ** (1.0 / k1), 1e-14)):
        fails(out, 'TS is not derived as TN^(1/k_1)', TN=T, TS=float(t.TS))
    t = pd.Series(dict(base, TS=T)).woehler.to_pandas()
    if not (t.TS == T and close(t.TN, T ** k1, 1e-14)):
        fails(out, 'TN is not derived as TS^k_1', TS=T, TN=float(t.TN))
    # consistent scatter (TN = TS^k_1): the knee only slides along the k_1 line, ND is unchanged by the transformation
    SDp, NDp = tr(dict(base, k_2=INF, TN=T ** k1, TS=T, failure_probability=0.5), inp['p'])
    if not close(NDp, ND, 1e-9):
        fails(out, 'ND changes under the transformation although TN = TS^k_1', ND_p=NDp, ND=ND)
    return out


RELS = {'inverse': rel_inverse, 'antitone': rel_antitone, 'knee': rel_knee, 'slope': rel_slope, 'miner': rel_miner,
        'pf_monotone': rel_pf_monotone, 'quantile': rel_quantile, 'transform': rel_transform, 'std': rel_std,
        'broadcast': rel_broadcast, 'fatigue': rel_fatigue, 'defaults': rel_defaults}
WHAT = {'inverse': 'cycles/load are not mutual inverses where the life is finite',
        'antitone': 'cycles/load not monotone',
        'knee': 'not continuous at the knee',
        'slope': 'slope is not k_1 above / k_2 below the endurance limit',
        'miner': 'Miner variant does more or less than setting k_2',
        'pf_monotone': 'allowable cycles do not grow with the failure probability',
        'quantile': 'N_90/N_10 != TN or SD_90/SD_10 != TS',
        'transform': 'failure-probability transformation is not a group action (compose/identity)',
        'std': 'scatter range <-> standard deviation conversions are not inverse / not 10^(2 z_0.9 s)',
        'broadcast': 'broadcast evaluation differs from element-wise scalar evaluation',
        'fatigue': 'Fatigue accessor disagrees with the Woehler curve',
        'defaults': 'default / derived scatter parameters wrong'}


def run_rel(res, name, inp, stats):
    """Evaluate one relation on the implementation; a failure is a concrete failing input of the property."""
    stats[name] = stats.get(name, 0) + 1
    try:
        fl = RELS[name](inp)
    except Exception as e:
        fl = [{'detail': 'evaluation raised', 'exception': '%s: %s' % (type(e).__name__, str(e)[:200])}]
    if fl:
        res.violation(WHAT[name], relation=name, input=inp, failures=fl[:4])
    return fl


# --------------------------------------------------------------------------- known-finding classes

def class_sd0_in_broadcast(d):
    """SD = 0 (the special case transform_to_failure_probability handles for a scalar curve) inside a broadcast
    evaluation, and the only symptom is the ValueError of the masked `ND[SD != 0] *= ...` update."""
    if d.get('relation') != 'broadcast':
        return False
    if not any(float(c['SD']) == 0.0 for c in d['input']['curves']):
        return False
    fl = d.get('failures') or []
    return bool(fl) and all(str(f.get('exception', '')).startswith('ValueError') for f in fl)


def _differs_only_as(d, alt_curve, applies):
    """every reported failure of a broadcast input is a wrong number at a position where `applies(curve, x, p)` holds and
    the broadcast value is what the scalar evaluation of `alt_curve(curve)` gives (1e-12)"""
    inp = d['input']
    fl = d.get('failures') or []
    if not fl or isinstance(inp['p'], list):
        return False
    for f in fl:
        if f.get('detail') != 'broadcast value differs from scalar evaluation' or 'curve' not in f:
            return False
        c = with_variant(inp['curves'][f['curve']], inp.get('variant'))
        if not applies(c, f['x'], inp['p']):
            return False
        if not close(f['broadcast'], _scalar_expect(alt_curve(c), inp['op'], f['x'], inp['p']), 1e-12):
            return False
    return True


def class_int_k1_column(d):
    """frame of curves whose k_1 column has an integer dtype: _make_k builds the slope array from a copy of that column, so a
    finite non-integral k_2 is truncated when it is assigned below the limit.  Accepted only if every wrong number belongs to a
    curve with finite non-integral k_2 and equals the evaluation of the same curve with trunc(k_2)."""
    if d.get('relation') != 'broadcast' or not str(d['input'].get('layout', '')).startswith('frame'):
        return False
    if 'k_1' not in (d['input'].get('int_columns') or []):
        return False
    return _differs_only_as(d, lambda c: dict(c, k_2=float(math.trunc(c['k_2']))),
                            lambda c, x, p: math.isfinite(c['k_2']) and c['k_2'] != math.trunc(c['k_2']))


def class_unsigned_cycles(d):
    """load() with an unsigned-integer array of cycle numbers: basquin_load negates the cycles (`_make_k(-cyc, -ND)`), which
    wraps around for unsigned dtypes, so no cycle number counts as beyond the knee.  Accepted only if every wrong number is at
    a cycle number beyond ND of the transformed curve and equals the k_1-branch value (the curve with k_2 := k_1)."""
    inp = d['input']
    if d.get('relation') != 'broadcast' or inp.get('op') != 'load' or inp.get('layout') not in ('series_int', 'frame_int_array'):
        return False
    if not str(inp.get('operand_dtype', '')).startswith('uint'):
        return False
    return _differs_only_as(d, lambda c: dict(c, k_2=c['k_1']), lambda c, x, p: x > tr(c, p)[1])


# --------------------------------------------------------------------------- generators

def gen_curve(rng, sd0=False):
    k1 = rng.choice([rng.uniform(1.01, 15.0), float(rng.randint(2, 12)), rng.uniform(1.01, 4.0)])
    k2 = rng.choice([k1, 2.0 * k1 - 1.0, 25.0, INF, INF, k1 + rng.uniform(0.0, 10.0)])
    TN = rng.choice([1.0, rng.uniform(1.0, 20.0), rng.uniform(1.0, 3.0)])
    TS = rng.choice([1.0, rng.uniform(1.0, 3.0), TN ** (1.0 / k1)])
    p0 = rng.choice([0.5, 0.5, 0.1, 0.9, rng.uniform(0.01, 0.99), 10 ** rng.uniform(-6, -2), 1 - 10 ** rng.uniform(-6, -2)])
    return {'k_1': k1, 'k_2': k2, 'SD': 0.0 if sd0 else rng.uniform(10.0, 800.0), 'ND': 10 ** rng.uniform(4.0, 7.3),
            'TN': TN, 'TS': TS, 'failure_probability': p0}


def gen_int_curve(rng):
    """a curve whose k_1 (and, mostly, the other parameters) are integral numbers, so that a frame of such curves can be
    stored with integer columns; k_2 is inf, integral or finite non-integral"""
    k1 = float(rng.randint(2, 12))
    k2 = rng.choice([k1 + rng.uniform(0.0, 10.0), k1 + rng.uniform(0.0, 10.0), k1 + rng.randint(0, 9) + 0.5, INF, 2.0 * k1 - 1.0, k1,
                     float(rng.randint(int(k1), int(k1) + 12))])
    TN = rng.choice([1.0, float(rng.randint(1, 20)), rng.uniform(1.0, 20.0)])
    TS = rng.choice([1.0, float(rng.randint(1, 3)), rng.uniform(1.0, 3.0), TN ** (1.0 / k1)])
    p0 = rng.choice([0.5, 0.5, 0.1, 0.9, rng.uniform(0.01, 0.99)])
    return {'k_1': k1, 'k_2': k2, 'SD': float(rng.randint(10, 800)), 'ND': float(round(10 ** rng.uniform(4.0, 7.3))),
            'TN': TN, 'TS': TS, 'failure_probability': p0}


def gen_p(rng):
    return rng.choice([0.5, 0.1, 0.9, rng.uniform(0.01, 0.99), rng.uniform(0.001, 0.999), 10 ** rng.uniform(-6, -2), 1 - 10 ** rng.uniform(-6, -2)])


def loads_around(rng, SDp, k=5):
    out = [SDp, SDp * (1 + 1e-12), SDp * (1 - 1e-12), SDp * rng.uniform(1.0001, 1.2), SDp * rng.uniform(0.8, 0.9999)]
    out += [SDp * 10 ** rng.uniform(-0.7, 0.7) for _ in range(k)]
    return out


def cycles_around(rng, NDp, k=5):
    out = [NDp, NDp * (1 + 1e-12), NDp * (1 - 1e-12), NDp * rng.uniform(1.0001, 2.0), NDp * rng.uniform(0.5, 0.9999)]
    out += [NDp * 10 ** rng.uniform(-3.0, 2.0) for _ in range(k)]
    return out


def scalar_relations(res, rng, c, p, stats, extra_loads=(), extra_cycles=()):
    SDp, NDp = tr(c, p)
    loads = loads_around(rng, SDp) + list(extra_loads)
    cyc = cycles_around(rng, NDp) + list(extra_cycles)
    run_rel(res, 'inverse', {'curve': c, 'p': p, 'loads': loads, 'cycles': cyc}, stats)
    run_rel(res, 'antitone', {'curve': c, 'p': p, 'loads': loads, 'cycles': cyc}, stats)
    run_rel(res, 'knee', {'curve': c, 'p': p}, stats)
    run_rel(res, 'slope', {'curve': c, 'p': p, 'factors': [rng.uniform(1.2, 3.0), rng.uniform(1.2, 3.0)]}, stats)
    run_rel(res, 'miner', {'curve': c}, stats)
    run_rel(res, 'pf_monotone', {'curve': c, 'ps': sorted({p, gen_p(rng), gen_p(rng), 0.1, 0.5, 0.9, c['failure_probability']}),
                                 'loads': [SDp * f for f in (0.5, 0.97, 1.0, 1.03, 2.0)]}, stats)
    run_rel(res, 'quantile', {'curve': c, 'factors': [1.0, rng.uniform(1.0, 1.5), rng.uniform(1.5, 4.0)]}, stats)
    run_rel(res, 'transform', {'curve': c, 'p1': p, 'p2': gen_p(rng)}, stats)
    return 8


def broadcast_cases(rng, n_cases, with_sd0):
    """layouts: frame x scalar / array / aligned Series / crossed Series / int array, Series x array / Series / int array,
    array-like target probabilities."""
    out = []
    layouts = ['frame_scalar', 'frame_array', 'frame_series_aligned', 'frame_series_cross', 'frame_int_array',
               'series_array', 'series_series', 'series_int', 'series_prob_array', 'frame_prob_array', 'frame_prob_scalar']
    for i in range(n_cases):
        lay = layouts[i % len(layouts)]
        n = rng.randint(1, 4)
        curves = [gen_curve(rng) for _ in range(n)]
        op = rng.choice(['cycles', 'load'])
        d = {'layout': lay, 'op': op, 'curves': curves, 'p': gen_p(rng)}
        m = n if lay in ('frame_array', 'frame_series_aligned', 'frame_int_array') else (1 if lay == 'frame_scalar' else rng.randint(1, 4))
        ref = curves[0]
        if op == 'cycles':
            d['operand'] = [float(round(rng.choice([ref['SD'], ref['SD'] * 10 ** rng.uniform(-0.5, 0.5)]) + 1.0)) for _ in range(m)]
        else:
            d['operand'] = [float(round(rng.choice([ref['ND'], ref['ND'] * 10 ** rng.uniform(-2.0, 2.0)]) + 1.0)) for _ in range(m)]
        if lay.startswith('frame') and rng.random() < 0.5:
            d['index'] = rng.sample(range(1, 50), n)
            d['index_name'] = 'element_id'
        if lay in ('series_prob_array', 'frame_prob_array'):
            d['p'] = [gen_p(rng) for _ in range(n if lay == 'frame_prob_array' else rng.randint(1, 4))]
        out.append(d)
    # dtype dimension: frames of curves whose integral columns are stored as integers (what pandas infers from
    # `k_1=[3, 5]`), with every kind of k_2 (inf, integral, finite non-integral) and operands on both branches
    frame_layouts = [l for l in layouts if l.startswith('frame')]
    for i in range(n_cases // 3):
        lay = frame_layouts[i % len(frame_layouts)]
        n = rng.randint(1, 4)
        curves = [gen_int_curve(rng) for _ in range(n)]
        op = rng.choice(['cycles', 'load'])
        cand = [k for k in ('k_2', 'SD', 'ND', 'TN', 'TS')
                if all(math.isfinite(c[k]) and c[k] == round(c[k]) for c in curves)]
        d = {'layout': lay, 'op': op, 'curves': curves, 'p': gen_p(rng),
             'int_columns': ['k_1'] + [k for k in cand if rng.random() < 0.4]}
        if i % 5 == 4:
            d['int_columns'] = [k for k in cand if rng.random() < 0.6]       # float k_1, other integer columns
        m = n if lay in ('frame_array', 'frame_series_aligned', 'frame_int_array') else (1 if lay == 'frame_scalar' else rng.randint(1, 4))
        d['operand'] = []
        for j in range(m):          # per-curve operands: at the knee, below and above (both branches of every curve)
            ref = curves[j % n]
            base, span = (ref['SD'], 0.5) if op == 'cycles' else (ref['ND'], 2.0)
            d['operand'].append(float(round(rng.choice([base, base * 10 ** rng.uniform(-span, 0.0), base * 10 ** rng.uniform(0.0, span)]) + 1.0)))
        if rng.random() < 0.5:
            d['index'] = rng.sample(range(1, 50), n)
            d['index_name'] = 'element_id'
        if lay == 'frame_prob_array':
            d['p'] = [gen_p(rng) for _ in range(n)]
        if rng.random() < 0.3:
            d['variant'] = rng.choice(['miner_original', 'miner_elementary', 'miner_haibach'])
        out.append(d)
    # integer operand arrays of every width / signedness (cycle counts are naturally unsigned), on both branches:
    # the product layout x op x dtype is enumerated, 16 combinations per round
    for i in range(n_cases // 4):
        lay = ['series_int', 'frame_int_array'][i % 2]
        op = ['load', 'cycles'][(i // 2) % 2]
        odt = INT_DTYPES[::-1][(i // 4) % len(INT_DTYPES)]
        n = 1 if lay == 'series_int' else rng.randint(1, 4)
        curves = [gen_curve(rng) for _ in range(n)]
        m = n if lay == 'frame_int_array' else rng.randint(2, 4)
        xs = []
        for j in range(m):
            ref = curves[j % n]
            base, span = (ref['SD'], 0.5) if op == 'cycles' else (ref['ND'], 2.0)
            x = [base * 10 ** rng.uniform(-span, 0.0), base * 10 ** rng.uniform(0.0, span)][(i + j) % 2]
            xs.append(min(float(round(x + 1.0)), 2.0e9 if odt.endswith('32') else 1e18))
        out.append({'layout': lay, 'op': op, 'curves': curves, 'p': gen_p(rng), 'operand': xs, 'operand_dtype': odt})
    if with_sd0:      # the SD = 0 special case inside a frame / with several target probabilities
        z = gen_curve(rng, sd0=True)
        out.append({'layout': 'frame_prob_scalar', 'op': 'cycles', 'curves': [z, gen_curve(rng)], 'operand': [], 'p': 0.9})
        out.append({'layout': 'frame_prob_scalar', 'op': 'cycles', 'curves': [gen_curve(rng, sd0=True)], 'operand': [], 'p': gen_p(rng)})
        out.append({'layout': 'series_prob_array', 'op': 'cycles', 'curves': [gen_curve(rng, sd0=True)], 'operand': [], 'p': [0.1, 0.9]})
    return out


# --------------------------------------------------------------------------- certificates (the tie of the hand-written model)

def er(x):
    return 'PInf' if math.isinf(x) else '(Fin %s)' % common.rlit(x)


def curve_term(c, SD=None, ND=None, p=None):
    return '(mkcurve %s %s %s %s %s %s %s)' % (
        common.rlit(c['k_1']), er(c['k_2']), common.rlit(c['SD'] if SD is None else SD), common.rlit(c['ND'] if ND is None else ND),
        common.rlit(c['TN']), common.rlit(c['TS']), common.rlit(c['failure_probability'] if p is None else p))


def certificates(res, rng, n_curves, stats_mod):
    """Goals about the model against implementation outputs.  Stage 1: transform_z on the raw parameters and scipy's
    probit values against to_pandas(); stage 2: basquin_cycles_of / basquin_load_of on the implementation's own
    transformed floats against cycles() / load() -- so that loads exactly at the knee are decided exactly."""
    from pylife.utils.functions import scattering_range_to_std, std_to_scattering_range
    goals, descr, probs = [], [], []

    def add(g, d):
        goals.append(g)
        descr.append(d)

    for i in range(n_curves):
        c = gen_curve(rng, sd0=(i % 9 == 8))
        w = acc(c)
        for p in [gen_p(rng), rng.choice([c['failure_probability'], 0.5, gen_p(rng)])]:
            probs += [p, c['failure_probability']]
            z0, z = float(stats_mod.norm.ppf(c['failure_probability'])), float(stats_mod.norm.ppf(p))
            t = w.transform_to_failure_probability(p).to_pandas()
            SDp, NDp = float(t.SD), float(t.ND)
            if not (math.isfinite(SDp) and math.isfinite(NDp)):
                res.oblige('certificate %s' % (('transform', c, p),), False, 'implementation returned SD=%r ND=%r' % (SDp, NDp))
                continue
            g = 'let c := transform_z %s %s %s %s in %s /\\ %s' % (
                curve_term(c), common.rlit(z0), common.rlit(z), common.rlit(p),
                cert.near('SD c', SDp, 1e-10, 1e-300 if SDp else 1e-12), cert.near('ND c', NDp, 1e-10, 1e-300))
            add(g, ('transform', c, p))
            same = all(float(t[k]) == float(c[k]) for k in ('k_1', 'k_2', 'TN', 'TS')) and float(t.failure_probability) == p
            res.oblige('transform copies k_1, k_2, TN, TS and sets failure_probability %s' % ((c, p),), same, t.to_dict())
            if c['SD'] == 0.0:
                continue
            ct = curve_term(c, SD=SDp, ND=NDp, p=p)
            e1, e2 = rng.choice([1e-12, 1e-9, 1e-6, 1e-3]), rng.choice([1e-12, 1e-9, 1e-6, 1e-3])
            for L in [SDp, float(np.nextafter(SDp, 0)), float(np.nextafter(SDp, INF)), SDp * (1 + e1), SDp * (1 - e2),
                      SDp * rng.uniform(1.0, 3.0), SDp * rng.uniform(0.3, 1.0)]:
                N = float(w.cycles(L, p))
                if math.isnan(N):
                    res.oblige('certificate %s' % (('cycles', c, p, L, N),), False, 'implementation returned NaN')
                elif math.isinf(N):
                    add('er_inf (basquin_cycles_of %s %s)' % (ct, common.rlit(L)), ('cycles', c, p, L, 'inf'))
                else:
                    add('er_near (basquin_cycles_of %s %s) %s %s' % (ct, common.rlit(L), common.rlit(N), cert.tol_lit(1e-10 * abs(N))),
                        ('cycles', c, p, L, N))
            for N in [NDp, float(np.nextafter(NDp, 0)), float(np.nextafter(NDp, INF)), NDp * (1 + e2), NDp * (1 - e1),
                      NDp * 10 ** rng.uniform(0.0, 2.0), NDp * 10 ** rng.uniform(-3.0, 0.0)]:
                L = float(w.load(N, p))
                if not math.isfinite(L):
                    res.oblige('certificate %s' % (('load', c, p, N, L),), False, 'implementation returned a non-finite load')
                    continue
                add(cert.near('basquin_load_of %s %s' % (ct, common.rlit(N)), L, 1e-10, 1e-300), ('load', c, p, N, L))
        if c['SD'] == 0.0:
            continue
        # Miner variants against to_pandas()
        for name in ('miner_original', 'miner_elementary', 'miner_haibach'):
            k2 = float(getattr(w, name)().to_pandas().k_2)
            if math.isinf(k2):
                add('er_inf (k_2 (%s %s))' % (name, curve_term(c)), (name, c, 'inf'))
            else:
                add('er_near (k_2 (%s %s)) %s %s' % (name, curve_term(c), common.rlit(k2), cert.tol_lit(1e-14 * abs(k2))), (name, c, k2))
        # the generated conversions
        T, s = rng.uniform(1.0, 30.0), rng.uniform(0.0, 0.6)
        add(cert.near(cert.app('fn_scattering_range_to_std', T), float(scattering_range_to_std(T)), 1e-12, 1e-16), ('scattering_range_to_std', T))
        add(cert.near(cert.app('fn_std_to_scattering_range', s), float(std_to_scattering_range(s)), 1e-12), ('std_to_scattering_range', s))
    return goals, descr, probs


def ppf_contract(res, stats_mod, probs, n_phi):
    """The contract the theorems assume about scipy.stats.norm.ppf, on the probabilities this run used; a few values are
    certified against the defined Phi by CoqInterval's integral."""
    ps = sorted({float(p) for p in probs} | {0.1, 0.5, 0.9})
    z = [float(stats_mod.norm.ppf(p)) for p in ps]
    inc = all(z[i] < z[i + 1] for i in range(len(z) - 1))
    res.oblige('contract: norm.ppf strictly increasing on the %d sampled probabilities' % len(ps), inc, list(zip(ps, z))[:40])
    anti = [(p, zz, float(stats_mod.norm.ppf(1 - p))) for p, zz in zip(ps, z) if abs(float(stats_mod.norm.ppf(1 - p)) + zz) > 1e-9 * (1 + abs(zz))]
    res.oblige('contract: norm.ppf(1-p) = -norm.ppf(p) on the sampled probabilities', not anti, anti[:10])
    res.oblige('contract: norm.ppf(0.9) is the float z9 of theorem quantile_exponent_near_1', abs(float(stats_mod.norm.ppf(0.9)) - Z9) <= 1e-15,
               float(stats_mod.norm.ppf(0.9)))
    step = max(1, len(ps) // n_phi)
    sel = ps[::step][:n_phi]
    text = cert.HEADER % '\n'.join(REQ)
    for p in sel:
        text += 'Goal Rabs (Phi %s - %s) <= 1 / 10 ^ 10.\nProof. phi_cert. Qed.\n' % (common.rlit(float(stats_mod.norm.ppf(p))), common.rlit(p))
    ok, out = common.coq_scratch('C08_phi', text, timeout=600)
    if not ok:          # killed / starved coqc on an overloaded machine is not a result: one retry
        ok, out = common.coq_scratch('C08_phi', text, timeout=600)
    res.oblige('contract: |Phi(norm.ppf(p)) - p| <= 1e-10 certified by integral for %d sampled p' % len(sel), ok, out[-1500:])
    res.cov['ppf_probabilities_checked'] = len(ps)
    res.cov['phi_certificates'] = len(sel)


# --------------------------------------------------------------------------- run / replay

def setup_res(res):
    res.classes['sd0_in_broadcast'] = class_sd0_in_broadcast
    res.classes['int_k1_column'] = class_int_k1_column
    res.classes['unsigned_cycles'] = class_unsigned_cycles
    res.trusted += ['hand-written model coq/theories/Woehler/Model.v (tied to woehlercurve.py by per-run certificates only)',
                    'py2coq translator + whitelist specs/c08.py (GenWoehlerFunctions from utils/functions.py)',
                    'CoqInterval (interval / integral tactics) for certificates; float -> exact rational conversion',
                    'axioms: ClassicalDedekindReals.sig_forall_dec, sig_not_dec, functional_extensionality_dep (Coq Reals), Classical_Prop.classic (Coquelicot); '
                    'z9_is_the_90_percent_quantile only: Uint63/PrimInt63 primitive-integer axioms of the standard library (CoqInterval BigZ)']
    res.assumptions += ['floating-point rounding is outside the theorems: certificates compare at 1e-10 relative, float relations at 1e-9 .. 1e-12',
                        'scipy.stats.norm.ppf enters the theorems only through "strictly increasing" and "ppf(1-p) = -ppf(p)"; both and |Phi(ppf p) - p| <= 1e-10 are checked on samples',
                        'loads and cycle numbers > 0, k_1 > 0 (generated: k_1 in (1, 15]), k_2 >= k_1 or inf, SD, ND > 0 (SD = 0 only for the transformation), TN, TS >= 1',
                        'pandas index alignment of broadcast inputs is checked against scalar evaluation, not modelled (C13)']


def run(res):
    quick = res.tier == 'quick'
    setup_res(res)
    stats_mod = _imports()
    res.cov['rule'] = ('curves: k_1 in (1,15] (real and integral), k_2 in {k_1, 2k_1-1, 25, inf, k_1+U(0,10)}, SD 10..800 (every 9th certificate curve SD = 0), ND 1e4..2e7, '
                       'TN in {1, U(1,20), U(1,3)}, TS in {1, U(1,3), TN^(1/k_1)}, native and target P_f in {0.5, 0.1, 0.9, U(0.001,0.999), 1e-6..1e-2, 1-1e-6..1-1e-2}; '
                       'loads/cycles exactly at the (transformed) knee, one ulp and 1e-12 relative either side, and up to a factor 5 / 1e3 away; '
                       'broadcast: 11 layouts, plus frames of integral curves whose columns (k_1 always or never, k_2/SD/ND/TN/TS at random) are stored as int64, '
                       'k_2 in {inf, integral, finite non-integral}, operands per curve at / below / above the knee, optionally a Miner variant applied to the frame; '
                       'integer operand arrays int64/int32/uint64/uint32 on both branches for cycles and load; '
                       'non-trivial = distinct certificate inputs whose target P_f differs from the native one or whose load/cycle is off the knee, plus '
                       'relation inputs counted distinct by their input')
    proofs_ok = common.standard_proof_stage(res, 'C08', extra_targets=['theories/Common/Cert.vo', 'theories/Woehler/WCert.vo'],
                                            allowed=_Allowed(), gen_fn=lambda: gen_specs.generate(GEN))
    for t in res.cov.get('theorems', []):
        if t['name'] != 'z9_is_the_90_percent_quantile':
            extra = [a for a in t['axioms'] if a not in common.ALLOWED_AXIOMS]
            res.oblige('theorem %s uses only the Reals/Coquelicot axioms' % t['name'], not extra, extra)
    n_curves, n_rel, n_bc, n_phi = (20, 60, 66, 6) if quick else (160, 500, 330, 24)
    stats, seeds, probs = {}, [], []
    # D1: certificates
    cert_ready = common.coq_make(['theories/Common/Cert.vo', 'theories/Woehler/WCert.vo'])[0]
    if cert_ready:
        try:
            goals, descr, probs = certificates(res, res.rng, n_curves, stats_mod)
            chunk = min(150, max(30, -(-len(goals) // common.NCPU)))
            ok, bad, log = cert.run_certs('C08', REQ, [], goals, extra_tac='wc_prep;', chunk=chunk, timeout=1500)
            if bad:     # a killed / starved coqc (overloaded machine) must not count as a result: re-check the failed goals once
                ok2, bad2, log2 = cert.run_certs('C08r', REQ, [], [goals[i] for i in bad], extra_tac='wc_prep;', chunk=chunk, timeout=1500)
                res.cov['certificate_goals_retried'] = len(bad)
                ok, bad, log = sorted(set(ok) | {bad[j] for j in ok2}), [bad[j] for j in bad2], log2
            oks = set(ok)
            for i in range(len(goals)):
                res.oblige('certificate %s' % (descr[i],), i in oks, log if i not in oks else '')
            nontriv = {repr(d) for d in descr if not (d[0] == 'transform' and d[2] == d[1]['failure_probability'])}
            res.add_cases(len(goals), nontrivial=len(nontriv))
            for d in descr[:3] + descr[12:14]:
                res.sample({'certificate': d})
            res.cov['certificate_goals'] = len(goals)
            res.cov['certificate_kinds'] = {k: sum(1 for d in descr if d[0] == k) for k in sorted({d[0] for d in descr})}
            res.cov['certificate_failed_inputs'] = [descr[i] for i in bad][:20]
            seeds = [descr[i] for i in bad][:30]
        except Exception as e:
            res.oblige('certificates could be generated and run', False, repr(e))
    else:
        res.oblige('certificate tactics build (Common/Cert.vo, Woehler/WCert.vo)', False)
    # D2: contract of ppf
    try:
        ppf_contract(res, stats_mod, probs + [gen_p(res.rng) for _ in range(40)], n_phi)
    except Exception as e:
        res.oblige('ppf contract could be checked', False, repr(e))
    # D3 / search: the property's relations on the implementation -- first on the inputs whose certificates failed
    for d in seeds:
        if d[0] in ('transform', 'cycles', 'load') and d[1]['SD'] > 0:
            scalar_relations(res, res.rng, d[1], d[2], stats, extra_loads=[d[3]] if d[0] == 'cycles' else (),
                             extra_cycles=[d[3]] if d[0] == 'load' else ())
        elif d[0].startswith('miner'):
            run_rel(res, 'miner', {'curve': d[1]}, stats)
    distinct = set()
    # corpus: hand-picked edge cases and minimised earlier failures, always run
    cdir = os.path.join(common.CORPUS, 'C08')
    for fn in sorted(os.listdir(cdir)) if os.path.isdir(cdir) else []:
        if fn.endswith('.json'):
            cc = json.load(open(os.path.join(cdir, fn)))
            run_rel(res, cc['relation'], cc['input'], stats)
            distinct.add(repr(cc['input']))
    res.cov['corpus_cases'] = len(distinct)
    for i in range(n_rel):
        c = gen_curve(res.rng)
        p = gen_p(res.rng)
        scalar_relations(res, res.rng, c, p, stats)
        distinct.add(repr((c, p)))
        if i % 4 == 0:
            SDp, NDp = tr(c, p)
            run_rel(res, 'fatigue', {'curve': c, 'p': p, 'amplitude': [SDp * f for f in (0.6, 1.0, 1.7)], 'cycles': [NDp * f for f in (0.01, 1.0, 30.0)]}, stats)
            run_rel(res, 'std', {'T': res.rng.uniform(1.0, 50.0), 's': res.rng.uniform(0.0, 1.0)}, stats)
            run_rel(res, 'defaults', {'k_1': c['k_1'], 'SD': c['SD'], 'ND': c['ND'], 'T': res.rng.uniform(1.0, 5.0), 'p': p}, stats)
            z = dict(c, SD=0.0)          # the SD = 0 special case of the transformation (scalar curve)
            run_rel(res, 'transform', {'curve': z, 'p1': p, 'p2': gen_p(res.rng)}, stats)
    for d in broadcast_cases(res.rng, n_bc, with_sd0=True):
        run_rel(res, 'broadcast', d, stats)
        distinct.add(repr(d))
    total = sum(stats.values())
    res.add_cases(total, nontrivial=len(distinct))
    res.cov['impl_relation_evaluations'] = dict(stats)
    res.sample({'relation': 'inverse/antitone/knee/slope/miner/pf_monotone/quantile/transform', 'example_curve': gen_curve(res.rng)})
    # E: known findings
    res.replay_known(lambda e: bool(RELS[e['witness']['relation']](copy.deepcopy(e['witness']['input']))))


def replay(res, rp):
    """Re-evaluate the failing input of a replay file on the implementation (exit 1 while it still fails)."""
    setup_res(res)
    _imports()
    v = rp.get('violation')
    if not v or v.get('relation') not in RELS:
        print('replay without a concrete input: running the whole check')
        run(res)
        return res.finish()
    fl = run_rel(res, v['relation'], v['input'], {})
    print('replay %s on %s: %s' % (v['relation'], str(v['input'])[:300], ('still fails: %s' % fl[:2]) if fl else 'passes now'))
    res.add_cases(1, nontrivial=1)
    return res.finish()
