"""C13 -- signal broadcasting aligns operands without altering data or inputs.

Model: coq/theories/Core/Broadcast.v (hand-written): indexed object = level names + association list key -> row;
[bcast] = outer alignment on shared levels / cross product; [bcast_impl] = the save / name / recode / join / decode /
restore sequence of Broadcaster._broadcast_frame_to_frame including pandas' `equals` short-circuit.
Tie: correspondence by vm_compute on generated layouts (every observable: result keys, which original row each result
row carries, result level names, operands after the call).  On every run the property's own oracle is evaluated on the
implementation (identical index, each row carries the value of its restricted key or NaN, nothing lost, operands
unchanged, downstream Woehler calculation = element-by-element scalar calls) = failing-input search."""
import glob
import json
import math
import os

import numpy as np
import pandas as pd

import bc
import common

MANIFEST = dict(
    text='Theorems (props/C13.v, 28, all closed under the global context) about a hand-written Gallina model of Broadcaster.broadcast. '
         'Join [bcast] (outer alignment on shared level names / cross product on disjoint ones, keys over obj levels ++ new parameter levels): '
         'same_index; rows_carry_restricted_value (every result row carries exactly the payload the original held for the row key restricted to the '
         "original's levels, or NaN when it has no such key -- unbounded: all level layouts, level orders, key sets); no_object_row_lost / "
         'no_parameter_row_lost (rows with a partner or a complete key are in the result); bcast_raises_iff with equal_/disjoint_/all_matched_/contained_defined '
         '(the layouts of the quantifier return) and contained_defined_refuted (known finding). Implementation sequence [bcast_impl] (fresh names for None, '
         'per-level tables shared by both operands, positional codes, join on codes, decode, restore): decode_encode, table_complete, recode_transparent '
         '(= the join of the operands themselves unless the coded indices coincide; proved by showing that the join commutes with every per-level recoding that is '
         'injective on the tables), impl_rows_carry_restricted_value, recode_transparent_refuted (known finding), operands_restored on every normal return, '
         'exception_iff, operands_left_recoded_on_exception. Dispatch of Broadcaster.broadcast in front of it [broadcast_top]: paramset_iff (only a Series with exactly one, '
         'unnamed, level is a set of parameters), row_indexed_joined_as_is (DataFrame / several levels even if all unnamed / any named level, however the name looks: joined as '
         'it is), object_levels_survive, paramset_on_parameter_levels. Options / index kinds (Core/BroadcastOpts.v): a single level may be held by an Index, a one-level MultiIndex or a '
         'RangeIndex; range_coded_by_value (the re-coding looks VALUES up whatever holds them), positional_code_only_if + range_positional_refuted (coding a RangeIndex by position is right only if '
         'the level table lists its values first and in order; witness: object keys 2,0,3,1 against RangeIndex(4) of the same name); droplevel [drop_prm] = the aligned rows grouped by the '
         'result levels without the dropped ones: drop_prm_keys / drop_prm_one_row_per_key (exactly the keys of the aligned rows without the dropped components, each once: rows are told apart by '
         'key, equal values never merge rows), drop_prm_carries (each carries what the original parameter held for that key restricted to its levels, when only levels the parameter lacks are dropped). The model (including the observed pandas align/join behaviour and its `equals` short-circuit) is tied '
         'to the code by vm_compute correspondence on generated layouts on every run; the property oracle runs on the implementation on every run.',
    note=common.TB_NOTE + 'all C13 theorems are closed under the global context. Model is hand-written (pandas align/join behaviour included as '
         'observed): the correspondence harness (generator, canonicalisation of pandas objects into key/row lists, Coq literals) is trusted; '
         'payloads are integer-valued floats so that a row identifies its origin exactly; float arithmetic only in the downstream Woehler relation '
         '(compared at 1e-12 relative against scalar calls of the same implementation); droplevel is exercised with levels that only the object has (the documented use, HaighDiagram.transform) '
         'and not together with integer level names (open finding integer-level-name); value ties are generated as whole equal rows; the HaighDiagram callers themselves are not covered (C12).',
    technique='Coq proof over hand-written Gallina model + vm_compute correspondence + property oracle on the implementation',
    design='6/C13')

W_RAISE = 'broadcast raises for operands inside the quantifier'
W_INDEX = 'the two results do not have the same index'
W_MODIFIED = 'an operand was modified by broadcast'
W_DOWNSTREAM = 'calculation on broadcast operands differs from the element-by-element scalar result'


# ----------------------------------------------------------------------------------------- classes of known findings

def _ops(d):
    return bc.Operand.from_description(d['obj']), bc.Operand.from_description(d['prm'])


def cls_coincident(d):
    if 'prm' not in d or not isinstance(d.get('prm'), dict):
        return False
    O, P = _ops(d)
    if not bc.coincident_codes(O, P):
        return False
    exc = d.get('exception')
    return exc is None or exc.startswith('KeyError')


def cls_contained(d):
    if 'prm' not in d or not isinstance(d.get('prm'), dict):
        return False
    O, P = _ops(d)
    return bc.extra_key_of_contained(O, P) and not bc.coincident_codes(O, P) and str(d.get('exception', '')).startswith('IndexError')


def cls_nonstring(d):
    """Series object whose keys are not all strings, array-like parameter: DataFrame.assign(**obj) needs string keywords."""
    if d.get('path') != 'series x array':
        return False
    O = bc.Operand.from_description(d['obj'])
    keys = [k[0] if len(k) == 1 else tuple(k) for k in O.keys]
    return any(not isinstance(k, str) for k in keys) and str(d.get('exception', '')).startswith('TypeError')


def cls_int_level_name(d):
    """An index level named by an integer; observed as NaN instead of the original's values (pandas joins a MultiIndex that has a
    level NAMED 0 on level NUMBER 0) or IndexError 'Too many levels' (get_level_values(1) on a one-level Index named 1)."""
    if 'prm' not in d or not isinstance(d.get('prm'), dict):
        return False
    O, P = _ops(d)
    if not bc.int_level_name(O, P):
        return False
    exc = d.get('exception')
    return exc is None or exc.startswith("IndexError('Too many levels")


def cls_one_level_mi(d):
    """The single index level of an operand is held by a one-level MultiIndex: _IndexLevelCache looks the level up by
    `index.name`, which is None for every MultiIndex -> KeyError(None)."""
    if 'prm' not in d or not isinstance(d.get('prm'), dict):
        return False
    O, P = _ops(d)
    return bc.one_level_multiindex(O, P) and str(d.get('exception', '')).startswith('KeyError(None')


def droplevel_one_level_left(O, P, D):
    """Class of the known finding C13/droplevel-one-level-left: droplevel given, the operands share a level (align branch), the
    result has more than two levels and exactly ONE of them is left for the parameter after dropping."""
    if not D or (O.kind == 'S' and O.levels == [None]):
        return False
    tot = bc.total_levels(O.levels, P.levels)
    return bool(bc.shared_levels(O.levels, P.levels)) and len(tot) > 2 and len([n for n in tot if n is None or n not in D]) == 1


def cls_droplevel_one_left(d):
    """`prm.groupby(prm_columns).first()` with one remaining column returns a plain Index, on which
    `prm.reorder_levels(prm_columns)` (taken when the aligned object has more than two levels) raises."""
    if 'prm' not in d or not isinstance(d.get('prm'), dict) or not d.get('droplevel'):
        return False
    O, P = _ops(d)
    exc = str(d.get('exception', ''))
    return droplevel_one_level_left(O, P, d['droplevel']) and (
        exc.startswith("TypeError('Can only reorder levels on a hierarchical axis") or exc.startswith("Exception('Can only reorder levels on a hierarchical axis"))


CLASSES = {'droplevel_one_level_left': cls_droplevel_one_left, 'coincident_codes': cls_coincident, 'contained_extra_key': cls_contained, 'series_nonstring_keys_array': cls_nonstring,
           'integer_level_name': cls_int_level_name, 'one_level_multiindex': cls_one_level_mi}


# ----------------------------------------------------------------------------------------- one frame-to-frame case

class Case:
    def __init__(self, O, P, D=None):
        self.O, self.P, self.D = O, P, (list(D) if D else None)
        obj, prm = O.build(), P.build()
        o0, p0 = bc.snapshot(obj), bc.snapshot(prm)
        d0 = list(self.D) if self.D else None
        st, p, o = bc.run_impl(obj, prm, **({'droplevel': d0} if d0 else {}))
        self.ob = bc.observe(O, P, obj, prm, st, p, o, droplevel=self.D or ())
        self.intact = bc.same_operand(obj, o0) and bc.same_operand(prm, p0) and d0 == self.D
        self.inq = bc.in_quantifier(O, P)

    def failure(self):
        """(what, detail) of the property failure on this input, or None.  Only inputs inside the quantifier can fail."""
        if not self.inq:
            return None
        ob = self.ob
        if ob.raised is not None:
            return W_RAISE, {'exception': repr(ob.raised)[:200], 'operands_intact_after_exception': self.intact}
        if ob.problems:
            return ob.problems[0][0], {'detail': ob.problems[0][1]}
        if not self.intact:
            return W_MODIFIED, {}
        return None


def report(res, O, P, what, extra, D=None):
    if D:
        extra = dict(extra, droplevel=list(D))
    return res.violation(what, path='frame x frame', obj=O.describe(), prm=P.describe(), **extra)


def shrink(O, P, what, D=None):
    """Greedy: drop rows / columns while the same failure persists."""
    def fails(o, p):
        try:
            f = Case(o, p, D).failure()
        except Exception:
            return False
        return f is not None and f[0] == what
    cur = (O, P)
    changed = True
    while changed:
        changed = False
        for which in (0, 1):
            X = cur[which]
            for i in range(len(X.keys)):
                if len(X.keys) <= 1:
                    break
                Y = X.clone(keys=X.keys[:i] + X.keys[i + 1:])
                cand = (Y, cur[1]) if which == 0 else (cur[0], Y)
                if fails(*cand):
                    cur, changed = cand, True
                    break
            if changed:
                break
            if X.kind == 'F' and len(X.cols) > 1:
                Y = X.clone(cols=X.cols[:1])
                cand = (Y, cur[1]) if which == 0 else (cur[0], Y)
                if fails(*cand):
                    cur, changed = cand, True
    return cur


# ----------------------------------------------------------------------------------------- scalar / array parameters

def scalar_array_relations(res, rng, n):
    from pylife.core.broadcaster import Broadcaster
    terms, meta = [], []
    cnt = 0
    rejected = 0
    for it in range(n):
        okind = rng.choice(['S', 'F'])
        lv = rng.choice([[None], ['a'], ['a', 'b'], [None, 'a'], [None, None], [''], [0], ['', None]])
        keys = bc.rand_keys(rng, lv, rng.randint(1, 5))
        if okind == 'S' and rng.random() < 0.6:
            lv = rng.choice([[None], ['a'], ['']])
            keys = [(c,) for c in rng.sample(['k_1', 'ND', 'SD', 'TN'], rng.randint(1, 4))]
        O = bc.Operand(okind, lv, keys, cols=['u', 'w'][:rng.randint(1, 2)])
        obj = O.build()
        o0 = bc.snapshot(obj)
        mode = rng.choice(['scalar', 'int', 'array', 'array', 'list', 'array1'])
        nrow = len(keys)
        if mode == 'scalar':
            prm = rng.choice([2.5, -1.0, 1e9])
        elif mode == 'int':
            prm = rng.choice([3, 0, -7])
        else:
            m = 1 if mode == 'array1' else (nrow if (okind == 'F' and rng.random() < 0.8) else rng.randint(1, 5))
            vals = [float(5000 + 8 * i) for i in range(m)]
            prm = np.array(vals) if mode != 'list' else vals
        prm0 = bc.snapshot(prm)
        path = ('series' if okind == 'S' else 'frame') + ' x ' + ('scalar' if mode in ('scalar', 'int') else 'array')
        inp = dict(path=path, obj=O.describe(), parameter=prm0.tolist() if isinstance(prm0, np.ndarray) else prm0)
        cnt += 1
        try:
            p, o = Broadcaster(obj).broadcast(prm)
        except Exception as e:
            if path == 'frame x array' and isinstance(e, ValueError) and len(prm0) not in (1, nrow):
                rejected += 1        # documented rejection: dimension mismatch
                terms.append('check_array %s %s %d%%nat None' % (bc.names_lit(lv), bc.keys_lit(bc.Enc(), keys), len(prm0)))
                meta.append(inp)
                continue
            res.violation(W_RAISE, exception=repr(e)[:200], **inp)
            continue
        bad = None
        if not bc.same_operand(obj, o0) or (isinstance(prm, np.ndarray) and not np.array_equal(prm, prm0)):
            bad = W_MODIFIED
        elif path == 'series x scalar':
            if not (np.ndim(p) == 0 and float(p) == float(prm0) and isinstance(o, pd.Series) and bc.same_operand(o, o0)):
                bad = 'broadcast of a Series to a scalar does not return the scalar and the Series'
        elif path == 'frame x scalar':
            if not (isinstance(p, pd.Series) and p.index.identical(o0.index) and all(float(v) == float(prm0) for v in p) and bc.same_operand(o, o0)):
                bad = 'broadcast of a DataFrame to a scalar does not return the frame and the scalar on its index'
        elif path == 'series x array':
            m = len(prm0)
            ok = (isinstance(p, pd.Series) and isinstance(o, pd.DataFrame) and o.index.equals(p.index) and len(o) == m
                  and [float(v) for v in p] == [float(v) for v in prm0]
                  and list(o.columns) == list(o0.index)
                  and all([float(v) for v in o.iloc[i]] == [float(v) for v in o0] for i in range(m)))
            if not ok:
                bad = 'broadcast of a Series to an array does not repeat the Series per array element'
        else:
            m = len(prm0)
            exp = [float(prm0[i if m > 1 else 0]) for i in range(nrow)]
            ok = (isinstance(p, pd.Series) and p.index.identical(o0.index) and [float(v) for v in p] == exp and bc.same_operand(o, o0))
            if not ok:
                bad = 'broadcast of a DataFrame to an array does not pair rows and elements by position'
            enc = bc.Enc()
            rows = [(k, i, (i if m > 1 else 0)) for i, k in enumerate(keys)]
            got = [(k, i, int((float(v) - 5000) / 8)) for i, (k, v) in enumerate(zip(keys, p))] if isinstance(p, pd.Series) and len(p) == nrow else rows
            terms.append('check_array %s %s %d%%nat (Some %s)' % (bc.names_lit(lv), bc.keys_lit(enc, keys), m, bc.rows_lit(enc, got)))
            meta.append(inp)
        if bad:
            res.violation(bad, **inp)
    return cnt, rejected, terms, meta


# ----------------------------------------------------------------------------------------- downstream calculation

def woehler_relation(res, rng, n):
    """allowable cycles / loads of per-element Woehler curves for per-scenario loads = element-by-element scalar calls"""
    import pylife.materiallaws.woehlercurve  # noqa: registers the accessor
    cnt = 0
    for it in range(n):
        ne, ns = rng.randint(1, 4), rng.randint(1, 4)
        elements = rng.sample([1, 2, 3, 5, 8, 13], ne)
        scen = rng.sample(['s1', 's2', 's3', 's4', 's5'], ns)
        curves = pd.DataFrame({
            'k_1': [rng.choice([3.0, 5.0, 7.0]) for _ in range(ne)],
            'ND': [rng.choice([1e6, 2e6, 5e5]) for _ in range(ne)],
            'SD': [rng.uniform(100., 400.) for _ in range(ne)],
        }, index=pd.Index(elements, name='element_id'))
        if rng.random() < 0.5:
            curves['k_2'] = [rng.choice([np.inf, 9.0, 13.0]) for _ in range(ne)]
        if rng.random() < 0.5:
            curves['TN'] = [rng.choice([1.0, 1.5, 4.0]) for _ in range(ne)]
        lay = rng.choice(['scenario', 'element+scenario', 'scenario+element', 'element', 'array', 'scalar'])
        if lay == 'scenario':
            load = pd.Series([rng.uniform(50., 600.) for _ in scen], index=pd.Index(scen, name='scenario'))
        elif lay in ('element+scenario', 'scenario+element'):
            pairs = [(e, s) for e in elements for s in scen]
            rng.shuffle(pairs)
            pairs = pairs[:rng.randint(max(ne, ns), len(pairs))] if len(pairs) > max(ne, ns) else pairs
            if lay == 'element+scenario':
                idx = pd.MultiIndex.from_tuples(pairs, names=['element_id', 'scenario'])
            else:
                idx = pd.MultiIndex.from_tuples([(s, e) for e, s in pairs], names=['scenario', 'element_id'])
            load = pd.Series([rng.uniform(50., 600.) for _ in pairs], index=idx)
        elif lay == 'element':
            perm = elements[:]
            rng.shuffle(perm)
            load = pd.Series([rng.uniform(50., 600.) for _ in perm], index=pd.Index(perm, name='element_id'))
        elif lay == 'array':
            load = np.array([rng.uniform(50., 600.) for _ in elements])
        else:
            load = rng.uniform(50., 600.)
        fp = rng.choice([0.5, 0.5, 0.1])
        which = rng.choice(['cycles', 'cycles', 'load'])
        if which == 'load' and not isinstance(load, float):
            load = load * 1000.0      # interpreted as cycle numbers
        c0, l0 = curves.copy(deep=True), bc.snapshot(load)
        cnt += 1
        inp = dict(path='woehler.' + which, curves={c: [float(v) for v in curves[c]] for c in curves.columns}, elements=elements,
                   layout=lay, failure_probability=fp,
                   load=(load.tolist() if isinstance(load, np.ndarray) else load) if not isinstance(load, pd.Series) else
                   {'index_names': list(load.index.names), 'keys': [list(k) if isinstance(k, tuple) else [k] for k in load.index], 'values': [float(v) for v in load]})
        try:
            wc = curves.copy(deep=True).woehler
            got = getattr(wc, which)(load, fp)
        except Exception as e:
            res.violation(W_RAISE, exception=repr(e)[:200], **inp)
            continue
        if isinstance(load, pd.Series) and not bc.same_operand(load, l0):
            res.violation(W_MODIFIED, **inp)
            continue

        def scalar(e, x):
            row = c0.loc[e]
            return float(getattr(pd.Series(row.to_dict()).woehler, which)(float(x), fp))
        exp = {}
        if isinstance(load, pd.Series):
            for k, x in zip(load.index, load):
                d = dict(zip(load.index.names, k if isinstance(k, tuple) else (k,)))
                for e in ([d['element_id']] if 'element_id' in d else elements):
                    exp[(e, d.get('scenario'))] = scalar(e, x)
            if not isinstance(got, pd.Series):
                res.violation(W_DOWNSTREAM, detail='result is not a Series', **inp)
                continue
            gotd = {}
            for k, v in zip(got.index, got):
                d = dict(zip(got.index.names, k if isinstance(k, tuple) else (k,)))
                gotd[(d.get('element_id'), d.get('scenario'))] = float(v)
        else:
            arr = np.broadcast_to(np.asarray(load, dtype=float), (ne,))
            exp = {(e, None): scalar(e, x) for e, x in zip(elements, arr)}
            gotd = {(e, None): float(v) for e, v in zip(elements, np.broadcast_to(np.asarray(got, dtype=float), (ne,)))}
        ok = set(exp) == set(gotd) and all(
            (math.isinf(exp[k]) and exp[k] == gotd[k]) or abs(exp[k] - gotd[k]) <= 1e-12 * abs(exp[k]) for k in exp)
        if not ok:
            diff = [(k, exp.get(k), gotd.get(k)) for k in sorted(set(exp) | set(gotd), key=repr) if exp.get(k) != gotd.get(k)][:4]
            res.violation(W_DOWNSTREAM, detail=repr(diff), **inp)
    return cnt


# ----------------------------------------------------------------------------------------- run

def corpus_cases():
    out = []
    for f in sorted(glob.glob(os.path.join(common.CORPUS, 'C13', '*.json'))):
        d = json.load(open(f))
        out.append((bc.Operand.from_description(d['obj']), bc.Operand.from_description(d['prm']), d.get('droplevel')))
    return out


def frame_cases(res, pairs, tag):
    """Runs frame-to-frame cases: oracle + violation reporting; returns the correspondence terms."""
    terms, meta, kterms = [], [], []
    stats = {}
    nontriv = set()
    reported = {}
    def count(k):
        stats[k] = stats.get(k, 0) + 1
    for O, P, D in pairs:
        c = Case(O, P, D)
        lo = [] if (O.kind == 'S' and O.levels == [None]) else O.levels
        lay = bc.layout(lo, P.levels)
        outcome = 'raise' if c.ob.raised is not None else ('unaligned' if c.ob.unaligned else 'ok')
        key = '%s/%s/%s' % (lay, 'in' if c.inq else 'outside', outcome)
        stats[key] = stats.get(key, 0) + 1
        if not c.intact:
            k2 = 'operands left modified: ' + ('after exception' if c.ob.raised is not None else 'AFTER NORMAL RETURN')
            stats[k2] = stats.get(k2, 0) + 1
        f = c.failure()
        in_known_class = bc.coincident_codes(O, P) or bc.extra_key_of_contained(O, P)
        int_named = bc.int_level_name(O, P)
        if int_named:
            k3 = 'integer level name: ' + ('property holds' if f is None else 'property FAILS (known finding integer-level-name or reported)')
            stats[k3] = stats.get(k3, 0) + 1
        if O.kind == 'S' and len(O.levels) > 1 and all(n is None for n in O.levels):
            stats['Series object with several levels, all unnamed'] = stats.get('Series object with several levels, all unnamed', 0) + 1
        if O.kind == 'S' and len(O.levels) == 1 and O.levels[0] is not None and not O.levels[0]:
            stats['Series object with one level whose name is falsy'] = stats.get('Series object with one level whose name is falsy', 0) + 1
        # ---- the options / layouts beyond level names and keys (counted: evidence of what the generated stream reaches)
        sh_named = bc.shared_levels(lo, P.levels)
        if D:
            count('option droplevel: ' + ('shared levels (align branch)' if sh_named else 'disjoint levels (cross join)'))
            if len([n for n in bc.total_levels(lo, P.levels) if n is None or n not in D]) == 1:
                count('option droplevel: one level left for the parameter')
        for X, who in ((O, 'object'), (P, 'parameter')):
            if X.rng_index:
                Y = P if X is O else O
                shared = X.levels[0] is not None and X.levels[0] in Y.levels
                count('index kind RangeIndex on the %s: %s' % (who, 'level shared with the other operand' if shared else 'level of its own'))
                if shared:
                    j = Y.levels.index(X.levels[0])
                    first = []
                    for k in Y.keys:
                        if k[j] not in first:
                            first.append(k[j])
                    if first != sorted(first):
                        count('index kind RangeIndex on the %s, other operand lists the keys of that level in non-ascending order' % who)
            if X.ties:
                count('value ties (rows with equal values) in the %s%s' % (who, ', with droplevel' if D else ''))
        in_drop_class = droplevel_one_level_left(O, P, D)
        if f is not None:
            what, extra = f
            if reported.get(what, 0) < 3:
                so, sp = shrink(O, P, what, D) if not (in_known_class or int_named or bc.one_level_multiindex(O, P) or in_drop_class) else (O, P)
                if report(res, so, sp, what, extra, D):
                    reported[what] = reported.get(what, 0) + 1
        elif not c.inq and c.ob.raised is None and not c.intact:
            # outside the quantifier nothing is promised about the result, but a normal return must not modify operands
            report(res, O, P, W_MODIFIED, {}, D)
        if in_drop_class:
            # open known finding outside the model (pandas returns a plain Index for one group column): the oracle above judged it
            count('droplevel, one level left: ' + ('property holds' if f is None else 'property FAILS (known finding droplevel-one-level-left or reported)'))
            if f is not None:
                count('droplevel, one level left: not compared with the model (property fails on the implementation)')
                continue
        t = bc.case_term(O, P, c.ob, D)
        if t is None:
            stats['not expressible in the model (NaN key component / foreign row)'] = stats.get('not expressible in the model (NaN key component / foreign row)', 0) + 1
            continue
        if bc.one_level_multiindex(O, P):
            k3 = 'one-level MultiIndex operand: ' + ('property holds' if f is None else 'property FAILS (known finding one-level-multiindex or reported)')
            stats[k3] = stats.get(k3, 0) + 1
        if (int_named or bc.one_level_multiindex(O, P)) and f is not None:
            # the model knows level names only as names and an index only as level names + keys (pandas' name/number confusion
            # and the Index / one-level MultiIndex distinction are not modelled): where the oracle above found the property
            # violated on the implementation (reported / classified there) there is nothing to compare
            k3 = 'integer level name / one-level MultiIndex: not compared with the model (property fails on the implementation)'
            stats[k3] = stats.get(k3, 0) + 1
            continue
        if in_known_class and c.inq:
            # the model reproduces the registered defects; where the implementation no longer shows one (it satisfies
            # the property on this input, judged by the oracle above) a disagreement with the model is tolerated
            kterms.append((t, f is None, (O.describe(), P.describe(), D)))
            continue
        terms.append(t)
        meta.append((O.describe(), P.describe()) + ((list(D),) if D else ()))
        if c.ob.rows and len(c.ob.rows) >= 2 and (len(lo) + len(P.levels)) >= 2 and c.inq:
            nontriv.add(repr((O.describe(), P.describe(), D)))
    return terms, meta, stats, nontriv, kterms


def run(res, only=None):
    quick = res.tier == 'quick'
    rng = res.rng
    res.classes.update(CLASSES)
    res.trusted += ['hand-written Gallina model coq/theories/Core/Broadcast.v (pandas align/join behaviour included as observed), tied by the correspondence check',
                    'harness/bc.py: canonicalisation of pandas objects into (level names, key tuples, row numbers), Coq literals']
    res.assumptions += ['index keys are unique within an operand (the property quantifies over key sets); duplicate keys are exercised but only counted',
                        'payloads are integer-valued floats, distinct per row unless a value tie is generated (then a result row identifies the tie class of the original row it carries, and the key decides which row it must be)',
                        'droplevel: the returned parameter must have exactly the keys of the returned object without the dropped components, each once, carrying the original value of that key (reading of "identical index" under the option; model theorems drop_prm_keys / drop_prm_one_row_per_key / drop_prm_carries)',
                        'result level ORDER is compared with obj levels ++ new parameter levels only up to the rearrangement pandas align leaves for <= 2 levels (the property does not fix it)',
                        'uuid4 names never collide with user level names (model: Fresh vs User constructors)',
                        'which objects are parameter sets (keys become columns) is read from the documented rule: a Series with exactly one index level that is unnamed; '
                        'the oracle (bc.observe) and the model (is_paramset) implement this reading independently of the implementation',
                        'inputs on which an OPEN known finding outside the model (integer level name, one-level MultiIndex) makes the implementation fail the property are not '
                        'compared with the model (counted in the histogram); where the implementation satisfies the property they are']
    res.cov['rule'] = ('layouts: equal / disjoint / prm-in-obj / obj-in-prm / overlapping level-name sets over 5 names (15%: also the falsy / non-string names \'\', 0, 1 in any '
                       'role), 1-3 levels per operand, permuted level order, unnamed levels incl. Series and DataFrames ALL of whose 2-3 levels are unnamed, parameter-set Series, '
                       'single level held by a one-level MultiIndex (8%) or by a RangeIndex (named / unnamed, mostly start 0 step 1; ~14% of the single-level operands, the other operand keeps its random key order); '
                       'option droplevel (40% of the pairs whose object has named levels of its own: a random non-empty subset of them); value ties (30% of the parameters, 12% of the objects: rows holding equal values in every column); '
                       'Series/DataFrame x Series/DataFrame; 1-6 rows per operand drawn from pools of 3-4 keys per level (so that positional codes coincide '
                       'and key sets differ); overlapping layouts with all shared key tuples present in both (inside the quantifier) and without (outside: counted); '
                       'non-trivial = inside the quantifier, >= 2 result rows, >= 2 levels in total (counted distinct by input)')
    proofs_ok = common.standard_proof_stage(res, 'C13')

    # ---- D1 frame-to-frame: corpus first, then generated layouts
    pairs = corpus_cases()
    ncorp = len(pairs)
    n = 500 if quick else 6000
    for i in range(n):
        pairs.append(bc.gen_case(rng, maxrows=6 if i % 10 else 9))
    terms, meta, stats, nontriv, kterms = frame_cases(res, pairs, 'generated')
    bad, log = common.coq_compare('C13', bc.REQ, terms + [k[0] for k in kterms], shard=250)
    kbad = [i - len(terms) for i in bad if i >= len(terms)]
    bad = [i for i in bad if i < len(terms)]
    tolerated = [i for i in kbad if kterms[i][1]]
    kbad = [i for i in kbad if not kterms[i][1]]
    res.oblige('correspondence model = implementation on %d frame-to-frame broadcasts (result keys, carried rows, level names, operands after the call)' % len(terms),
               not bad, 'disagreeing cases: %s\n%s' % ([meta[i] for i in bad[:3]], log[-1500:]))
    res.oblige('correspondence model = implementation on %d broadcasts inside a known-finding class (model reproduces the defect)' % len(kterms),
               not kbad, 'disagreeing cases: %s\n%s' % ([kterms[i][2] for i in kbad[:3]], log[-1500:]))
    res.cov['known-finding class inputs'] = {'cases': len(kterms), 'defect reproduced by model and implementation': len(kterms) - len(tolerated) - len(kbad),
                                            'implementation satisfies the property, model (of the defect) disagrees: tolerated': len(tolerated)}
    res.add_cases(len(terms), nontrivial=len(nontriv))
    res.cov['corpus_cases'] = ncorp
    res.cov['layout/quantifier/outcome histogram'] = dict(sorted(stats.items()))
    res.cov['correspondence_disagreements'] = len(bad)
    for m in meta[ncorp:ncorp + 3] + meta[:2]:
        res.sample({'obj': m[0], 'prm': m[1], 'droplevel': m[2] if len(m) > 2 else None})

    # ---- D2 scalar / array parameters
    cnt, rejected, aterms, ameta = scalar_array_relations(res, rng, 150 if quick else 1500)
    abad, alog = common.coq_compare('C13a', bc.REQ, aterms, shard=250) if aterms else ([], '')
    res.oblige('correspondence model = implementation on %d DataFrame x array broadcasts' % len(aterms), not abad,
               'disagreeing: %s\n%s' % ([ameta[i] for i in abad[:3]], alog[-1000:]))
    res.add_cases(cnt, nontrivial=0)
    res.cov['scalar/array evaluations'] = cnt
    res.cov['dimension mismatches rejected by the implementation'] = rejected

    # ---- D3 downstream calculation
    k = woehler_relation(res, rng, 60 if quick else 600)
    res.add_cases(k, nontrivial=0)
    res.cov['woehler downstream evaluations'] = k

    # ---- D4 malformed stream: duplicate keys (outside the quantifier): only counted
    dup = {'ok': 0, 'raise': 0, 'operands left re-coded after the exception': 0}
    for i in range(40 if quick else 300):
        O, P = bc.gen_pair(rng)
        X = rng.choice([O, P])
        X.keys = X.keys + [X.keys[0]]
        try:
            c = Case(O, P)
        except Exception:
            continue
        dup['raise' if c.ob.raised is not None else 'ok'] += 1
        if c.ob.raised is not None and not c.intact:
            dup['operands left re-coded after the exception'] += 1
        if c.ob.raised is None and not c.intact:
            report(res, O, P, W_MODIFIED, {})
    res.cov['duplicate-key stream (outside the quantifier, observation only)'] = dup

    # ---- E known findings
    res.replay_known(still_fails)


def still_fails(entry):
    w = entry['witness']
    if w.get('path') == 'series x array':
        from pylife.core.broadcaster import Broadcaster
        O = bc.Operand.from_description(w['obj'])
        try:
            Broadcaster(O.build()).broadcast(np.array(w['parameter']))
            return False
        except Exception:
            return True
    O, P = _ops(w)
    return Case(O, P, w.get('droplevel')).failure() is not None


def replay(res, rp):
    res.classes.update(CLASSES)
    v = rp.get('violation', {})
    if v.get('path') == 'frame x frame':
        O, P = _ops(v)
        D = v.get('droplevel')
        c = Case(O, P, D)
        f = c.failure() or ((W_MODIFIED, {}) if (c.ob.raised is None and not c.intact) else None)
        print('replay:', f, 'droplevel:', D, 'rows:', c.ob.rows, 'parameter rows:', c.ob.prm_rows)
        if f:
            report(res, O, P, f[0], f[1], D)
        res.add_cases(1, 0)
        res.oblige('replayed input satisfies the property', f is None)
    elif v.get('path') == 'series x array':
        e = {'witness': v}
        bad = still_fails(e)
        print('replay: raises' if bad else 'replay: ok')
        if bad:
            res.violation(W_RAISE, **{k: x for k, x in v.items() if k != 'what'})
        res.add_cases(1, 0)
        res.oblige('replayed input satisfies the property', not bad)
    else:
        run(res)
    return res.finish()
