"""C06 -- notch approximation laws (extended Neuber, Seeger-Beste) return the root of their equation, and its inverse.

Tie: py2coq regenerates the implicit functions f(sigma; L), their analytic derivatives and the secondary / load variants
(GenNeuber, GenSeegerBeste, on top of GenRambgood) on every run; the theorems of props/C06.v are about those.
scipy.optimize.newton is NOT modelled: its output is certified per sample (CoqInterval, kernel-checked):
residual of the generated implicit function, bounds L/K_p <= |sigma| <= |L|; the generated functions themselves are tied
to the implementation's private methods by value certificates at random points.  On every run the property's own
relations are evaluated on the implementation against an independent float oracle (residual, bounds, sign, oddness,
monotonicity, load(stress(L)) = L, scalar/array/Series agreement, strain = Ramberg-Osgood strain, analytic derivative =
finite difference): that is the failing-input search."""
import math
import warnings

import numpy as np
import pandas as pd

import cert
import common
import gen_specs

MANIFEST = dict(
    text='Theorems (props/C06.v, 36) about Coq definitions over R that py2coq regenerates on every run from '
         'notch_approximation_law.py, notch_approximation_law_seegerbeste.py and rambgood.py. Extended Neuber (full): the generated '
         'f(s;L) is eq. 2.5-45, strictly increasing in s>0, has exactly one positive root and it lies in [L/K_p, L] (IVT), no root at 0, '
         'equation odd, root strictly increasing in L, the analytic f\' is the derivative (Coquelicot is_derive) on both branches, '
         'secondary branch = Masing doubling, residual |f|<=delta bounds the distance to the root by E*delta, load direction: same '
         'equation, exact roots mutually inverse, load root exists in [s, K_p s]; the fprime used by load() is proved to lie between '
         'D - L/(sE) and the true derivative D (it is not D on the current tree: known finding); the strain reported with a stress '
         'is its Ramberg-Osgood / Masing strain, odd under joint negation of (stress, load), and at a root of either sign '
         '(stress, strain) lies on the Neuber hyperbola of eq. 2.5-45/46. Seeger-Beste (partial): inside '
         '(L/K_p, L) the generated function is eq. 2.8-42 with 0<u<pi/2, joint negation leaves it unchanged, secondary = primary at '
         'half ranges, no root in (L/(3K_p-2), L/K_p]; uniqueness / upper bound of the Seeger-Beste root are NOT proved (checked per '
         'sample). scipy.optimize.newton is not modelled: per sample CoqInterval certificates (kernel-checked) bound the residual of '
         'the generated function at the returned value and its position in [L/K_p, L]; value certificates tie every generated '
         'function to the implementation. Relations on the implementation run on every invocation, with every sign pattern '
         '(positive / alternating / all negative) of the arguments of stress*, strain* and load* of both laws and branches.',
    note=common.TB_NOTE + 'py2coq translator (with the C06 additions: delegate objects, guarded np.power/np.divide idioms) and its whitelist; '
                          'CoqInterval; the float oracle and the float-noise model of the harness; scipy.optimize.newton and float rounding are outside the '
                          'theorems. Cannot exhibit: convergence of the solver for inputs that were not sampled.',
    technique='Coq proof over py2coq-generated real-valued model + CoqInterval certificates of solver output + relations on the implementation',
    design='6/C06')

GEN = ['GenHooke', 'GenRambgood', 'GenTrueStressStrain', 'GenNeuber', 'GenSeegerBeste']
REQ = ['From PLgen Require Import GenRambgood GenNeuber GenSeegerBeste.']
UNFOLD = ['en_strain', 'en_strain_secondary_branch', 'en_d_load_secondary_implicit', 'en_load_secondary_implicit', 'en_d_load_implicit',
          'en_load_implicit', 'en_d_stress_secondary_implicit', 'en_stress_secondary_implicit', 'en_neuber_strain_secondary',
          'en_d_delta_e_star', 'en_delta_e_star', 'en_d_stress_implicit', 'en_stress_implicit', 'en_neuber_strain', 'en_d_e_star', 'en_e_star',
          'sb_strain', 'sb_strain_secondary_branch', 'sb_load_secondary_implicit', 'sb_load_implicit', 'sb_stress_secondary_implicit',
          'sb_middle_term_secondary', 'sb_u_term_secondary', 'sb_neuber_strain_secondary', 'sb_delta_e_star', 'sb_stress_implicit',
          'sb_middle_term', 'sb_u_term', 'sb_neuber_strain', 'sb_e_star',
          'ro_delta_strain', 'ro_tangential_compliance', 'ro_strain', 'ro_elastic_strain', 'ro_plastic_strain']

EPS = 2.0 ** -52

W_ROOT = 'returned value is not a root of the defining equation within the requested tolerance'
W_BOUNDS = 'returned stress is outside [load/K_p, load] or has the wrong sign'
W_ODD = 'returned stress is not odd in the load'
W_MONO = 'returned stress is not increasing in the load'
W_INV = 'load(stress(L)) differs from L'
W_CONT = 'scalar, array and Series inputs give different results'
W_TYPE = 'raises for a scalar or one-element input'
W_DERIV = 'analytic derivative is not the derivative of the implicit function'
W_STRAIN = 'reported strain is not the Ramberg-Osgood strain of the returned stress'
W_MUT = 'call modifies the array it was given'
W_REPEAT = 'repeated call on the same object with the same input gives a different result'

# --------------------------------------------------------------------------- FKM material estimates (guideline table 2.8)
FKM = {'Steel': (206e3, 0.187, 3.1148, 0.897, 1033., -1.235, 0.338),
       'SteelCast': (206e3, 0.176, 1.732, 0.982, 0.847, -0.181, math.inf),
       'Al_wrought': (70e3, 0.128, 9.12, 0.742, 895.9, -1.183, math.inf)}


def fkm_material(group, Rm):
    E, n, a_s, b_s, a_e, b_e, e_g = FKM[group]
    K = a_s * Rm ** b_s / min(e_g, a_e * Rm ** b_e) ** n
    return E, K, n


# --------------------------------------------------------------------------- independent float oracle
def eps_ro(E, K, n, s):
    return s / E + math.copysign((abs(s) / K) ** (1.0 / n), s) if s != 0 else 0.0


def compl_ro(E, K, n, s):
    return 1.0 / E + (abs(s) / K) ** (1.0 / n - 1.0) / (n * K)


def en_f(E, K, n, Kp, s, L, sec=False):
    """eq. 2.5-45 (sec: 2.5-46) evaluated independently of the implementation."""
    if sec:
        return 2.0 * en_f(E, K, n, Kp, s / 2.0, L / 2.0)
    return eps_ro(E, K, n, s) - L / s * Kp * eps_ro(E, K, n, L / Kp)


def en_dfds(E, K, n, Kp, s, L, sec=False):
    if sec:
        return en_dfds(E, K, n, Kp, s / 2.0, L / 2.0)
    return compl_ro(E, K, n, s) + L * Kp * eps_ro(E, K, n, L / Kp) / s ** 2


def en_dfdL(E, K, n, Kp, s, L, sec=False):
    if sec:
        return en_dfdL(E, K, n, Kp, s / 2.0, L / 2.0)
    return -(Kp / s) * (eps_ro(E, K, n, L / Kp) + L * compl_ro(E, K, n, L / Kp) / Kp)


def sb_g(u):
    """2/u^2 ln(1/cos u) and its derivative, by series for small |u| (the closed form cancels catastrophically there)."""
    if abs(u) < 2e-2:
        u2 = u * u
        return 1.0 + u2 / 6.0 + 2.0 * u2 * u2 / 45.0 + 17.0 * u2 ** 3 / 1260.0, u / 3.0 + 8.0 * u ** 3 / 45.0 + 17.0 * u ** 5 / 210.0
    l = -math.log(math.cos(u))
    return 2.0 * l / u ** 2, -4.0 * l / u ** 3 + 2.0 * math.tan(u) / u ** 2


def sb_F(E, K, n, Kp, s, L, sec=False):
    """eq. 2.8-42 normalised as in the source, F = eps(s)/(M N) - 1, and dF/ds, dF/dL; only for |u| < pi/2."""
    if sec:
        F, Fs, FL, u = sb_F(E, K, n, Kp, s / 2.0, L / 2.0)
        return F, Fs / 2.0, FL / 2.0, u
    u = math.pi / 2.0 * ((L / s - 1.0) / (Kp - 1.0))
    if abs(u) >= math.pi / 2.0:
        return math.nan, math.nan, math.nan, u
    r = s / L
    g, dg = sb_g(u)
    M = g + r * r - r
    A = eps_ro(E, K, n, s)
    es = eps_ro(E, K, n, L / Kp)
    N = L / s * Kp * es
    F = A / (M * N) - 1.0
    du_ds = -math.pi / 2.0 * (L / s ** 2) / (Kp - 1.0)
    du_dL = math.pi / 2.0 / s / (Kp - 1.0)
    dM_ds = dg * du_ds + (2 * r - 1.0) / L
    dM_dL = dg * du_dL - (2 * r - 1.0) * s / L ** 2
    dlnN_dL = 1.0 / L + compl_ro(E, K, n, L / Kp) / Kp / es
    Fs = (F + 1.0) * (compl_ro(E, K, n, s) / A - dM_ds / M + 1.0 / s)
    FL = (F + 1.0) * (-dM_dL / M - dlnN_dL)
    return F, Fs, FL, u


def sb_noise(u):
    """Float evaluation error of the source's 2/u^2 * log(1/cos(u)) (log of a number rounded next to 1), relative to F + 1."""
    return EPS * (2.0 / (u * u) + 8.0) if u != 0 else math.inf


def plastic_share(E, K, n, L):
    L = abs(L)
    return (L / K) ** (1.0 / n) / (L / E) if L > 0 else 0.0


# --------------------------------------------------------------------------- known-finding classes (narrow)
def cls_sb_scalar(d):
    return d.get('law') == 'SeegerBeste' and d.get('method') in ('stress', 'stress_secondary_branch') \
        and d.get('container') in ('float', 'np.float64', 'ndarray[1]', 'ndarray[0d]') and d.get('exception') == 'TypeError'


def cls_series1(d):
    """a Series of length one takes scipy's scalar path, which evaluates `if fval == 0` on a Series (pandas raises ValueError)"""
    return d.get('container') == 'Series[1]' and d.get('exception') == 'ValueError'


def cls_en_dload(d):
    """the elastic term counted twice in _d_e_star / _d_delta_e_star and what it does to _d_load(_secondary)_implicit:
    analytic - true = 1/(K_p E) resp. -(L/s)/E, to 1e-6 relative."""
    if d.get('law') != 'ExtendedNeuber' or d.get('function') not in ('_d_e_star', '_d_delta_e_star', '_d_load_implicit', '_d_load_secondary_implicit'):
        return False
    E, Kp = d['E'], d['K_p']
    if d['function'] in ('_d_e_star', '_d_delta_e_star'):
        exp = 1.0 / (Kp * E)
    else:
        exp = -(d['load'] / d['stress']) / E
    return abs((d['analytic'] - d['expected']) - exp) <= 1e-6 * abs(exp)


def cls_sb_near_elastic(d):
    """Seeger-Beste, (nearly) elastic load (plastic strain share of the load <= 1 %): the value is within 1 % of the elastic solution sigma = L."""
    return d.get('law') == 'SeegerBeste' and d.get('plastic_share', 1.0) <= 1e-2 and \
        abs(abs(d['returned']) - abs(d['load'])) <= 1e-2 * abs(d['load']) and d['returned'] * d['load'] > 0


def cls_sb_overshoot(d):
    """Seeger-Beste, spurious root just above the load (u < 0): K_p <= 1.005 (overshoot <= 0.2 %) or (nearly) elastic load (plastic strain
    share <= 1 %: within 1 % of the elastic solution, the extent of sb-near-elastic-root; seed 9 of the quick tier gave 0.2037 %)."""
    if d.get('law') != 'SeegerBeste' or not d['returned'] * d['load'] > 0:
        return False
    over = abs(d['returned']) / abs(d['load'])
    return (d['K_p'] <= 1.005 and 1.0 < over <= 1.002) or (d.get('plastic_share', 1.0) <= 1e-2 and 1.0 < over <= 1.01)


def cls_sb_near_elastic_inverse(d):
    """Seeger-Beste, (nearly) elastic load: load(stress(L)) is within 1 % of L (the elastic solution is load = stress)."""
    return d.get('law') == 'SeegerBeste' and d.get('plastic_share', 1.0) <= 1e-2 and \
        abs(d['load_of_stress'] - d['load']) <= 1e-2 * abs(d['load'])


def cls_sb_kp1_array(d):
    """Seeger-Beste with K_p <= 1.005 on an array of more than one load: elements on which neither the vectorised secant nor the
    silent per-element retry converged are returned as they are (any value)."""
    c = str(d.get('container', ''))
    return d.get('law') == 'SeegerBeste' and d['K_p'] <= 1.005 and c.startswith('ndarray[') and c[8:9].isdigit() and not c.startswith('ndarray[1]')


def cls_en_load_unconverged(d):
    """extended Neuber, load()/load_secondary_branch() on an array for which scipy warned that some elements did not converge
    (it raises only if all fail): such an element is returned unconverged, within 0.1 % of the load."""
    return d.get('law') == 'ExtendedNeuber' and d.get('solver_warned') is True and abs(d['load_of_stress'] - d['load']) <= 1e-3 * abs(d['load'])


def secant_start_above_load(Kp, L):
    """scipy's scalar secant takes its second starting point at x0 (1 + 1e-4) + 1e-4; with the law's x0 = L (1 - (1 - 1/K_p)/1000)
    that point is at or above the load (outside the law's interval [L/K_p, L]) iff this holds (K_p < 1.11 for loads >> 1)."""
    a = abs(L)
    return a > 0 and a * (1.0 - (1.0 - 1.0 / Kp) / 1000.0) * (1.0 + 1e-4) + 1e-4 >= a


def cls_sb_secant_start(d):
    """Seeger-Beste with K_p so close to 1 that the secant iteration starts with one point above the load, where the continued
    equation (u < 0) has a hump and a second root: the value is within 0.2 % of the load (not a root / just above the load)."""
    return d.get('law') == 'SeegerBeste' and secant_start_above_load(d['K_p'], d['load']) and d['returned'] * d['load'] > 0 and \
        abs(abs(d['returned']) - abs(d['load'])) <= 2e-3 * abs(d['load'])


def cls_sb_kp1_scalar(d):
    """Seeger-Beste with K_p <= 1.005 on a scalar / one-element input (scipy's scalar secant, second starting point above the load): the
    iteration occasionally leaves the neighbourhood of the load altogether and scipy still reports convergence (any value, even of the
    wrong sign) - the scalar sibling of sb_kp_near_1_array."""
    c = str(d.get('container', ''))
    scalar = c in ('float', 'np.float64', 'ndarray[0d]', 'ndarray[1]', 'Series[1]', 'int', 'np.int64', 'int64 ndarray[1]')
    return d.get('law') == 'SeegerBeste' and d['K_p'] <= 1.005 and scalar and secant_start_above_load(d['K_p'], d['load'])


def _nan(x):
    return isinstance(x, float) and x != x


def cls_en_load_zero(d):
    """extended Neuber, load()/load_secondary_branch() on an array (more than one element) that contains a stress of exactly 0:
    NaN for that element (the scalar 0.0 gives 0.0)."""
    return d.get('law') == 'ExtendedNeuber' and str(d.get('method', '')).startswith('load') and d.get('load') == 0 and d.get('stress') == 0 and \
        _nan(d.get('load_of_stress')) and 'containing 0' in str(d.get('container'))


def cls_sb_zero(d):
    """Seeger-Beste, any of the four solver methods on an array (more than one element) that contains a load / stress of exactly 0: NaN for that element."""
    return d.get('law') == 'SeegerBeste' and d.get('load') == 0 and 'containing 0' in str(d.get('container')) and \
        (_nan(d.get('load_of_stress')) if str(d.get('method', '')).startswith('load') else _nan(d.get('returned')))


def cls_en_int_array(d):
    """extended Neuber, stress()/stress_secondary_branch() on an integer-typed ndarray / Series / list of more than one element:
    ValueError 'Integers to negative integer powers are not allowed' from np.power(stress, -2) in the analytic derivative."""
    c = str(d.get('container', ''))
    return d.get('law') == 'ExtendedNeuber' and d.get('method') in ('stress', 'stress_secondary_branch') and d.get('exception') == 'ValueError' and \
        c.startswith(('int64 ndarray[', 'int64 Series[', 'list of int [')) and not c.endswith('[1]')


CLASSES = {'sb_secant_start_above_load': cls_sb_secant_start, 'sb_kp_near_1_scalar': cls_sb_kp1_scalar, 'en_load_zero_in_array': cls_en_load_zero, 'sb_zero_in_array': cls_sb_zero,
           'en_integer_array': cls_en_int_array, 'sb_scalar': cls_sb_scalar, 'sb_kp_near_1_array': cls_sb_kp1_array, 'en_load_unconverged_array': cls_en_load_unconverged, 'sb_near_elastic_inverse': cls_sb_near_elastic_inverse, 'one_element_series': cls_series1, 'en_dload_elastic_term': cls_en_dload,
           'sb_near_elastic': cls_sb_near_elastic, 'sb_overshoot_small': cls_sb_overshoot}


# --------------------------------------------------------------------------- generator
KPS_EN = [1.0, 1.001, 1.5, 3.5, 10.0]
KPS_SB = [1.001, 1.5, 3.5, 10.0]
TOLS = [1e-4, 1e-5, 1e-6, 1e-7, 1e-8, 1e-9, 1e-10]


def gen_samples(rng, k, m):
    out = []
    for i in range(k):
        group = rng.choice(sorted(FKM))
        Rm = rng.uniform(200., 1400.)
        E, K, n = fkm_material(group, Rm)
        if rng.random() < 0.25:        # off-estimate materials as well
            K *= rng.uniform(0.8, 1.25)
            n = rng.uniform(0.1, 0.3)
        q = rng.random()
        if q < 0.55:
            Kp = rng.choice(KPS_EN)
        elif q < 0.75:
            # thin-walled / nearly unnotched sections: K_p - 1 log-uniform in 1e-3 .. 0.2 (scipy's secant takes its second
            # starting point 1e-4 relative above the first one: for K_p < 1.11 that is above the load)
            Kp = 1.0 + 10.0 ** rng.uniform(-3.0, -0.7)
        else:
            Kp = rng.uniform(1.0, 10.0)
        tol = rng.choice(TOLS)
        mags = sorted(rng.uniform(1e-3, 4.0) * Rm for _ in range(m))
        if i % 4 == 0:
            mags[0] = rng.uniform(1e-3, 0.05) * Rm       # an (almost) elastic load
        # keep a ladder with gaps >= 2 % (monotonicity pairs)
        lad = [mags[0]]
        for x in mags[1:]:
            lad.append(max(x, lad[-1] * 1.02))
        out.append(dict(group=group, Rm=Rm, E=E, K=K, n=n, K_p=Kp, tol=tol, loads=lad))
    return out


# --------------------------------------------------------------------------- calling the implementation
class Stats(dict):
    def inc(self, k, n=1):
        self[k] = self.get(k, 0) + n


def call(fn, x, tol, st, tag):
    """Returns (value or None, exception name or None); solver failures (RuntimeError) are counted, not failed."""
    st.inc('attempt:' + tag)
    with warnings.catch_warnings(record=True) as w:
        warnings.simplefilter('always')
        try:
            v = fn(x, rtol=tol, tol=tol)
        except RuntimeError:
            st.inc('solver_raised:' + tag)
            return None, 'RuntimeError'
        except Exception as e:       # noqa
            return None, type(e).__name__
    st['last_warned'] = any('converge' in str(x.message) for x in w)
    if st['last_warned']:
        st.inc('solver_warned:' + tag)
    return v, None


def laws(s):
    from pylife.materiallaws.notch_approximation_law import ExtendedNeuber
    from pylife.materiallaws.notch_approximation_law_seegerbeste import SeegerBeste
    out = [('ExtendedNeuber', ExtendedNeuber(s['E'], s['K'], s['n'], s['K_p']))]
    if s['K_p'] > 1.0:
        out.append(('SeegerBeste', SeegerBeste(s['E'], s['K'], s['n'], s['K_p'])))
    return out


def radius(lawname, mat, s, L, tol, sec):
    """How far from an exact root a value may be: requested tolerance (twice: the solver stops on the step length)
    plus, for Seeger-Beste, the resolution the double-precision evaluation of its equation allows (noise / slope)."""
    tau = tol + tol * abs(s)
    if lawname == 'ExtendedNeuber':
        return 2.0 * tau
    F, Fs, FL, u = sb_F(*mat, abs(s), abs(L), sec)
    if not math.isfinite(F) or Fs == 0:
        return math.inf
    return 2.0 * tau + 8.0 * sb_noise(u) / abs(Fs)


def check_value(res, st, lawname, mat, Kp, tol, L, s, sec, ctx):
    """Residual + bounds + sign of one returned stress (range).  Returns True if the value passed."""
    E, K, n = mat[:3]
    base = dict(law=lawname, branch='secondary' if sec else 'primary', E=E, K=K, n=n, K_p=Kp, tol=tol, load=float(L), returned=float(s),
                plastic_share=plastic_share(E, K, n, L / (2.0 if sec else 1.0)))
    base.update(ctx)
    if not math.isfinite(s) or s * L <= 0:
        res.violation(W_BOUNDS, **base)
        return False
    a, sa = abs(L), abs(s)
    tau = tol + tol * sa
    ok = True
    if lawname == 'ExtendedNeuber':
        f = en_f(E, K, n, Kp, sa, a, sec)
        slope = en_dfds(E, K, n, Kp, sa, a, sec)
        noise = 64 * EPS * (abs(eps_ro(E, K, n, sa)) + abs(f)) * (2 if sec else 1)
        delta = 2.0 * slope * tau + noise
        slack = 2.0 * tau
    else:
        f, Fs, FL, u = sb_F(E, K, n, Kp, sa, a, sec)
        if not math.isfinite(f):
            res.violation(W_BOUNDS, **base)
            return False
        noise = 8.0 * sb_noise(u)
        delta = 2.0 * abs(Fs) * tau + noise
        slack = 2.0 * tau
    how = ('residual',)
    if not abs(f) <= delta:
        # the linearisation |f| <= f' * 2 tau is not valid next to a turning point of f (Seeger-Beste with K_p -> 1 or at
        # elastic loads has two roots next to sigma = L): accept a sign change of the equation within 2 tau of the value
        fun = (lambda x: en_f(E, K, n, Kp, x, a, sec)) if lawname == 'ExtendedNeuber' else (lambda x: sb_F(E, K, n, Kp, x, a, sec)[0])
        br_ = None
        for q in (0.25, 0.5, 1.0):
            for x in (sa - 2 * q * tau, sa + 2 * q * tau):
                fx = fun(x) if x > 0 else math.nan
                if math.isfinite(fx) and fx * f <= 0:
                    br_ = x
                    break
            if br_ is not None:
                break
        if br_ is None:
            res.violation(W_ROOT, residual=f, allowed=delta, **base)
            ok = False
        else:
            how = ('bracket', br_)
    st['last_how'] = how
    if not (a / Kp - slack <= sa <= a + slack):
        res.violation(W_BOUNDS, lower=a / Kp, upper=a, **base)
        ok = False
    return ok


def same_bits(a, b):
    a, b = np.asarray(a, float), np.asarray(b, float)
    return a.shape == b.shape and np.array_equal(a, b, equal_nan=True)


def load_allow(lawname, mat, tol, s, L, sec):
    """How far two admissible results of load(s) may be apart (both within 2 tau_L of the exact load, plus what the
    double-precision evaluation of the Seeger-Beste equation can resolve)."""
    tauL = tol + tol * abs(L)
    if lawname == 'ExtendedNeuber':
        return 4 * tauL
    F, Fs, FL, u = sb_F(*mat, abs(s), abs(L), sec)
    if not math.isfinite(F) or not FL:
        return math.inf
    return 4 * tauL + 2 * (8 * sb_noise(u) / abs(FL))


def input_domain_relations(res, st, lawname, mat, tol, sec, stress_fn, load_fn, Lvec, arr, good, R):
    """Inputs at the rim of 'every load, both signs, every input container type' (added after the seeded changes):
    * a load of exactly 0 (alone, and inside an array next to loads of both signs): the bounds |s| in [|L|/K_p, |L|] and
      oddness leave only s = 0, and 0 is what the laws return for a scalar 0.0 when they return; the same for load(0);
      the other elements of that array must be as good as without the zero;
    * integer-valued loads handed over as Python int, np.int64, integer ndarray, integer Series, list of int, list of
      float, tuple: same result as the float ndarray of the same numbers (within the certified radius; the code path may differ);
    * a Series with a permuted (non-default) integer index: positional, bit for bit the ndarray result."""
    E, K, n, Kp = mat
    br = '_secondary_branch' if sec else ''
    tag = '%s.stress%s' % (lawname, br)
    ltag = '%s.load%s' % (lawname, br)
    base = dict(law=lawname, branch='secondary' if sec else 'primary', E=E, K=K, n=n, K_p=Kp, tol=tol)
    m = len(Lvec)
    # ------------------------------------------------------------------ zero
    zpos = (1, 3)
    withz = np.array([Lvec[0], 0.0, -Lvec[-1], -0.0, Lvec[m // 2]])
    src = (0, None, m - 1, None, m // 2)
    sgn = (1.0, 0.0, -1.0, 0.0, 1.0)
    for cname, x in (('ndarray[5] containing 0', withz), ('Series[5] containing 0', pd.Series(withz)), ('float', 0.0), ('ndarray[1]', np.array([0.0]))):
        v, ex = call(stress_fn, x, tol, st, tag + '[zero:%s]' % cname.split('[')[0])
        st.inc('zero_calls')
        if v is None:
            if ex != 'RuntimeError':
                res.violation(W_CONT, method='stress' + br, container=cname, exception=ex, loads=np.asarray(x, float).reshape(-1).tolist(), **base)
            continue
        v = np.asarray(v, float).reshape(-1)
        xs = np.asarray(x, float).reshape(-1)
        for i in range(len(xs)):
            if xs[i] == 0:
                st.inc('zero_values_checked')
                if not v[i] == 0:
                    res.violation(W_BOUNDS, load=0.0, returned=float(v[i]), lower=0.0, upper=0.0, method='stress' + br, container=cname, index=i,
                                  loads=xs.tolist(), plastic_share=0.0, **base)
            elif good[src[i]]:
                # the neighbours of a zero: still roots, and the same as without the zero
                if check_value(res, st, lawname, mat, Kp, tol, xs[i], v[i], sec, dict(container=cname, index=i, loads=xs.tolist())):
                    if not abs(v[i] - sgn[i] * arr[src[i]]) <= 2 * R[src[i]]:
                        res.violation(W_CONT, method='stress' + br, container=cname + ' vs ndarray[%d]' % m, load=float(xs[i]), loads=xs.tolist(),
                                      scalar_result=float(v[i]), array_result=float(sgn[i] * arr[src[i]]), **base)
    if all(good[j] for j in (0, m - 1, m // 2)):
        sz = np.array([arr[0], 0.0, -arr[m - 1], -0.0, arr[m // 2]])
        for cname, x in (('ndarray[5] containing 0', sz), ('Series[5] containing 0', pd.Series(sz)), ('float', 0.0), ('ndarray[1]', np.array([0.0]))):
            v, ex = call(load_fn, x, tol, st, ltag + '[zero:%s]' % cname.split('[')[0])
            st.inc('zero_calls')
            if v is None:
                if ex != 'RuntimeError':
                    res.violation(W_CONT, method='load' + br, container=cname, exception=ex, stresses=np.asarray(x, float).reshape(-1).tolist(), **base)
                continue
            v = np.asarray(v, float).reshape(-1)
            xs = np.asarray(x, float).reshape(-1)
            for i in range(len(xs)):
                if xs[i] == 0:
                    st.inc('zero_values_checked')
                    if not v[i] == 0:
                        res.violation(W_INV, load=0.0, stress=0.0, returned=0.0, load_of_stress=float(v[i]), allowed_difference=0.0, method='load' + br,
                                      container=cname, index=i, stresses=xs.tolist(), plastic_share=0.0, solver_warned=bool(st.get('last_warned')), **base)
                else:
                    L = sgn[i] * Lvec[src[i]]
                    allow = 2 * (tol + tol * abs(L)) + (Kp * R[src[i]] if lawname == 'ExtendedNeuber' else load_allow(lawname, mat, tol, xs[i], L, sec) + Kp * R[src[i]])
                    if not (math.isfinite(v[i]) and abs(v[i] - L) <= allow):
                        res.violation(W_INV, load=float(L), stress=float(xs[i]), returned=float(xs[i]), load_of_stress=float(v[i]), allowed_difference=allow,
                                      method='load' + br, container=cname, index=i, stresses=xs.tolist(),
                                      plastic_share=plastic_share(E, K, n, L / (2.0 if sec else 1.0)), solver_warned=bool(st.get('last_warned')), **base)
    # ------------------------------------------------------------------ integer-valued loads, lists, permuted index
    Li = np.maximum(1, np.rint(Lvec)).astype(np.int64) * np.array([1 if i % 2 == 0 else -1 for i in range(m)], dtype=np.int64)
    Lf = Li.astype(float)
    ref, ex = call(stress_fn, Lf, tol, st, tag + '[ndarray]')
    if ref is not None:
        ref = np.asarray(ref, float)
        okr = np.array([check_value(res, st, lawname, mat, Kp, tol, L, s, sec, dict(container='ndarray[%d]' % m, index=i, loads=Lf.tolist()))
                        for i, (L, s) in enumerate(zip(Lf, ref))])
        Rr = np.array([radius(lawname, mat, s, L, tol, sec) if g else math.inf for s, L, g in zip(ref, Lf, okr)])
        perm = [(3 * i + 1) % m for i in range(m)] if m % 3 else list(range(m))[::-1]       # a fixed non-identity permutation as index labels
        k = m // 2
        conts = [('int64 ndarray[%d]' % m, Li, None), ('int64 Series[%d]' % m, pd.Series(Li), None), ('list of int [%d]' % m, [int(x) for x in Li], None),
                 ('list of float [%d]' % m, [float(x) for x in Li], None), ('tuple of float [%d]' % m, tuple(float(x) for x in Li), None),
                 ('Series[%d] with permuted index' % m, pd.Series(Lf, index=perm), 'bits'),
                 ('int', int(Li[k]), k), ('np.int64', Li[k], k), ('int64 ndarray[1]', Li[k:k + 1], k)]
        for cname, x, mode in conts:
            v, ex = call(stress_fn, x, tol, st, tag + '[dtype]')
            st.inc('dtype_calls')
            if v is None:
                if ex != 'RuntimeError':
                    res.violation(W_CONT, method='stress' + br, container=cname, exception=ex, loads=Lf.tolist(), **base)
                continue
            v = np.asarray(v, float).reshape(-1)
            if mode == 'bits':
                if not same_bits(v, ref):
                    res.violation(W_CONT, method='stress' + br, container=cname + ' vs ndarray', loads=Lf.tolist(), ndarray=ref.tolist(), series=v.tolist(), **base)
                continue
            idx = range(m) if mode is None else [mode]
            if len(v) != len(idx):
                res.violation(W_CONT, method='stress' + br, container=cname, loads=Lf.tolist(), ndarray=ref.tolist(), result=v.tolist(), **base)
                continue
            for j, i in enumerate(idx):
                if not okr[i]:
                    continue
                if not check_value(res, st, lawname, mat, Kp, tol, Lf[i], v[j], sec, dict(container=cname, index=i, loads=Lf.tolist())):
                    continue
                if not abs(v[j] - ref[i]) <= Rr[i] + radius(lawname, mat, v[j], Lf[i], tol, sec):
                    res.violation(W_CONT, method='stress' + br, container=cname + ' vs ndarray[%d]' % m, load=float(Lf[i]), loads=Lf.tolist(),
                                  scalar_result=float(v[j]), array_result=float(ref[i]), **base)
        # backward direction with integer-valued stresses
        Si = np.where(okr, np.rint(ref), Li).astype(np.int64)
        Si[Si == 0] = 1
        Sf = Si.astype(float)
        refl, ex = call(load_fn, Sf, tol, st, ltag + '[ndarray]')
        if refl is not None and not st.get('last_warned'):
            refl = np.asarray(refl, float)
            for cname, x, mode in (('int64 ndarray[%d]' % m, Si, None), ('int64 Series[%d]' % m, pd.Series(Si), None), ('list of int [%d]' % m, [int(x) for x in Si], None),
                                   ('Series[%d] with permuted index' % m, pd.Series(Sf, index=perm), 'bits'), ('int', int(Si[k]), k), ('np.int64', Si[k], k)):
                v, ex = call(load_fn, x, tol, st, ltag + '[dtype]')
                st.inc('dtype_calls')
                if v is None:
                    if ex != 'RuntimeError':
                        res.violation(W_CONT, method='load' + br, container=cname, exception=ex, stresses=Sf.tolist(), **base)
                    continue
                if st.get('last_warned'):
                    continue
                v = np.asarray(v, float).reshape(-1)
                if mode == 'bits':
                    if not same_bits(v, refl):
                        res.violation(W_CONT, method='load' + br, container=cname + ' vs ndarray', stresses=Sf.tolist(), ndarray=refl.tolist(), series=v.tolist(), **base)
                    continue
                idx = range(m) if mode is None else [mode]
                if len(v) != len(idx):
                    res.violation(W_CONT, method='load' + br, container=cname, stresses=Sf.tolist(), ndarray=refl.tolist(), result=v.tolist(), **base)
                    continue
                for j, i in enumerate(idx):
                    if not (math.isfinite(refl[i]) and refl[i] * Sf[i] > 0):
                        continue
                    if not abs(v[j] - refl[i]) <= load_allow(lawname, mat, tol, Sf[i], refl[i], sec):
                        res.violation(W_CONT, method='load' + br, container=cname + ' vs ndarray[%d]' % m, stress=float(Sf[i]), stresses=Sf.tolist(),
                                      scalar_result=float(v[j]), array_result=float(refl[i]), **base)


LADDERS = [(24, None, False), (24, None, True), (80, 1e-6, False), (48, 1e-6, True)]       # (elements, tolerance or None = the sample's clamped to 1e-6..1e-5, alternating signs)


def transition_ladder_relations(res, st, lawname, mat, tol, sec, stress_fn, records, strain_fn=None):
    """Array calls on geometric ladders through the elastic-plastic transition: amplitudes K' * 10^q, q = -2 .. 0.3 (plastic strain
    share 1e-7 .. 100), 24 / 48 / 80 elements, one-signed and alternating signs.  In the (nearly) elastic part scipy's vectorised secant flags
    elements of the Seeger-Beste call as not converged, so that the per-element retry (_stress_fix_not_converged_values /
    _stress_secondary_fix_not_converged_values) runs for elements with noticeable plasticity: every element must be a root of its own
    branch's equation.  (Added after seeded change C06-1: the 5-element ladders reach the retry of a plastic element only by luck.)
    Tolerances: 1e-6 (where the retry of plastic elements is most frequent) or the sample's clamped to 1e-6..1e-5; below 1e-6 the Seeger-Beste
    array call raises RuntimeError on 40-70 % of these ladders on the unchanged tree (the retry of a nearly elastic element does not
    converge) -- those tolerances are exercised on the 5-element ladders."""
    E, K, n, Kp = mat
    br = '_secondary_branch' if sec else ''
    for N, t, alt in LADDERS:
        t = min(max(tol, 1e-6), 1e-5) if t is None else t
        amp = np.array([K * 10.0 ** (-2.0 + 2.3 * j / (N - 1)) for j in range(N)])
        sg = np.array([-1.0 if (alt and j % 2) else 1.0 for j in range(N)])
        Lvec = amp * (2.0 if sec else 1.0) * sg
        v, ex = call(stress_fn, Lvec, t, st, '%s.stress%s[ladder]' % (lawname, br))
        st.inc('ladder_calls')
        if v is None:
            if ex != 'RuntimeError':
                res.violation(W_CONT, law=lawname, method='stress' + br, container='ndarray[%d]' % N, exception=ex, E=E, K=K, n=n, K_p=Kp, tol=t, loads=Lvec.tolist())
            continue
        v = np.asarray(v, float)
        cname = 'ndarray[%d]%s' % (N, ' alternating signs' if alt else '')
        for i in range(N):
            ok = check_value(res, st, lawname, mat, Kp, t, Lvec[i], v[i], sec, dict(container=cname, index=i, ladder=[N, alt], loads=Lvec.tolist()))
            st.inc('ladder_values_checked')
            if i % 4 == 0:
                records.append((lawname, sec, mat, t, float(Lvec[i]), float(v[i]), bool(ok), st.get('last_how')))
        fin = np.isfinite(v) & (np.abs(v) <= 10.0 * np.abs(Lvec))       # an unconverged element may be anything; the oracle works in Python floats
        if strain_fn is not None and fin.any():
            strain_relations(res, st, lawname, mat, sec, strain_fn, v[fin], Lvec[fin], 'ladder[%d]%s' % (N, ' alternating signs' if alt else ''), scalars=False)


STRAIN_RTOL = 1e-12


def strain_relations(res, st, lawname, mat, sec, strain_fn, S, Lv, pattern, scalars=True):
    """The strain reported with a returned stress (range), for stresses / loads of EITHER sign (added after seeded change C06-6: the
    strain was only ever asked for positive stresses).  S are stresses the law returned for the loads Lv (sign pattern `pattern`).
    * every element: strain(s, L) = Ramberg-Osgood strain of s (secondary: Masing doubling 2 eps(s/2)), the oracle is odd in s;
    * jointly negated arguments give the negated strain (the law is odd in the load) -- theorem en_strain_odd / sb_strain_odd;
    * ndarray = Series = Series with permuted index = np.float64 / float / 0-d / one-element ndarray / one-element Series, bit for bit
      (no solver is involved: the same elementary operations on every path)."""
    E, K, n, Kp = mat
    br = '_secondary_branch' if sec else ''
    S, Lv = np.asarray(S, float), np.asarray(Lv, float)
    m = len(S)
    base = dict(law=lawname, branch=br or 'primary', method='strain' + br, E=E, K=K, n=n, K_p=Kp, sign_pattern=pattern)
    want = np.array([2 * eps_ro(E, K, n, s / 2) if sec else eps_ro(E, K, n, s) for s in S])

    def ask(cname, a, b):
        st.inc('strain_calls')
        try:
            return np.asarray(strain_fn(a, b), float).reshape(-1)
        except Exception as e:       # noqa -- no solver here: nothing may raise
            res.violation(W_CONT, container=cname, exception=type(e).__name__, stresses=S.tolist(), loads=Lv.tolist(), **base)
            return None
    S0, L0 = S.copy(), Lv.copy()
    arr = ask('ndarray[%d]' % m, S, Lv)
    if not (np.array_equal(S, S0) and np.array_equal(Lv, L0)):
        res.violation(W_MUT, stresses=S0.tolist(), stresses_after_call=S.tolist(), loads=L0.tolist(), **base)
        S, Lv = S0, L0
    if arr is None:
        return
    if len(arr) != m:
        res.violation(W_CONT, container='ndarray[%d]' % m, stresses=S.tolist(), loads=Lv.tolist(), result=arr.tolist(), **base)
        return
    nbad = 0
    for i in range(m):
        st.inc('strain_values_checked')
        if S[i] < 0:
            st.inc('strain_values_checked_negative_stress')
        if not (math.isfinite(arr[i]) and abs(arr[i] - want[i]) <= STRAIN_RTOL * abs(want[i])):
            nbad += 1
            if nbad > 2:          # at most two failing elements of one call are reported
                continue
            res.violation(W_STRAIN, stress=float(S[i]), load=float(Lv[i]), strain=float(arr[i]), strain_in_array_call=float(arr[i]), expected=float(want[i]),
                          container='ndarray[%d]' % m, index=i, stresses=S.tolist(), loads=Lv.tolist(), **base)
    # jointly negated arguments
    neg = ask('ndarray[%d] negated' % m, -S, -Lv)
    if neg is not None and not same_bits(neg, -arr):
        i = int(np.argmax(np.abs(neg + arr))) if len(neg) == m else 0          # the element with the largest discrepancy
        res.violation(W_STRAIN, stress=float(S[i]), load=float(Lv[i]), strain=float(arr[i]), strain_of_negated_arguments=float(neg[i]) if len(neg) == m else None,
                      expected=float(want[i]), note='strain(-s, -L) is not -strain(s, L)', stresses=S.tolist(), loads=Lv.tolist(), **base)
    # containers
    perm = [(3 * i + 1) % m for i in range(m)] if m % 3 else list(range(m))[::-1]
    for cname, a, b in (('Series[%d]' % m, pd.Series(S), pd.Series(Lv)), ('Series[%d] with permuted index' % m, pd.Series(S, index=perm), pd.Series(Lv, index=perm))):
        v = ask(cname, a, b)
        if v is not None and not same_bits(v, arr):
            res.violation(W_CONT, container=cname + ' vs ndarray', stresses=S.tolist(), loads=Lv.tolist(), ndarray=arr.tolist(), series=v.tolist(), **base)
    if scalars:
        for i in sorted({0, m // 2, m - 1}):
            s, L = float(S[i]), float(Lv[i])
            for cname, a, b in (('float', s, L), ('np.float64', np.float64(s), np.float64(L)), ('ndarray[1]', np.array([s]), np.array([L])),
                                ('ndarray[0d]', np.array(s), np.array(L)), ('Series[1]', pd.Series([s]), pd.Series([L]))):
                v = ask(cname, a, b)
                if v is not None and not (len(v) == 1 and v[0] == arr[i]):
                    res.violation(W_CONT, container=cname + ' vs ndarray[%d]' % m, stress=s, load=L, stresses=S.tolist(), loads=Lv.tolist(),
                                  scalar_result=v.tolist()[0] if len(v) else None, array_result=float(arr[i]), **base)


def relations_one(res, st, smp, records):
    """All relations of the property for one (material, K_p, tol, load ladder) on the implementation."""
    E, K, n, Kp, tol = smp['E'], smp['K'], smp['n'], smp['K_p'], smp['tol']
    mat = (E, K, n, Kp)
    lad = np.array(smp['loads'], float)
    signs = np.array([1.0 if (i % 2 == 0) else -1.0 for i in range(len(lad))])
    for lawname, law in laws(smp):
        for sec in (False, True):
            br = '_secondary_branch' if sec else ''
            stress_fn, load_fn = getattr(law, 'stress' + br), getattr(law, 'load' + br)
            strain_fn = getattr(law, 'strain' + br)
            tag = '%s.stress%s' % (lawname, br)
            Lvec = lad * (2.0 if sec else 1.0)          # ranges go up to twice the amplitude
            Lvec0 = Lvec.copy()
            ctx0 = dict(loads=Lvec.tolist())
            arr, ex = call(stress_fn, Lvec, tol, st, tag + '[ndarray]')
            st.inc('calls')
            if arr is None:
                if ex != 'RuntimeError':
                    res.violation(W_CONT, law=lawname, method='stress' + br, container='ndarray[%d]' % len(Lvec), exception=ex,
                                  E=E, K=K, n=n, K_p=Kp, tol=tol, loads=Lvec.tolist())
                continue
            arr = np.asarray(arr, float)
            good = np.zeros(len(Lvec), bool)
            for i, (L, s) in enumerate(zip(Lvec, arr)):
                good[i] = check_value(res, st, lawname, mat, Kp, tol, L, s, sec, dict(container='ndarray[%d]' % len(Lvec), index=i, **ctx0))
                st.inc('values_checked')
                records.append((lawname, sec, mat, tol, float(L), float(s), bool(good[i]), st.get('last_how')))
            R = np.array([radius(lawname, mat, s, L, tol, sec) if g else math.inf for s, L, g in zip(arr, Lvec, good)])
            # ---- containers: Series = ndarray bit for bit (same code path); scalar / one-element within the radius
            ser, ex = call(stress_fn, pd.Series(Lvec), tol, st, tag + '[Series]')
            if ser is None and ex != 'RuntimeError':
                res.violation(W_CONT, law=lawname, method='stress' + br, container='Series[%d]' % len(Lvec), exception=ex, E=E, K=K, n=n, K_p=Kp, tol=tol, loads=Lvec.tolist())
            elif ser is not None and not np.array_equal(np.asarray(ser, float), arr):
                res.violation(W_CONT, law=lawname, method='stress' + br, container='Series vs ndarray', E=E, K=K, n=n, K_p=Kp, tol=tol,
                              loads=Lvec.tolist(), ndarray=arr.tolist(), series=np.asarray(ser, float).tolist())
            idx = sorted({0, len(Lvec) // 2, len(Lvec) - 1})
            for i in idx:
                L = float(Lvec[i])
                for cname, x in (('float', L), ('np.float64', np.float64(L)), ('ndarray[1]', np.array([L])), ('ndarray[0d]', np.array(L)),
                                 ('Series[1]', pd.Series([L]))):
                    v, ex = call(stress_fn, x, tol, st, tag + '[' + cname + ']')
                    st.inc('container_calls')
                    if v is None:
                        if ex != 'RuntimeError':
                            res.violation(W_TYPE, law=lawname, method='stress' + br, container=cname, exception=ex, E=E, K=K, n=n, K_p=Kp, tol=tol, load=L)
                        continue
                    v = float(np.asarray(v, float).reshape(-1)[0])
                    okv = check_value(res, st, lawname, mat, Kp, tol, L, v, sec, dict(container=cname))
                    if okv and good[i] and not abs(v - arr[i]) <= R[i] + radius(lawname, mat, v, L, tol, sec):
                        res.violation(W_CONT, law=lawname, method='stress' + br, container=cname + ' vs ndarray[%d]' % len(Lvec), E=E, K=K, n=n, K_p=Kp,
                                      tol=tol, load=L, loads=Lvec.tolist(), scalar_result=v, array_result=float(arr[i]))
            # ---- oddness (mixed signs in one call, and the fully negated call)
            signed = [(np.ones(len(Lvec)), 'positive', arr, good.copy())]
            for sg, nm in ((signs, 'alternating signs'), (-np.ones(len(Lvec)), 'negated')):
                neg, ex = call(stress_fn, Lvec * sg, tol, st, tag + '[odd]')
                if neg is None:
                    continue
                neg = np.asarray(neg, float)
                signed.append((sg, nm, neg, np.zeros(len(Lvec), bool)))
                for i in range(len(Lvec)):
                    if not good[i]:
                        continue
                    if not check_value(res, st, lawname, mat, Kp, tol, Lvec[i] * sg[i], neg[i], sec, dict(container='ndarray[%d] %s' % (len(Lvec), nm), index=i,
                                                                                                             loads=(Lvec * sg).tolist())):
                        continue
                    signed[-1][3][i] = True
                    if not abs(neg[i] - sg[i] * arr[i]) <= 2 * R[i]:
                        res.violation(W_ODD, law=lawname, branch=br or 'primary', E=E, K=K, n=n, K_p=Kp, tol=tol, load=float(Lvec[i]),
                                      stress_of_load=float(arr[i]), stress_of_signed_load=float(neg[i]), sign=float(sg[i]), loads=(Lvec * sg).tolist())
            # ---- monotone on the ladder (gaps >= 2 %)
            gi = [i for i in range(len(Lvec)) if good[i]]
            for i, j in zip(gi, gi[1:]):
                if not arr[j] - arr[i] > -(R[i] + R[j]) or (R[i] + R[j] < 1e-3 * (Lvec[j] - Lvec[i]) / Kp and not arr[j] > arr[i]):
                    res.violation(W_MONO, law=lawname, branch=br or 'primary', E=E, K=K, n=n, K_p=Kp, tol=tol, loads=[float(Lvec[i]), float(Lvec[j])],
                                  returned=[float(arr[i]), float(arr[j])])
                st.inc('monotone_pairs')
            # ---- strain reported with the stress
            for i in gi:
                want = 2 * eps_ro(E, K, n, arr[i] / 2) if sec else eps_ro(E, K, n, arr[i])
                got = float(np.asarray(strain_fn(np.float64(arr[i]), np.float64(Lvec[i])), float))
                got_a = np.asarray(strain_fn(arr, Lvec), float)[i]
                if not (abs(got - want) <= 1e-12 * abs(want) and got_a == got):
                    res.violation(W_STRAIN, law=lawname, branch=br or 'primary', E=E, K=K, n=n, K_p=Kp, stress=float(arr[i]), load=float(Lvec[i]),
                                  strain=got, strain_in_array_call=float(got_a), expected=want)
            # ---- backward direction
            if gi:
                sub = arr[gi]
                back, ex = call(load_fn, sub, tol, st, '%s.load%s[ndarray]' % (lawname, br))
                if not np.array_equal(sub, arr[gi]):
                    res.violation(W_MUT, law=lawname, method='load' + br, E=E, K=K, n=n, K_p=Kp, tol=tol, stresses=arr[gi].tolist(), stresses_after_call=sub.tolist())
                    sub = arr[gi]
                if back is None and ex != 'RuntimeError':
                    res.violation(W_CONT, law=lawname, method='load' + br, container='ndarray[%d]' % len(sub), exception=ex, E=E, K=K, n=n, K_p=Kp, tol=tol, stresses=sub.tolist())
                if back is not None:
                    back = np.asarray(back, float)
                    warned = bool(st.get('last_warned'))
                    for k, i in enumerate(gi):
                        L, s, Lb = float(Lvec[i]), float(arr[i]), float(back[k])
                        tauL = tol + tol * abs(L)
                        # exact inverse of the returned stress is within (dL/ds) * R of L; dL/ds <= K_p on the law (sigma in [L/K_p, L])
                        if lawname == 'ExtendedNeuber':
                            allow = 2 * tauL + Kp * R[i]
                        else:
                            F, Fs, FL, u = sb_F(E, K, n, Kp, abs(s), abs(L), sec)
                            allow = 2 * tauL + (abs(Fs / FL) * R[i] if FL else math.inf) + (8 * sb_noise(u) / abs(FL) if FL else math.inf)
                        st.inc('round_trips')
                        if not (math.isfinite(Lb) and abs(Lb - L) <= allow):
                            res.violation(W_INV, law=lawname, branch=br or 'primary', E=E, K=K, n=n, K_p=Kp, tol=tol, load=L, stress=s, load_of_stress=Lb,
                                          allowed_difference=allow, plastic_share=plastic_share(E, K, n, L / (2.0 if sec else 1.0)), returned=s,
                                          solver_warned=warned, container='ndarray[%d]' % len(sub))
                        records.append((lawname + '.load', sec, mat, tol, Lb, s, abs(Lb - L) <= allow, None))
                    # scalar call of load agrees with the array call
                    k = len(gi) // 2
                    v, ex = call(load_fn, float(sub[k]), tol, st, '%s.load%s[float]' % (lawname, br))
                    if v is None and ex not in ('RuntimeError',):
                        res.violation(W_TYPE if ex == 'TypeError' else W_CONT, law=lawname, method='load' + br, container='float', exception=ex, E=E, K=K, n=n, K_p=Kp, tol=tol, stress=float(sub[k]))
                    elif v is not None:
                        L = float(Lvec[gi[k]])
                        tauL = tol + tol * abs(L)
                        lim = 4 * tauL if lawname == 'ExtendedNeuber' else 4 * tauL + 2 * (8 * sb_noise(sb_F(E, K, n, Kp, abs(float(sub[k])), abs(L), sec)[3]) / abs(sb_F(E, K, n, Kp, abs(float(sub[k])), abs(L), sec)[2] or 1e-300))
                        if not abs(float(v) - back[k]) <= lim:
                            res.violation(W_CONT, law=lawname, method='load' + br, container='float vs ndarray[%d]' % len(sub), E=E, K=K, n=n, K_p=Kp, tol=tol,
                                          stress=float(sub[k]), stresses=sub.tolist(), scalar_result=float(v), array_result=float(back[k]))
            # ---- every sign pattern of the arguments (positive / alternating / all negative): the strain functions on the returned
            #      stresses in every container, and the backward function on the signed stresses (round trip load(stress(L)) = L)
            for sg, nm, vals, okv in signed:
                ii = [i for i in range(len(Lvec)) if okv[i]]
                if not ii:
                    continue
                strain_relations(res, st, lawname, mat, sec, strain_fn, vals[ii], (Lvec * sg)[ii], nm)
                if nm == 'positive':
                    continue          # the backward direction on positive stresses is checked above
                sub = vals[ii].copy()
                back, ex = call(load_fn, sub, tol, st, '%s.load%s[ndarray signed]' % (lawname, br))
                if not np.array_equal(sub, vals[ii]):
                    res.violation(W_MUT, law=lawname, method='load' + br, E=E, K=K, n=n, K_p=Kp, tol=tol, stresses=vals[ii].tolist(), stresses_after_call=sub.tolist())
                if back is None:
                    if ex != 'RuntimeError':
                        res.violation(W_CONT, law=lawname, method='load' + br, container='ndarray[%d] %s' % (len(ii), nm), exception=ex, E=E, K=K, n=n, K_p=Kp, tol=tol,
                                      stresses=vals[ii].tolist())
                    continue
                back = np.asarray(back, float)
                warned = bool(st.get('last_warned'))
                for k, i in enumerate(ii):
                    L, s_, Lb = float(Lvec[i] * sg[i]), float(vals[i]), float(back[k])
                    Ri = radius(lawname, mat, s_, L, tol, sec)
                    tauL = tol + tol * abs(L)
                    if lawname == 'ExtendedNeuber':
                        allow = 2 * tauL + Kp * Ri
                    else:
                        F, Fs, FL, u = sb_F(E, K, n, Kp, abs(s_), abs(L), sec)
                        allow = 2 * tauL + (abs(Fs / FL) * Ri if FL else math.inf) + (8 * sb_noise(u) / abs(FL) if FL else math.inf)
                    st.inc('round_trips')
                    st.inc('round_trips_negative_stress', 1 if s_ < 0 else 0)
                    if not (math.isfinite(Lb) and abs(Lb - L) <= allow):
                        res.violation(W_INV, law=lawname, branch=br or 'primary', E=E, K=K, n=n, K_p=Kp, tol=tol, load=L, stress=s_, load_of_stress=Lb,
                                      allowed_difference=allow, plastic_share=plastic_share(E, K, n, L / (2.0 if sec else 1.0)), returned=s_,
                                      solver_warned=warned, container='ndarray[%d] %s' % (len(ii), nm), loads=(Lvec * sg).tolist())
            # ---- the calls above must not have written into the caller's array, and asking again gives the same answer
            if not np.array_equal(Lvec, Lvec0):
                res.violation(W_MUT, law=lawname, method='stress' + br, E=E, K=K, n=n, K_p=Kp, tol=tol, loads=Lvec0.tolist(), loads_after_call=Lvec.tolist())
                Lvec = Lvec0.copy()
            again, ex = call(stress_fn, Lvec, tol, st, tag + '[ndarray]')
            if again is not None and not same_bits(again, arr):
                res.violation(W_REPEAT, law=lawname, method='stress' + br, E=E, K=K, n=n, K_p=Kp, tol=tol, loads=Lvec.tolist(), first=arr.tolist(),
                              second=np.asarray(again, float).tolist())
            # ---- dense ladder through the elastic-plastic transition (retry path of Seeger-Beste next to plastic elements)
            transition_ladder_relations(res, st, lawname, mat, tol, sec, stress_fn, records, strain_fn)
            # ---- zero loads, integer-valued loads, lists, permuted Series index
            input_domain_relations(res, st, lawname, mat, tol, sec, stress_fn, load_fn, Lvec, arr, good, R)
        if lawname == 'ExtendedNeuber':
            derivative_relations(res, st, law, smp)


def derivative_relations(res, st, law, smp):
    """The analytic derivatives handed to Newton against the derivative of the implicit function (independent formula,
    cross-checked by a central difference of the implementation's own function)."""
    E, K, n, Kp = smp['E'], smp['K'], smp['n'], smp['K_p']
    lad = smp['loads']
    pts = []
    for i in (0, len(lad) // 2, len(lad) - 1):
        L = lad[i]
        for frac in (1.0 / Kp + 0.37 * (1 - 1.0 / Kp), 0.93, 1.21):
            pts.append((frac * L, L))
            pts.append((-frac * L, -L))
    for s, L in pts:
        S, LL = np.float64(s), np.float64(L)
        cases = [
            ('_d_stress_implicit', float(law._d_stress_implicit(S, LL)), en_dfds(E, K, n, Kp, s, L), lambda h: (float(law._stress_implicit(S + h, LL)) - float(law._stress_implicit(S - h, LL))) / (2 * h), abs(s)),
            ('_d_stress_secondary_implicit', float(law._d_stress_secondary_implicit(S, LL)), en_dfds(E, K, n, Kp, s, L, True), lambda h: (float(law._stress_secondary_implicit(S + h, LL)) - float(law._stress_secondary_implicit(S - h, LL))) / (2 * h), abs(s)),
            ('_d_load_implicit', float(law._d_load_implicit(LL, S)), en_dfdL(E, K, n, Kp, s, L), lambda h: (float(law._load_implicit(LL + h, S)) - float(law._load_implicit(LL - h, S))) / (2 * h), abs(L)),
            ('_d_load_secondary_implicit', float(law._d_load_secondary_implicit(LL, S)), en_dfdL(E, K, n, Kp, s, L, True), lambda h: (float(law._load_secondary_implicit(LL + h, S)) - float(law._load_secondary_implicit(LL - h, S))) / (2 * h), abs(L)),
            ('_d_e_star', float(law._d_e_star(LL)), compl_ro(E, K, n, L / Kp) / Kp, lambda h: (float(law._e_star(LL + h)) - float(law._e_star(LL - h))) / (2 * h), abs(L)),
            ('_d_delta_e_star', float(law._d_delta_e_star(LL)), compl_ro(E, K, n, L / (2 * Kp)) / Kp, lambda h: (float(law._delta_e_star(LL + h)) - float(law._delta_e_star(LL - h))) / (2 * h), abs(L)),
        ]
        for fn, ana, true, fd, scale in cases:
            st.inc('derivative_points')
            num = fd(1e-5 * scale)
            if not abs(num - true) <= 1e-5 * abs(true):       # the oracle itself must agree with the implementation's function
                res.violation(W_DERIV, law='ExtendedNeuber', function=fn, E=E, K=K, n=n, K_p=Kp, stress=float(s), load=float(L), analytic=ana, expected=true,
                              finite_difference=num, note='finite difference of the implicit function disagrees with the oracle derivative')
            elif not abs(ana - true) <= 1e-9 * abs(true):
                res.violation(W_DERIV, law='ExtendedNeuber', function=fn, E=E, K=K, n=n, K_p=Kp, stress=float(s), load=float(L), analytic=ana, expected=true,
                              finite_difference=num)


# --------------------------------------------------------------------------- certificates
def certificates(rng, samples, records, per_kind):
    """Kernel-checked goals: (a) residual + bounds of returned values, (b) generated functions = implementation at random points."""
    A = cert.app
    goals, descr = [], []

    def add(g, d):
        goals.append(g)
        descr.append(d)

    # (a) solver outputs that passed the float relations (the failing ones are reported as violations already)
    kinds = {}
    for r in records:
        if r[6]:
            kinds.setdefault((r[0], r[1]), []).append(r)
    for (lawname, sec), rs in sorted(kinds.items()):
        rng.shuffle(rs)
        for (_, _, mat, tol, L, s, _, how) in rs[:per_kind]:
            E, K, n, Kp = mat
            tau = tol + tol * abs(s)
            if how is not None and how[0] == 'bracket':
                # a root within 2 tau: the generated function changes sign between the returned value and how[1]
                fn = ('en_stress' if lawname == 'ExtendedNeuber' else 'sb_stress') + ('_secondary_implicit' if sec else '_implicit')
                sg = 1.0 if s > 0 else -1.0
                va, vb = A(fn, E, K, n, Kp, s, L), A(fn, E, K, n, Kp, sg * how[1], L)
                fs = en_f(E, K, n, Kp, abs(s), abs(L), sec) if lawname == 'ExtendedNeuber' else sb_F(E, K, n, Kp, abs(s), abs(L), sec)[0]
                lo_, hi_ = (va, vb) if fs <= 0 else (vb, va)
                add('%s <= 0 /\\ 0 <= %s' % (lo_, hi_), ('root bracketed within 2 tau', lawname, sec, E, K, n, Kp, tol, L, s, float(how[1])))
                continue
            if lawname.startswith('ExtendedNeuber'):
                fn = 'en_stress_secondary_implicit' if sec else 'en_stress_implicit'
                if lawname.endswith('.load'):
                    # r = (law.load, sec, mat, tol, L_back, s, ok): residual of the load equation at the returned load
                    fn = 'en_load_secondary_implicit' if sec else 'en_load_implicit'
                    slope = abs(en_dfdL(E, K, n, Kp, abs(s), abs(L), sec))
                    tauL = tol + tol * abs(L)
                    delta = 2 * slope * tauL + 64 * EPS * abs(eps_ro(E, K, n, s)) * 2
                    add('Rabs %s <= %s' % (A(fn, E, K, n, Kp, L, s), cert.tol_lit(delta)), ('residual of load', lawname, sec, E, K, n, Kp, tol, L, s))
                    continue
                slope = en_dfds(E, K, n, Kp, abs(s), abs(L), sec)
                delta = 2 * slope * tau + 64 * EPS * abs(eps_ro(E, K, n, s)) * 2
                add('Rabs %s <= %s' % (A(fn, E, K, n, Kp, s, L), cert.tol_lit(delta)), ('residual of stress', lawname, sec, E, K, n, Kp, tol, L, s))
            else:
                if lawname.endswith('.load'):
                    continue
                F, Fs, FL, u = sb_F(E, K, n, Kp, abs(s), abs(L), sec)
                if abs(u) < 1e-4 or abs(abs(u) - math.pi / 2) < 1e-6:
                    continue          # guards not decidable by interval arithmetic at this precision; covered in floats
                fn = 'sb_stress_secondary_implicit' if sec else 'sb_stress_implicit'
                delta = 2 * abs(Fs) * tau + 8 * sb_noise(u)
                add('Rabs %s <= %s' % (A(fn, E, K, n, Kp, s, L), cert.tol_lit(delta)), ('residual of stress', lawname, sec, E, K, n, Kp, tol, L, s))
            slack = 2 * tau
            lo, hi = abs(L) / Kp - slack, abs(L) + slack
            sg = 1 if L > 0 else -1
            add('%s <= %s <= %s /\\ 0 < %s' % (common.rlit(lo), common.rlit(sg * s), common.rlit(hi), common.rlit(s * L)), ('bounds', lawname, sec, E, K, n, Kp, tol, L, s))
    # (b) translator validation: every generated function against the implementation's method at random points
    from pylife.materiallaws.notch_approximation_law import ExtendedNeuber
    from pylife.materiallaws.notch_approximation_law_seegerbeste import SeegerBeste
    picks = list(samples)
    rng.shuffle(picks)
    for smp in picks[:max(3, per_kind // 2 - 1)]:
        E, K, n, Kp = smp['E'], smp['K'], smp['n'], smp['K_p']
        en = ExtendedNeuber(E, K, n, Kp)
        L = rng.choice(smp['loads']) * rng.choice([1, -1])
        s = L * rng.uniform(0.3, 1.3)
        S, LL = np.float64(s), np.float64(L)
        two = [('en_stress_implicit', en._stress_implicit, (S, LL)), ('en_d_stress_implicit', en._d_stress_implicit, (S, LL)),
               ('en_stress_secondary_implicit', en._stress_secondary_implicit, (S, LL)), ('en_d_stress_secondary_implicit', en._d_stress_secondary_implicit, (S, LL)),
               ('en_load_implicit', en._load_implicit, (LL, S)), ('en_d_load_implicit', en._d_load_implicit, (LL, S)),
               ('en_load_secondary_implicit', en._load_secondary_implicit, (LL, S)), ('en_d_load_secondary_implicit', en._d_load_secondary_implicit, (LL, S)),
               ('en_neuber_strain', en._neuber_strain, (S, LL)), ('en_neuber_strain_secondary', en._neuber_strain_secondary, (S, LL)),
               ('en_strain', en.strain, (S, LL)), ('en_strain_secondary_branch', en.strain_secondary_branch, (S, LL)),
               ('en_e_star', en._e_star, (LL,)), ('en_d_e_star', en._d_e_star, (LL,)), ('en_delta_e_star', en._delta_e_star, (LL,)),
               ('en_d_delta_e_star', en._d_delta_e_star, (LL,))]
        if Kp > 1.0:
            sb = SeegerBeste(E, K, n, Kp)
            s2 = L * rng.uniform(1.0 / Kp + 0.05 * (1 - 1.0 / Kp), 0.98)       # inside the bounds: cos u > 0
            S2 = np.float64(s2)
            two += [('sb_stress_implicit', sb._stress_implicit, (S2, LL)), ('sb_stress_secondary_implicit', sb._stress_secondary_implicit, (S2, LL)),
                    ('sb_middle_term', sb._middle_term, (S2, LL)), ('sb_middle_term_secondary', sb._middle_term_secondary, (S2, LL)),
                    ('sb_u_term', sb._u_term, (S2, LL)), ('sb_u_term_secondary', sb._u_term_secondary, (S2, LL)),
                    ('sb_neuber_strain', sb._neuber_strain, (S2, LL)), ('sb_neuber_strain_secondary', sb._neuber_strain_secondary, (S2, LL)),
                    ('sb_load_implicit', sb._load_implicit, (LL, S2)), ('sb_load_secondary_implicit', sb._load_secondary_implicit, (LL, S2)),
                    ('sb_e_star', sb._e_star, (LL,)), ('sb_delta_e_star', sb._delta_e_star, (LL,)),
                    ('sb_strain', sb.strain, (S2, LL)), ('sb_strain_secondary_branch', sb.strain_secondary_branch, (S2, LL))]
            # outside the bounds (cos u <= 0: the source's guard switches the logarithm off)
            s3 = L / Kp * rng.uniform(0.75, 0.95) if Kp >= 1.5 else None
            if s3 is not None and math.cos(math.pi / 2 * ((L / s3 - 1) / (Kp - 1))) < -1e-3:
                two += [('sb_middle_term', sb._middle_term, (np.float64(s3), LL)), ('sb_stress_implicit', sb._stress_implicit, (np.float64(s3), LL))]
        # the strain functions with jointly negated arguments as well (the sign of every argument is an input dimension)
        two += [(name, meth, tuple(-a for a in args)) for name, meth, args in two if name.endswith(('_strain', '_strain_secondary_branch'))
                and not name.endswith(('neuber_strain', 'neuber_strain_secondary'))]
        for name, meth, args in two:
            val = float(np.asarray(meth(*args), float))
            add(cert.near(A(name, E, K, n, Kp, *[float(a) for a in args]), val, rtol=1e-8, atol=1e-15 * max(1.0, abs(val)) + 1e-18),
                ('value', name, E, K, n, Kp) + tuple(float(a) for a in args))
    return goals, descr


# --------------------------------------------------------------------------- known findings: witnesses
class Collect:
    """Stands in for a Result: records every violation, classifies nothing."""

    def __init__(self):
        self.v = []

    def violation(self, what, **kw):
        d = {'what': what}
        d.update(kw)
        self.v.append(d)
        return True


def still_fails(res):
    """Stage E: the witness of a known finding is a sample (material, K_p, tol, load ladder); all relations are evaluated on it
    and the finding reproduces iff a violation of the entry's kind inside the entry's class comes out."""
    def f(e):
        w = e['witness']
        smp = dict(group='witness', Rm=0, E=w['E'], K=w['K'], n=w['n'], K_p=w['K_p'], tol=w.get('tol', 1e-4), loads=[float(x) for x in w['loads']])
        c = Collect()
        relations_one(c, Stats(), smp, [])
        pred = CLASSES[e['class']]
        return any(v['what'] == e['what'] and pred(v) for v in c.v)
    return f


# --------------------------------------------------------------------------- run / replay
def run(res, only=None):
    quick = res.tier == 'quick'
    res.classes.update(CLASSES)
    res.trusted += ['py2coq translator + whitelist harness/specs/c06.py, c16.py (GenNeuber, GenSeegerBeste, GenRambgood)',
                    'CoqInterval (interval tactic) for the per-run certificates; float -> exact rational conversion',
                    'the independent float oracle of harness/props/c06.py (eq. 2.5-45/46, 2.8-42/43, their derivatives) and its float-noise model for the Seeger-Beste equation',
                    'axioms: ClassicalDedekindReals.sig_forall_dec, sig_not_dec, functional_extensionality_dep (Coq Reals), Classical_Prop.classic (Coquelicot)']
    res.assumptions += ['scipy.optimize.newton is not modelled: each returned value is certified by its residual and its bounds; inputs on which it raises RuntimeError are counted',
                        '"within the requested tolerance" = within 2 (tol + rtol |x|) of an exact root (the solver stops on the step length), i.e. |f| <= 2 f\' (tol + rtol|x|) '
                        'plus the rounding error of evaluating the equation in doubles (negligible for extended Neuber; eps*(2/u^2+8) for the Seeger-Beste logarithm term)',
                        'scalar vs array agreement is up to that distance (scipy iterates all elements of an array until the slowest converged); ndarray vs Series is bit for bit',
                        'floating-point rounding of numpy is outside the theorems: value certificates compare at 1e-8 relative']
    res.cov['rule'] = ('materials from the FKM estimates (Steel / SteelCast / Al_wrought, R_m 200..1400 MPa; a quarter with perturbed K\', n\'), K_p in {1, 1.001, 1.5, 3.5, 10} or uniform(1,10) '
                       '(20 % of the samples: K_p - 1 log-uniform in 1e-3..0.2; Seeger-Beste only K_p > 1), ladders of loads 1e-3..4 R_m with gaps >= 2 %, both signs, ranges up to twice that, tol = rtol in 1e-4..1e-10, '
                       'containers float / np.float64 / 0-d / 1-element ndarray and Series / ndarray / Series / Series with permuted index / integer-valued loads as int, np.int64, int64 ndarray, '
                       'int64 Series, list of int, list and tuple of float; a load of exactly 0 alone and inside arrays; per law and branch geometric ladders of 24/48/80 amplitudes K\'*10^(-2..0.3) '
                       '(tol 1e-6..1e-5) through the elastic-plastic transition; sign patterns positive / alternating / all negative for the arguments of stress*, '
                       'strain* (ndarray, Series, permuted index, float, np.float64, 0-d, one-element; also on the ladders) and load* '
                       '(coverage.implementation_relations: strain_values_checked_negative_stress, round_trips_negative_stress); non-trivial = distinct (law, branch, material, K_p, load) whose load has a '
                       'plastic strain share > 1e-6 (the law differs from sigma = L), counted over returned values that were checked')
    proofs_ok = common.standard_proof_stage(res, 'C06', extra_targets=['theories/Common/Cert.vo'], gen_fn=lambda: gen_specs.generate(GEN))
    k, m, per_kind = (36, 5, 8) if quick else (400, 8, 45)
    samples = only if only is not None else gen_samples(res.rng, k, m)
    st, records = Stats(), []
    for smp in samples:
        relations_one(res, st, smp, records)
    nontriv = len({(r[0], r[1], r[2], round(r[4], 9)) for r in records if plastic_share(r[2][0], r[2][1], r[2][2], r[4]) > 1e-6})
    res.add_cases(len(records) + st.get('container_calls', 0) + st.get('derivative_points', 0), nontrivial=nontriv)
    # "inputs on which the solver raises are counted, not failed" must not turn a solver that (almost) always raises into a pass:
    # on the unchanged tree at most ~5 % of the calls of any method raise
    for tag in sorted(k_[8:] for k_ in st if k_.startswith('attempt:')):
        att, rs = st['attempt:' + tag], st.get('solver_raised:' + tag, 0)
        if att >= 8 and tag != 'witness' and '[zero:' not in tag:        # a load of exactly 0 is singular for the solvers: counted, see coverage.solver_raised
            res.oblige('solver converges on >= 75 %% of the sampled inputs: %s (%d of %d raised)' % (tag, rs, att), rs <= 0.25 * att)
    res.cov['implementation_relations'] = {k_: v for k_, v in st.items() if not k_.startswith(('attempt:', 'last_'))}
    res.cov['solver_raised'] = {k_: v for k_, v in st.items() if k_.startswith('solver_')}
    for r in records[:3]:
        res.sample({'law': r[0], 'secondary': r[1], 'E,K,n,K_p': r[2], 'tol': r[3], 'load': r[4], 'returned': r[5], 'passed': r[6], 'criterion': r[7]})
    res.cov['root_criterion'] = {'residual': sum(1 for r in records if r[7] and r[7][0] == 'residual'), 'bracket': sum(1 for r in records if r[7] and r[7][0] == 'bracket')}
    # D1: certificates (only meaningful if the generated model compiles)
    gen_ok = not any('A:model' in b['obligation'] or 'B:coq build' in b['obligation'] for b in res.broken)
    if gen_ok:
        try:
            goals, descr = certificates(res.rng, samples, records, per_kind)
            ok, bad, log = cert.run_certs('C06', REQ, UNFOLD, goals, prec=100, chunk=25)
            oks = set(ok)
            groups = {}
            for i, d in enumerate(descr):
                groups.setdefault((d[0], d[1]), []).append(i)
            for (kind, name), idx in sorted(groups.items(), key=str):
                failed = [descr[i] for i in idx if i not in oks]
                res.oblige('certificates: %s %s (%d goals)' % (kind, name, len(idx)), not failed, '%r\n%s' % (failed[:5], log if failed else ''))
            res.add_cases(len(goals), nontrivial=0)
            res.cov['certificate_goals'] = len(goals)
            res.cov['certificate_failed_inputs'] = [descr[i] for i in bad][:20]
            for d in descr[:3]:
                res.sample({'certificate': d})
        except Exception as e:
            res.oblige('certificates could be generated and run', False, repr(e))
    res.replay_known(still_fails(res))


def replay(res, rp):
    """Re-run every relation on the input recorded in a replay file (the violation dict holds material, K_p, tol and loads)."""
    v = rp.get('violation') or {}
    print('replaying', {k_: v[k_] for k_ in v if k_ not in ('loads',)})
    if not all(k_ in v for k_ in ('E', 'K', 'n', 'K_p')):
        run(res)
        return res.finish()
    loads = v.get('loads') or [v.get('load', 100.0)]
    div = 2.0 if v.get('branch') in ('secondary', '_secondary_branch') or 'secondary' in str(v.get('method', '')) + str(v.get('function', '')) else 1.0
    loads = sorted({abs(float(x)) / div for x in loads if x}) or [100.0, 200.0, 359.0]       # zero-load / container violations do not depend on the ladder
    smp = dict(group='replay', Rm=0, E=v['E'], K=v['K'], n=v['n'], K_p=v['K_p'], tol=v.get('tol', 1e-4), loads=loads)
    run(res, only=[smp])
    return res.finish()
