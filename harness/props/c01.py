"""C01 -- rainflow counting is independent of how the signal is chunked (3-point, 4-point, FKM).

Model: coq/theories/Rainflow/Model.v (hand-written).  Tie: correspondence (vm_compute) on exhaustive small
signals x all partitions and random chunked signals; the chunked-vs-whole relation is additionally run on
the implementation alone (integer and non-dyadic float signals) on every invocation = failing-input search."""
import itertools

import numpy as np

import common
import rf

MANIFEST = dict(
    text='Theorems (props/C01.v) about a hand-written Gallina model of find_turns/_new_turns, the Cython three-/four-point loops, '
         'FKMDetector.process and the recorder: turning-point streaming is partition independent (new_turns_chunked, unbounded, by a '
         'scanner refinement + rescan lemma), hence the FKM detector is (fkm_chunked, unbounded); the FOUR-point detector is chunk independent '
         'for every signal and every partition (fourpoint_chunked, unbounded: refinement of the Cython loop to an item-level stack machine, '
         'irreducible residual, provisional-sample monotonicity, scanner geometry); chunk_local_index addresses the right '
         'sample and the recorder chunk list is the chunk lengths (unbounded); the THREE-point detector is chunk independent for every '
         'signal and every partition as well (threepoint_chunked, unbounded: refinement of the Cython loop to an item-level machine keeping '
         'the two front values and the number of stack entries below each front; inductive shape invariant "strictly diverging part topped '
         'by the two extremes, then strictly converging part"; argmax/argmin over a stored residual of that shape recompute the fronts of '
         'the one-piece run; re-pushing the residual closes nothing; provisional-sample monotonicity); the bounded sweeps '
         '(all signals over {0..3} up to length 7, every partition, vm_compute + forallb_forall) are kept as an independent evaluation of the '
         'model; the model is tied to the code by a correspondence check on every observable '
         '(cycle values, cycle indices, residuals, residual_index, chunks).',
    note=common.TB_NOTE + 'all C01 theorems are closed under the global context (no axioms). Model is hand-written: the correspondence harness '
         '(generators, Coq literals) is trusted; signals are integer valued in the model (exact on doubles), float rounding is covered only '
         'by the implementation-only chunked-vs-whole relation; the compiled kernel is rebuilt from extension.pyx with -O1.',
    technique='Coq proof (refinement, invariants, induction; all three detectors unbounded) over hand-written Gallina model + vm_compute correspondence',
    design='6/C01')


def exhaustive_cases(alphabet, maxlen):
    for n in range(1, maxlen + 1):
        for s in itertools.product(alphabet, repeat=n):
            for p in rf.all_partitions(list(s)):
                yield p


def relation_on_impl(res, kind, chunks, as_int=True):
    """chunked run vs one-piece run on the implementation: returns a description if they differ."""
    whole = [x for c in chunks for x in c]
    try:
        a = rf.impl_run(kind, chunks, as_int)
        b = rf.impl_run(kind, [whole], as_int)
    except Exception as e:
        return 'exception %r' % e, None
    if a[0] != b[0]:
        return 'recorded cycles differ', (a[0], b[0])
    if a[1] != b[1]:
        return 'residuals differ', (a[1], b[1])
    if a[2] != b[2]:
        return 'residual_index differs', (a[2], b[2])
    # (FKMDetector reports no sample indices and therefore keeps no chunk bookkeeping: nothing to map)
    if kind != 'F' and a[3] != [len(c) for c in chunks]:
        return 'recorder chunks are not the chunk sizes', (a[3],)
    # chunk-local index map for every reported index
    rec = a[4]
    idx = sorted({i for c in a[0] for i in c[2:]} | set(a[2])) if kind != 'F' else []
    for g in idx:
        if g >= len(whole):
            return 'reported index beyond the signal', (g,)
        k, l = rec.chunk_local_index(np.array([g]))
        if chunks[int(k[0])][int(l[0])] != whole[g]:
            return 'chunk_local_index addresses the wrong sample', (g, int(k[0]), int(l[0]))
    # the same map queried WHILE the signal is being fed (after every chunk, for every index reported so far): a streaming consumer
    # resolves loops as they are reported; the answers must address the right sample and must not disturb the run
    if kind != 'F' and len(chunks) >= 2:
        import pylife.stress.rainflow as RF
        rec2 = RF.FullRecorder()
        det2 = rf.detectors()[kind](recorder=rec2)
        seen = 0
        for j, c in enumerate(chunks):
            det2.process(np.asarray(c, dtype=float))
            seen += len(c)
            gs = sorted({int(i) for i in list(rec2.index_from) + list(rec2.index_to) + list(det2.residual_index)})
            for g in gs:
                if g >= seen:
                    return 'reported index beyond the samples fed so far', (g, j)
                k, l = rec2.chunk_local_index(np.array([g]))
                k, l = int(k[0]), int(l[0])
                if not (0 <= k <= j and 0 <= l < len(chunks[k]) and chunks[k][l] == whole[g] and sum(len(x) for x in chunks[:k]) + l == g):
                    return 'chunk_local_index addresses the wrong sample when queried between chunks', (g, k, l, j)
        conv = (lambda v: int(v)) if as_int else (lambda v: float(v))
        cyc2 = list(zip([conv(v) for v in rec2.values_from], [conv(v) for v in rec2.values_to],
                        [int(i) for i in rec2.index_from], [int(i) for i in rec2.index_to]))
        if cyc2 != a[0] or [int(i) for i in det2.residual_index] != a[2]:
            return 'querying chunk_local_index between chunks changes the result', (cyc2, a[0])
    return None, None


def run(res):
    quick = res.tier == 'quick'
    rng = res.rng
    res.trusted += ['hand-written Gallina model coq/theories/Rainflow/Model.v, tied by the correspondence check (this harness)',
                    'Cython 3 + gcc -O1 build of extension.pyx assumed to behave like the shipped -O3 build']
    res.assumptions += ['model signals are integers (exact on doubles below 2^52); non-dyadic floats only through the chunked-vs-whole relation on the implementation',
                        'chunks are non-empty (the property quantifies over non-empty chunks)']
    res.cov['rule'] = ('exhaustive: all signals over a small alphabet up to a length bound x ALL partitions; random: length 1..120, alphabets of 3..19 values or wide, '
                       'plateaus / monotone runs / repeated extremes, partitions biased to chunk sizes 1-3; non-trivial = at least 2 chunks and at least 1 closed cycle '
                       '(counted distinct by (detector, chunks))')
    common.standard_proof_stage(res, 'C01')

    # ---- D1 correspondence model vs implementation
    cases = []
    if quick:
        ex = list(exhaustive_cases([0, 1, 2], 5))
    else:
        ex = list(exhaustive_cases([0, 1, 2], 6)) + list(exhaustive_cases([0, 1, 2, 3], 5))
    for p in ex:
        for k in rf.KINDS:
            cases.append((k, p))
    nrand = 500 if quick else 6000
    for _ in range(nrand):
        s = rf.random_signal(rng)
        p = rf.random_partition(rng, s)
        cases.append((rng.choice(rf.KINDS), p))
    terms, nontriv, hist = [], set(), {}
    impl_errors = 0
    for k, p in cases:
        try:
            o = rf.impl_run(k, p)
        except Exception as e:
            impl_errors += 1
            res.oblige('implementation runs on %s %s' % (k, p), False, repr(e))
            continue
        terms.append(rf.case_term(k, p, o))
        if len(p) >= 2 and len(o[0]) >= 1:
            nontriv.add((k, repr(p)))
        hist[len(p)] = hist.get(len(p), 0) + 1
    bad, log = common.coq_compare('C01', rf.REQ, terms)
    res.oblige('correspondence model = implementation on %d chunked runs' % len(terms), not bad,
               'disagreeing cases: %s\n%s' % ([cases[i] for i in bad[:5]], log[-1500:]))
    res.add_cases(len(terms), nontrivial=len(nontriv))
    res.cov['chunk_count_histogram'] = {str(k): v for k, v in sorted(hist.items())[:12]}
    res.cov['correspondence_disagreements'] = len(bad)
    for k, p in cases[len(ex) * 3:len(ex) * 3 + 3] + cases[:2]:
        res.sample({'detector': k, 'chunks': p})

    # ---- D2 / search: the property's relation on the implementation alone
    seeds = [cases[i] for i in bad[:50]]
    nrel = 3000 if quick else 60000
    tried = 0
    for k, p in seeds:
        what, d = relation_on_impl(res, k, p)
        tried += 1
        if what:
            res.violation('chunked run differs from one-piece run: ' + what, detector=k, chunks=p, detail=d)
    found = 0
    for j in range(nrel):
        s = rf.random_signal(rng, 200 if j % 10 == 0 else 40)
        as_int = True
        if j % 3 == 0:      # float stream: non-dyadic values, tiny differences, huge offsets
            f = rng.choice([0.1, 1e-200, 1.0 / 3.0, 1e15 + 0.5])
            s = [x * f + (1e9 if j % 9 == 0 else 0.0) for x in s]
            as_int = False
        p = rf.random_partition(rng, s, 0.7)
        k = rf.KINDS[j % 3]
        what, d = relation_on_impl(res, k, p, as_int)
        tried += 1
        if what and found < 5:
            found += 1
            p2 = shrink(k, p, as_int)
            res.violation('chunked run differs from one-piece run: ' + what, detector=k, chunks=p2, detail=repr(d)[:500])
    res.add_cases(tried, nontrivial=0)
    res.cov['impl_relation_evaluations'] = tried


def shrink(kind, chunks, as_int):
    """Greedy minimisation of a failing chunked signal: drop samples / merge chunks while it still fails."""
    def fails(p):
        p = [c for c in p if c]
        return bool(p) and relation_on_impl(None, kind, p, as_int)[0] is not None
    cur = [list(c) for c in chunks]
    changed = True
    while changed:
        changed = False
        for i in range(len(cur)):
            for j in range(len(cur[i])):
                cand = [list(c) for c in cur]
                del cand[i][j]
                cand = [c for c in cand if c]
                if cand and fails(cand):
                    cur, changed = cand, True
                    break
            if changed:
                break
        if not changed:
            for i in range(len(cur) - 1):
                cand = cur[:i] + [cur[i] + cur[i + 1]] + cur[i + 2:]
                if len(cand) > 1 and fails(cand):
                    cur, changed = cand, True
                    break
    return cur


def replay(res, rp):
    v = rp.get('violation', {})
    if 'chunks' in v:
        what, d = relation_on_impl(res, v['detector'], v['chunks'], all(float(x).is_integer() for c in v['chunks'] for x in c))
        print('replay:', what, d)
        if what:
            res.violation('chunked run differs from one-piece run: ' + what, detector=v['detector'], chunks=v['chunks'])
        res.add_cases(1, 0)
        res.oblige('replayed input satisfies the property', not what)
    else:
        run(res)
    return res.finish()
